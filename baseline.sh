#!/bin/sh
# Runs the repository's pinned test suite with the verification guard OFF and checks that every
# test of BASELINE.json's stable_pass list still passes.
unset XANDIKOS_VERIF
OUT=$(mktemp)
cd /repo && /venv/bin/python -m pytest -ra -q -p no:cacheprovider --timeout=900 --continue-on-collection-errors --junitxml="$OUT" >/dev/null 2>&1
/venv/bin/python - "$OUT" <<'PY'
import json, sys, xml.etree.ElementTree as ET
base = json.load(open('/root/.vp/BASELINE.json'))
want = set(base['stable_pass'])
ok = set()
for tc in ET.parse(sys.argv[1]).getroot().iter('testcase'):
    if not any(c.tag in ('failure', 'error', 'skipped') for c in tc):
        ok.add(tc.get('classname') + '::' + tc.get('name'))
missing = sorted(want - ok)
print('baseline: %d/%d stable tests pass' % (len(want) - len(missing), len(want)))
for m in missing:
    print('  FAILING:', m)
sys.exit(1 if missing else 0)
PY
RC=$?
rm -f "$OUT"
exit $RC
