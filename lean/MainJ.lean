import Xandikos.Driver.IcalDriver

partial def loopJ {σ : Type} (h : IO.FS.Stream) (out : IO.FS.Stream) (st : σ)
    (step : σ → String → σ × String) : IO Unit := do
  let line ← h.getLine
  if line.isEmpty then return ()
  let (st', o) := step st line
  out.putStrLn o
  loopJ h out st' step

def main (args : List String) : IO UInt32 := do
  let stdin ← IO.getStdin
  let stdout ← IO.getStdout
  match args with
  | ["ical"] => loopJ stdin stdout ({} : Xandikos.IcalDriver.IState) Xandikos.IcalDriver.step; return 0
  | _ => IO.eprintln "usage: xjdriver <ical>"; return 2
