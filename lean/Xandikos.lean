import Xandikos.Base
import Xandikos.Store.Model
