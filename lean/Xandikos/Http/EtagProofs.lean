import Xandikos.Http.Etag
import Xandikos.Py.StrProofs

namespace Xandikos.Http
open Xandikos.Py

theorem padded_no_comma (i : List Char) (l r : Nat) (h : ',' ∉ i) :
    ',' ∉ List.replicate l ' ' ++ i ++ List.replicate r ' ' := by
  simp only [List.mem_append, List.mem_replicate, not_or]
  refine ⟨⟨?_, h⟩, ?_⟩ <;> (intro hc; exact absurd hc.2 (by decide))

/-- Splitting a rendered header and stripping each part gives the items back. -/
theorem split_strip_render (items : List (List Char × Nat × Nat)) (hne : items ≠ [])
    (hwf : ∀ p ∈ items, WellFormedItem p.1) :
    (Str.splitOn ',' (renderHeader items)).map (Str.strip ' ') = items.map (·.1) := by
  unfold renderHeader
  rw [Str.splitOn_joinWith]
  · rw [List.map_map]
    apply List.map_congr_left
    intro p hp
    obtain ⟨i, l, r⟩ := p
    obtain ⟨h1, _, h3, h4⟩ := hwf _ hp
    exact Str.strip_padded ' ' l r i h1 h3 h4
  · simpa using hne
  · intro c hc
    rw [List.mem_map] at hc
    obtain ⟨⟨i, l, r⟩, hp, rfl⟩ := hc
    exact padded_no_comma i l r (hwf _ hp).2.1

theorem render_truthy (items : List (List Char × Nat × Nat)) (hne : items ≠ [])
    (hwf : ∀ p ∈ items, WellFormedItem p.1) : Str.truthy (renderHeader items) = true := by
  cases items with
  | nil => exact absurd rfl hne
  | cons p rest =>
    obtain ⟨i, l, r⟩ := p
    have hi : i ≠ [] := (hwf _ (List.mem_cons_self ..)).1
    unfold renderHeader Str.truthy
    cases rest with
    | nil =>
      simp only [List.map_cons, List.map_nil, Str.joinWith]
      cases i with
      | nil => exact absurd rfl hi
      | cons c cs => cases l <;> simp [List.replicate_succ]
    | cons q rest' =>
      simp only [List.map_cons, Str.joinWith]
      cases i with
      | nil => exact absurd rfl hi
      | cons c cs => cases l <;> simp [List.replicate_succ]

/-- **`etag_matches` implements RFC 7232 on every well-formed header**: for any list of entity
    tags / `*`, any amount of space padding around the commas and any current state of the
    resource. -/
theorem etagMatches_spec (items : List (List Char × Nat × Nat)) (hne : items ≠ [])
    (hwf : ∀ p ∈ items, WellFormedItem p.1) (cur : Option (List Char)) :
    etagMatches (renderHeader items) cur = Rfc7232.matches (items.map (·.1)) cur := by
  unfold etagMatches Rfc7232.matches
  cases cur with
  | none => simp [render_truthy items hne hwf]
  | some e =>
    simp only [Option.isNone_some, Bool.false_and, Bool.false_eq_true, ↓reduceIte,
      Option.isSome_some, Bool.true_and]
    rw [← split_strip_render items hne hwf, List.any_map]
    rfl

/-- Nothing matches a resource that does not exist — whatever the header (even malformed). -/
theorem etagMatches_absent (h : List Char) : etagMatches h none = false := by
  unfold etagMatches
  cases hh : Str.truthy h
  · -- empty header: the only item is the empty string
    have : h = [] := by cases h <;> simp_all [Str.truthy]
    subst this
    simp [Str.splitOn, Str.strip, Str.rstrip, Str.lstrip]
  · simp

end Xandikos.Http
