/-
  calendar-multiget / addressbook-multiget: model of `davcommon.MultiGetReporter.report`,
  `webdav.read_href_element`, `webdav.href_to_path`, `webdav._get_resources_by_hrefs` and of the
  data properties' `supported_on` (caldav.CalendarDataProperty, carddav.AddressDataProperty),
  on top of the HTTP world model (`resolve` = `XandikosBackend.get_resource`).
-/
import Xandikos.Http.World
import Xandikos.Http.Href

namespace Xandikos.Http
open Xandikos Xandikos.Store Xandikos.Py

/-- `read_href_element`: the path of the URL in the element, percent-decoded -/
def readHrefEl (t : String) : String := Url.unquote (Url.urlsplit_path t)

/-- `href_to_path(environ, href)` on character lists; `sn` is `SCRIPT_NAME.rstrip("/")` -/
def hrefToPathChars (sn href : List Char) : Option (List Char) :=
  if href = [] then none
  else if href = sn then some ['/']
  else if (sn ++ ['/']).isPrefixOf href then some (href.drop sn.length)
  else none

def hrefToPath (script href : String) : Option String :=
  (hrefToPathChars (Path.rstripSlash script.toList) href.toList).map String.ofList

/-- `dict.fromkeys(hrefs)`: first occurrences, in order -/
def dedup : List String → List String
  | [] => []
  | x :: xs => x :: (dedup xs).filter (· ≠ x)

/-- `paths.setdefault(path, []).append(href)` on an insertion-ordered dict -/
def addPath (d : List (String × List String)) (p h : String) : List (String × List String) :=
  match d with
  | [] => [(p, [h])]
  | (q, hs) :: rest => if q = p then (q, hs ++ [h]) :: rest else (q, hs) :: addPath rest p h

/-- state of the first loop of `_get_resources_by_hrefs` -/
structure MgAcc where
  early : List String := []                      -- answered `(href, None)` straight away
  paths : List (String × List String) := []     -- path ↦ hrefs that map to it

def mgStep (script : String) (a : MgAcc) (h : String) : MgAcc :=
  match hrefToPath script h with
  | none => { a with early := a.early ++ [h] }
  | some p => { a with paths := addPath a.paths p h }

/-- `_get_resources_by_hrefs(backend, environ, hrefs)`; `lookup` is `backend.get_resource` -/
def resourcesByHrefs {ρ : Type} (lookup : String → Option ρ) (script : String) (hrefs : List String) :
    List (String × Option ρ) :=
  let a := (dedup hrefs).foldl (mgStep script) {}
  a.early.map (fun h => (h, none)) ++ a.paths.flatMap fun (p, hs) => hs.map fun h => (h, lookup p)

/-- what the report says about one href -/
inductive MgAnswer
  /-- `Status(href, "404 Not Found")` -/
  | notFound
  /-- 200 with propstats: getetag (`none`: 404 for the property) and the data property
      (`none`: 404 for the property, `some tok`: the body) -/
  | found (etag : Option String) (data : Option String)
  deriving DecidableEq, Repr

/-- the answer for a resolved resource; `want` is the kind the reporter's data property
    supports (`supported_on`: `resource.get_content_type()` equals text/calendar | text/vcard) -/
def answerOf (w : World) (want : HKind) : Option Res → MgAnswer
  | none => .notFound
  | some (.member cp name e) =>
    .found (some (strong e))
      (if hkOfName name = want then (w.colls[cp]?).bind fun c => c.st.files[name]? else none)
  | some (.coll _) => .found (some "ctag") none
  | some _ => .found none none

/-- the whole report: (href, answer) per response element -/
def multiget (w : World) (want : HKind) (script : String) (hrefs : List String) : List (String × MgAnswer) :=
  (resourcesByHrefs (resolve w) script hrefs).map fun (h, r) => (h, answerOf w want r)

/-- the answer the specification gives for one href, independently of any other -/
def answerFor (w : World) (want : HKind) (script : String) (h : String) : MgAnswer :=
  answerOf w want ((hrefToPath script h).bind (resolve w))

end Xandikos.Http
