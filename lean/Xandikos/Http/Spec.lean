/-
  HTTP-level abstract specification and trace monitor.

  The abstract world is a map from normalised absolute member paths to contents plus the set
  of collection paths.  The monitor is driven by the *observed* answers of the implementation
  (relational spec, see Store/Spec.lean) and flags
    C01  reads that differ from the last acknowledged write / listings that differ,
    C02  an ETag that is not the strong tag of the acknowledged content,
    C03  a conditional request executed or refused against RFC 7232,
    C06  an acknowledged write that duplicates a UID inside its collection,
    C14  an acknowledged write of an invalid body / not stored in normal form.
-/
import Xandikos.Http.World

namespace Xandikos.Http
open Xandikos Xandikos.Store Xandikos.Py

structure AbsWorld where
  files : Map String := ∅        -- "/coll/name" ↦ token of the served bytes
  colls : List String := []      -- normalised collection paths

/-- RFC 7232 evaluation of a header value: items separated by commas, optional spaces. -/
def headerItems (h : String) : List (List Char) :=
  (Str.splitOn ',' h.toList).map (Str.strip ' ')

def rfcMatches (h : String) (cur : Option String) : Bool :=
  Rfc7232.matches (headerItems h) (cur.map String.toList)

def AbsWorld.cur (a : AbsWorld) (p : String) : Option String := (a.files[p]?).map strong

/-- members of collection `cp` in the abstract world: (name, token) -/
def AbsWorld.members (a : AbsWorld) (cp : String) : List (String × String) :=
  a.files.toList.filterMap fun (p, t) =>
    let (base, name) := Path.splitS p
    if base == cp then some (name, t) else none

def AbsWorld.rmtree (a : AbsWorld) (p : String) : AbsWorld :=
  let under (q : String) : Bool := q == p || q.startsWith (p ++ "/")
  { files := a.files.filter (fun q _ => !under q), colls := a.colls.filter (fun q => !under q) }

/-- the verdict of the monitor for one observed step: new abstract world + broken clause -/
structure Verdict where
  world : AbsWorld
  broken : Option String := none

def condOk (ifMatch ifNoneMatch : Option String) (cur : Option String) : Bool :=
  (match ifMatch with | some h => rfcMatches h cur | none => true) &&
  (match ifNoneMatch with | some h => h == "" || !(rfcMatches h cur) | none => true)

/-- a PUT that the server acknowledged with `etag` -/
def monitorPutOk (env : Env) (a : AbsWorld) (r : Req) (etag : String) : Verdict :=
  let target := Path.normpathS r.path
  let (cp, name) := Path.splitS target
  let existed := (a.files[target]?).isSome
  let hk := if existed then hkOfName name else handlerFor (some r.ctype) name
  let stored := env.norm hk r.body
  let a' := { a with files := a.files.insert target stored }
  if !(condOk r.ifMatch r.ifNoneMatch (a.cur target)) then
    { world := a', broken := some "C03:conditional-write-executed-although-condition-fails" }
  else if !(env.valid hk r.body) then
    { world := a', broken := some "C14:invalid-body-stored" }
  else if etag != strong stored then
    { world := a', broken := some ("C02:put-etag-is-not-the-tag-of-the-stored-bytes expected " ++ strong stored) }
  else if (match env.uid hk r.body with
           | some u => (a.members cp).any fun (n, t) => n != name && hkOfName n == .ical && env.uid .ical t == some u
           | none => false) = true then
    { world := a', broken := some "C06:duplicate-uid-accepted" }
  else { world := a' }

def monitorPutPrecondition (a : AbsWorld) (r : Req) : Verdict :=
  let target := Path.normpathS r.path
  if condOk r.ifMatch r.ifNoneMatch (a.cur target) then
    { world := a, broken := some "C03:refused-with-412-although-condition-holds" }
  else { world := a }

def monitorPutRefused (env : Env) (a : AbsWorld) (r : Req) (why : String) : Verdict :=
  let target := Path.normpathS r.path
  let (cp, name) := Path.splitS target
  let existed := (a.files[target]?).isSome
  let hk := if existed then hkOfName name else handlerFor (some r.ctype) name
  if why == "no-uid-conflict" then
    (match env.uid hk r.body with
     | some u =>
       if (a.members cp).any fun (n, t) => n != name && env.uid (hkOfName n) t == some u then
         { world := a }
       else { world := a, broken := some "C06:refused-without-holder" }
     | none => { world := a, broken := some "C06:refused-without-uid" })
  else { world := a }

def monitorGet (a : AbsWorld) (r : Req) (obs : Outcome) : Verdict :=
  let target := Path.normpathS r.path
  let cur := a.files[target]?
  match obs with
  | .body (some e) (some t) =>
    if cur != some t then
      { world := a, broken := some ("C01:get-differs-from-last-acknowledged-write expected " ++ toString cur) }
    else if e != strong t then
      { world := a, broken := some "C02:get-etag-is-not-the-tag-of-the-served-bytes" }
    else if (match r.ifNoneMatch with | some h => h != "" && rfcMatches h (some (strong t)) | none => false) = true then
      { world := a, broken := some "C03:get-with-matching-if-none-match-not-304" }
    else { world := a }
  | .body _ _ =>
    if cur.isSome then { world := a, broken := some "C01:member-served-as-page" } else { world := a }
  | .notFound =>
    if cur.isSome then { world := a, broken := some "C01:existing-member-answers-404" } else { world := a }
  | .notModified =>
    (match r.ifNoneMatch, cur with
     | some h, some t => if rfcMatches h (some (strong t)) then { world := a }
                         else { world := a, broken := some "C03:304-although-no-tag-matches" }
     | _, _ => { world := a, broken := some "C03:304-without-condition-or-resource" })
  | _ => { world := a }

def monitorDelete (a : AbsWorld) (r : Req) (obs : Outcome) : Verdict :=
  let target := Path.normpathS r.path
  match obs with
  | .deleted =>
    if a.colls.contains target then
      -- the collection's own tag is the symbolic `"ctag"` (the harness writes the current tag so)
      if !(condOk r.ifMatch none (some (strong "ctag"))) then
        { world := a.rmtree target,
          broken := some "C03:conditional-delete-of-collection-executed-although-condition-fails" }
      else { world := a.rmtree target }
    else
      let cur := a.cur target
      let a' := { a with files := a.files.erase target }
      if cur.isNone then { world := a', broken := some "C01:delete-of-missing-member-acknowledged" }
      else if !(condOk r.ifMatch none cur) then
        { world := a', broken := some "C03:conditional-delete-executed-although-condition-fails" }
      else { world := a' }
  | .precondition =>
    if a.colls.contains target then
      if r.ifMatch.isSome && condOk r.ifMatch none (some (strong "ctag")) then
        { world := a, broken := some "C03:delete-of-collection-refused-with-412-although-condition-holds" }
      else if r.ifMatch.isNone then
        { world := a, broken := some "C03:unconditional-delete-answered-412" }
      else { world := a }
    else if condOk r.ifMatch none (a.cur target) then
      { world := a, broken := some "C03:delete-refused-with-412-although-condition-holds" }
    else { world := a }
  | .notFound =>
    if (a.files[target]?).isSome then
      { world := a, broken := some "C01:existing-member-answers-404" }
    else { world := a }
  | _ => { world := a }

end Xandikos.Http
