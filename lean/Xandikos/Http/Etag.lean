/-
  Conditional-request decision logic: hand-written model of `webdav.etag_matches`
  (tied to the code by the translator, see `Tie/EtagEq.lean`) and the RFC 7232 reading of
  the property statement.
-/
import Xandikos.Py.Prelude

namespace Xandikos.Http
open Xandikos.Py

/-- `webdav.etag_matches(condition, actual_etag)` -/
def etagMatches (condition : List Char) (actual : Option (List Char)) : Bool :=
  if actual.isNone && Str.truthy condition then false
  else
    (Str.splitOn ',' condition).any fun item =>
      Str.strip ' ' item == ['*'] || some (Str.strip ' ' item) == actual

/-- What an `If-Match` / `If-None-Match` header with the given items says about a resource
    whose current entity tag is `cur` (`none` = does not exist): it matches iff the resource
    exists and either `*` or its tag is listed (RFC 7232 sections 3.1 and 3.2, strong
    comparison; xandikos only issues strong tags). -/
def Rfc7232.matches (items : List (List Char)) (cur : Option (List Char)) : Bool :=
  cur.isSome && items.any fun i => i == ['*'] || some i == cur

/-- render a header: items separated by commas with arbitrary space padding around each -/
def renderHeader (items : List (List Char × Nat × Nat)) : List Char :=
  Str.joinWith ',' (items.map fun (i, l, r) => List.replicate l ' ' ++ i ++ List.replicate r ' ')

/-- an entity tag (or `*`) as it may appear in a list: non-empty, no comma, no leading or
    trailing space -/
def WellFormedItem (i : List Char) : Prop :=
  i ≠ [] ∧ ',' ∉ i ∧ i.head? ≠ some ' ' ∧ i.getLast? ≠ some ' '

instance (i : List Char) : Decidable (WellFormedItem i) := by
  unfold WellFormedItem; infer_instance

end Xandikos.Http
