/-
  Service discovery: model of the href-valued properties a client follows
  (`webdav.create_href` with a base, `CurrentUserPrincipalProperty`, `CalendarHomeSetProperty`,
  `AddressbookHomeSetProperty`, `PrincipalURLProperty`, `AddMemberProperty`) and of what a start
  of the server creates (`web.run_simple_server` / `wsgi.py`: `create_principal`,
  `PrincipalBare.create`, `create_principal_defaults`).
-/
import Xandikos.Http.World
import Xandikos.Http.Href
import Xandikos.Store.Meta

namespace Xandikos.Http
open Xandikos Xandikos.Store Xandikos.Py

/-! ### hrefs in property values -/

/-- `create_href(href, base_href)`: both arguments are unquoted paths; an `href` in which
    `urlparse` sees a scheme is an absolute URL and is not resolved -/
def createHref (href : String) (base : Option String) : String :=
  match base with
  | none => Url.quote href
  | some b =>
    if Url.has_scheme href then Url.quote href
    else Url.quote (Url.unquote (Url.urljoin_simple (Url.quote (ensureTrailingSlash b)) (Url.quote href)))

/-- `DAV:current-user-principal`:
    `create_href(ensure_trailing_slash(principal.lstrip("/")), environ["SCRIPT_NAME"])` -/
def cupHref (script principal : String) : String :=
  createHref (ensureTrailingSlash (Path.lstripS principal)) (some script)

/-- `calendar-home-set` / `addressbook-home-set` of the principal served at `principalHref`:
    `create_href(ensure_trailing_slash(name), base_href)` -/
def homeSetHref (principalHref name : String) : String :=
  createHref (ensureTrailingSlash name) (some principalHref)

def calendarHomeSet : String := "calendars"
def addressbookHomeSet : String := "contacts"
def inboxName : String := "inbox"

/-! ### what a start of the server creates -/

/-- ancestors of an absolute normalised path, outermost first, the path itself last
    (`os.makedirs`) -/
def ancestors (p : String) : List String :=
  let comps := (p.splitOn "/").filter (· ≠ "")
  (List.range comps.length).map fun i => "/" ++ "/".intercalate (comps.take (i + 1))

/-- `os.mkdir(q)` unless something is there -/
def World.addDir (w : World) (q : String) : World :=
  if w.isDirPath q then w else { w with dirs := w.dirs ++ [q] }

/-- `os.makedirs(p)`: the missing ancestors, then `p` itself -/
def World.makedirs (w : World) (p : String) : World :=
  ((ancestors p).foldl World.addDir w).addDir p

/-- a new repository with its type recorded (`create_collection` + `store.set_type`);
    `none`: plain `create_collection` (type "other", no metadata file) -/
def freshColl (ct : Option (CType × String)) : Coll :=
  match ct with
  | none => { st := Store.init .tree, ctype := .other }
  | some (c, name) => { st := (setMeta (Store.init .tree) "type" (some name)).1, ctype := c }

/-- `backend.create_collection(p)` guarded by `except FileExistsError: pass`: nothing happens
    when something is there already (`os.mkdir` fails); the parent must exist -/
def World.createIfAbsent (w : World) (p : String) (ct : Option (CType × String)) : World :=
  if w.isDirPath p then w
  else if !(w.isDirPath (Path.splitS p).1) then w
  else w.setColl p (freshColl ct)

/-- normalised principal path (`_mark_as_principal`: `posixpath.normpath(path)`); the configured
    path starts with `/` -/
def principalPath (principal : String) : String := Path.normpathS principal

def World.markPrincipal (w : World) (P : String) : World :=
  { w with principals := if w.principals.contains P then w.principals else P :: w.principals }

/-- `create_principal(P, create_defaults)` for the normalised principal path `P` -/
def bootAt (w : World) (P : String) (defaults : Bool) : World :=
  let w := if w.isDirPath P then w else w.makedirs P
  let w := w.markPrincipal P
  let w := w.createIfAbsent (Path.joinS P addressbookHomeSet) none
  let w := w.createIfAbsent (Path.joinS P calendarHomeSet) none
  if defaults then
    let w := w.createIfAbsent (Path.joinS (Path.joinS P calendarHomeSet) "calendar") (some (.calendar, "calendar"))
    let w := w.createIfAbsent (Path.joinS (Path.joinS P addressbookHomeSet) "addressbook")
      (some (.addressbook, "addressbook"))
    w.createIfAbsent (Path.joinS P inboxName) (some (.inbox, "schedule-inbox"))
  else w

/-- a start of the server with `--autocreate` (`defaults = false`) or `--defaults` -/
def boot (w : World) (principal : String) (defaults : Bool) : World :=
  bootAt w (principalPath principal) defaults

/-- `web.main` / `run_simple_server`: the principal is marked in any case and created (with or
    without the defaults) when `--autocreate` or `--defaults` is given -/
def bootSimple (w : World) (principal : String) (autocreate defaults : Bool) : World :=
  if autocreate || defaults then boot w principal defaults
  else w.markPrincipal (principalPath principal)

/-- the start performed by `xandikos/wsgi.py`: the principal is created (with or without the
    defaults) only when its path does not resolve yet; it is marked as principal in any case -/
def bootModule (w : World) (principal : String) (autocreate defaults : Bool) : World :=
  let P := principalPath principal
  if (resolve w P).isSome then w.markPrincipal P
  else if autocreate then boot w principal defaults
  else w.markPrincipal P

end Xandikos.Http

namespace Xandikos.Http
open Xandikos.Py

/-- `web.WELLKNOWN_DAV_PATHS` -/
def wellknownPaths : List (List Char) := ["/.well-known/caldav".toList, "/.well-known/carddav".toList]

/-- `wsgi_helpers.WellknownRedirector.__call__`: the request is answered with `302` and
    `Location: <dav root>` iff `normpath(SCRIPT_NAME + PATH_INFO)` is one of the well-known
    paths — however the container divides the URL path between the two variables -/
def wellknownRedirects (script pathInfo : List Char) : Bool :=
  wellknownPaths.contains (Path.normpath (script ++ pathInfo))

end Xandikos.Http
