/-
  URL path -> file-system path (`XandikosBackend._map_to_file_path`), hand-written model.
-/
import Xandikos.Py.Path

namespace Xandikos.Http
open Xandikos.Py

/-- `os.path.join(self.path, posixpath.normpath("/" + relpath).lstrip("/"))` -/
def mapToFilePath (root relpath : List Char) : List Char :=
  Path.join root (Path.lstripSlash (Path.normpath ('/' :: relpath)))

/-- `os.path.join(store.path, name)` for member I/O -/
def memberPath (collPath name : List Char) : List Char := Path.join collPath name

end Xandikos.Http
