/-
  HTTP-level model: the directory tree served by `web.XandikosBackend`, path resolution
  (`get_resource`), and the write/read handlers of `webdav.py` (PUT, POST, DELETE, MKCOL,
  MKCALENDAR, GET/HEAD) in terms of the store model.

  Mirrors: web.py `XandikosBackend.get_resource/_map_to_file_path/create_collection`,
  `StoreBasedCollection.get_member/create_member/delete_member`, `ObjectResource.set_body`;
  webdav.py `PutMethod/PostMethod/DeleteMethod/MkcolMethod/_do_get` (branch order preserved).
  Collections reached over HTTP are always tree-git stores.
-/
import Xandikos.Store.Model
import Xandikos.Store.Meta
import Xandikos.Http.Etag
import Xandikos.Py.Path

namespace Xandikos.Http
open Xandikos Xandikos.Store Xandikos.Py

/-- store type (`store.get_type()`), which selects the resource class -/
inductive CType | calendar | addressbook | principal | inbox | outbox | subscription | other
  deriving DecidableEq, Repr, Inhabited

structure Coll where
  st : St
  ctype : CType := .other

structure World where
  /-- plain directories below the root (normalised absolute paths); "/" itself is implicit -/
  dirs : List String := []
  /-- directories that are git repositories, by normalised absolute path -/
  colls : Map Coll := ∅
  /-- `_user_principals`: plain directories served as principals (not WebDAV collections) -/
  principals : List String := []

/-- what a path resolves to (`get_resource`) -/
inductive Res
  | root
  | dir (p : String)
  | principal (p : String)
  | coll (p : String)
  | member (cp : String) (name : String) (etag : String)
  deriving DecidableEq, Repr

def gitDirName : String := ".git"

/-- a path one of whose segments is the repository control directory -/
def hasGitSegment (p : String) : Bool :=
  (p.splitOn "/").any (· == gitDirName)

def World.isDirPath (w : World) (p : String) : Bool :=
  p == "/" || w.dirs.contains p || w.colls.contains p

/-- `XandikosBackend.get_resource(relpath)` for `relpath` starting with "/". -/
def resolve (w : World) (path : String) : Option Res :=
  let p := Path.normpathS path
  if p == "/" || p == "//" then some .root
  else if hasGitSegment p then none
  else if w.colls.contains p then some (.coll p)
  else if w.dirs.contains p then
    (if w.principals.contains p then some (.principal p) else some (.dir p))
  else
    -- not a directory: a member of the collection that contains it
    let (base, name) := Path.splitS p
    match w.colls[base]? with
    | some c =>
      (match (c.st.blobs.lookup name) with
       | some e => some (.member base name e)
       | none => none)
    | none => none

/-- `create_strong_etag` -/
def strong (e : String) : String := "\"" ++ e ++ "\""

/-- `extract_strong_etag` : `etag.strip('"')` -/
def unstrong (e : String) : String :=
  String.ofList (Str.strip '"' e.toList)

inductive Outcome
  | created (etag : String)        -- 201 + ETag
  | updated (etag : String)        -- 204 + ETag
  | createdAt (name : String)      -- 200 + Location (POST)
  | deleted                        -- 204
  | mkcol                          -- 201
  | precondition                   -- 412
  | refused (why : String)         -- 207 wrapping 412/403 with a DAV error element
  | notFound                       -- 404
  | notAllowed                     -- 405
  | conflict                       -- 409
  | locked                         -- 423
  | notModified                    -- 304
  | body (etag : Option String) (content : Option String)  -- 200 for GET/HEAD
  | error                          -- unhandled exception (500)
  deriving DecidableEq, Repr, Inhabited

def Outcome.isOk : Outcome → Bool
  | .created _ | .updated _ | .createdAt _ | .deleted | .mkcol => true
  | _ => false

structure Req where
  path : String
  ifMatch : Option String := none
  ifNoneMatch : Option String := none
  /-- `request.content_type` (both front ends default to application/octet-stream) -/
  ctype : String := "application/octet-stream"
  body : String := ""
  /-- POST: the name the server picked (uuid + extension), supplied by the trace -/
  hint : String := ""

def condMatches (hdr : String) (cur : Option String) : Bool :=
  etagMatches hdr.toList (cur.map String.toList)

/-- store outcome -> HTTP outcome for `create_member` / `set_body` -/
def ofStoreOut (created : Bool) : Out → Outcome
  | .ok e => if created then .created (strong e) else .updated (strong e)
  | .invalid => .refused "valid-calendar-data"
  | .dupUid _ => .refused "no-uid-conflict"
  | .locked => .locked
  | .badEtag => .error      -- InvalidETag is not caught by the handlers
  | .noSuchItem => .error
  | .deleted => .error
  | .failed => .error

def World.setColl (w : World) (p : String) (c : Coll) : World :=
  { w with colls := w.colls.insert p c }

/-- `mimetypes` guess used for a listed member's content type -/
def ctypeOfName (n : String) : String :=
  match hkOfName n with
  | .ical => "text/calendar"
  | .vcard => "text/vcard"
  | .plain => "application/octet-stream"

/-- current ETag of a resolved resource as `r.get_etag()` returns it; `none` = it raises -/
def currentEtag (w : World) : Res → Option String
  | .member _ _ e => some (strong e)
  | .coll p => (w.colls[p]?).map fun _ => strong "ctag"   -- a collection tag: never equal to a member tag
  | _ => none

/-- the two precondition tests of `PutMethod.handle`, in the handler's order:
    `if_match is not None and not etag_matches(if_match, cur)` or
    `if_none_match and etag_matches(if_none_match, cur)` -/
def condFails (r : Req) (cur : Option String) : Bool :=
  (r.ifMatch.isSome && !(condMatches (r.ifMatch.getD "") cur)) ||
  ((r.ifNoneMatch.getD "") != "" && condMatches (r.ifNoneMatch.getD "") cur)

/-- the part of PUT after the preconditions: update an existing member or create a new one -/
def putExec (env : Env) (w : World) (r : Req) (res : Option Res) : World × Outcome :=
  match res with
  | some (.member cp name e) =>
    (match w.colls[cp]? with
     | some c =>
       -- set_body: the handler is chosen by the *resource's* content type
       let (st', o) := importOne env c.st name (some (ctypeOfName name)) r.body (some e)
       (w.setColl cp { c with st := st' }, ofStoreOut false o)
     | none => (w, .error))
  | some _ => (w, .notAllowed)      -- a collection has no set_body
  | none =>
    let (container, name) := Path.splitS r.path
    (match resolve w container with
     | none => (w, .notFound)
     | some (.coll cp) =>
       (match w.colls[cp]? with
        | some c =>
          let (st', o) := importOne env c.st name (some r.ctype) r.body none
          (w.setColl cp { c with st := st' }, ofStoreOut true o)
        | none => (w, .error))
     | some (.dir _) => (w, .error)   -- Collection.create_member is not implemented
     | some _ => (w, .notAllowed))

/-- `r.get_etag()` raises KeyError for directories, principals and the root page -/
def etagRaises : Option Res → Bool
  | some .root | some (.dir _) | some (.principal _) => true
  | _ => false

/-- `PutMethod.handle` -/
def put (env : Env) (w : World) (r : Req) : World × Outcome :=
  let res := resolve w r.path
  if etagRaises res then (w, .error)
  else if condFails r (res.bind (currentEtag w)) then (w, .precondition)
  else putExec env w r res

/-- extension appended to a generated name (`MIMETYPES.guess_extension`) -/
def extOfCtype (ct : String) : String :=
  match hkOfCtype ct with
  | .ical => ".ics"
  | .vcard => ".vcf"
  | .plain => ""

/-- `PostMethod.handle` (RFC 5995 add-member) -/
def post (env : Env) (w : World) (r : Req) : World × Outcome :=
  match resolve w r.path with
  | none => (w, .notFound)
  | some (.coll cp) =>
    (match w.colls[cp]? with
     | some c =>
       let base := (r.ctype.splitOn ";").headD ""
       let (st', o) := importOne env c.st r.hint (some base) r.body none
       (w.setColl cp { c with st := st' },
        match o with
        | .ok _ => .createdAt r.hint
        | o => ofStoreOut true o)
     | none => (w, .error))
  | some (.dir _) => (w, .error)
  | some _ => (w, .notAllowed)

/-- remove a directory subtree (`shutil.rmtree`) -/
def World.rmtree (w : World) (p : String) : World :=
  let under (q : String) : Bool := q == p || q.startsWith (p ++ "/")
  { w with dirs := w.dirs.filter (fun q => !under q)
           colls := w.colls.filter (fun q _ => !under q) }

/-- `DeleteMethod.handle` (the container/name split is taken on the normalised path) -/
def delete (w : World) (r : Req) : World × Outcome :=
  match resolve w r.path with
  | none => (w, .notFound)
  | some res =>
    let (container, item) := Path.splitS (Path.normpathS r.path)
    match resolve w container with
    | none => (w, .notFound)
    | some pres =>
      match currentEtag w res with
      | none => (w, .error)           -- get_etag() raises for directories and the root
      | some cur =>
        if r.ifMatch.isSome && !(condMatches (r.ifMatch.getD "") (some cur)) then (w, .precondition)
        else
          match pres, res with
          | .coll cp, .member _ name e =>
            (match w.colls[cp]? with
             | some c =>
               let (st', o) := deleteOne c.st name (some e)
               (match o with
                | .deleted => (w.setColl cp { c with st := st' }, .deleted)
                | _ => (w, .error))
             | none => (w, .error))
          | _, .coll p => (w.rmtree p, .deleted)
          | _, _ => (w, .error)

/-- parent directory must exist for `os.mkdir` -/
def mkcolAt (w : World) (path : String) (ct : CType) : World × Outcome :=
  let p := Path.normpathS path
  let (parent, _) := Path.splitS p
  if hasGitSegment p then (w, .error)
  else if !(w.isDirPath parent) then (w, .conflict)
  else
    -- MKCALENDAR records the type in the collection's metadata file (`store.set_type`)
    let st := match ct with
      | .calendar => (setMeta (Store.init .tree) "type" (some "calendar")).1
      | _ => Store.init .tree
    (w.setColl p { st := st, ctype := ct }, .mkcol)

/-- `MkcolMethod.handle` (plain, no body) -/
def mkcol (w : World) (r : Req) : World × Outcome :=
  match resolve w r.path with
  | some _ => (w, .notAllowed)
  | none => mkcolAt w r.path .other

/-- `MkcalendarMethod.handle` (no body) -/
def mkcalendar (w : World) (r : Req) : World × Outcome :=
  match resolve w r.path with
  | some _ => (w, .refused "resource-must-be-null")
  | none => mkcolAt w r.path .calendar

/-- `_do_get` for GET and HEAD on members (collections and pages render HTML: no ETag) -/
def get (w : World) (r : Req) : Outcome :=
  match resolve w r.path with
  | none => .notFound
  | some (.member cp name e) =>
    if (r.ifNoneMatch.getD "") != "" && condMatches (r.ifNoneMatch.getD "") (some (strong e)) then
      .notModified
    else .body (some (strong e)) ((w.colls[cp]?).bind fun c => c.st.files[name]?)
  | some _ => .body none none

/-- PROPFIND Depth 1 on a collection: the member names it lists (files, then sub-directories) -/
def listing (w : World) (path : String) : Option (List String) :=
  match resolve w path with
  | some (.coll p) =>
    (w.colls[p]?).map fun c =>
      c.st.blobs.map (·.1) ++
        ((w.dirs ++ w.colls.keys).filter fun q => (Path.splitS q).1 == p && q != p).map
          fun q => (Path.splitS q).2
  | some (.dir p) =>
    some (((w.dirs ++ w.colls.keys).filter fun q => (Path.splitS q).1 == p && q != p).map
      fun q => (Path.splitS q).2)
  | _ => none

/-- a new server process: per-store caches are gone -/
def World.restart (w : World) : World :=
  { w with colls := w.colls.map fun _ c => { c with st := Store.restart c.st } }

end Xandikos.Http
