/-
  Href construction and resolution: model of `webdav.create_href`, `ensure_trailing_slash`,
  the child-href rule of `traverse_resource` / `sync.py`, `read_href_element`, the Location of
  POST add-member, and of how a front end turns a request-target back into a resource path.
-/
import Xandikos.Py.Url
import Xandikos.Py.Path

namespace Xandikos.Http
open Xandikos.Py

/-- `ensure_trailing_slash(href)` -/
def ensureTrailingSlash (h : String) : String :=
  if h.toList.getLast? = some '/' then h else h ++ "/"

/-- href of member `name` of the collection whose href is `coll` (`traverse_resource`,
    `sync.py`): plain concatenation after the collection's trailing slash -/
def childHref (coll name : String) : String := ensureTrailingSlash coll ++ name

/-- `create_href(href)`: the text of a `DAV:href` element -/
def hrefText (h : String) : String := Url.quote h

/-- what the server makes of a request-target that is an emitted href: both front ends
    percent-decode the path (UTF-8) -/
def decodeTarget (t : String) : String := Url.unquote t

/-- the path part of the Location of POST add-member: `quote(ensure_trailing_slash(path) + name)` -/
def postLocationPath (path name : String) : String :=
  Url.quote (ensureTrailingSlash path ++ name)

/-- Location of POST add-member: `SCRIPT_NAME.rstrip("/") + quote(path/ + name)` -/
def postLocation (scriptName path name : String) : String :=
  Path.rstripS scriptName ++ postLocationPath path name

end Xandikos.Http
