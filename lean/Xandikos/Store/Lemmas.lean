/-
  Helper lemmas about the store model (kept apart from the property theorems).
-/
import Xandikos.Store.Spec

namespace Xandikos.Store
open Xandikos

/-! ### commit helpers -/

@[simp] theorem commit_files (s : St) (f : Map String) : (commit s f).files = f := rfl
@[simp] theorem commit_kind (s : St) (f : Map String) : (commit s f).kind = s.kind := rfl
@[simp] theorem commit_cache (s : St) (f : Map String) : (commit s f).cache = s.cache := rfl
@[simp] theorem commit_worktree (s : St) (f : Map String) : (commit s f).worktree = s.worktree := rfl
@[simp] theorem commit_locked (s : St) (f : Map String) : (commit s f).locked = s.locked := rfl
@[simp] theorem commit_commits (s : St) (f : Map String) :
    (commit s f).commits = s.commits ++ [f] := rfl

@[simp] theorem commitIfChanged_files (s : St) (f : Map String) :
    (commitIfChanged s f).files = f := by
  unfold commitIfChanged; split <;> simp_all
@[simp] theorem commitIfChanged_kind (s : St) (f : Map String) :
    (commitIfChanged s f).kind = s.kind := by
  unfold commitIfChanged; split <;> simp
@[simp] theorem commitIfChanged_cache (s : St) (f : Map String) :
    (commitIfChanged s f).cache = s.cache := by
  unfold commitIfChanged; split <;> simp
@[simp] theorem commitIfChanged_worktree (s : St) (f : Map String) :
    (commitIfChanged s f).worktree = s.worktree := by
  unfold commitIfChanged; split <;> simp
@[simp] theorem commitIfChanged_locked (s : St) (f : Map String) :
    (commitIfChanged s f).locked = s.locked := by
  unfold commitIfChanged; split <;> simp
theorem commitIfChanged_commits (s : St) (f : Map String) :
    (commitIfChanged s f).commits = if f = s.files then s.commits else s.commits ++ [f] := by
  unfold commitIfChanged; split <;> simp

/-! ### what a write does to the abstract contents -/

theorem writeOne_files (s : St) (n c : String) :
    ((writeOne s n c).2 = .ok c ∧ (writeOne s n c).1.files = s.files.insert n c) ∨
    ((writeOne s n c).2 = .locked ∧ (writeOne s n c).1 = s) := by
  unfold writeOne
  cases s.kind with
  | bare => left; simp
  | vdir => left; simp
  | tree =>
    by_cases hl : s.locked = true
    · right; simp [hl]
    · left; simp [hl]

theorem writeOne_kind (s : St) (n c : String) : (writeOne s n c).1.kind = s.kind := by
  unfold writeOne
  cases h : s.kind <;> simp only [] <;> (repeat' split) <;> simp [h]

theorem dupError_notOk (c : Cache) (uid : Option String) (n : String) (e : Out)
    (h : dupError c uid n = some e) : e.isOk = false := by
  unfold dupError at h
  repeat' split at h
  all_goals simp_all
  all_goals (subst h; rfl)

theorem etagError_notOk (cur r : Option String) (e : Out)
    (h : etagError cur r = some e) : e.isOk = false := by
  unfold etagError at h
  repeat' split at h
  all_goals simp_all
  all_goals (subst h; rfl)

/-- `checkDuplicate` answers with nothing or with a refusal, never with an acknowledgement. -/
theorem checkDuplicate_notOk (env : Env) (s : St) (uid : Option String) (n : String)
    (r : Option String) (e : Out) (h : (checkDuplicate env s uid n r).2 = some e) :
    e.isOk = false := by
  unfold checkDuplicate at h
  simp only [] at h
  split at h
  · rename_i e' he; simp at h; subst h; exact dupError_notOk _ _ _ _ he
  · exact etagError_notOk _ _ _ h

theorem Spec.apply_put_not_ok (m : Map String) (n : String) (ct : Option String) (t : String)
    (r : Option String) (o : Out) (h : o.isOk = false) :
    Spec.apply m (.put n ct t r) (some o) = m := by
  cases o <;> simp_all [Spec.apply, Out.isOk]

theorem importOne_spec (env : Env) (s : St) (n : String) (ct : Option String) (t : String)
    (r : Option String) :
    (importOne env s n ct t r).1.files
      = Spec.apply s.files (.put n ct t r) (some (importOne env s n ct t r).2) := by
  unfold importOne
  simp only []
  split
  · simp [Spec.apply]
  · split
    · rename_i err herr
      have := checkDuplicate_notOk env s _ n r err herr
      simp [Spec.apply_put_not_ok _ _ _ _ _ _ this]
    · split
      · simp [Spec.apply]
      · generalize hs1 : ({ s with cache := (checkDuplicate env s (env.uid (handlerFor ct n) t) n r).1 } : St) = s₁
        have hf : s₁.files = s.files := by subst hs1; rfl
        rcases writeOne_files s₁ n (env.norm (handlerFor ct n) t) with h | h
        · rw [h.2, hf]; simp only [h.1, Spec.apply]
        · rw [h.2]; simp [h.1, Spec.apply, hf]

theorem deleteOne_spec (s : St) (n : String) (e : Option String) :
    (deleteOne s n e).1.files = Spec.apply s.files (.del n e) (some (deleteOne s n e).2) := by
  unfold deleteOne
  simp only []
  split
  · simp [Spec.apply]
  · split
    · simp [Spec.apply]
    · cases s.kind <;> simp only [] <;> (repeat' split) <;> simp [Spec.apply]

theorem step_refines (env : Env) (s : St) (op : Op) :
    (step env s op).1.files = Spec.apply s.files op (step env s op).2 := by
  cases op with
  | put n ct t r => simpa [step] using importOne_spec env s n ct t r
  | del n e => simpa [step] using deleteOne_spec s n e
  | ctag => simp [step, getCtag, Spec.apply]; cases s.kind <;> simp
  | restart => simp [step, restart, Spec.apply]

theorem run_refines (env : Env) (s : St) (ops : List Op) :
    (run env s ops).1.files = Spec.run s.files ops (run env s ops).2 := by
  induction ops generalizing s with
  | nil => simp [run, Spec.run]
  | cons op ops ih =>
    simp only [run, Spec.run]
    rw [ih, step_refines]

theorem run_length (env : Env) (s : St) (ops : List Op) :
    (run env s ops).2.length = ops.length := by
  induction ops generalizing s with
  | nil => simp [run]
  | cons op ops ih => simp [run, ih]

/-- The abstract contents after a history are the last acknowledged write per name. -/
theorem Spec.run_lastAck (m : Map String) (ops : List Op) (os : List (Option Out)) (n : String) :
    (Spec.run m ops os)[n]? =
      match Spec.lastAck n ops os with
      | some v => v
      | none => m[n]? := by
  induction ops generalizing m os with
  | nil => simp [Spec.run, Spec.lastAck]
  | cons op ops ih =>
    cases os with
    | nil => simp [Spec.run, Spec.lastAck]
    | cons o os =>
      simp only [Spec.run, Spec.lastAck]
      rw [ih]
      cases h : Spec.lastAck n ops os with
      | some v => simp
      | none =>
        simp only
        cases op <;> cases o <;> simp [Spec.apply]
        all_goals (rename_i out; cases out <;> simp [Map.get_insert, Map.get_erase])
        all_goals (split <;> simp_all)

end Xandikos.Store
