/-
  Concurrent store writes (C05): each operation as the sequence of steps between which another
  writer can observe or change the store, and schedules interleaving them.

  Transcribed from `store/git.py`: `GitStore.import_one` (`_check_duplicate`: UID and ETag
  preconditions, then `_import_one`), `TreeGitStore._import_one/delete_one` (`locked_index`:
  `index.lock` taken with O_EXCL — a second writer fails with `LockedError`, it does not wait —
  the index is read when the lock is taken and written back when it is released),
  `BareGitStore._import_one/delete_one` (read the current tree, change it, commit it on top of
  whatever the head is by then).  Within one server process the operations of a store object are
  serialised by the store's lock (`_serialised`): there an operation is one step.
-/
import Xandikos.Store.Crash

namespace Xandikos.Store.Conc
open Xandikos.Store.Crash (setKey delKey)

abbrev Members := List (String × String)      -- name ↦ token (= ETag)

inductive Op
  /-- `import_one(name, data, replace_etag)`; `uid` is the UID of the new content -/
  | put (name tok : String) (uid : Option String) (replace : Option String)
  /-- `delete_one(name, etag)` -/
  | del (name : String) (etag : Option String)
  deriving DecidableEq, Repr

inductive Res
  | ok | invalidEtag | dupUid | noSuchItem | locked | failed
  deriving DecidableEq, Repr

def Op.name : Op → String
  | .put n .. => n
  | .del n _ => n

/-- the preconditions of an operation against the members it sees; `none`: they hold -/
def check (uidOf : String → Option String) (m : Members) : Op → Option Res
  | .put n _ uid replace =>
    if (match uid with
        | some u => m.any fun e => e.1 != n && uidOf e.2 == some u
        | none => false) then some .dupUid
    else match replace with
      | some e => if m.lookup n = some e then none else some .invalidEtag
      | none => none
  | .del n etag =>
    match m.lookup n with
    | none => some .noSuchItem
    | some cur =>
      (match etag with
       | some e => if e = cur then none else some .invalidEtag
       | none => none)

def effect (m : Members) : Op → Members
  | .put n tok _ _ => setKey m n tok
  | .del n _ => delKey m n

/-- the operation as one indivisible step: what a sequential execution does -/
def atomic (uidOf : String → Option String) (m : Members) (op : Op) : Members × Res :=
  match check uidOf m op with
  | some r => (m, r)
  | none => (effect m op, .ok)

/-- sequential execution of operations, in order -/
def seqRun (uidOf : String → Option String) (m : Members) : List Op → Members × List Res
  | [] => (m, [])
  | op :: rest =>
    let (m', r) := atomic uidOf m op
    let (m'', rs) := seqRun uidOf m' rest
    (m'', r :: rs)

/-! ### interleaved execution -/

inductive Kind | tree | bare
  deriving DecidableEq, BEq, Repr

/-- how writers are kept apart -/
inductive Mode
  | threads        -- one server process: the store's lock makes an operation one step
  | processes      -- several processes on one directory: only `index.lock` (tree store)
  deriving DecidableEq, Repr

inductive PC
  | start
  | checked                      -- preconditions evaluated, nothing written yet
  | holding (seen : Members)     -- tree: `index.lock` held, index read; bare: current tree read
  | written (seen : Members)     -- tree: the working-tree file is written/unlinked, nothing committed yet
  | done (r : Res)
  deriving DecidableEq, Repr

structure Shared where
  members : Members := []
  /-- tree store: the working tree (what `delete_one` reads for its ETag check, before the lock) -/
  wt : Members := []
  lock : Option Nat := none      -- who holds `index.lock`
  /-- ghost: the writes that reached the store, in order (thread, operation) -/
  log : List (Nat × Op) := []
  deriving Repr

structure Thread where
  op : Op
  pc : PC := .start
  deriving Repr

/-- one step of thread `i` -/
def stepThread (uidOf : String → Option String) (k : Kind) (mode : Mode) (i : Nat) (sh : Shared) (t : Thread) :
    Shared × Thread :=
  match mode with
  | .threads =>
    (match t.pc with
     | .done _ => (sh, t)
     | _ =>
       let (m', r) := atomic uidOf sh.members t.op
       ({ sh with members := m', wt := m', log := if r = .ok then sh.log ++ [(i, t.op)] else sh.log },
        { t with pc := .done r }))
  | .processes =>
    match t.pc with
    | .start =>
      -- the tree store's `delete_one` checks the ETag of the working-tree file, `import_one` that
      -- of the index entry; the bare store has no working tree
      let view := match k, t.op with
        | .tree, .del _ _ => sh.wt
        | _, _ => sh.members
      (match check uidOf view t.op with
       | some r => (sh, { t with pc := .done r })
       | none => (sh, { t with pc := .checked }))
    | .checked =>
      (match k with
       | .tree =>
         if sh.lock.isSome then (sh, { t with pc := .done .locked })
         else ({ sh with lock := some i }, { t with pc := .holding sh.members })
       | .bare => (sh, { t with pc := .holding sh.members }))
    | .holding seen =>
      (match k with
       | .tree =>
         -- unlink of a working-tree file that is gone fails (and the lock is released)
         if (match t.op with | .del n _ => (sh.wt.lookup n).isNone | _ => false) then
           ({ sh with lock := none }, { t with pc := .done .failed })
         else ({ sh with wt := effect sh.wt t.op }, { t with pc := .written seen })
       | .bare =>
         ({ sh with members := effect seen t.op, log := sh.log ++ [(i, t.op)] }, { t with pc := .done .ok }))
    | .written seen =>
      ({ sh with members := effect seen t.op, lock := none, log := sh.log ++ [(i, t.op)] }, { t with pc := .done .ok })
    | .done _ => (sh, t)

def setNth {α : Type} : List α → Nat → α → List α
  | [], _, _ => []
  | _ :: l, 0, v => v :: l
  | x :: l, n + 1, v => x :: setNth l n v

/-- the schedule names, step by step, the thread that moves -/
def runSched (uidOf : String → Option String) (k : Kind) (mode : Mode) (sh : Shared) (ts : List Thread) :
    List Nat → Shared × List Thread
  | [] => (sh, ts)
  | i :: rest =>
    match ts[i]? with
    | none => runSched uidOf k mode sh ts rest
    | some t =>
      let (sh', t') := stepThread uidOf k mode i sh t
      runSched uidOf k mode sh' (setNth ts i t') rest

def results (ts : List Thread) : List (Option Res) :=
  ts.map fun t => match t.pc with
    | .done r => some r
    | _ => none

/-- all orders of `0 … n-1` for two and three operations (what the property quantifies over) -/
def orders : Nat → List (List Nat)
  | 0 => [[]]
  | 1 => [[0]]
  | 2 => [[0, 1], [1, 0]]
  | 3 => [[0, 1, 2], [0, 2, 1], [1, 0, 2], [1, 2, 0], [2, 0, 1], [2, 1, 0]]
  | _ => []

/-- the outcome (final members, result per operation) is that of SOME sequential execution of
    the operations that were not refused as locked -/
def serialisable (uidOf : String → Option String) (m₀ : Members) (ops : List Op) (final : Members)
    (res : List Res) : Bool :=
  let live := (List.range ops.length).filter fun i => res[i]? != some .locked
  (orders live.length).any fun ord =>
    let order := ord.filterMap fun j => live[j]?
    let (m, rs) := seqRun uidOf m₀ (order.filterMap fun i => ops[i]?)
    m == final && (order.zip rs).all fun (i, r) => res[i]? == some r

end Xandikos.Store.Conc
