/-
  UID cache (`_scan_uids`) correctness: after a scan the cache is an exact image of the
  *current* listing, whatever was scanned before (C06).
-/
import Xandikos.Store.Spec

namespace Xandikos.Store
open Xandikos

def uidOf (env : Env) (n e : String) : Option String := env.uid (hkOfName n) e

theorem get_forget (m : Map (String × String)) (n : String) (ou : Option String) (u : String) :
    (forget m n ou)[u]? =
      if ou = some u ∧ (m[u]?).map (·.1) = some n then none else m[u]? := by
  unfold forget
  cases ou with
  | none => simp
  | some u' =>
    simp only []
    split
    · rename_i n' e' h
      by_cases hn : n' = n
      · subst hn
        by_cases hu : u' = u
        · subst hu; simp [h]
        · simp [hu, Map.get_erase]
      · by_cases hu : u' = u
        · subst hu; simp [h, hn]
        · simp [hn, hu]
    · rename_i h
      by_cases hu : u' = u
      · subst hu; simp [h]
      · simp [hu]

theorem get_remember (m : Map (String × String)) (n e : String) (uid : Option String) (u : String) :
    (remember m n e uid)[u]? = if uid = some u then some (n, e) else m[u]? := by
  unfold remember
  cases uid with
  | none => simp
  | some u' => simp [Map.get_insert]

/-- Exactness of a cache with respect to a listing `bs` (list of (name, etag)). -/
structure Exact (env : Env) (bs : List (String × String)) (c : Cache) : Prop where
  f2u : ∀ n : String, c.f2u[n]? = (bs.lookup n).map fun e => (e, uidOf env n e)
  u2f_sound : ∀ (u n e : String), c.u2f[u]? = some (n, e) → bs.lookup n = some e ∧ uidOf env n e = some u
  u2f_complete : ∀ (n e u : String), bs.lookup n = some e → uidOf env n e = some u → c.u2f[u]? = some (n, e)

/-- UIDs unique among a listing. -/
def UniqueL (env : Env) (bs : List (String × String)) : Prop :=
  ∀ n₁ e₁ n₂ e₂ u, bs.lookup n₁ = some e₁ → bs.lookup n₂ = some e₂ →
    uidOf env n₁ e₁ = some u → uidOf env n₂ e₂ = some u → n₁ = n₂

/-- what every reachable cache satisfies -/
structure CacheOK (env : Env) (c : Cache) : Prop where
  f2u_uid : ∀ (n e : String) (u : Option String), c.f2u[n]? = some (e, u) → u = uidOf env n e
  u2f_f2u : ∀ (u n e : String), c.u2f[u]? = some (n, e) → c.f2u[n]? = some (e, some u)
  f2u_u2f : ∀ (n e u : String), c.f2u[n]? = some (e, some u) → c.u2f[u]? = some (n, e)

theorem CacheOK.empty (env : Env) : CacheOK env {} := by
  constructor <;> intros <;> simp_all

theorem Exact.cacheOK {env : Env} {bs : List (String × String)} {c : Cache}
    (h : Exact env bs c) : CacheOK env c := by
  constructor
  · intro n e u hf
    rw [h.f2u] at hf
    cases hl : bs.lookup n <;> simp_all
    obtain ⟨rfl, rfl⟩ := hf; rfl
  · intro u n e hu
    obtain ⟨h1, h2⟩ := h.u2f_sound u n e hu
    rw [h.f2u, h1]; simp [h2]
  · intro n e u hf
    rw [h.f2u] at hf
    cases hl : bs.lookup n <;> simp_all
    obtain ⟨rfl, h2⟩ := hf
    exact h.u2f_complete n _ u hl h2

/-! ### first loop -/

theorem scanStep_f2u (env : Env) (c : Cache) (hc : ∀ (n e : String) (u : Option String), c.f2u[n]? = some (e, u) → u = uidOf env n e)
    (p : String × String) (m : String) :
    (scanStep env c p).f2u[m]? = if p.1 = m then some (p.2, uidOf env p.1 p.2) else c.f2u[m]? := by
  unfold scanStep
  by_cases hs : (c.f2u[p.1]?).map (·.1) = some p.2
  · simp only [hs, ↓reduceIte]
    by_cases hm : p.1 = m
    · subst hm
      cases hf : c.f2u[p.1]? with
      | none => simp [hf] at hs
      | some q =>
        obtain ⟨e', u'⟩ := q
        simp [hf] at hs; subst hs
        simp [hc _ _ _ hf]
    · simp [hm]
  · simp only [hs, ↓reduceIte]
    simp [Map.get_insert, uidOf]

theorem scanStep_keeps_uid (env : Env) (c : Cache)
    (hc : ∀ (n e : String) (u : Option String), c.f2u[n]? = some (e, u) → u = uidOf env n e) (p : String × String) :
    ∀ (n e : String) (u : Option String), (scanStep env c p).f2u[n]? = some (e, u) → u = uidOf env n e := by
  intro n e u h
  rw [scanStep_f2u env c hc] at h
  by_cases hm : p.1 = n
  · subst hm; simp at h; obtain ⟨rfl, rfl⟩ := h; rfl
  · simp [hm] at h; exact hc _ _ _ h

theorem scanStep_u2f (env : Env) (c : Cache) (p : String × String) (u : String)
    (hs : ¬ (c.f2u[p.1]?).map (·.1) = some p.2) :
    (scanStep env c p).u2f[u]? =
      if uidOf env p.1 p.2 = some u then some (p.1, p.2)
      else if (c.f2u[p.1]?).bind (·.2) = some u ∧ (c.u2f[u]?).map (·.1) = some p.1 then none
      else c.u2f[u]? := by
  unfold scanStep
  simp only [hs, ↓reduceIte, get_remember, get_forget, uidOf]
  rfl

theorem scanStep_u2f_skip (env : Env) (c : Cache) (p : String × String)
    (hs : (c.f2u[p.1]?).map (·.1) = some p.2) : scanStep env c p = c := by
  unfold scanStep; simp [hs]

/-- the two "soundness" clauses of `CacheOK` -/
structure Sound (env : Env) (c : Cache) : Prop where
  f2u_uid : ∀ (n e : String) (u : Option String), c.f2u[n]? = some (e, u) → u = uidOf env n e
  u2f_f2u : ∀ (u n e : String), c.u2f[u]? = some (n, e) → c.f2u[n]? = some (e, some u)

theorem CacheOK.sound {env : Env} {c : Cache} (h : CacheOK env c) : Sound env c :=
  ⟨h.f2u_uid, h.u2f_f2u⟩

theorem scanStep_sound (env : Env) (c : Cache) (hc : Sound env c) (p : String × String) :
    Sound env (scanStep env c p) := by
  refine ⟨scanStep_keeps_uid env c hc.f2u_uid p, ?_⟩
  intro u n e h
  by_cases hs : (c.f2u[p.1]?).map (·.1) = some p.2
  · rw [scanStep_u2f_skip env c p hs] at h ⊢
    exact hc.u2f_f2u u n e h
  · rw [scanStep_f2u env c hc.f2u_uid]
    rw [scanStep_u2f env c p u hs] at h
    by_cases h1 : uidOf env p.1 p.2 = some u
    · simp [h1] at h; obtain ⟨rfl, rfl⟩ := h; simp [h1]
    · simp only [h1, ↓reduceIte] at h
      split at h
      · simp at h
      · rename_i hne
        have hf := hc.u2f_f2u u n e h
        by_cases hn : p.1 = n
        · subst hn
          exfalso; apply hne
          exact ⟨by simp [hf], by simp [h]⟩
        · simp [hn, hf]

/-- Invariant of the first loop: entries of the listing that are already processed, or whose
    cached record is current, are mapped from their UID. -/
def LoopInv (env : Env) (bs : List (String × String)) (done : List String) (c : Cache) : Prop :=
  Sound env c ∧
  (∀ (n e u : String), bs.lookup n = some e → uidOf env n e = some u →
      (n ∈ done ∨ c.f2u[n]? = some (e, some u)) → c.u2f[u]? = some (n, e))

theorem loopInv_step (env : Env) (bs : List (String × String)) (hu : UniqueL env bs)
    (done : List String) (c : Cache) (p : String × String) (hp : bs.lookup p.1 = some p.2)
    (h : LoopInv env bs done c) : LoopInv env bs (done ++ [p.1]) (scanStep env c p) := by
  obtain ⟨hs, h3⟩ := h
  refine ⟨scanStep_sound env c hs p, ?_⟩
  intro n e u hl hun hd
  by_cases hskip : (c.f2u[p.1]?).map (·.1) = some p.2
  · -- nothing changes; the entry itself is covered by the "cached record is current" clause
    rw [scanStep_u2f_skip env c p hskip] at hd ⊢
    rcases hd with hd | hd
    · rw [List.mem_append] at hd
      rcases hd with hd | hd
      · exact h3 n e u hl hun (Or.inl hd)
      · simp at hd; subst hd
        rw [hp] at hl; injection hl with hl; subst hl
        cases hf : c.f2u[p.1]? with
        | none => simp [hf] at hskip
        | some q =>
          obtain ⟨e', u'⟩ := q
          have he : e' = p.2 := by simpa [hf] using hskip
          subst he
          have hu' := hs.f2u_uid _ _ _ hf
          rw [hun] at hu'; subst hu'
          exact h3 p.1 _ u hp hun (Or.inr hf)
    · exact h3 n e u hl hun (Or.inr hd)
  · rw [scanStep_u2f env c p u hskip]
    by_cases hn : p.1 = n
    · -- the entry just processed
      subst hn
      rw [hp] at hl; injection hl with hl; subst hl
      simp [hun]
    · -- another entry: its mapping is untouched
      have hd' : n ∈ done ∨ c.f2u[n]? = some (e, some u) := by
        rcases hd with hd | hd
        · rw [List.mem_append] at hd
          rcases hd with hd | hd
          · exact Or.inl hd
          · simp at hd; exact absurd hd.symm hn
        · rw [scanStep_f2u env c hs.f2u_uid] at hd
          simp [hn] at hd; exact Or.inr hd
      have hcur := h3 n e u hl hun hd'
      have hne : ¬ uidOf env p.1 p.2 = some u := by
        intro hpu; exact hn (hu _ _ _ _ u hp hl hpu hun)
      simp only [hne, ↓reduceIte]
      split
      · rename_i hbad
        obtain ⟨_, he'⟩ := hbad
        rw [hcur] at he'; simp at he'
        exact absurd he'.symm hn
      · exact hcur

theorem loopInv_foldl (env : Env) (bs : List (String × String)) (hu : UniqueL env bs)
    (l : List (String × String)) (hl : ∀ p ∈ l, bs.lookup p.1 = some p.2)
    (done : List String) (c : Cache) (h : LoopInv env bs done c) :
    LoopInv env bs (done ++ l.map Prod.fst) (l.foldl (scanStep env) c) := by
  induction l generalizing done c with
  | nil => simpa using h
  | cons p l ih =>
    simp only [List.foldl_cons, List.map_cons]
    have := ih (fun q hq => hl q (List.mem_cons_of_mem _ hq)) (done ++ [p.1]) (scanStep env c p)
      (loopInv_step env bs hu done c p (hl p (List.mem_cons_self ..)) h)
    simpa [List.append_assoc] using this

theorem mem_of_lookup {l : List (String × String)} {n e : String}
    (h : l.lookup n = some e) : (n, e) ∈ l := by
  induction l with
  | nil => simp at h
  | cons q l ih =>
    obtain ⟨qn, qe⟩ := q
    by_cases hq : n = qn
    · subst hq; simp [List.lookup_cons] at h; subst h; simp
    · have : (n == qn) = false := by simp [hq]
      simp only [List.lookup_cons, this] at h
      exact List.mem_cons_of_mem _ (ih h)

/-- `f2u` after the first loop, for a listing with distinct names. -/
theorem foldl_f2u (env : Env) (l : List (String × String)) (hnd : (l.map Prod.fst).Nodup)
    (c : Cache) (hc : ∀ (n e : String) (u : Option String), c.f2u[n]? = some (e, u) → u = uidOf env n e) (m : String) :
    (l.foldl (scanStep env) c).f2u[m]? =
      match l.lookup m with
      | some e => some (e, uidOf env m e)
      | none => c.f2u[m]? := by
  induction l generalizing c with
  | nil => simp
  | cons p l ih =>
    simp only [List.map_cons, List.nodup_cons] at hnd
    simp only [List.foldl_cons]
    rw [ih hnd.2 (scanStep env c p) (scanStep_keeps_uid env c hc p)]
    rw [scanStep_f2u env c hc]
    obtain ⟨pn, pe⟩ := p
    by_cases hm : pn = m
    · subst hm
      have : l.lookup pn = none := by
        cases hl : l.lookup pn with
        | none => rfl
        | some e =>
          exact absurd (List.mem_map.mpr ⟨(pn, e), mem_of_lookup hl, rfl⟩) hnd.1
      simp [this, List.lookup_cons]
    · have hm' : (m == pn) = false := by simp [Ne.symm hm]
      simp [List.lookup_cons, hm', hm]

/-! ### second loop -/

theorem dropStep_f2u (c : Cache) (n m : String) :
    (dropStep c n).f2u[m]? = if n = m then none else c.f2u[m]? := by
  unfold dropStep
  cases h : c.f2u[n]? with
  | none =>
    by_cases hm : n = m
    · subst hm; simp [h]
    · simp [hm]
  | some q => simp [Map.get_erase]

theorem dropStep_u2f (c : Cache) (n u : String) :
    (dropStep c n).u2f[u]? =
      if (c.f2u[n]?).bind (·.2) = some u ∧ (c.u2f[u]?).map (·.1) = some n then none
      else c.u2f[u]? := by
  unfold dropStep
  cases h : c.f2u[n]? with
  | none => simp
  | some q => simp [get_forget]

theorem dropStep_sound (env : Env) (c : Cache) (hc : Sound env c) (n : String) :
    Sound env (dropStep c n) := by
  constructor
  · intro m e u h
    rw [dropStep_f2u] at h
    by_cases hm : n = m
    · simp [hm] at h
    · simp [hm] at h; exact hc.f2u_uid _ _ _ h
  · intro u m e h
    rw [dropStep_u2f] at h
    split at h
    · simp at h
    · rename_i hne
      have hf := hc.u2f_f2u u m e h
      rw [dropStep_f2u]
      by_cases hm : n = m
      · subst hm
        exfalso; apply hne
        exact ⟨by simp [hf], by simp [h]⟩
      · simp [hm, hf]

theorem foldl_drop_f2u (r : List String) (c : Cache) (m : String) :
    (r.foldl dropStep c).f2u[m]? = if m ∈ r then none else c.f2u[m]? := by
  induction r generalizing c with
  | nil => simp
  | cons n r ih =>
    simp only [List.foldl_cons, ih, dropStep_f2u, List.mem_cons]
    by_cases h1 : m ∈ r
    · simp [h1]
    · by_cases h2 : n = m
      · subst h2; simp [h1]
      · simp [h1, h2, Ne.symm h2]

theorem foldl_drop_sound (env : Env) (r : List String) (c : Cache) (hc : Sound env c) :
    Sound env (r.foldl dropStep c) := by
  induction r generalizing c with
  | nil => simpa
  | cons n r ih => exact ih _ (dropStep_sound env c hc n)

/-- dropping names that are not in the listing keeps the completeness clause -/
theorem foldl_drop_complete (env : Env) (bs : List (String × String)) (r : List String)
    (hr : ∀ n ∈ r, bs.lookup n = none) (c : Cache)
    (h : ∀ (n e u : String), bs.lookup n = some e → uidOf env n e = some u → c.u2f[u]? = some (n, e)) :
    ∀ (n e u : String), bs.lookup n = some e → uidOf env n e = some u →
      (r.foldl dropStep c).u2f[u]? = some (n, e) := by
  induction r generalizing c with
  | nil => simpa using h
  | cons x r ih =>
    simp only [List.foldl_cons]
    apply ih (fun n hn => hr n (List.mem_cons_of_mem _ hn))
    intro n e u hl hu
    rw [dropStep_u2f]
    have hcur := h n e u hl hu
    split
    · rename_i hbad
      obtain ⟨_, he'⟩ := hbad
      rw [hcur] at he'; simp at he'
      have := hr x (List.mem_cons_self ..)
      rw [← he', hl] at this; simp at this
    · exact hcur

/-! ### the scan as a whole -/

theorem lookup_of_mem_nodup {l : List (String × String)} (hnd : (l.map Prod.fst).Nodup)
    {p : String × String} (hp : p ∈ l) : l.lookup p.1 = some p.2 := by
  induction l with
  | nil => simp at hp
  | cons q l ih =>
    simp only [List.map_cons, List.nodup_cons] at hnd
    rcases List.mem_cons.mp hp with rfl | hp'
    · obtain ⟨pn, pe⟩ := p
      simp [List.lookup_cons]
    · have hne : p.1 ≠ q.1 := by
        intro e; apply hnd.1; rw [← e]; exact List.mem_map.mpr ⟨p, hp', rfl⟩
      have : (p.1 == q.1) = false := by simp [hne]
      obtain ⟨qn, qe⟩ := q
      simp only [List.lookup_cons, this]
      exact ih hnd.2 hp'

theorem any_fst_iff (bs : List (String × String)) (n : String) :
    (bs.any fun p => p.1 == n) = true ↔ (bs.lookup n).isSome = true := by
  induction bs with
  | nil => simp
  | cons q bs ih =>
    obtain ⟨qn, qe⟩ := q
    simp only [List.any_cons, Bool.or_eq_true, beq_iff_eq, List.lookup_cons]
    by_cases h : n = qn
    · subst h; simp
    · have h' : (n == qn) = false := by simp [h]
      have h'' : ¬ qn = n := fun e => h e.symm
      simp [h', h'', ih]

/-- **Exactness of `_scan_uids`**: starting from any reachable cache, scanning a listing with
    distinct names and unique UIDs yields the exact image of that listing. -/
theorem scan_exact (env : Env) (bs : List (String × String)) (hnd : (bs.map Prod.fst).Nodup)
    (hu : UniqueL env bs) (c : Cache) (hc : CacheOK env c) :
    Exact env bs (scanUids env bs c) := by
  unfold scanUids
  simp only []
  generalize hr : (c.f2u.keys.filter fun n => !(bs.any fun p => p.1 == n)) = removed
  have hrem : ∀ n, n ∈ removed ↔ (c.f2u[n]?).isSome = true ∧ bs.lookup n = none := by
    intro n
    subst hr
    rw [List.mem_filter, Std.ExtTreeMap.mem_keys, Std.ExtTreeMap.mem_iff_isSome_getElem?]
    have hb : (!(bs.any fun p => p.1 == n)) = true ↔ bs.lookup n = none := by
      have := any_fst_iff bs n
      cases hl : bs.lookup n with
      | none =>
        simp only [hl, Option.isSome_none] at this
        cases ha : (bs.any fun p => p.1 == n) with
        | false => simp
        | true => exact absurd (this.mp ha) (by simp)
      | some e =>
        simp only [hl, Option.isSome_some, iff_true] at this
        simp [this]
    rw [hb]
  have hloop : LoopInv env bs ([] ++ bs.map Prod.fst) (bs.foldl (scanStep env) c) :=
    loopInv_foldl env bs hu bs (fun p hp => lookup_of_mem_nodup hnd hp) [] c
      ⟨hc.sound, fun n e u _ _ hd => by
        rcases hd with hd | hd
        · simp at hd
        · exact hc.f2u_u2f n e u hd⟩
  obtain ⟨hs1, hj⟩ := hloop
  have hcomp1 : ∀ (n e u : String), bs.lookup n = some e → uidOf env n e = some u →
      (bs.foldl (scanStep env) c).u2f[u]? = some (n, e) := by
    intro n e u hl hun
    apply hj n e u hl hun
    left
    simp only [List.nil_append]
    have : (n, e) ∈ bs := mem_of_lookup hl
    exact List.mem_map.mpr ⟨(n, e), this, rfl⟩
  have hf2u : ∀ m, (removed.foldl dropStep (bs.foldl (scanStep env) c)).f2u[m]? =
      (bs.lookup m).map fun e => (e, uidOf env m e) := by
    intro m
    rw [foldl_drop_f2u, foldl_f2u env bs hnd c hc.f2u_uid]
    cases hl : bs.lookup m with
    | some e =>
      have : m ∉ removed := by rw [hrem]; simp [hl]
      simp [this]
    | none =>
      by_cases hm : m ∈ removed
      · simp [hm]
      · simp only [hm, ↓reduceIte, Option.map_none]
        rw [hrem] at hm
        cases hcm : c.f2u[m]? with
        | none => rfl
        | some q => exact absurd ⟨by simp [hcm], hl⟩ hm
  have hsound := foldl_drop_sound env removed _ hs1
  refine ⟨hf2u, ?_, ?_⟩
  · intro u n e h
    have := hsound.u2f_f2u u n e h
    rw [hf2u] at this
    cases hl : bs.lookup n with
    | none => simp [hl] at this
    | some e' =>
      simp [hl] at this
      obtain ⟨rfl, h2⟩ := this
      exact ⟨rfl, h2⟩
  · exact foldl_drop_complete env bs removed (fun n hn => ((hrem n).mp hn).2) _ hcomp1

end Xandikos.Store
