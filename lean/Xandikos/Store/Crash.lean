/-
  Crash model of a store write (C04): the on-disk pieces one operation touches, the ordered
  micro-steps it performs on them, and what a newly started server reads from any intermediate
  state.

  Transcribed from `store/git.py` (`TreeGitStore._import_one/delete_one` under `locked_index`,
  `BareGitStore._import_one/delete_one`, `_commit_tree`), dulwich's writers as the audit hook
  shows them (loose objects and refs through `<name>.lock` + rename; `add_objects` through a
  temporary pack + rename, readable once its `.idx` is in place; reflog append before the ref is
  renamed; `index.lock` renamed over `index` last) and `store/vdir.py` (`<name>.tmp` + replace).

  Objects are content-addressed: an object stands for its own id (SHA-1 taken as injective —
  part of the trusted base).
-/
namespace Xandikos.Store.Crash

inductive Obj
  | blob (tok : String)
  | tree (entries : List (String × String))                 -- name ↦ blob token
  | root (tree : List (String × String))                       -- a commit without parent
  | commit (tree : List (String × String)) (parent : Obj)
  deriving DecidableEq, Repr

/-- the commit `do_commit` creates on top of the current head -/
def mkCommit (t : List (String × String)) : Option Obj → Obj
  | none => .root t
  | some p => .commit t p

/-- the tree a commit names -/
def Obj.treeOf : Obj → Option (List (String × String))
  | .root t => some t
  | .commit t _ => some t
  | _ => none

/-- a file written through a plain `open()`: what is on disk is a prefix of what was meant -/
structure Plain where
  tok : String
  complete : Bool
  deriving DecidableEq, Repr

/-- a directory entry: a regular name, or the temporary sibling `<name>.tmp` that listings skip -/
inductive Key
  | file (n : String)
  | tmp (n : String)
  deriving DecidableEq, Repr

def Key.visible : Key → Bool
  | .file _ => true
  | .tmp _ => false

structure Disk where
  objs : List Obj := []
  /-- objects of a pack whose `.idx` is not there yet: not readable -/
  pending : List Obj := []
  head : Option Obj := none                 -- refs/heads/<branch> → commit
  index : List (String × String) := []      -- tree store: the index file
  indexLock : Bool := false
  refLock : Bool := false
  reflog : Nat := 0
  /-- the working tree (tree store) or the directory itself (vdir) -/
  wt : List (Key × Plain) := []
  deriving Repr

inductive Kind | tree | bare | vdir
  deriving DecidableEq, Repr

/-- `d[k] = v` on an insertion-ordered dictionary / directory listing -/
def setKey {κ α : Type} [BEq κ] : List (κ × α) → κ → α → List (κ × α)
  | [], k, v => [(k, v)]
  | e :: l, k, v => if e.1 == k then (k, v) :: l else e :: setKey l k v

def delKey {κ α : Type} [BEq κ] (l : List (κ × α)) (k : κ) : List (κ × α) := l.filter (·.1 != k)

inductive Step
  | lockIndex
  | wtOpen (n : String) (tok : String)      -- `open(p, "wb")`: truncated, then some prefix of `tok`
  | wtWrite (n : String) (tok : String)     -- all of it written and closed
  | wtUnlink (n : String)
  | addObj (o : Obj)                        -- loose object: `.lock` renamed into place
  | addPack (os : List Obj)                 -- temporary pack renamed to pack-<sha>.pack
  | addPackIdx                              -- its index renamed into place: the objects are readable
  | lockRef
  | reflog
  | setHead (c : Obj)                       -- `<ref>.lock` renamed over the ref
  | setIndex (idx : List (String × String)) -- `index.lock` renamed over `index`
  | tmpOpen (n : String) (tok : String)     -- vdir: `<n>.tmp` opened
  | tmpWrite (n : String) (tok : String)
  | renameTmp (n : String)                  -- `os.replace(<n>.tmp, <n>)`
  | unlink (n : String)
  | openInPlace (n : String) (tok : String) -- what the vdir metadata writers did before the repair
  | writeInPlace (n : String) (tok : String)
  deriving Repr

def Step.name : Step → String
  | .lockIndex => "lockIndex" | .wtOpen .. => "wtOpen" | .wtWrite .. => "wtWrite" | .wtUnlink .. => "wtUnlink"
  | .addObj .. => "addObj" | .addPack .. => "addPack" | .addPackIdx => "addPackIdx" | .lockRef => "lockRef"
  | .reflog => "reflog" | .setHead .. => "setHead" | .setIndex .. => "setIndex" | .tmpOpen .. => "tmpOpen"
  | .tmpWrite .. => "tmpWrite" | .renameTmp .. => "renameTmp" | .unlink .. => "unlink"
  | .openInPlace .. => "openInPlace" | .writeInPlace .. => "writeInPlace"

def apply (d : Disk) : Step → Disk
  | .lockIndex => { d with indexLock := true }
  | .wtOpen n t => { d with wt := setKey d.wt (.file n) ⟨t, false⟩ }
  | .wtWrite n t => { d with wt := setKey d.wt (.file n) ⟨t, true⟩ }
  | .wtUnlink n => { d with wt := delKey d.wt (.file n) }
  | .addObj o => { d with objs := o :: d.objs }
  | .addPack os => { d with pending := os }
  | .addPackIdx => { d with objs := d.pending ++ d.objs, pending := [] }
  | .lockRef => { d with refLock := true }
  | .reflog => { d with reflog := d.reflog + 1 }
  | .setHead c => { d with head := some c, refLock := false }
  | .setIndex idx => { d with index := idx, indexLock := false }
  | .tmpOpen n t => { d with wt := setKey d.wt (.tmp n) ⟨t, false⟩ }
  | .tmpWrite n t => { d with wt := setKey d.wt (.tmp n) ⟨t, true⟩ }
  | .renameTmp n =>
    match d.wt.lookup (.tmp n) with
    | some p => { d with wt := setKey (delKey d.wt (.tmp n)) (.file n) p }
    | none => d
  | .unlink n => { d with wt := delKey d.wt (.file n) }
  | .openInPlace n t => { d with wt := setKey d.wt (.file n) ⟨t, false⟩ }
  | .writeInPlace n t => { d with wt := setKey d.wt (.file n) ⟨t, true⟩ }

/-- trees are compared as sets of entries (git sorts them; the model keeps insertion order) -/
def sameEntries (a b : List (String × String)) : Bool :=
  a.all (fun e => b.contains e) && b.all (fun e => a.contains e)

def hasObj (objs : List Obj) : Obj → Bool
  | .tree es => objs.any fun o => match o with
      | .tree es' => sameEntries es es'
      | _ => false
  | o => objs.contains o

/-- does the step touch the disk?  dulwich does not rewrite a loose object that is there already
    (the model keeps the step, it is a no-op) -/
def effective (d : Disk) : Step → Bool
  | .addObj o => !hasObj d.objs o
  | _ => true

def run (d : Disk) (steps : List Step) : Disk := steps.foldl apply d

/-- the process dies after `k` micro-steps -/
def crash (d : Disk) (steps : List Step) (k : Nat) : Disk := run d (steps.take k)

/-! ### what a newly started server reads -/

def hasBlobs (objs : List Obj) (es : List (String × String)) : Bool :=
  es.all fun e => objs.contains (.blob e.2)

/-- tree store: the index names the members, the object store holds their bytes -/
def viewTree (d : Disk) : Option (List (String × String)) :=
  if hasBlobs d.objs d.index then some d.index else none

/-- bare store: ref → commit → tree → blobs -/
def viewBare (d : Disk) : Option (List (String × String)) :=
  match d.head with
  | none => some []
  | some c =>
    match c.treeOf with
    | some t => if d.objs.contains (.tree t) && hasBlobs d.objs t then some t else none
    | none => none

/-- vdir: every file of the directory but `*.tmp`; a file that is not complete does not read
    back as anything that was ever stored -/
def viewVdir (d : Disk) : Option (List (String × String)) :=
  let vis := d.wt.filterMap fun e => match e.1 with
    | .file n => some (n, e.2)
    | .tmp _ => none
  if vis.all (·.2.complete) then some (vis.map fun e => (e.1, e.2.tok)) else none

def view (k : Kind) (d : Disk) : Option (List (String × String)) :=
  match k with
  | .tree => viewTree d
  | .bare => viewBare d
  | .vdir => viewVdir d

/-- every object reachable from `o` is in the store -/
def closed (objs : List Obj) : Obj → Bool
  | .blob t => objs.contains (.blob t)
  | .tree es => objs.contains (.tree es) && hasBlobs objs es
  | .root t => objs.contains (.root t) && objs.contains (.tree t) && hasBlobs objs t
  | .commit t p =>
    objs.contains (.commit t p) && objs.contains (.tree t) && hasBlobs objs t && closed objs p

/-- no ref and no index entry names a missing object -/
def noDangling (d : Disk) : Bool :=
  hasBlobs d.objs d.index &&
    (match d.head with
     | none => true
     | some c => closed d.objs c)

/-! ### the plans -/

/-- `TreeGitStore._import_one(name, data)` -/
def treePut (d : Disk) (n tok : String) : List Step :=
  if d.index.lookup n = some tok then
    -- same bytes: no object, no commit; the index is written back as it was
    [.lockIndex, .wtOpen n tok, .wtWrite n tok, .setIndex d.index]
  else
    let idx := setKey d.index n tok
    let c := mkCommit idx d.head
    [.lockIndex, .wtOpen n tok, .wtWrite n tok, .addObj (.blob tok), .addObj (.tree idx), .addObj c,
     .lockRef, .reflog, .setHead c, .setIndex idx]

/-- `TreeGitStore.delete_one(name)` for an existing member -/
def treeDelete (d : Disk) (n : String) : List Step :=
  let idx := delKey d.index n
  let c := mkCommit idx d.head
  [.lockIndex, .wtUnlink n, .addObj (.tree idx), .addObj c, .lockRef, .reflog, .setHead c, .setIndex idx]

def headTree (d : Disk) : List (String × String) :=
  match d.head with
  | some c => c.treeOf.getD []
  | none => []

/-- `BareGitStore._import_one(name, data)` -/
def barePut (d : Disk) (n tok : String) : List Step :=
  let t := headTree d
  if t.lookup n = some tok then
    -- tree id unchanged: `add_objects` still writes its pack, but there is no commit
    [.addPack [.tree t, .blob tok], .addPackIdx]
  else
    let t' := setKey t n tok
    let c := mkCommit t' d.head
    [.addPack [.tree t', .blob tok], .addPackIdx, .addObj c, .lockRef, .reflog, .setHead c]

/-- `BareGitStore.delete_one(name)` for an existing member -/
def bareDelete (d : Disk) (n : String) : List Step :=
  let t' := delKey (headTree d) n
  let c := mkCommit t' d.head
  [.addPack [.tree t'], .addPackIdx, .addObj c, .lockRef, .reflog, .setHead c]

/-- `VdirStore.import_one` and, since the repair, the metadata writers -/
def vdirPut (n tok : String) : List Step := [.tmpOpen n tok, .tmpWrite n tok, .renameTmp n]

def vdirDelete (n : String) : List Step := [.unlink n]

/-- the metadata writers before the repair -/
def vdirPutInPlace (n tok : String) : List Step := [.openInPlace n tok, .writeInPlace n tok]

inductive Op
  | put (n tok : String)
  | delete (n : String)
  deriving Repr

def plan (k : Kind) (d : Disk) : Op → List Step
  | .put n tok => (match k with | .tree => treePut d n tok | .bare => barePut d n tok | .vdir => vdirPut n tok)
  | .delete n => (match k with | .tree => treeDelete d n | .bare => bareDelete d n | .vdir => vdirDelete n)

/-- the members after the completed operation -/
def after (v : List (String × String)) : Op → List (String × String)
  | .put n tok => setKey v n tok
  | .delete n => delKey v n

end Xandikos.Store.Crash
