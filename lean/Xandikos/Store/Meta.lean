/-
  Collection metadata kept in the versioned `.xandikos` file (`FileBasedCollectionMetadata`
  over `configparser`, see `store/config.py` and `GitStore.config`): every setter re-reads the
  file from the current tree, changes one option, writes the whole file back through
  `_import_one` (a commit iff the bytes change).

  The token of the metadata file is its text, prefixed with `cfg:` — so the `configparser`
  model (`Py/Ini.lean`) computes exactly the bytes that get stored.
-/
import Xandikos.Store.Model
import Xandikos.Py.Ini

namespace Xandikos.Store
open Xandikos.Py

def cfgTok (text : String) : String := String.ofList ('c' :: 'f' :: 'g' :: ':' :: text.toList)
def cfgText (tok : String) : String := String.ofList (tok.toList.drop 4)

theorem cfgText_cfgTok (t : String) : cfgText (cfgTok t) = t := by
  simp [cfgText, cfgTok]

/-- section and option holding a property -/
def metaLoc (key : String) : String × String :=
  if key == "order" then ("calendar", "order") else ("DEFAULT", key)

/-- `GitStore.config`: a fresh `ConfigParser` filled from the `.xandikos` blob, if any -/
def readConfig (s : St) : Except String Ini.Config :=
  match s.files[configName]? with
  | none => Ini.iniReadS false ""
  | some tok => Ini.iniReadS false (cfgText tok)

/-- `cp[sec][key] = value` (insertion order kept; replacing keeps the position) -/
def setItem (items : List (String × String)) (key value : String) : List (String × String) :=
  if items.any (·.1 == key) then items.map fun kv => if kv.1 == key then (key, value) else kv
  else items ++ [(key, value)]

def cfgSet (cfg : Ini.Config) (sec key value : String) : Ini.Config :=
  if cfg.any (·.1 == sec) then cfg.map fun s => if s.1 == sec then (sec, setItem s.2 key value) else s
  else cfg ++ [(sec, [(key, value)])]

/-- `del cp[sec][key]`: `none` is KeyError -/
def cfgDel (cfg : Ini.Config) (sec key : String) : Option Ini.Config :=
  match cfg.lookup sec with
  | some items =>
    if items.any (·.1 == key) then
      some (cfg.map fun s => if s.1 == sec then (sec, s.2.filter (·.1 != key)) else s)
    else none
  | none => none

inductive MetaOut | ok | failed
  deriving DecidableEq, Repr

/-- a setter succeeds iff the write of the metadata file does -/
def metaResult (r : St × Out) : St × MetaOut :=
  match r with
  | (s', .ok _) => (s', .ok)
  | (s', _) => (s', .failed)

/-- `store.set_displayname(v)` / `set_description` / `set_color` / `set_comment` /
    `config.set_order(v)`; `value = none` removes the option. -/
def setMeta (s : St) (key : String) (value : Option String) : St × MetaOut :=
  match readConfig s with
  | .error _ => (s, .failed)
  | .ok cfg =>
    let (sec, opt) := metaLoc key
    -- set_order() first makes sure the section exists
    let cfg₀ := if key == "order" && !(cfg.any (·.1 == "calendar")) then cfg ++ [("calendar", [])] else cfg
    let cfg' : Option Ini.Config := match value with
      | some v => some (cfgSet cfg₀ sec opt v)
      | none => cfgDel cfg₀ sec opt
    match cfg' with
    | none => (s, .failed)
    | some c => metaResult (writeOne s configName (cfgTok (Ini.iniWriteS c)))

/-- `store.get_displayname()` …: `none` when the option is absent -/
def getMeta (s : St) (key : String) : Option String :=
  match readConfig s with
  | .error _ => none
  | .ok cfg => let (sec, opt) := metaLoc key; Ini.iniGet cfg sec opt

end Xandikos.Store
