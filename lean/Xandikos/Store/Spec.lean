/-
  Abstract specification of a collection (readable in a minute) and the executable monitor
  that judges *observed implementation traces* against it.

  The spec is relational in the outcome: it does not say which writes are acknowledged, only
  what an acknowledged write does (C01) and which acknowledgements / refusals are allowed
  (C03, C06, C14).
-/
import Xandikos.Store.Model

namespace Xandikos.Store

/-- Effect of one request on the abstract contents, given how it was answered. -/
def Spec.apply (m : Map String) (op : Op) (o : Option Out) : Map String :=
  match op, o with
  | .put n _ _ _, some (.ok e) => m.insert n e
  | .del n _, some .deleted => m.erase n
  | _, _ => m

def Spec.run (m : Map String) : List Op → List (Option Out) → Map String
  | op :: ops, o :: os => Spec.run (Spec.apply m op o) ops os
  | _, _ => m

/-- The last acknowledged write to `n` in a history: `none` = never written,
    `some none` = deleted, `some (some e)` = content `e`. -/
def Spec.lastAck (n : String) : List Op → List (Option Out) → Option (Option String)
  | op :: ops, o :: os =>
    match Spec.lastAck n ops os with
    | some v => some v
    | none =>
      (match op, o with
       | .put n' _ _ _, some (.ok e) => if n' = n then some (some e) else none
       | .del n' _, some .deleted => if n' = n then some none else none
       | _, _ => none)
  | _, _ => none

/-- UIDs are unique among the listed calendar members. -/
def UniqueUids (env : Env) (k : Kind) (files : Map String) : Prop :=
  ∀ n₁ e₁ n₂ e₂ u, files[n₁]? = some e₁ → files[n₂]? = some e₂ →
    listed k n₁ = true → listed k n₂ = true →
    env.uid (hkOfName n₁) e₁ = some u → env.uid (hkOfName n₂) e₂ = some u → n₁ = n₂

/-- Some listed member other than `name` currently holds `u`. -/
def HeldByOther (env : Env) (k : Kind) (files : Map String) (name u : String) : Prop :=
  ∃ n e, n ≠ name ∧ files[n]? = some e ∧ listed k n = true ∧ env.uid (hkOfName n) e = some u

/-- executable version of `HeldByOther` -/
def heldByOther (env : Env) (k : Kind) (files : Map String) (name u : String) : Bool :=
  (blobsOf k files).any fun (n, e) => n != name && env.uid (hkOfName n) e == some u

/-- Which answers the properties allow for a request in abstract state `m`
    (`none` = allowed, `some why` = the clause that is broken). -/
def Spec.allowed (env : Env) (k : Kind) (m : Map String) (op : Op) (o : Option Out) :
    Option String :=
  match op, o with
  | .put n ct tok replace, some (.ok e) =>
    let hk := handlerFor ct n      -- the type the member is read back as (by extension if it names one)
    if !env.valid hk tok then some "C14:invalid-body-stored"
    else if e ≠ env.norm hk tok then some "C14:stored-not-normal-form"
    else if (match replace with | some r => decide (m[n]? ≠ some r) | none => false) then
      some "C03:replace-etag-mismatch-executed"
    else if (match env.uid hk tok with
             | some u => heldByOther env k m n u
             | none => false) then some "C06:duplicate-uid-accepted"
    else none
  | .put n ct tok _, some (.dupUid _) =>
    let hk := handlerFor ct n      -- the type the member is read back as (by extension if it names one)
    (match env.uid hk tok with
     | some u => if heldByOther env k m n u then none else some "C06:refused-without-holder"
     | none => some "C06:refused-without-uid")
  | .put n _ _ replace, some .badEtag =>
    (match replace with
     | some r => if m[n]? = some r then some "C03:matching-etag-refused" else none
     | none => some "C03:refused-without-condition")
  | .del n etag, some .deleted =>
    (match m[n]? with
     | none => some "C01:deleted-missing-member"
     | some cur => if etag.isSome && etag ≠ some cur then some "C03:etag-mismatch-executed" else none)
  | .del n etag, some .badEtag =>
    (match etag with
     | some r => if m[n]? = some r then some "C03:matching-etag-refused" else none
     | none => some "C03:refused-without-condition")
  | .del n _, some .noSuchItem =>
    if (m[n]?).isSome then some "C01:existing-member-reported-missing" else none
  | _, _ => none

end Xandikos.Store
