/-
  Query index: model of `store/index.py` (`MemoryIndex`, `AutoIndexManager`) and of
  `Store.iter_with_filter` / `_iter_with_filter_naive` / `_iter_with_filter_indexes`
  (`store/__init__.py:300-371`).

  What a filter needs (`index_keys`), what a file yields for a key (`get_indexes`) and the two
  evaluators (`check`, `check_from_indexes`) are parameters: the model is about the *state
  machine* — counters, threshold, reset, per-etag value cache, choice of path.
-/
import Xandikos.Base

namespace Xandikos.Store.Index
open Xandikos

/-- index values of one file for a list of keys: key ↦ list of values; the value type `V` is a
    parameter (opaque strings for the abstract state machine, `Ical.IVal` for the concrete
    iCalendar instance of `Theorems/C10Ical.lean`) -/
abbrev Values (V : Type) := List (String × List V)

structure Params (F V : Type) where
  /-- `filter.index_keys()`: AND-list of OR-options -/
  keysOf : F → List (List String)
  /-- `file.get_indexes(keys)` for the blob with this etag (a function of the content) -/
  getIdx : String → List String → Values V
  /-- `filter.check_from_indexes(name, values)` -/
  checkIdx : F → Values V → Bool
  /-- `filter.check(name, file)` -/
  checkNaive : F → String → Bool

/-- `MemoryIndex`: the available keys and, per etag in `_in_index`, the values that were added -/
structure MemIndex (V : Type) where
  keys : List String := []
  vals : Map (Values V) := ∅

/-- `AutoIndexManager` -/
structure Manager where
  desired : Map Nat := ∅
  threshold : Nat := 5

structure IState (V : Type) where
  idx : MemIndex V := {}
  mgr : Manager := {}

/-- `self.desired[key] += 1; if self.desired[key] > threshold: new_index_keys.add(key)` -/
def bump (threshold : Nat) (acc : List String × Map Nat) (k : String) : List String × Map Nat :=
  let c := (acc.2[k]?.getD 0) + 1
  (if c > threshold then (if acc.1.contains k then acc.1 else acc.1 ++ [k]) else acc.1, acc.2.insert k c)

/-- one AND-group of `find_present_keys`: either some of its keys are available (they are all
    "needed"), or every key of the group gets its counter bumped and the group is missing -/
def groupStep (avail : List String) (threshold : Nat)
    (acc : List String × List String × List String × Map Nat) (group : List String) :
    List String × List String × List String × Map Nat :=
  let found := group.filter fun k => avail.contains k
  if !found.isEmpty then (acc.1 ++ found, acc.2.1, acc.2.2.1, acc.2.2.2)
  else
    (acc.1, acc.2.1 ++ group, (group.foldl (bump threshold) (acc.2.2.1, acc.2.2.2)).1,
      (group.foldl (bump threshold) (acc.2.2.1, acc.2.2.2)).2)

/-- `AutoIndexManager.find_present_keys(necessary_keys)`: `some keys` = use the index -/
def findPresentKeys {V : Type} (s : IState V) (necessary : List (List String)) :
    IState V × Option (List String) :=
  let r := necessary.foldl (groupStep s.idx.keys s.mgr.threshold) ([], [], [], s.mgr.desired)
  let mgr' := { s.mgr with desired := r.2.2.2 }
  if r.2.1.isEmpty then ({ s with mgr := mgr' }, some r.1)
  else if !r.2.2.1.isEmpty then
    -- `index.reset(available | new)`: everything cached so far is dropped
    let ks := s.idx.keys ++ r.2.2.1.filter fun k => !s.idx.keys.contains k
    ({ idx := { keys := ks, vals := ∅ }, mgr := mgr' }, none)
  else ({ s with mgr := mgr' }, none)

/-- restriction of stored values to the requested keys (`MemoryIndex.get_values`) -/
def restrict {V : Type} (v : Values V) (keys : List String) : Values V :=
  keys.map fun k => (k, (v.lookup k).getD [])

/-- `_iter_with_filter_indexes` over the listed (name, etag) pairs -/
def iterIndexes {F V : Type} (P : Params F V) (f : F) (keys : List String)
    (idx : MemIndex V) : List (String × String) → MemIndex V × List String
  | [] => (idx, [])
  | (name, etag) :: rest =>
    match idx.vals[etag]? with
    | some v =>
      let (idx', out) := iterIndexes P f keys idx rest
      (idx', if P.checkIdx f (restrict v keys) then name :: out else out)
    | none =>
      -- not indexed yet: compute the values for *all* available keys and remember them
      let v := P.getIdx etag idx.keys
      let idx₁ := { idx with vals := idx.vals.insert etag v }
      let (idx', out) := iterIndexes P f keys idx₁ rest
      (idx', if P.checkIdx f v then name :: out else out)

def iterNaive {F V : Type} (P : Params F V) (f : F) (files : List (String × String)) : List String :=
  (files.filter fun p => P.checkNaive f p.2).map (·.1)

/-- `Store.iter_with_filter(filter)` on the listed members of the filter's content type -/
def iterWithFilter {F V : Type} (P : Params F V) (s : IState V) (f : F) (files : List (String × String)) :
    IState V × List String :=
  match findPresentKeys s (P.keysOf f) with
  | (s', some keys) =>
    let (idx', out) := iterIndexes P f keys s'.idx files
    ({ s' with idx := idx' }, out)
  | (s', none) => (s', iterNaive P f files)

end Xandikos.Store.Index
