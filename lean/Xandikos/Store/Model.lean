/-
  Executable model of the three xandikos stores (store API level).

  Mirrors, line by line where it matters:
    xandikos/store/git.py   : GitStore._check_duplicate, import_one, _scan_uids, iter_changes,
                              BareGitStore._import_one/delete_one/get_ctag,
                              TreeGitStore._import_one/delete_one/get_ctag
    xandikos/store/vdir.py  : VdirStore._scan_uids, _check_duplicate, import_one, delete_one,
                              iter_with_etag
  Third-party libraries are parameters (`Env`): a body is an opaque token, and the facts the
  code asks the libraries about it (does it validate, which UID, which normal form, does it
  parse) are supplied from outside.  An ETag is modelled as the token of the stored bytes
  (content addressing: git blob id / md5 of the file), a tree id / ctag as the map of entries.
-/
import Xandikos.Base

namespace Xandikos.Store

inductive Kind | bare | tree | vdir
  deriving DecidableEq, Repr, Inhabited

/-- Which file handler class opens a body: `ICalendarFile`, `VCardFile` or the base `File`. -/
inductive HKind | ical | vcard | plain
  deriving DecidableEq, Repr, Inhabited

/-- What the libraries say about a body token opened with a given handler. -/
structure Env where
  /-- `validate()` does not raise. -/
  valid  : HKind → String → Bool
  /-- the handler can parse the body at all (`.calendar` does not raise `InvalidFileContents`). -/
  parses : HKind → String → Bool
  /-- `get_uid()`; `none` stands for KeyError / NotImplementedError / InvalidFileContents. -/
  uid    : HKind → String → Option String
  /-- token of `b"".join(normalized())`. -/
  norm   : HKind → String → String

/-- `open_by_content_type`: `content_type.split(";")[0]` looked up in `extra_file_handlers`. -/
def hkOfCtype (ct : String) : HKind :=
  let base := (ct.splitOn ";").headD ""
  if base = "text/calendar" then .ical
  else if base = "text/vcard" then .vcard
  else .plain

/-- `open_by_extension`: `mimetypes.guess_type(name)` restricted to the two registered types
    (the extension is matched case-insensitively, as CPython does on the second attempt). -/
def hkOfName (n : String) : HKind :=
  let l := n.toLower
  if l.endsWith ".ics" then .ical
  else if l.endsWith ".vcf" then .vcard
  else .plain

def configName : String := ".xandikos"

/-- UID cache, `_fname_to_uid` and `_uid_to_fname`. -/
structure Cache where
  f2u : Map (String × Option String) := ∅
  u2f : Map (String × String) := ∅

structure St where
  kind     : Kind
  /-- git: entries of the current tree / index (config file included); vdir: regular files of
      the directory. name ↦ token of the stored bytes (= ETag). -/
  files    : Map String := ∅
  /-- tree store only: the working-tree files. -/
  worktree : Map String := ∅
  /-- git only: tree of every commit on the branch, oldest first. -/
  commits  : List (Map String) := []
  /-- git only: tree objects known to be in the object store (what a sync token may name). -/
  objs     : List (Map String) := []
  cache    : Cache := {}
  /-- tree store only: a stale `index.lock` is present (only a crash leaves one behind). -/
  locked   : Bool := false

instance : Inhabited St := ⟨{ kind := .bare }⟩

def init (k : Kind) : St := { kind := k }

/-- vdir lists only `*.ics` / `*.vcf`, never `*.tmp` nor the config file
    (`VdirStore.iter_with_etag`); git lists every entry but the config file (`_iterblobs`). -/
def listed (k : Kind) (n : String) : Bool :=
  match k with
  | .vdir => !n.endsWith ".tmp" && n != configName && (n.endsWith ".ics" || n.endsWith ".vcf")
  | _ => n != configName

/-- `iter_with_etag()` without a ctag: (name, etag) in name order. -/
def blobsOf (k : Kind) (files : Map String) : List (String × String) :=
  files.toList.filter (fun p => listed k p.1)

def St.blobs (s : St) : List (String × String) := blobsOf s.kind s.files

/-- `_get_etag(name)`: any entry of the tree / any file of the directory. -/
def St.etag (s : St) (n : String) : Option String := s.files[n]?

/-! ### UID cache (`_scan_uids`) -/

/-- `_forget_uid(name, uid)`: drop the mapping of `uid` if it still points at `name`. -/
def forget (u2f : Map (String × String)) (name : String) (ou : Option String) :
    Map (String × String) :=
  match ou with
  | some u =>
    (match u2f[u]? with
     | some (n', _) => if n' = name then u2f.erase u else u2f
     | none => u2f)
  | none => u2f

/-- `if uid is not None: self._uid_to_fname[uid] = (name, etag)` -/
def remember (u2f : Map (String × String)) (name etag : String) (uid : Option String) :
    Map (String × String) :=
  match uid with
  | some u => u2f.insert u (name, etag)
  | none => u2f

/-- body of the first loop of `_scan_uids` for one listed blob: skip it if the cached etag is
    current; otherwise forget the UID the name used to hold, read the new UID, record both. -/
def scanStep (env : Env) (c : Cache) (p : String × String) : Cache :=
  let old := c.f2u[p.1]?
  if old.map (·.1) = some p.2 then c
  else
    let uid := env.uid (hkOfName p.1) p.2
    { f2u := c.f2u.insert p.1 (p.2, uid)
      u2f := remember (forget c.u2f p.1 (old.bind (·.2))) p.1 p.2 uid }

/-- body of the second loop of `_scan_uids` for one vanished name. -/
def dropStep (c : Cache) (name : String) : Cache :=
  match c.f2u[name]? with
  | some (_, ou) => { f2u := c.f2u.erase name, u2f := forget c.u2f name ou }
  | none => c

def scanUids (env : Env) (blobs : List (String × String)) (c : Cache) : Cache :=
  let removed := c.f2u.keys.filter (fun n => !(blobs.any (fun p => p.1 == n)))
  let c₁ := blobs.foldl (scanStep env) c
  removed.foldl dropStep c₁

/-! ### Results -/

inductive Out
  | ok (etag : String)      -- import_one returned (name, etag)
  | deleted                 -- delete_one returned
  | invalid                 -- InvalidFileContents
  | dupUid (existing : String) -- DuplicateUidError (name of the holder)
  | badEtag                 -- InvalidETag
  | noSuchItem              -- NoSuchItem
  | locked                  -- LockedError
  | failed                  -- any other exception (never produced by the model)
  deriving DecidableEq, Repr, Inhabited

def Out.isOk : Out → Bool
  | .ok _ => true
  | .deleted => true
  | _ => false

/-! ### Writes -/

/-- which handler class opens an upload (`store.open_for_import`): the one the item will be read
    back with — by extension when the extension selects a specific type (whatever content type
    the client declared), otherwise by the declared content type -/
def handlerFor (ct : Option String) (name : String) : HKind :=
  if hkOfName name ≠ .plain then hkOfName name
  else match ct with
    | some c => hkOfCtype c
    | none => .plain

/-- the UID part of `_check_duplicate`, on the refreshed cache -/
def dupError (c : Cache) (uid : Option String) (name : String) : Option Out :=
  match uid with
  | some u =>
    (match c.u2f[u]? with
     | some (existing, _) => if existing = name then none else some (.dupUid existing)
     | none => none)
  | none => none

/-- the `replace_etag` part of `_check_duplicate` -/
def etagError (cur replace : Option String) : Option Out :=
  match replace with
  | some r => if cur = some r then none else some .badEtag
  | none => none

/-- `_scan_uids()` is only called when the upload has a UID -/
def refreshCache (env : Env) (s : St) (uid : Option String) : Cache :=
  match uid with
  | some _ => scanUids env s.blobs s.cache
  | none => s.cache

/-- `_check_duplicate`: the refreshed cache and either a refusal or nothing. -/
def checkDuplicate (env : Env) (s : St) (uid : Option String) (name : String)
    (replace : Option String) : Cache × Option Out :=
  let c := refreshCache env s uid
  match dupError c uid name with
  | some e => (c, some e)
  | none => (c, etagError (s.etag name) replace)

/-- record a tree object as present in the object store -/
def addObj (objs : List (Map String)) (t : Map String) : List (Map String) :=
  if objs.contains t then objs else objs ++ [t]

/-- `do_commit(tree=…)`: write the tree object and append one commit whose tree it is. -/
def commit (s : St) (files' : Map String) : St :=
  { s with files := files', objs := addObj s.objs files', commits := s.commits ++ [files'] }

/-- `if tree.id != old_tree_id` (bare) / `if name not in index or blob.id != index[name].sha`
    (tree): commit only when the stored tree really changes. -/
def commitIfChanged (s : St) (files' : Map String) : St :=
  if files' = s.files then s else commit s files'

/-- `_import_one` for each store kind: `content` is the token of the normalised bytes. -/
def writeOne (s : St) (name content : String) : St × Out :=
  match s.kind with
  | .bare => (commitIfChanged s (s.files.insert name content), .ok content)
  | .tree =>
    if s.locked then (s, .locked)
    else
      -- the working-tree file is (re)written first, then index + commit if the blob differs
      (commitIfChanged { s with worktree := s.worktree.insert name content }
        (s.files.insert name content), .ok content)
  | .vdir => ({ s with files := s.files.insert name content }, .ok content)

/-- git stores build the commit message from the previous version, opened with the *new*
    handler (`get_file(name, content_type, replace_etag)` + `describe_delta`); an unparseable
    previous version makes that raise `InvalidFileContents`. vdir writes no message. -/
def oldUnreadable (env : Env) (s : St) (hk : HKind) (name : String) : Bool :=
  match s.kind with
  | .vdir => false
  | _ =>
    (match s.etag name with
     | some old => hk == .ical && !env.parses .ical old
     | none => false)

/-- `import_one(name, content_type, data, replace_etag=…)` with no explicit commit message.
    `ct = none` stands for `content_type=None` (handler chosen by extension). -/
def importOne (env : Env) (s : St) (name : String) (ct : Option String) (tok : String)
    (replace : Option String) : St × Out :=
  let hk := handlerFor ct name
  if env.valid hk tok = false then (s, .invalid)
  else
    let cd := checkDuplicate env s (env.uid hk tok) name replace
    let s₁ := { s with cache := cd.1 }
    match cd.2 with
    | some err => (s₁, err)
    | none =>
      if oldUnreadable env s hk name then (s₁, .invalid)
      else writeOne s₁ name (env.norm hk tok)

/-- `delete_one(name, etag=…)` with no explicit commit message. -/
def deleteOne (s : St) (name : String) (etag : Option String) : St × Out :=
  -- bare git looks the name up in the tree, the tree store reads the working-tree file,
  -- vdir stats the file
  let cur := match s.kind with
    | .tree => s.worktree[name]?
    | _ => s.files[name]?
  match cur with
  | none => (s, .noSuchItem)
  | some c =>
    if etag.isSome && etag ≠ some c then (s, .badEtag)
    else
      match s.kind with
      | .bare => (commit s (s.files.erase name), .deleted)
      | .tree =>
        if s.locked then (s, .locked)
        else (commit { s with worktree := s.worktree.erase name } (s.files.erase name), .deleted)
      | .vdir => ({ s with files := s.files.erase name }, .deleted)

/-! ### Reads -/

/-- `get_file(name).content` (no etag given): the stored token. -/
def St.get (s : St) (name : String) : Option String := s.files[name]?

/-- `get_ctag()`: the tree itself (content addressed).  vdir has none.  The tree store writes
    the tree object as a side effect (`index.commit(object_store)`). -/
def getCtag (s : St) : St × Option (Map String) :=
  match s.kind with
  | .vdir => (s, none)
  | .bare => (s, some s.files)
  | .tree => ({ s with objs := addObj s.objs s.files }, some s.files)

inductive Change
  | changed (name : String) (old : Option String) (new : String)
  | removed (name : String) (old : String)
  deriving DecidableEq, Repr

/-- `iter_changes(old_ctag, new_ctag)` on two trees: entries of `new` that differ from `old`,
    then entries of `old` that are gone; the config file is never listed. -/
def diffTrees (old new : Map String) : List Change :=
  let o := blobsOf .bare old
  let n := blobsOf .bare new
  (n.filterMap fun (name, e) =>
      if old[name]? = some e then none else some (.changed name old[name]? e))
  ++ (o.filterMap fun (name, e) =>
      if (new[name]?).isSome then none else some (.removed name e))

/-- `iter_changes` with the token checks of `_iterblobs(ctag)`: a token that names no tree
    object raises `InvalidCTag`; `old = none` is the empty tree (which gets written). -/
def iterChanges (s : St) (old : Option (Map String)) (new : Map String) :
    St × Option (List Change) :=
  match s.kind with
  | .vdir => (s, none)
  | _ =>
    let (s₁, o) : St × Map String := match old with
      | none => ({ s with objs := addObj s.objs ∅ }, ∅)
      | some t => (s, t)
    if s₁.objs.contains o && s₁.objs.contains new then (s₁, some (diffTrees o new))
    else (s₁, none)

/-- A new process opens the same storage: the caches are gone, everything on disk stays. -/
def restart (s : St) : St := { s with cache := {} }

/-! ### Operation language (what the driver and the theorems run) -/

inductive Op
  | put (name : String) (ct : Option String) (tok : String) (replace : Option String)
  | del (name : String) (etag : Option String)
  | ctag
  | restart
  deriving Repr

def step (env : Env) (s : St) : Op → St × Option Out
  | .put n ct t r => let (s', o) := importOne env s n ct t r; (s', some o)
  | .del n e => let (s', o) := deleteOne s n e; (s', some o)
  | .ctag => ((getCtag s).1, none)
  | .restart => (restart s, none)

def run (env : Env) (s : St) : List Op → St × List (Option Out)
  | [] => (s, [])
  | op :: ops =>
    let (s₁, o) := step env s op
    let (s₂, os) := run env s₁ ops
    (s₂, o :: os)

end Xandikos.Store
