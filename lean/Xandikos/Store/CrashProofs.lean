/-
  Lemmas for the crash model: adding objects never hides anything, and the objects an operation
  writes make its new index / commit closed.
-/
import Xandikos.Store.Crash

namespace Xandikos.Store.Crash

theorem hasBlobs_iff (objs : List Obj) (es : List (String × String)) :
    hasBlobs objs es = true ↔ ∀ e ∈ es, Obj.blob e.2 ∈ objs := by
  simp [hasBlobs, List.all_eq_true]

theorem hasBlobs_mono {objs objs' : List Obj} (h : ∀ o ∈ objs, o ∈ objs') {es : List (String × String)}
    (he : hasBlobs objs es = true) : hasBlobs objs' es = true := by
  rw [hasBlobs_iff] at he ⊢
  exact fun e hm => h _ (he e hm)

theorem mem_setKey {κ α : Type} [BEq κ] (l : List (κ × α)) (k : κ) (v : α) (e : κ × α)
    (h : e ∈ setKey l k v) : e ∈ l ∨ e = (k, v) := by
  induction l with
  | nil => simp [setKey] at h; exact Or.inr h
  | cons x t ih =>
    unfold setKey at h
    split at h
    · rcases List.mem_cons.mp h with h | h
      · exact Or.inr h
      · exact Or.inl (List.mem_cons_of_mem _ h)
    · rcases List.mem_cons.mp h with h | h
      · exact Or.inl (by simp [h])
      · rcases ih h with h | h
        · exact Or.inl (List.mem_cons_of_mem _ h)
        · exact Or.inr h

theorem mem_delKey {κ α : Type} [BEq κ] (l : List (κ × α)) (k : κ) (e : κ × α)
    (h : e ∈ delKey l k) : e ∈ l := (List.mem_filter.mp h).1

theorem hasBlobs_setKey {objs : List Obj} {es : List (String × String)} (n tok : String)
    (he : hasBlobs objs es = true) (hb : Obj.blob tok ∈ objs) : hasBlobs objs (setKey es n tok) = true := by
  rw [hasBlobs_iff] at he ⊢
  intro e hm
  rcases mem_setKey _ _ _ _ hm with h | rfl
  · exact he e h
  · exact hb

theorem hasBlobs_delKey {objs : List Obj} {es : List (String × String)} (n : String)
    (he : hasBlobs objs es = true) : hasBlobs objs (delKey es n) = true := by
  rw [hasBlobs_iff] at he ⊢
  exact fun e hm => he e (mem_delKey _ _ _ hm)

theorem closed_mono {objs objs' : List Obj} (h : ∀ o ∈ objs, o ∈ objs') (c : Obj)
    (hc : closed objs c = true) : closed objs' c = true := by
  induction c with
  | blob t => simp only [closed, List.contains_iff_mem] at hc ⊢; exact h _ hc
  | tree es =>
    simp only [closed, Bool.and_eq_true, List.contains_iff_mem] at hc ⊢
    exact ⟨h _ hc.1, hasBlobs_mono h hc.2⟩
  | root t =>
    simp only [closed, Bool.and_eq_true, List.contains_iff_mem] at hc ⊢
    exact ⟨⟨h _ hc.1.1, h _ hc.1.2⟩, hasBlobs_mono h hc.2⟩
  | commit t p ih =>
    simp only [closed, Bool.and_eq_true, List.contains_iff_mem] at hc ⊢
    exact ⟨⟨⟨h _ hc.1.1.1, h _ hc.1.1.2⟩, hasBlobs_mono h hc.1.2⟩, ih hc.2⟩

/-- the commit an operation creates is closed once its tree and blobs are in the store and the
    previous head was -/
theorem closed_mkCommit {objs : List Obj} (t : List (String × String)) (head : Option Obj)
    (hself : mkCommit t head ∈ objs) (htree : Obj.tree t ∈ objs) (hb : hasBlobs objs t = true)
    (hh : ∀ c, head = some c → closed objs c = true) : closed objs (mkCommit t head) = true := by
  cases head with
  | none =>
    simp only [mkCommit, closed, Bool.and_eq_true, List.contains_iff_mem]
    exact ⟨⟨hself, htree⟩, hb⟩
  | some p =>
    simp only [mkCommit, closed, Bool.and_eq_true, List.contains_iff_mem]
    exact ⟨⟨⟨hself, htree⟩, hb⟩, hh p rfl⟩

theorem treeOf_mkCommit (t : List (String × String)) (head : Option Obj) : (mkCommit t head).treeOf = some t := by
  cases head <;> rfl

/-- what `noDangling` gives about the head -/
theorem noDangling_iff (d : Disk) :
    noDangling d = true ↔ hasBlobs d.objs d.index = true ∧ ∀ c, d.head = some c → closed d.objs c = true := by
  unfold noDangling
  cases d.head with
  | none => simp
  | some c => simp

end Xandikos.Store.Crash
