/-
  Collection properties read back as written (C15, versioned `.xandikos` back end):
  built on the `configparser` round-trip theorem (`Py/IniProofs.lean`).
-/
import Xandikos.Store.Meta
import Xandikos.Py.IniProofs
import Xandikos.Store.Lemmas

namespace Xandikos.Store
open Xandikos.Py Xandikos.Py.Ini

/-- the stored metadata file is what `configparser` writes for a well-formed config with safe
    values (or there is no metadata file yet) -/
def CfgInv (s : St) : Prop :=
  s.files[configName]? = none ∨
  ∃ cfg, WellFormed cfg ∧ SafeValues cfg ∧ s.files[configName]? = some (cfgTok (iniWriteS cfg))

theorem readConfig_of_inv (s : St) (h : CfgInv s) :
    ∃ cfg, WellFormed cfg ∧ SafeValues cfg ∧ readConfig s = .ok cfg := by
  rcases h with h | ⟨cfg, hw, hs, hf⟩
  · refine ⟨[("DEFAULT", [])], by decide, by decide, ?_⟩
    unfold readConfig; rw [h]
    have := ini_roundtrip false [("DEFAULT", [])] (by decide) (by decide)
    simpa [iniReadS, iniWrite, iniWriteL, Config.toL, DEFAULT] using this
  · refine ⟨cfg, hw, hs, ?_⟩
    unfold readConfig; rw [hf]
    simp only [cfgText_cfgTok, iniReadS, iniWriteS, String.toList_ofList]
    exact ini_roundtrip false cfg hw hs

/-! ### `setItem` -/

theorem lookup_map_replace (l : List (String × String)) (k v k' : String) :
    (l.map fun kv => if kv.1 == k then (k, v) else kv).lookup k' =
      if k' = k then (if l.any (fun x => x.1 == k) then some v else none) else l.lookup k' := by
  induction l with
  | nil => by_cases h : k' = k <;> simp [h]
  | cons kv rest ih =>
    obtain ⟨a, b⟩ := kv
    by_cases hak : a = k
    · subst hak
      by_cases h : k' = a
      · subst h; simp [List.lookup_cons]
      · have h' : (k' == a) = false := by simp [h]
        simp only [List.map_cons, beq_self_eq_true, ↓reduceIte, List.lookup_cons, h', h] at ih ⊢
        exact ih
    · have hak' : (a == k) = false := by simp [hak]
      by_cases h : k' = a
      · subst h
        simp [List.lookup_cons, hak', hak]
      · have h' : (k' == a) = false := by simp [h]
        simp only [List.map_cons, hak', Bool.false_eq_true, ↓reduceIte, List.lookup_cons, h',
          List.any_cons, Bool.false_or] at ih ⊢
        exact ih

theorem lookup_append_single (l : List (String × String)) (k v k' : String) :
    (l ++ [(k, v)]).lookup k' = match l.lookup k' with
      | some x => some x
      | none => if k' = k then some v else none := by
  induction l with
  | nil =>
    by_cases h : k' = k
    · subst h; simp [List.lookup_cons]
    · have h' : (k' == k) = false := by simp [h]
      simp [List.lookup_cons, h, h']
  | cons kv rest ih =>
    obtain ⟨a, b⟩ := kv
    by_cases h : k' = a
    · subst h; simp [List.lookup_cons]
    · have h' : (k' == a) = false := by simp [h]
      simp only [List.cons_append, List.lookup_cons, h']
      exact ih

theorem lookup_none_of_not_any (l : List (String × String)) (k : String)
    (h : ¬ l.any (fun x => x.1 == k) = true) : l.lookup k = none := by
  induction l with
  | nil => rfl
  | cons kv rest ih =>
    obtain ⟨a, b⟩ := kv
    simp only [List.any_cons, Bool.or_eq_true, not_or] at h
    have h' : (k == a) = false := by
      have : ¬ (a == k) = true := h.1
      simp at this; simp [Ne.symm this]
    simp only [List.lookup_cons, h']
    exact ih h.2

theorem setItem_lookup (items : List (String × String)) (k v k' : String) :
    (setItem items k v).lookup k' = if k' = k then some v else items.lookup k' := by
  unfold setItem
  by_cases hany : items.any (fun x => x.1 == k) = true
  · simp only [hany, ↓reduceIte]
    rw [lookup_map_replace]; simp [hany]
  · simp only [hany, Bool.false_eq_true, ↓reduceIte]
    rw [lookup_append_single]
    by_cases h : k' = k
    · subst h; simp [lookup_none_of_not_any items k' hany]
    · simp only [h, ↓reduceIte]
      cases items.lookup k' <;> rfl

theorem setItem_keys (items : List (String × String)) (k v : String) (ks : List String)
    (hk : k ∈ ks) (h : KeysIn ks items) : KeysIn ks (setItem items k v) := by
  obtain ⟨h1, h2⟩ := h
  unfold setItem
  by_cases hany : items.any (fun x => x.1 == k) = true
  · simp only [hany, ↓reduceIte]
    have hmap : (items.map fun kv => if kv.1 == k then (k, v) else kv).map (·.1) = items.map (·.1) := by
      rw [List.map_map]
      apply List.map_congr_left
      intro kv _
      by_cases hkv : kv.1 = k
      · simp [hkv]
      · simp [hkv]
    constructor
    · intro kv hkv
      rw [List.mem_map] at hkv
      obtain ⟨kv0, hm, rfl⟩ := hkv
      by_cases hkv : kv0.1 = k
      · simp [hkv, hk]
      · have : (kv0.1 == k) = false := by simp [hkv]
        simp only [this, Bool.false_eq_true, ↓reduceIte]; exact h1 kv0 hm
    · rw [hmap]; exact h2
  · simp only [hany, Bool.false_eq_true, ↓reduceIte]
    constructor
    · intro kv hkv
      rw [List.mem_append] at hkv
      rcases hkv with hkv | hkv
      · exact h1 kv hkv
      · simp at hkv; subst hkv; exact hk
    · rw [List.map_append, List.nodup_append]
      refine ⟨h2, by simp, ?_⟩
      intro a ha b hb
      simp at hb; subst hb
      intro hab; subst hab
      apply hany
      rw [List.mem_map] at ha
      obtain ⟨kv, hm, hkv⟩ := ha
      exact List.any_eq_true.mpr ⟨kv, hm, by simp [hkv]⟩

theorem setItem_safe (items : List (String × String)) (k v : String)
    (hv : SafeValue v.toList) (h : ∀ kv ∈ items, SafeValue kv.2.toList) :
    ∀ kv ∈ setItem items k v, SafeValue kv.2.toList := by
  unfold setItem
  intro kv hkv
  split at hkv
  · rw [List.mem_map] at hkv
    obtain ⟨kv0, hm, rfl⟩ := hkv
    split
    · exact hv
    · exact h kv0 hm
  · rw [List.mem_append] at hkv
    rcases hkv with hkv | hkv
    · exact h kv hkv
    · simp at hkv; subst hkv; exact hv

/-! ### `cfgSet` on the two shapes a metadata file can have -/

theorem readConfig_of_file (s : St) (cfg : Config) (hw : WellFormed cfg) (hs : SafeValues cfg)
    (hf : s.files[configName]? = some (cfgTok (iniWriteS cfg))) : readConfig s = .ok cfg := by
  unfold readConfig; rw [hf]
  simp only [cfgText_cfgTok, iniReadS, iniWriteS, String.toList_ofList]
  exact ini_roundtrip false cfg hw hs

/-- what `cfgSet` does to a well-formed config when a DEFAULT key is set -/
theorem cfgSet_default (cfg : Config) (hw : WellFormed cfg) (hs : SafeValues cfg) (k v : String)
    (hk : k ∈ defaultKeys) (hv : SafeValue v.toList) :
    WellFormed (cfgSet cfg "DEFAULT" k v) ∧ SafeValues (cfgSet cfg "DEFAULT" k v) ∧
    (∀ k', iniGet (cfgSet cfg "DEFAULT" k v) "DEFAULT" k' =
        if k' = k then some v else iniGet cfg "DEFAULT" k') ∧
    (∀ k', iniGet (cfgSet cfg "DEFAULT" k v) "calendar" k' = iniGet cfg "calendar" k') := by
  match cfg, hw with
  | [(n, d)], hw =>
    obtain ⟨rfl, hd⟩ := hw
    have e : cfgSet [("DEFAULT", d)] "DEFAULT" k v = [("DEFAULT", setItem d k v)] := by
      simp [cfgSet]
    rw [e]
    refine ⟨⟨rfl, setItem_keys d k v _ hk hd⟩, ?_, ?_, ?_⟩
    · intro sct hsct kv hkv
      simp at hsct; subst hsct
      exact setItem_safe d k v hv (fun kv h => hs ("DEFAULT", d) (by simp) kv h) kv hkv
    · intro k'; simp [iniGet, List.lookup_cons, setItem_lookup]
    · intro k'
      have h1 : ("calendar" == "DEFAULT") = false := by decide
      simp [iniGet, List.lookup_cons, h1]
  | [(n, d), (m, c)], hw =>
    obtain ⟨rfl, rfl, hd, hc⟩ := hw
    have h1 : ("calendar" == "DEFAULT") = false := by decide
    have e : cfgSet [("DEFAULT", d), ("calendar", c)] "DEFAULT" k v
        = [("DEFAULT", setItem d k v), ("calendar", c)] := by
      simp [cfgSet, h1]
    rw [e]
    refine ⟨⟨rfl, rfl, setItem_keys d k v _ hk hd, hc⟩, ?_, ?_, ?_⟩
    · intro sct hsct kv hkv
      simp at hsct
      rcases hsct with rfl | rfl
      · exact setItem_safe d k v hv (fun kv h => hs ("DEFAULT", d) (by simp) kv h) kv hkv
      · exact hs ("calendar", c) (by simp) kv hkv
    · intro k'; simp [iniGet, List.lookup_cons, setItem_lookup]
    · intro k'; simp [iniGet, List.lookup_cons, h1]

/-- **A property that was set reads back exactly as written, the others are untouched, and so
    is every member** (store level, versioned metadata file): for every key of the DEFAULT
    section and every safe value — any text without leading/trailing white space or CR whose
    continuation lines do not start with `#`/`;`, including `%`, quotes, brackets, `#`, `=`,
    `:` and non-ASCII. -/
theorem set_then_get (s : St) (hinv : CfgInv s) (k v : String) (hk : k ∈ defaultKeys)
    (hv : SafeValue v.toList) (hok : (setMeta s k (some v)).2 = .ok) :
    getMeta (setMeta s k (some v)).1 k = some v ∧
    (∀ k', k' ≠ k → getMeta (setMeta s k (some v)).1 k' = getMeta s k') ∧
    CfgInv (setMeta s k (some v)).1 ∧
    (∀ n, n ≠ configName → (setMeta s k (some v)).1.files[n]? = s.files[n]?) := by
  obtain ⟨cfg, hw, hs, hr⟩ := readConfig_of_inv s hinv
  have hko : (k == "order") = false := by
    have : k ≠ "order" := by intro e; subst e; revert hk; decide
    simp [this]
  obtain ⟨hw', hs', hget, hcal⟩ := cfgSet_default cfg hw hs k v hk hv
  have hstep : setMeta s k (some v) =
      metaResult (writeOne s configName (cfgTok (iniWriteS (cfgSet cfg "DEFAULT" k v)))) := by
    unfold setMeta
    simp [hr, metaLoc, hko]
  rw [hstep] at hok ⊢
  rcases writeOne_files s configName (cfgTok (iniWriteS (cfgSet cfg "DEFAULT" k v))) with ⟨ho, hf⟩ | ⟨ho, _⟩
  · -- acknowledged: the file now holds the new config
    have hs'file : (writeOne s configName (cfgTok (iniWriteS (cfgSet cfg "DEFAULT" k v)))).1.files[configName]?
        = some (cfgTok (iniWriteS (cfgSet cfg "DEFAULT" k v))) := by rw [hf]; simp
    generalize hwo : writeOne s configName (cfgTok (iniWriteS (cfgSet cfg "DEFAULT" k v))) = wo at *
    obtain ⟨s', o⟩ := wo
    simp only [] at ho hf hs'file
    subst ho
    simp only [metaResult]
    have hr' : readConfig s' = .ok (cfgSet cfg "DEFAULT" k v) := readConfig_of_file s' _ hw' hs' hs'file
    refine ⟨?_, ?_, Or.inr ⟨_, hw', hs', hs'file⟩, ?_⟩
    · unfold getMeta; rw [hr']; simp [metaLoc, hko, hget]
    · intro k' hne
      unfold getMeta; rw [hr', hr]
      by_cases hk'o : k' = "order"
      · subst hk'o; simp [metaLoc, hcal]
      · have : (k' == "order") = false := by simp [hk'o]
        simp [metaLoc, this, hget, hne]
    · intro n hn
      rw [hf, Map.get_insert_ne _ _ (Ne.symm hn)]
  · -- locked: not acknowledged
    generalize hwo : writeOne s configName (cfgTok (iniWriteS (cfgSet cfg "DEFAULT" k v))) = wo at *
    obtain ⟨s', o⟩ := wo
    simp only [] at ho
    subst ho
    simp [metaResult] at hok

/-- non-vacuity: a display name full of configuration-file metacharacters is a safe value -/
example : SafeValue "50% off [x] = y; z # w : \"q\" %(color)s é".toList := by decide

end Xandikos.Store
