/-
  UID uniqueness at the store level (C06), built on the cache exactness theorem.
-/
import Xandikos.Store.CacheProofs
import Xandikos.Store.Lemmas

namespace Xandikos.Store
open Xandikos

/-! ### listing = filtered view of the file map -/

theorem blobsOf_nodup (k : Kind) (files : Map String) :
    ((blobsOf k files).map Prod.fst).Nodup := by
  unfold blobsOf
  have h := (Std.ExtTreeMap.distinct_keys_toList (t := files)).filter (fun p => listed k p.1)
  rw [List.Nodup, List.pairwise_map]
  refine h.imp ?_
  intro a b hab heq
  apply hab
  simp [Std.LawfulEqCmp.compare_eq_iff_eq, heq]

theorem blobsOf_mem (k : Kind) (files : Map String) (n e : String) :
    (n, e) ∈ blobsOf k files ↔ files[n]? = some e ∧ listed k n = true := by
  unfold blobsOf
  rw [List.mem_filter, Map.mem_toList]

theorem blobsOf_lookup (k : Kind) (files : Map String) (n e : String) :
    (blobsOf k files).lookup n = some e ↔ files[n]? = some e ∧ listed k n = true := by
  rw [← blobsOf_mem]
  constructor
  · exact mem_of_lookup
  · intro h; exact lookup_of_mem_nodup (blobsOf_nodup k files) h

/-- `UniqueL` of the listing is the `UniqueUids` of the spec. -/
theorem uniqueL_iff (env : Env) (k : Kind) (files : Map String) :
    UniqueL env (blobsOf k files) ↔ UniqueUids env k files := by
  unfold UniqueL UniqueUids
  constructor
  · intro h n₁ e₁ n₂ e₂ u h1 h2 l1 l2 u1 u2
    exact h n₁ e₁ n₂ e₂ u ((blobsOf_lookup ..).mpr ⟨h1, l1⟩) ((blobsOf_lookup ..).mpr ⟨h2, l2⟩) u1 u2
  · intro h n₁ e₁ n₂ e₂ u h1 h2 u1 u2
    obtain ⟨a1, b1⟩ := (blobsOf_lookup ..).mp h1
    obtain ⟨a2, b2⟩ := (blobsOf_lookup ..).mp h2
    exact h n₁ e₁ n₂ e₂ u a1 a2 b1 b2 u1 u2

/-! ### the store invariant -/

structure UidInv (env : Env) (s : St) : Prop where
  cache : CacheOK env s.cache
  unique : UniqueUids env s.kind s.files

theorem UidInv.init (env : Env) (k : Kind) : UidInv env (init k) := by
  refine ⟨CacheOK.empty env, ?_⟩
  intro n₁ e₁ n₂ e₂ u h1
  simp [Store.init] at h1

/-- the refreshed cache is reachable again -/
theorem refreshCache_ok (env : Env) (s : St) (h : UidInv env s) (uid : Option String) :
    CacheOK env (refreshCache env s uid) := by
  unfold refreshCache
  cases uid with
  | none => exact h.cache
  | some u =>
    exact (scan_exact env s.blobs (blobsOf_nodup _ _) ((uniqueL_iff ..).mpr h.unique)
      s.cache h.cache).cacheOK

/-- A UID refusal names a UID that another listed member holds right now. -/
theorem dupError_sound (env : Env) (s : St) (h : UidInv env s) (u name existing : String)
    (hd : dupError (refreshCache env s (some u)) (some u) name = some (.dupUid existing)) :
    HeldByOther env s.kind s.files name u := by
  have hex := scan_exact env s.blobs (blobsOf_nodup _ _) ((uniqueL_iff ..).mpr h.unique)
    s.cache h.cache
  unfold dupError refreshCache at hd
  simp only [] at hd
  split at hd
  · rename_i ex et hu2f
    split at hd
    · simp at hd
    · rename_i hne
      obtain ⟨hl, hu⟩ := hex.u2f_sound u ex et hu2f
      obtain ⟨hf, hli⟩ := (blobsOf_lookup ..).mp hl
      exact ⟨ex, et, hne, hf, hli, hu⟩
  · simp at hd

/-- If the UID check passes, no other listed member holds the UID. -/
theorem dupError_complete (env : Env) (s : St) (h : UidInv env s) (u name : String)
    (hd : dupError (refreshCache env s (some u)) (some u) name = none) :
    ¬ HeldByOther env s.kind s.files name u := by
  have hex := scan_exact env s.blobs (blobsOf_nodup _ _) ((uniqueL_iff ..).mpr h.unique)
    s.cache h.cache
  rintro ⟨n, e, hne, hf, hli, hu⟩
  have := hex.u2f_complete n e u ((blobsOf_lookup ..).mpr ⟨hf, hli⟩) hu
  unfold dupError refreshCache at hd
  simp only [] at hd
  rw [this] at hd
  simp [hne] at hd

/-- what `dupError` can answer -/
theorem dupError_cases (c : Cache) (uid : Option String) (name : String) :
    dupError c uid name = none ∨ ∃ ex, dupError c uid name = some (.dupUid ex) := by
  unfold dupError
  repeat' split
  all_goals simp

/-- Upload and read-back agree on the UID (true whenever the handler chosen by content type is
    the one the file extension selects and normalisation keeps the UID). -/
def Coherent (env : Env) : Op → Prop
  | .put n ct t _ => uidOf env n (env.norm (handlerFor ct n) t) = env.uid (handlerFor ct n) t
  | _ => True

theorem unique_insert (env : Env) (k : Kind) (files : Map String) (n c : String)
    (hu : UniqueUids env k files)
    (hfree : ∀ u, uidOf env n c = some u → ¬ HeldByOther env k files n u) :
    UniqueUids env k (files.insert n c) := by
  intro n₁ e₁ n₂ e₂ u h1 h2 l1 l2 u1 u2
  rw [Map.get_insert] at h1 h2
  by_cases c1 : n = n₁
  · by_cases c2 : n = n₂
    · rw [← c1, ← c2]
    · exfalso
      subst c1
      simp at h1; subst h1
      simp [c2] at h2
      exact hfree u u1 ⟨n₂, e₂, fun e => c2 e.symm, h2, l2, u2⟩
  · by_cases c2 : n = n₂
    · exfalso
      subst c2
      simp at h2; subst h2
      simp [c1] at h1
      exact hfree u u2 ⟨n₁, e₁, fun e => c1 e.symm, h1, l1, u1⟩
    · simp [c1] at h1; simp [c2] at h2
      exact hu n₁ e₁ n₂ e₂ u h1 h2 l1 l2 u1 u2

theorem unique_erase (env : Env) (k : Kind) (files : Map String) (n : String)
    (hu : UniqueUids env k files) : UniqueUids env k (files.erase n) := by
  intro n₁ e₁ n₂ e₂ u h1 h2 l1 l2 u1 u2
  rw [Map.get_erase] at h1 h2
  split at h1
  · simp at h1
  · split at h2
    · simp at h2
    · exact hu n₁ e₁ n₂ e₂ u h1 h2 l1 l2 u1 u2

theorem writeOne_cache (s : St) (n c : String) : (writeOne s n c).1.cache = s.cache := by
  unfold writeOne
  cases s.kind <;> simp <;> (repeat' split) <;> simp

theorem deleteOne_cache (s : St) (n : String) (e : Option String) :
    (deleteOne s n e).1.cache = s.cache := by
  unfold deleteOne
  cases s.kind <;> simp only [] <;> (repeat' split) <;> simp

theorem deleteOne_kind (s : St) (n : String) (e : Option String) :
    (deleteOne s n e).1.kind = s.kind := by
  unfold deleteOne
  cases h : s.kind <;> simp only [] <;> (repeat' split) <;> simp [h]

theorem importOne_kind (env : Env) (s : St) (n : String) (ct : Option String) (t : String)
    (r : Option String) : (importOne env s n ct t r).1.kind = s.kind := by
  unfold importOne
  simp only []
  repeat' split
  all_goals first | rfl | (rw [writeOne_kind])

/-- The outcome of a put, spelled out (used by the property theorems). -/
theorem importOne_cases (env : Env) (s : St) (n : String) (ct : Option String) (t : String)
    (r : Option String) :
    let hk := handlerFor ct n
    let out := (importOne env s n ct t r).2
    (env.valid hk t = false ∧ out = .invalid) ∨
    (env.valid hk t = true ∧
      ((∃ ex, dupError (refreshCache env s (env.uid hk t)) (env.uid hk t) n = some (.dupUid ex)
          ∧ out = .dupUid ex) ∨
       (dupError (refreshCache env s (env.uid hk t)) (env.uid hk t) n = none ∧
         ((etagError (s.etag n) r = some .badEtag ∧ out = .badEtag) ∨
          (etagError (s.etag n) r = none ∧
            ((oldUnreadable env s hk n = true ∧ out = .invalid) ∨
             (oldUnreadable env s hk n = false ∧ (out = .ok (env.norm hk t) ∨ out = .locked)))))))) := by
  intro hk out
  by_cases hv : env.valid hk t = true
  · right
    refine ⟨hv, ?_⟩
    have hv' : ¬ env.valid (handlerFor ct n) t = false := by simp [hk] at hv; simp [hv]
    rcases dupError_cases (refreshCache env s (env.uid hk t)) (env.uid hk t) n with hd | ⟨ex, hd⟩
    · right
      refine ⟨hd, ?_⟩
      have het : etagError (s.etag n) r = none ∨ etagError (s.etag n) r = some .badEtag := by
        unfold etagError; repeat' split
        all_goals simp
      rcases het with het | het
      · right
        refine ⟨het, ?_⟩
        by_cases hold : oldUnreadable env s hk n = true
        · left
          refine ⟨hold, ?_⟩
          simp only [out, importOne, hv', ↓reduceIte, checkDuplicate, hk] at *
          simp [hd, het, hold]
        · right
          refine ⟨by simpa using hold, ?_⟩
          simp only [out, importOne, hv', ↓reduceIte, checkDuplicate, hk] at *
          simp only [hd, het, hold]
          rcases writeOne_files { s with cache := refreshCache env s (env.uid (handlerFor ct n) t) } n
            (env.norm (handlerFor ct n) t) with h | h
          · left; simpa using h.1
          · right; simpa using h.1
      · left
        refine ⟨het, ?_⟩
        simp only [out, importOne, hv', ↓reduceIte, checkDuplicate, hk] at *
        simp [hd, het]
    · left
      refine ⟨ex, hd, ?_⟩
      simp only [out, importOne, hv', ↓reduceIte, checkDuplicate, hk] at *
      simp [hd]
  · left
    have hv' : env.valid (handlerFor ct n) t = false := by simpa [hk] using hv
    exact ⟨by simpa using hv, by simp [out, importOne, hv']⟩

theorem checkDuplicate_fst (env : Env) (s : St) (uid : Option String) (n : String)
    (r : Option String) : (checkDuplicate env s uid n r).1 = refreshCache env s uid := by
  unfold checkDuplicate
  simp only []
  split <;> rfl

theorem checkDuplicate_snd (env : Env) (s : St) (uid : Option String) (n : String)
    (r : Option String) :
    (checkDuplicate env s uid n r).2 =
      match dupError (refreshCache env s uid) uid n with
      | some e => some e
      | none => etagError (s.etag n) r := by
  unfold checkDuplicate
  simp only []
  split <;> simp_all

theorem writeOne_out_cache (s : St) (c : Cache) (n x : String) :
    (writeOne { s with cache := c } n x).2 = (writeOne s n x).2 := by
  unfold writeOne
  cases s.kind <;> simp only [] <;> (repeat' split) <;> simp_all

/-- The answer of `import_one` as a function of the contents and of the refreshed cache. -/
theorem importOne_out (env : Env) (s : St) (n : String) (ct : Option String) (t : String)
    (r : Option String) :
    (importOne env s n ct t r).2 =
      if env.valid (handlerFor ct n) t = false then .invalid
      else
        match dupError (refreshCache env s (env.uid (handlerFor ct n) t))
                (env.uid (handlerFor ct n) t) n with
        | some e => e
        | none =>
          match etagError (s.etag n) r with
          | some e => e
          | none =>
            if oldUnreadable env s (handlerFor ct n) n then .invalid
            else (writeOne s n (env.norm (handlerFor ct n) t)).2 := by
  unfold importOne
  simp only []
  split
  · rfl
  · rw [checkDuplicate_snd]
    split
    · rename_i e he
      split at he
      · rename_i e' hd; simp at he; subst he; simp [hd]
      · rename_i hd; simp [hd, he]
    · rename_i he
      split at he
      · simp at he
      · rename_i hd
        simp only [hd, he]
        split
        · rfl
        · exact writeOne_out_cache ..

theorem writeOne_commits_of_files_eq (s : St) (n c : String)
    (h : (writeOne s n c).1.files = s.files) : (writeOne s n c).1.commits = s.commits := by
  unfold writeOne at *
  cases hk : s.kind with
  | vdir => rfl
  | bare =>
    simp only [hk, commitIfChanged_files] at h
    simp [commitIfChanged_commits, h]
  | tree =>
    simp only [hk] at h
    simp only []
    split
    · rfl
    · rename_i hl
      simp only [hl, Bool.false_eq_true, ↓reduceIte, commitIfChanged_files] at h
      simp [commitIfChanged_commits, h]

/-- no change of the stored tree ⇒ no commit (all kinds) -/
theorem importOne_commits_of_files_eq (env : Env) (s : St) (n : String) (ct : Option String)
    (t : String) (r : Option String) (h : (importOne env s n ct t r).1.files = s.files) :
    (importOne env s n ct t r).1.commits = s.commits := by
  unfold importOne at *
  simp only [] at *
  split
  · rfl
  · rename_i hv
    simp only [hv, ↓reduceIte] at h
    split
    · rfl
    · rename_i hcd
      simp only [hcd] at h
      split
      · rfl
      · rename_i hold
        simp only [hold] at h
        exact writeOne_commits_of_files_eq _ n _ h

end Xandikos.Store
