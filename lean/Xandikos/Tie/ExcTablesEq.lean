/-
  Tie (translator): the `except` tables regenerated from /repo on this run — `set_body` and
  `create_member` of web.py (which store exception becomes which WebDAV exception, with which
  precondition), the PUT and POST handlers of webdav.py (which WebDAV exception becomes which
  answer) and the class hierarchy they are matched against — compose to the model's
  `Http.ofStoreOut` for every refusal the stores produce.
-/
import Xandikos.Generated.ExcTables
import Xandikos.Http.World

namespace Xandikos.Tie
open Xandikos.Store Xandikos.Http

/-- `except H` catches an exception of class `exc`: the class itself or its (direct) base;
    `Exception` catches everything -/
def catches (bases : List (String × String)) (handler exc : String) : Bool :=
  handler == exc || handler == "Exception" || bases.lookup exc == some handler

/-- the answer to a store exception of class `exc` raised inside `set_body` / `create_member`:
    first matching inner clause, then first matching outer clause; nothing matches = an
    unhandled exception (500) -/
def answerTo (bases : List (String × String)) (inner : List (String × String × String))
    (outer : List (String × String)) (exc : String) : Outcome :=
  let (cls, pre) := match inner.find? (fun r => catches bases r.1 exc) with
    | some (_, raised, pre) => (raised, pre)
    | none => (exc, "")
  match outer.find? (fun r => catches bases r.1 cls) with
  | some (_, "423") => .locked
  | some (_, "dav412") => .refused pre
  | some (_, "405") => .notAllowed
  | _ => .error

/-- the exception class behind each refusal of the store model -/
def excOf : Out → Option String
  | .invalid => some "InvalidFileContents"
  | .dupUid _ => some "DuplicateUidError"
  | .locked => some "LockedError"
  | .badEtag => some "InvalidETag"
  | .noSuchItem => some "NoSuchItem"
  | _ => none

/-- PUT on an existing member: `set_body` + the update branch of the handler = `ofStoreOut false` -/
theorem put_update_table (o : Out) (e : String) (h : excOf o = some e) :
    answerTo Generated.exception_bases Generated.set_body_raises Generated.put_update_answers e = ofStoreOut false o := by
  cases o <;> simp only [excOf, Option.some.injEq, reduceCtorEq] at h <;> subst h <;> rfl

/-- PUT creating a member: `create_member` + the creation branch of the handler = `ofStoreOut true` -/
theorem put_create_table (o : Out) (e : String) (h : excOf o = some e) :
    answerTo Generated.exception_bases Generated.create_member_raises Generated.put_create_answers e = ofStoreOut true o := by
  cases o <;> simp only [excOf, Option.some.injEq, reduceCtorEq] at h <;> subst h <;> rfl

/-- POST add-member: `create_member` + the POST handler = `ofStoreOut true` -/
theorem post_table (o : Out) (e : String) (h : excOf o = some e) :
    answerTo Generated.exception_bases Generated.create_member_raises Generated.post_answers e = ofStoreOut true o := by
  cases o <;> simp only [excOf, Option.some.injEq, reduceCtorEq] at h <;> subst h <;> rfl

end Xandikos.Tie
