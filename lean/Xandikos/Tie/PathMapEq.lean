/-
  Tie (translator): `web.XandikosBackend._map_to_file_path` as found in /repo on this run is
  the model that the C13 confinement theorem is about.
-/
import Xandikos.Generated.PathMap
import Xandikos.Http.FsMap

namespace Xandikos.Tie

theorem map_to_file_path_eq : Generated.map_to_file_path = Http.mapToFilePath := by
  funext root relpath
  simp [Generated.map_to_file_path, Http.mapToFilePath]

end Xandikos.Tie
