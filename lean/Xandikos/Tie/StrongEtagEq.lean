/-
  Tie (translator): the functions regenerated from /repo's `web.create_strong_etag` and
  `web.extract_strong_etag` on this run are the `strong` of the HTTP model, and the second
  inverts the first on every tag that does not itself begin or end with a double quote (git
  blob ids, md5 digests) — which is what `web.py:226/392` rely on when they hand the ETag they
  just read back to the store as `replace_etag` / `etag`.
-/
import Xandikos.Generated.StrongEtag
import Xandikos.Http.World
import Xandikos.Py.StrProofs

namespace Xandikos.Tie
open Xandikos.Py

/-- `create_strong_etag` as translated = `Http.strong` -/
theorem create_strong_etag_eq (e : String) :
    String.ofList (Generated.create_strong_etag e.toList) = Http.strong e := by
  unfold Generated.create_strong_etag Http.strong
  simp [String.ofList_append]
  rfl

/-- `create_strong_etag` is injective (on the translated code itself) -/
theorem create_strong_etag_injective (a b : List Char)
    (h : Generated.create_strong_etag a = Generated.create_strong_etag b) : a = b := by
  unfold Generated.create_strong_etag at h
  simpa using h

/-- `extract_strong_etag(None)` is `None` -/
theorem extract_none : Generated.extract_strong_etag none = none := rfl

/-- `extract_strong_etag(create_strong_etag(e)) = e` for every non-empty `e` that neither begins
    nor ends with `"` -/
theorem extract_create (e : List Char) (hne : e ≠ []) (h1 : e.head? ≠ some '"') (h2 : e.getLast? ≠ some '"') :
    Generated.extract_strong_etag (some (Generated.create_strong_etag e)) = some e := by
  unfold Generated.extract_strong_etag Generated.create_strong_etag
  have := Str.strip_padded '"' 1 1 e hne h1 h2
  simpa [List.replicate] using this

/-- the hypothesis is needed: a tag that ends with a quote does not survive -/
example : Generated.extract_strong_etag (some (Generated.create_strong_etag ['a', '"'])) ≠ some ['a', '"'] := by
  decide

/-- non-vacuity: a hex digest satisfies the hypotheses -/
example : Generated.extract_strong_etag (some (Generated.create_strong_etag "3f2a".toList)) = some "3f2a".toList := by
  decide

end Xandikos.Tie
