/-
  Tie (translator): the store's own precondition gate regenerated from /repo on this run —
  `_check_duplicate` of the git stores and of the vdir store, and `_forget_uid` of both — is the
  model's `dupError` / `etagError` / `forget` (`Store/Model.lean`), which `refused_only_if_held`,
  `accepted_only_if_free`, `scan_is_exact` and the C03 store theorems are about.
-/
import Xandikos.Generated.StoreGate
import Xandikos.Store.Model

namespace Xandikos.Tie
open Xandikos Xandikos.Py Xandikos.Store

/-- what `_check_duplicate` does, in the model's terms: the UID test first, then the ETag test;
    it returns the current ETag -/
def gateOf (c : Cache) (cur uid : Option String) (name : String) (replace : Option String) :
    Except PyErr (Option String) :=
  match dupError c uid name with
  | some (.dupUid ex) => .error (.raised "DuplicateUidError" ex)
  | some _ => .error (.raised "unreachable" "")
  | none =>
    match etagError cur replace with
    | some _ => .error (.raised "InvalidETag" name)
    | none => .ok cur

theorem git_forget_uid_eq (m : Map (String × String)) (n : String) (u : Option String) :
    Generated.git_forget_uid m n u = forget m n u := by
  unfold Generated.git_forget_uid forget
  cases u with
  | none => rfl
  | some u =>
    cases h : m[u]? with
    | none => simp [h]
    | some v => obtain ⟨a, b⟩ := v; simp [h]

theorem vdir_forget_uid_eq (m : Map (String × String)) (n : String) (u : Option String) :
    Generated.vdir_forget_uid m n u = forget m n u := by
  unfold Generated.vdir_forget_uid forget
  cases u with
  | none => rfl
  | some u =>
    cases h : m[u]? with
    | none => simp [h]
    | some v => obtain ⟨a, b⟩ := v; simp [h]

theorem git_check_duplicate_eq (c : Cache) (cur uid : Option String) (name : String) (replace : Option String) :
    Generated.git_check_duplicate true c.u2f cur uid name replace = gateOf c cur uid name replace := by
  unfold Generated.git_check_duplicate gateOf dupError etagError
  cases uid with
  | none =>
    cases replace with
    | none => rfl
    | some r => by_cases h : cur = some r <;> simp [h, pure_eq_ok, ok_bind] <;> rfl
  | some u =>
    cases hl : c.u2f[u]? with
    | none =>
      cases replace with
      | none => simp [hl, pure_eq_ok, ok_bind]
      | some r => by_cases h : cur = some r <;> simp [hl, h, pure_eq_ok, ok_bind] <;> rfl
    | some v =>
      obtain ⟨ex, e⟩ := v
      by_cases hn : ex = name
      · cases replace with
        | none => simp [hl, hn, pure_eq_ok, ok_bind]
        | some r => by_cases h : cur = some r <;> simp [hl, hn, h, pure_eq_ok, ok_bind] <;> rfl
      · simp [hl, hn]; rfl

theorem vdir_check_duplicate_eq (c : Cache) (cur uid : Option String) (name : String) (replace : Option String) :
    Generated.vdir_check_duplicate true c.u2f cur uid name replace = gateOf c cur uid name replace := by
  have : Generated.vdir_check_duplicate = Generated.git_check_duplicate := rfl
  rw [this, git_check_duplicate_eq]

end Xandikos.Tie
