/-
  Tie (translator): the function regenerated from /repo's `webdav.etag_matches` on this run
  is the hand-written model the C03 theorems are about.
-/
import Xandikos.Generated.Etag
import Xandikos.Http.Etag

namespace Xandikos.Tie

theorem etag_matches_eq : Generated.etag_matches = Http.etagMatches := by
  funext condition actual
  simp only [Generated.etag_matches, Http.etagMatches]
  try rfl

end Xandikos.Tie
