/-
  Tie (translator): the redirect condition regenerated from /repo's
  `wsgi_helpers.WellknownRedirector.__call__` and `web.WELLKNOWN_DAV_PATHS` on this run is the
  model's (`Http.wellknownRedirects`).
-/
import Xandikos.Generated.Wellknown
import Xandikos.Http.Discovery

namespace Xandikos.Tie

theorem wellknown_paths_eq : Generated.wellknown_dav_paths = Http.wellknownPaths := rfl

theorem wellknown_redirects_eq (script pathInfo : List Char) :
    Generated.wellknown_redirects script pathInfo = Http.wellknownRedirects script pathInfo := by
  unfold Generated.wellknown_redirects Http.wellknownRedirects
  rw [wellknown_paths_eq]

end Xandikos.Tie
