/-
  Tie (translator): the nested loops regenerated from /repo's
  `AutoIndexManager.find_present_keys` on this run (flag `found`, the lists `needed_keys` /
  `missing_keys`, the set `new_index_keys`, the `defaultdict` of counters, the call of
  `index.reset`) compute the model's `Store.Index.findPresentKeys` — result, counters and the new
  key set of the index — for every index state, threshold and list of key groups.
-/
import Xandikos.Generated.FindKeys
import Xandikos.Store.Index

namespace Xandikos.Tie
open Xandikos Xandikos.Py Xandikos.Generated Xandikos.Store.Index

/-- body of the first inner loop -/
def fpkBody1 (avail : List String) (s : FpkState) (key : String) : FpkState :=
  if avail.contains key then { s with needed_keys := s.needed_keys ++ [key], found := true } else s

/-- body of the second inner loop -/
def fpkBody2 (th : Nat) (s : FpkState) (key : String) : FpkState :=
  let s := { s with desired := s.desired.insert key (((s.desired[key]?).getD 0) + 1) }
  if decide (((s.desired[key]?).getD 0) > th) then { s with new_index_keys := setAdd s.new_index_keys key } else s

/-- body of the outer loop -/
def fpkOuter (avail : List String) (th : Nat) (s : FpkState) (keys : List String) : FpkState :=
  let s := { s with found := false }
  let s := keys.foldl (fpkBody1 avail) s
  if !s.found then
    let s := keys.foldl (fpkBody2 th) s
    { s with missing_keys := s.missing_keys ++ keys }
  else s

/-- the generated loops are these bodies, folded (definitionally) -/
theorem loops_unfold (avail : List String) (th : Nat) (nk : List (List String)) (s : FpkState) :
    find_present_keys_loops avail th nk s = nk.foldl (fpkOuter avail th) s := rfl

theorem body1_fold (avail : List String) (keys : List String) (s : FpkState) :
    keys.foldl (fpkBody1 avail) s =
      { s with needed_keys := s.needed_keys ++ keys.filter (fun k => avail.contains k),
               found := s.found || !(keys.filter (fun k => avail.contains k)).isEmpty } := by
  induction keys generalizing s with
  | nil => simp
  | cons k rest ih =>
    simp only [List.foldl_cons, ih, fpkBody1]
    by_cases h : k ∈ avail
    · simp [h, List.filter_cons]
    · simp [h, List.filter_cons]

theorem body2_fold (th : Nat) (keys : List String) (s : FpkState) :
    keys.foldl (fpkBody2 th) s =
      { s with new_index_keys := (keys.foldl (bump th) (s.new_index_keys, s.desired)).1,
               desired := (keys.foldl (bump th) (s.new_index_keys, s.desired)).2 } := by
  induction keys generalizing s with
  | nil => simp
  | cons k rest ih =>
    simp only [List.foldl_cons, ih]
    congr 1 <;>
    · simp only [fpkBody2, bump, Map.get_insert_self, Option.getD_some, setAdd]
      by_cases h : (s.desired[k]?).getD 0 + 1 > th <;> simp [h]

/-- the state seen as the model's accumulator -/
def fpkAbs (s : FpkState) : List String × List String × List String × Map Nat :=
  (s.needed_keys, s.missing_keys, s.new_index_keys, s.desired)

theorem outer_step (avail : List String) (th : Nat) (s : FpkState) (keys : List String) :
    fpkAbs (fpkOuter avail th s keys) = groupStep avail th (fpkAbs s) keys := by
  unfold fpkOuter groupStep fpkAbs
  simp only [body1_fold, Bool.false_or]
  generalize (keys.filter fun k => avail.contains k) = F
  cases F with
  | nil =>
    simp only [List.isEmpty_nil, Bool.not_true, Bool.not_false, ↓reduceIte, body2_fold, List.append_nil,
      Bool.false_eq_true]
  | cons a b =>
    simp only [List.isEmpty_cons, Bool.not_false, Bool.not_true, Bool.false_eq_true, ↓reduceIte]

theorem outer_fold (avail : List String) (th : Nat) (nk : List (List String)) (s : FpkState) :
    fpkAbs (nk.foldl (fpkOuter avail th) s) = nk.foldl (groupStep avail th) (fpkAbs s) := by
  induction nk generalizing s with
  | nil => rfl
  | cons g rest ih => simp only [List.foldl_cons, ih, outer_step]

/-- **`find_present_keys` as translated = the model**: the answer, the counters and the index
    keys after the call -/
theorem find_present_keys_eq {V : Type} (st : IState V) (necessary : List (List String)) :
    let g := find_present_keys st.idx.keys st.mgr.threshold st.mgr.desired necessary
    let m := findPresentKeys st necessary
    m.2 = g.2.1 ∧ m.1.mgr.desired = g.1 ∧ m.1.mgr.threshold = st.mgr.threshold ∧
      m.1.idx.keys = (match g.2.2 with | some ks => ks | none => st.idx.keys) ∧
      (g.2.2.isSome → m.1.idx.vals = ∅) ∧ (g.2.2 = none → m.1.idx = st.idx) := by
  intro g m
  have hf := outer_fold st.idx.keys st.mgr.threshold necessary { desired := st.mgr.desired }
  simp only [fpkAbs] at hf
  generalize hs : necessary.foldl (fpkOuter st.idx.keys st.mgr.threshold) { desired := st.mgr.desired } = s at hf
  generalize hr : necessary.foldl (groupStep st.idx.keys st.mgr.threshold) ([], [], [], st.mgr.desired) = r at hf
  have h1 : s.needed_keys = r.1 := congrArg (·.1) hf
  have h2 : s.missing_keys = r.2.1 := congrArg (·.2.1) hf
  have h3 : s.new_index_keys = r.2.2.1 := congrArg (·.2.2.1) hf
  have h4 : s.desired = r.2.2.2 := congrArg (·.2.2.2) hf
  have hg : g = (if s.missing_keys.isEmpty then (s.desired, some s.needed_keys, none)
      else if !s.new_index_keys.isEmpty then (s.desired, none, some (setUnion st.idx.keys s.new_index_keys))
      else (s.desired, none, none)) := by
    show find_present_keys _ _ _ _ = _
    unfold find_present_keys
    rw [loops_unfold, hs]
  have hm : m = (if r.2.1.isEmpty then ({ st with mgr := { st.mgr with desired := r.2.2.2 } }, some r.1)
      else if !r.2.2.1.isEmpty then
        ({ idx := { keys := st.idx.keys ++ r.2.2.1.filter fun k => !st.idx.keys.contains k, vals := ∅ },
           mgr := { st.mgr with desired := r.2.2.2 } }, none)
      else ({ st with mgr := { st.mgr with desired := r.2.2.2 } }, none)) := by
    show findPresentKeys st necessary = _
    unfold findPresentKeys
    rw [hr]
  rw [hg, hm, h1, h2, h3, h4]
  by_cases ha : r.2.1.isEmpty = true
  · simp [ha]
  · by_cases hb : r.2.2.1.isEmpty = true
    · simp [ha, hb]
    · simp [ha, hb, setUnion]

end Xandikos.Tie
