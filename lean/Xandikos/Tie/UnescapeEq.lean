/-
  Tie (translator): the index-scan loop regenerated from /repo's `icalendar._unescape_text` on
  this run computes the structural model `Ical.unescapeText` of `Ical/Escape.lean` (the one the
  round-trip theorems of `Ical/EscapeProofs.lean` and `Theorems/C10Ical.lean` are about) — on
  every text, without raising IndexError and within its fuel (so the loop terminates).
-/
import Xandikos.Generated.Unescape
import Xandikos.Ical.Escape

namespace Xandikos.Tie
open Xandikos.Py Xandikos.Ical

/-- what `_unescape_text` does after the loop -/
def unescFin : List (List Char) × List Char × Nat → Except PyErr (List (List Char)) :=
  fun (parts, cur, _) => pure (parts ++ [cur])

theorem drop_cons_of_lt (text : List Char) (i : Nat) (h : i < text.length) :
    text.drop i = text[i] :: text.drop (i + 1) := by
  simp

theorem elem_nN (c : Char) : List.elem c "nN".toList = (decide (c = 'n') || decide (c = 'N')) := by
  show List.elem c ['n', 'N'] = _
  by_cases h1 : c = 'n'
  · simp [List.elem, h1]
  · by_cases h2 : c = 'N'
    · subst h2; decide
    · have a : (c == 'n') = false := by simpa using h1
      have b : (c == 'N') = false := by simpa using h2
      simp [List.elem, a, b, h1, h2]

/-! step equations of the model's loop -/

theorem go_nil (split : Bool) (cur : List Char) (parts : List (List Char)) :
    unescapeGo split [] cur parts = parts ++ [cur] := by
  rw [unescapeGo]

theorem go_bs_cons (split : Bool) (nxt : Char) (rest cur : List Char) (parts : List (List Char)) :
    unescapeGo split ('\\' :: nxt :: rest) cur parts =
      unescapeGo split rest (cur ++ [if nxt = 'n' ∨ nxt = 'N' then '\n' else nxt]) parts := by
  rw [unescapeGo]; simp

theorem go_bs_end (split : Bool) (cur : List Char) (parts : List (List Char)) :
    unescapeGo split ['\\'] cur parts = parts ++ [cur ++ ['\\']] := by
  rw [unescapeGo]; simp

theorem go_comma (rest cur : List Char) (parts : List (List Char)) :
    unescapeGo true (',' :: rest) cur parts = unescapeGo true rest [] (parts ++ [cur]) := by
  have : ¬ (',' = '\\') := by decide
  cases rest <;> simp [unescapeGo, this]

theorem go_other (split : Bool) (ch : Char) (rest cur : List Char) (parts : List (List Char))
    (h1 : ch ≠ '\\') (h2 : ¬ (ch = ',' ∧ split = true)) :
    unescapeGo split (ch :: rest) cur parts = unescapeGo split rest (cur ++ [ch]) parts := by
  cases rest <;> simp only [unescapeGo, h1, ↓reduceIte, h2]

theorem loop_eq (text : List Char) (split : Bool) :
    ∀ (fuel : Nat) (parts : List (List Char)) (cur : List Char) (i : Nat),
      i ≤ text.length → text.length - i < fuel →
      (Generated.unescape_text_loop text split fuel parts cur i >>= unescFin) =
        .ok (unescapeGo split (text.drop i) cur parts) := by
  intro fuel
  induction fuel with
  | zero => intro _ _ _ _ h; omega
  | succ fuel ih =>
    intro parts cur i hi hf
    unfold Generated.unescape_text_loop
    by_cases hlt : i < text.length
    · simp only [hlt, ↓reduceIte]
      rw [drop_cons_of_lt text i hlt]
      unfold Generated.unescape_text_body
      rw [idx_lt text i hlt]
      simp only [ok_bind]
      by_cases hbs : text[i] = '\\'
      · by_cases h2 : i + 1 < text.length
        · have hd : text.drop (i + 1) = text[i + 1] :: text.drop (i + 2) := drop_cons_of_lt text (i + 1) h2
          simp only [hbs, beq_self_eq_true, h2, decide_true, Bool.and_self, ↓reduceIte, idx_lt text (i + 1) h2,
            ok_bind, pure_eq_ok]
          rw [ih _ _ (i + 2) (by omega) (by omega), hd, go_bs_cons, elem_nN]
          congr 3
          by_cases a : text[i + 1] = 'n' <;> by_cases b : text[i + 1] = 'N' <;> simp [a, b]
        · have hd : text.drop (i + 1) = [] := List.drop_eq_nil_of_le (by omega)
          have hc : ('\\' == ',') = false := by decide
          simp only [hbs, beq_self_eq_true, h2, decide_false, Bool.and_false, Bool.false_eq_true, ↓reduceIte,
            hc, Bool.false_and, pure_eq_ok, ok_bind]
          rw [ih _ _ (i + 1) (by omega) (by omega), hd, go_nil, go_bs_end]
      · have hb : (text[i] == '\\') = false := by simpa using hbs
        simp only [hb, Bool.false_and, Bool.false_eq_true, ↓reduceIte]
        by_cases hcm : text[i] = ',' ∧ split = true
        · obtain ⟨h1, h2⟩ := hcm
          subst h2
          simp only [h1, beq_self_eq_true, Bool.and_self, ↓reduceIte, pure_eq_ok, ok_bind]
          rw [ih _ _ (i + 1) (by omega) (by omega), go_comma]
        · have hcb : ((text[i] == ',') && split) = false := by
            cases hs : split <;> simp_all
          simp only [hcb, Bool.false_eq_true, ↓reduceIte, pure_eq_ok, ok_bind]
          rw [ih _ _ (i + 1) (by omega) (by omega), go_other split _ _ _ _ hbs hcm]
    · have hd : text.drop i = [] := List.drop_eq_nil_of_le (by omega)
      simp only [hlt, ↓reduceIte, hd, go_nil]
      rfl

/-- **`_unescape_text` as translated = the model**, for every text and both values of `split`:
    in particular it raises nothing and terminates -/
theorem unescape_text_eq (text : List Char) (split : Bool) :
    Generated.unescape_text text split = .ok (unescapeText split text) := by
  have h := loop_eq text split (text.length + 1) [] [] 0 (by omega) (by omega)
  unfold Generated.unescape_text unescapeText
  rw [List.drop_zero] at h
  exact h

end Xandikos.Tie
