/-
  Tie (translator): `collation._match` and the `collations` table as found in /repo on this
  run are the model the C12 theorems are about.
-/
import Xandikos.Generated.Collation
import Xandikos.Card.Filter

namespace Xandikos.Tie

theorem match_eq : Generated.match_ = Card.match_ := by
  funext a b k
  simp only [Generated.match_, Card.match_]

theorem collations_eq : Generated.collations = Card.collations := by
  simp [Generated.collations, Card.collations]

end Xandikos.Tie
