/-
  Tie (translator): the two loops regenerated from /repo's `webdav._get_resources_by_hrefs` on
  this run (over `dict.fromkeys(hrefs)`, with `paths.setdefault(path, []).append(href)`, then
  over `backend.get_resources(paths)`) compute the model's `Http.resourcesByHrefs`, which the
  C17 theorems (`each_href_once`, `answer_pointwise`, …) are about — and `paths[relpath]` never
  raises KeyError.
-/
import Xandikos.Generated.Multiget
import Xandikos.Tie.HrefEq
import Xandikos.Http.Multiget

namespace Xandikos.Tie
open Xandikos.Py Xandikos.Http

theorem fromkeys_eq (l : List String) : Dict.fromkeys l = dedup l := by
  induction l with
  | nil => rfl
  | cons x xs ih => simp [Dict.fromkeys, dedup, ih]

theorem setdefaultAppend_eq (d : Dict (List String)) (k v : String) :
    Dict.setdefaultAppend d k v = addPath d k v := by
  induction d with
  | nil => rfl
  | cons p rest ih =>
    obtain ⟨k', vs⟩ := p
    simp only [Dict.setdefaultAppend, addPath, ih]

theorem gen_href_to_path (script h : String) :
    (Generated.href_to_path script.toList h.toList).map String.ofList = hrefToPath script h := by
  rw [href_to_path_eq]; rfl

/-- the first loop is the fold of `mgStep` -/
theorem mg_loop1_eq {ρ : Type} (script : String) (l : List String) :
    ∀ (paths : Dict (List String)) (early : List String),
      Generated.resources_by_hrefs_loop1 (ρ := ρ) script l paths (early.map fun h => (h, none)) =
        ((l.foldl (mgStep script) { early := early, paths := paths }).paths,
         (l.foldl (mgStep script) { early := early, paths := paths }).early.map fun h => (h, none)) := by
  induction l with
  | nil => intro paths early; rfl
  | cons h rest ih =>
    intro paths early
    unfold Generated.resources_by_hrefs_loop1
    simp only [gen_href_to_path, List.foldl_cons]
    cases hp : hrefToPath script h with
    | none =>
      have : (early.map fun h => ((h, none) : String × Option ρ)) ++ [(h, none)] =
          (early ++ [h]).map fun h => (h, none) := by simp
      simp only [mgStep, hp, this]
      exact ih paths (early ++ [h])
    | some p =>
      simp only [mgStep, hp, setdefaultAppend_eq]
      exact ih (addPath paths p h) early

theorem addPath_keys (d : Dict (List String)) (k v : String) :
    (addPath d k v).map Prod.fst = if k ∈ d.map Prod.fst then d.map Prod.fst else d.map Prod.fst ++ [k] := by
  induction d with
  | nil => simp [addPath]
  | cons p rest ih =>
    obtain ⟨k', vs⟩ := p
    by_cases h : k' = k
    · subst h; simp [addPath]
    · have h' : ¬ k = k' := fun e => h e.symm
      simp only [addPath, h, ↓reduceIte, List.map_cons, ih, List.mem_cons, h', false_or]
      split <;> simp

theorem addPath_nodup (d : Dict (List String)) (k v : String) (h : (d.map Prod.fst).Nodup) :
    ((addPath d k v).map Prod.fst).Nodup := by
  rw [addPath_keys]
  split
  · exact h
  · rename_i hk
    exact List.nodup_append.mpr ⟨h, by simp, by intro a ha b hb; simp at hb; subst hb; exact fun e => hk (e ▸ ha)⟩

theorem fold_nodup (script : String) (l : List String) (a : MgAcc) (h : (a.paths.map Prod.fst).Nodup) :
    ((l.foldl (mgStep script) a).paths.map Prod.fst).Nodup := by
  induction l generalizing a with
  | nil => exact h
  | cons x xs ih =>
    apply ih
    unfold mgStep
    cases hrefToPath script x with
    | none => exact h
    | some p => exact addPath_nodup _ _ _ h

theorem flatMap_congr'' {α β : Type} (f g : α → List β) (l : List α) (h : ∀ x ∈ l, f x = g x) :
    l.flatMap f = l.flatMap g := by
  induction l with
  | nil => rfl
  | cons x xs ih =>
    simp only [List.flatMap_cons, h x (by simp)]
    rw [ih (fun y hy => h y (List.mem_cons_of_mem _ hy))]

/-- the second loop, for keys that are keys of the dict -/
theorem mg_loop2_eq {ρ : Type} (lookup : String → Option ρ) (d : Dict (List String)) (ks : List String)
    (hk : ∀ k ∈ ks, k ∈ d.map Prod.fst) (out : List (String × Option ρ)) :
    Generated.resources_by_hrefs_loop2 lookup d ks out =
      .ok (out ++ ks.flatMap fun p => ((d.lookup p).getD []).map fun h => (h, lookup p)) := by
  induction ks generalizing out with
  | nil => simp [Generated.resources_by_hrefs_loop2]; rfl
  | cons k rest ih =>
    unfold Generated.resources_by_hrefs_loop2
    simp only [Dict.get]
    cases hl : d.lookup k with
    | none =>
      exfalso
      have hm := hk k (by simp)
      obtain ⟨⟨k', v⟩, hmem, hfst⟩ := List.mem_map.mp hm
      simp only at hfst; subst hfst
      have := List.lookup_eq_none_iff.mp hl (k', v) hmem
      simp at this
    | some hs =>
      show Generated.resources_by_hrefs_loop2 lookup d rest _ = _
      rw [ih (fun k' hk' => hk k' (List.mem_cons_of_mem _ hk'))]
      simp [hl]

/-- for a dict with distinct keys: looking every key up again gives the entries back -/
theorem keys_flatMap {β : Type} (d : Dict (List String)) (h : (d.map Prod.fst).Nodup) (g : String → String → β) :
    (d.map Prod.fst).flatMap (fun p => ((d.lookup p).getD []).map (g p)) =
      d.flatMap (fun x => x.2.map (g x.1)) := by
  induction d with
  | nil => rfl
  | cons x rest ih =>
    obtain ⟨p, hs⟩ := x
    have hnd := List.nodup_cons.mp h
    simp only [List.map_cons, List.flatMap_cons, List.lookup, beq_self_eq_true, Option.getD_some]
    congr 1
    rw [← ih hnd.2]
    apply flatMap_congr''
    intro q hq
    have : (q == p) = false := by
      simp only [beq_eq_false_iff_ne, ne_eq]
      intro e; exact hnd.1 (e ▸ hq)
    simp [List.lookup, this]

/-- **`_get_resources_by_hrefs` as translated = the model** -/
theorem resources_by_hrefs_eq {ρ : Type} (lookup : String → Option ρ) (script : String) (hrefs : List String) :
    Generated.resources_by_hrefs lookup script hrefs = .ok (resourcesByHrefs lookup script hrefs) := by
  unfold Generated.resources_by_hrefs resourcesByHrefs
  have h1 := mg_loop1_eq (ρ := ρ) script (dedup hrefs) [] []
  simp only [List.map_nil] at h1
  rw [fromkeys_eq, h1]
  simp only
  have hnd := fold_nodup script (dedup hrefs) {} (by simp)
  rw [mg_loop2_eq lookup _ _ (fun k hk => hk)]
  rw [keys_flatMap _ hnd (fun p h => (h, lookup p))]

end Xandikos.Tie
