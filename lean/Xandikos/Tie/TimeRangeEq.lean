/-
  Tie (translator): the four RFC 4791 §9.9 functions of `icalendar.py` as found in /repo on this
  run are the model the C11 time-range theorems are about.
-/
import Xandikos.Generated.TimeRange
import Xandikos.Ical.TimeRange

namespace Xandikos.Tie
open Xandikos.Py

attribute [local simp] Py.pure_eq_ok Py.ok_bind Py.error_bind Py.orM_ok Py.andM_ok Py.notM_ok Py.dt_some
  Py.dtDur_some Py.timeAttr

theorem vevent_eq : Generated.apply_time_range_vevent = Ical.vevent := by
  funext start end_ c tz
  obtain ⟨ds, de, du, co, cr, d, fb⟩ := c
  cases ds <;> cases de <;> cases d <;>
    simp [Generated.apply_time_range_vevent, Ical.vevent]
  all_goals (try (split <;> simp_all))

theorem vjournal_eq : Generated.apply_time_range_vjournal = Ical.vjournal := by
  funext start end_ c tz
  obtain ⟨ds, de, du, co, cr, d, fb⟩ := c
  cases ds <;> simp [Generated.apply_time_range_vjournal, Ical.vjournal]
  all_goals (try (split <;> simp_all))

theorem vtodo_eq : Generated.apply_time_range_vtodo = Ical.vtodo := by
  funext start end_ c tz
  obtain ⟨ds, de, du, co, cr, d, fb⟩ := c
  cases ds <;> cases du <;> cases d <;> cases co <;> cases cr <;>
    simp [Generated.apply_time_range_vtodo, Ical.vtodo]
  all_goals (try (split <;> simp_all))

theorem vfreebusy_eq : Generated.apply_time_range_vfreebusy = Ical.vfreebusy := by
  funext start end_ c tz
  obtain ⟨ds, de, du, co, cr, d, fb⟩ := c
  cases ds <;> cases de <;> simp [Generated.apply_time_range_vfreebusy, Ical.vfreebusy]

end Xandikos.Tie
