/-
  Tie (translator): the generator regenerated from /repo's `GitStore.iter_changes` on this run
  (dict comprehension over the old listing, a loop over the new listing with `previous[name]`,
  `yield`, `del previous[name]`, a loop over what is left) computes the declarative change set
  `changeSpec` — for all listings with distinct names whose content types agree per name (what
  `iter_with_etag` yields: the type is a function of the name) it raises neither `KeyError` nor
  `AssertionError`.  `Theorems/C07.lean` connects `changeSpec` with the model's `diffTrees`.
-/
import Xandikos.Generated.IterChanges

namespace Xandikos.Tie
open Xandikos.Py Xandikos.Generated

/-- the row of the first loop for one entry of the new listing, given the dict -/
def rowOf (prev : Dict (String × String)) : Entry → Option ChangeRow
  | (n, ct, e) =>
    if (prev.lookup n).map (·.2) = some e then none
    else some (n, ct, (prev.lookup n).map (·.2), some e)

/-- the change set, declaratively: entries of `news` that are new or differ, then entries of
    `olds` whose name is gone -/
def changeSpec (olds news : List Entry) : List ChangeRow :=
  news.filterMap (rowOf olds) ++
    (olds.filter fun o => (news.lookup o.1).isNone).map fun (n, ct, e) => (n, ct, some e, none)

theorem lookup_filter_ne {ν : Type} (l : List (String × ν)) (n m : String) (h : m ≠ n) :
    (l.filter fun p => p.1 != n).lookup m = l.lookup m := by
  induction l with
  | nil => rfl
  | cons p rest ih =>
    obtain ⟨k, v⟩ := p
    by_cases hk : k = n
    · subst hk
      have : (m == k) = false := by simpa using h
      simp [List.filter, List.lookup, this, ih]
    · have hk' : (k != n) = true := by simpa using hk
      simp only [List.filter, hk', List.lookup]
      cases hm : (m == k) <;> simp [ih]

theorem lookup_none_of_not_mem {ν : Type} (l : List (String × ν)) (n : String) (h : n ∉ l.map Prod.fst) :
    l.lookup n = none := by
  induction l with
  | nil => rfl
  | cons p rest ih =>
    obtain ⟨k, v⟩ := p
    simp only [List.map_cons, List.mem_cons, not_or] at h
    have : (n == k) = false := by simpa using h.1
    simp [List.lookup, this, ih h.2]

theorem not_mem_of_lookup_none {ν : Type} (l : List (String × ν)) (n : String) (h : l.lookup n = none) :
    n ∉ l.map Prod.fst := by
  induction l with
  | nil => simp
  | cons p rest ih =>
    obtain ⟨k, v⟩ := p
    simp only [List.lookup] at h
    cases hk : (n == k) with
    | true => simp [hk] at h
    | false =>
      simp only [hk] at h
      simp only [List.map_cons, List.mem_cons, not_or]
      exact ⟨by simpa using hk, ih h⟩

theorem filterMap_congr' {α β : Type} (f g : α → Option β) (l : List α) (h : ∀ x ∈ l, f x = g x) :
    l.filterMap f = l.filterMap g := by
  induction l with
  | nil => rfl
  | cons x xs ih =>
    simp only [List.filterMap_cons, h x (by simp)]
    rw [ih (fun y hy => h y (List.mem_cons_of_mem _ hy))]

theorem loop2_eq (prev : Dict (String × String)) (out : List ChangeRow) :
    iter_changes_loop2 prev out = .ok (out ++ prev.map fun (n, ct, e) => (n, ct, some e, none)) := by
  induction prev generalizing out with
  | nil => simp [iter_changes_loop2]; rfl
  | cons p rest ih =>
    obtain ⟨n, ct, e⟩ := p
    simp only [iter_changes_loop2, ih, List.map_cons, List.append_assoc, List.singleton_append]

theorem loop1_eq (news : List Entry) :
    ∀ (prev : Dict (String × String)) (out : List ChangeRow),
      (news.map Prod.fst).Nodup →
      (∀ n ct e, (n, ct, e) ∈ news → ∀ ct' e', prev.lookup n = some (ct', e') → ct' = ct) →
      iter_changes_loop1 news prev out =
        .ok (prev.filter (fun p => (news.lookup p.1).isNone), out ++ news.filterMap (rowOf prev)) := by
  induction news with
  | nil =>
    intro prev out _ _
    have : prev.filter (fun _ => true) = prev := by simp
    simp [iter_changes_loop1, pure_eq_ok, this]
  | cons x rest ih =>
    obtain ⟨n, ct, e⟩ := x
    intro prev out hnd hct
    have hn : n ∉ rest.map Prod.fst := (List.nodup_cons.mp hnd).1
    have hrest : (rest.map Prod.fst).Nodup := (List.nodup_cons.mp hnd).2
    unfold iter_changes_loop1
    simp only [Dict.get]
    cases hl : prev.lookup n with
    | none =>
      have hnp := not_mem_of_lookup_none prev n hl
      have hfil : prev.filter (fun p => (((n, ct, e) :: rest).lookup p.1).isNone) =
          prev.filter (fun p => (rest.lookup p.1).isNone) := by
        apply List.filter_congr
        intro p hp
        have : (p.1 == n) = false := by
          simp only [beq_eq_false_iff_ne, ne_eq]
          intro h; exact hnp (h ▸ List.mem_map_of_mem hp)
        simp [List.lookup, this]
      have hrow : rowOf prev (n, ct, e) = some (n, ct, none, some e) := by simp [rowOf, hl]
      simp only [Option.isSome_none, Bool.false_eq_true, ↓reduceIte]
      rw [ih prev _ hrest (fun n' ct' e' hm => hct n' ct' e' (List.mem_cons_of_mem _ hm))]
      simp [hfil, hrow]
    | some v =>
      obtain ⟨ct', e'⟩ := v
      have hcteq : ct' = ct := hct n ct e (by simp) ct' e' hl
      subst hcteq
      have hdel : Dict.del prev n = .ok (prev.filter fun p => p.1 != n) := by simp [Dict.del, hl]; rfl
      -- facts about the dict after the deletion
      have hfil : prev.filter (fun p => (((n, ct', e) :: rest).lookup p.1).isNone) =
          (prev.filter fun p => p.1 != n).filter (fun p => (rest.lookup p.1).isNone) := by
        rw [List.filter_filter]
        apply List.filter_congr
        intro p _
        cases hp : (p.1 == n) <;> simp [List.lookup, hp, bne]
      have hrows : rest.filterMap (rowOf (prev.filter fun p => p.1 != n)) = rest.filterMap (rowOf prev) := by
        apply filterMap_congr'
        intro y hy
        obtain ⟨n2, ct2, e2⟩ := y
        have hne : n2 ≠ n := fun h => hn (h ▸ List.mem_map_of_mem (f := Prod.fst) hy)
        simp only [rowOf, lookup_filter_ne prev n n2 hne]
      have hct' : ∀ n2 ct2 e2, (n2, ct2, e2) ∈ rest → ∀ c' e'', (prev.filter fun p => p.1 != n).lookup n2 = some (c', e'') → c' = ct2 := by
        intro n2 ct2 e2 hm c' e'' hlk
        have hne : n2 ≠ n := fun h => hn (h ▸ List.mem_map_of_mem (f := Prod.fst) hm)
        rw [lookup_filter_ne prev n n2 hne] at hlk
        exact hct n2 ct2 e2 (List.mem_cons_of_mem _ hm) c' e'' hlk
      simp only [beq_self_eq_true, Bool.not_true, Bool.false_eq_true, ↓reduceIte, Option.isSome_some, hdel, ok_bind]
      by_cases hee : e' = e
      · subst hee
        have hrow : rowOf prev (n, ct', e') = none := by simp [rowOf, hl]
        simp only [beq_self_eq_true, Bool.not_true, Bool.false_eq_true, ↓reduceIte]
        rw [ih _ _ hrest hct']
        simp [hfil, hrows, hrow]
      · have hrow : rowOf prev (n, ct', e) = some (n, ct', some e', some e) := by simp [rowOf, hl, hee]
        have hb : ((some e' : Option String) == some e) = false := by simpa using hee
        simp only [hb, Bool.not_false, ↓reduceIte]
        rw [ih _ _ hrest hct']
        simp [hfil, hrows, hrow]

/-- **`iter_changes` as translated = the declarative change set** -/
theorem iter_changes_eq (olds news : List Entry)
    (ho : (olds.map Prod.fst).Nodup) (hn : (news.map Prod.fst).Nodup)
    (hct : ∀ n ct e, (n, ct, e) ∈ news → ∀ ct' e', olds.lookup n = some (ct', e') → ct' = ct) :
    iter_changes olds news = .ok (changeSpec olds news) := by
  unfold iter_changes
  have hid : (olds.map fun (x : Entry) => (x.1, (x.2.1, x.2.2))) = olds := by
    simp
  have hof : Dict.ofList (olds.map fun (x : Entry) => (x.1, (x.2.1, x.2.2))) = olds := by
    rw [hid]; exact Dict.ofList_nodup olds ho
  show (iter_changes_loop1 news (Dict.ofList (olds.map fun (x : Entry) => (x.1, (x.2.1, x.2.2)))) [] >>= _) = _
  rw [hof, loop1_eq news olds [] hn hct]
  simp only [ok_bind, loop2_eq, List.nil_append]
  rfl

end Xandikos.Tie
