/-
  Tie (translator): the precondition gates regenerated from /repo's `PutMethod.handle`,
  `DeleteMethod.handle` and `_do_get` on this run are the tests the HTTP model performs
  (`Http.condFails`, the If-Match test of `Http.delete`, the If-None-Match test of `Http.get`) —
  and they raise nothing (no `None` reaches `etag_matches` as the header argument).
-/
import Xandikos.Generated.Gates
import Xandikos.Tie.EtagEq
import Xandikos.Http.World

namespace Xandikos.Tie
open Xandikos.Py Xandikos.Http

theorem truthy_toList (s : String) : Str.truthy s.toList = (s != "") := by
  unfold Str.truthy
  by_cases h : s = ""
  · subst h; rfl
  · have h1 : (s != "") = true := by simpa using h
    have h2 : s.toList ≠ [] := by
      intro e
      apply h
      have : s.toList = "".toList := by simpa using e
      exact String.toList_inj.mp this
    rw [h1]
    cases hl : s.toList with
    | nil => exact absurd hl h2
    | cons a b => rfl

theorem gen_etag (h : List Char) (cur : Option (List Char)) :
    Generated.etag_matches h cur = etagMatches h cur := by rw [etag_matches_eq]

/-- PUT: the translated gate = `condFails` -/
theorem put_refuses_eq (r : Req) (cur : Option String) :
    Generated.put_refuses (r.ifMatch.map String.toList) (r.ifNoneMatch.map String.toList)
        (cur.map String.toList) = .ok (condFails r cur) := by
  unfold Generated.put_refuses condFails condMatches
  cases r.ifMatch with
  | none =>
    cases r.ifNoneMatch with
    | none => rfl
    | some n =>
      simp only [Option.map_some, Option.map_none, otruthy, strArg, truthy_toList, gen_etag, Option.getD_some,
        Option.getD_none, Option.isSome_none, pure_bind, Bool.false_and, Bool.false_or]
      generalize etagMatches n.toList (Option.map String.toList cur) = b
      generalize (n != "") = c
      cases b <;> cases c <;> rfl
  | some m =>
    cases r.ifNoneMatch with
    | none =>
      simp only [Option.map_some, Option.map_none, otruthy, strArg, gen_etag, Option.getD_some, Option.getD_none,
        Option.isSome_some, pure_bind]
      generalize etagMatches m.toList (Option.map String.toList cur) = a
      cases a <;> rfl
    | some n =>
      simp only [Option.map_some, otruthy, strArg, truthy_toList, gen_etag, Option.getD_some, Option.isSome_some, pure_bind]
      generalize etagMatches m.toList (Option.map String.toList cur) = a
      generalize etagMatches n.toList (Option.map String.toList cur) = b
      generalize (n != "") = c
      cases a <;> cases b <;> cases c <;> rfl

/-- DELETE: the translated gate = the If-Match test of the model's `delete` -/
theorem delete_refuses_eq (im : Option String) (cur : String) :
    Generated.delete_refuses (im.map String.toList) (some cur.toList) =
      .ok (im.isSome && !(condMatches (im.getD "") (some cur))) := by
  unfold Generated.delete_refuses condMatches
  cases im with
  | none => rfl
  | some m =>
    simp only [Option.map_some, strArg, gen_etag, Option.getD_some, Option.isSome_some, pure_bind]
    generalize etagMatches m.toList (some cur.toList) = a
    cases a <;> rfl

/-- GET / HEAD: the translated gate = the If-None-Match test of the model's `get` -/
theorem get_not_modified_eq (inm : Option String) (cur : String) :
    Generated.get_not_modified (inm.map String.toList) (some cur.toList) =
      .ok ((inm.getD "") != "" && condMatches (inm.getD "") (some cur)) := by
  unfold Generated.get_not_modified condMatches
  cases inm with
  | none => rfl
  | some n =>
    simp only [Option.map_some, otruthy, strArg, truthy_toList, gen_etag, Option.getD_some, Option.isSome_some, pure_bind]
    generalize etagMatches n.toList (some cur.toList) = b
    generalize (n != "") = c
    cases b <;> cases c <;> rfl

end Xandikos.Tie
