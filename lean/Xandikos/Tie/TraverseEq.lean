/-
  Tie (translator): the work-list loop regenerated from /repo's `webdav.traverse_resource` on this
  run, for the depths a PROPFIND can carry: Depth 0 yields exactly the addressed resource,
  Depth 1 additionally exactly its direct members, each once, in `members()` order, with the
  hrefs of the model (`Http.childHref`: the collection's href with its trailing slash, then the
  member's name; collections end in `/`); an unknown depth raises AssertionError.
-/
import Xandikos.Generated.Href
import Xandikos.Tie.HrefEq
import Xandikos.Http.Href

namespace Xandikos.Tie
open Xandikos.Py Xandikos.Http Xandikos.Generated

theorem etsS_eq (h : String) : Py.etsS h = ensureTrailingSlash h := ensure_trailing_slash_eq h

/-- the href a resource is reported under -/
def hrefOf (r : ResTree) (h : String) : String := if r.isCollection then ensureTrailingSlash h else h

theorem ets_idem (h : String) : ensureTrailingSlash (ensureTrailingSlash h) = ensureTrailingSlash h := by
  unfold ensureTrailingSlash
  by_cases hl : h.toList.getLast? = some '/'
  · simp [hl]
  · simp [hl, String.toList_append]

/-- a work list of depth-0 items is drained in order, one answer each -/
theorem drain0 (items : List (String × ResTree)) :
    ∀ (out : List (String × ResTree)) (fuel : Nat), items.length ≤ fuel →
      traverse_resource_loop fuel (items.map fun x => (x.1, x.2, "0")) out =
        .ok (out ++ items.map fun x => (hrefOf x.2 x.1, x.2)) := by
  induction items with
  | nil => intro out fuel _; cases fuel <;> simp [traverse_resource_loop] <;> rfl
  | cons x rest ih =>
    intro out fuel hf
    obtain ⟨h, r⟩ := x
    cases fuel with
    | zero => simp at hf
    | succ fuel =>
      simp only [List.map_cons, traverse_resource_loop, etsS_eq, beq_self_eq_true, ↓reduceIte]
      rw [ih _ fuel (by simpa using hf)]
      simp [hrefOf]

/-- **Depth 0: exactly the addressed resource** -/
theorem traverse_depth0 (fuel : Nat) (r : ResTree) (h : String) :
    traverse_resource (fuel + 1) r h "0" = .ok [(hrefOf r h, r)] := by
  have := drain0 [(h, r)] [] (fuel + 1) (by simp)
  simpa [traverse_resource] using this

/-- **Depth 1: the resource, then exactly its direct members, each once** -/
theorem traverse_depth1 (fuel : Nat) (r : ResTree) (h : String) (hf : r.members.length ≤ fuel) :
    traverse_resource (fuel + 1) r h "1" =
      .ok ((hrefOf r h, r) ::
        (if r.isCollection then
          r.members.map fun x => (hrefOf x.2 (childHref h x.1), x.2)
         else [])) := by
  unfold traverse_resource
  have h10 : ("1" == "0") = false := by decide
  simp only [traverse_resource_loop, etsS_eq, h10, Bool.false_eq_true, ↓reduceIte, beq_self_eq_true,
    List.nil_append]
  by_cases hc : r.isCollection = true
  · simp only [hc, ↓reduceIte, ets_idem]
    have hm : (r.members.map fun x => (ensureTrailingSlash h ++ x.1, x.2, "0")) =
        ((r.members.map fun x => (ensureTrailingSlash h ++ x.1, x.2)).map fun y => (y.1, y.2, "0")) := by
      simp [List.map_map, Function.comp]
    have hm' : (List.map (fun x => match x with | (child_name, child_resource) => (ensureTrailingSlash h ++ child_name, child_resource, "0")) r.members) =
        (r.members.map fun x => (ensureTrailingSlash h ++ x.1, x.2, "0")) := by
      apply List.map_congr_left; intro x _; rfl
    rw [hm', hm, drain0 _ _ fuel (by simpa using hf)]
    simp [hrefOf, hc, childHref, List.map_map, Function.comp]
  · have hc' : r.isCollection = false := by simpa using hc
    simp only [hc', Bool.false_eq_true, ↓reduceIte]
    cases fuel <;> simp [traverse_resource_loop, hrefOf, hc'] <;> rfl

/-- **an unknown depth is an error, not a listing** -/
theorem traverse_bad_depth (fuel : Nat) (r : ResTree) (h d : String)
    (h0 : d ≠ "0") (h1 : d ≠ "1") (hi : d ≠ "infinity") :
    traverse_resource (fuel + 1) r h d = .error (.raised "AssertionError" d) := by
  unfold traverse_resource
  have a : (d == "0") = false := by simpa using h0
  have b : (d == "1") = false := by simpa using h1
  have c : (d == "infinity") = false := by simpa using hi
  simp only [traverse_resource_loop, a, b, c, Bool.false_eq_true, ↓reduceIte]
  rfl

end Xandikos.Tie
