/-
  Tie (translator): the functions regenerated from /repo's `webdav.ensure_trailing_slash` and
  `webdav.href_to_path` on this run are the hand-written models the C16/C17/C18 theorems are about.
-/
import Xandikos.Generated.Href
import Xandikos.Http.Multiget

namespace Xandikos.Tie
open Xandikos.Py

theorem endsWith_slash (l : List Char) : Str.endsWith l ['/'] = decide (l.getLast? = some '/') := by
  unfold Str.endsWith
  rw [List.getLast?_eq_head?_reverse]
  cases l.reverse with
  | nil => simp
  | cons x xs =>
    simp [List.isPrefixOf]
    by_cases h : x = '/'
    · simp [h]
    · have h' : ¬ ('/' = x) := fun e => h e.symm
      simp [h, h']

/-- `ensure_trailing_slash` as translated = `Http.ensureTrailingSlash` -/
theorem ensure_trailing_slash_eq (h : String) :
    String.ofList (Generated.ensure_trailing_slash h.toList) = Http.ensureTrailingSlash h := by
  unfold Generated.ensure_trailing_slash Http.ensureTrailingSlash
  rw [endsWith_slash]
  by_cases hl : h.toList.getLast? = some '/'
  · simp [hl]
  · simp [hl, String.ofList_append]

theorem drop_length_prefix (sn rest : List Char) : (sn ++ rest).drop sn.length = rest := by
  simp

/-- `href_to_path` as translated = `Http.hrefToPathChars` (on `SCRIPT_NAME.rstrip("/")`) -/
theorem href_to_path_eq (script href : List Char) :
    Generated.href_to_path script href = Http.hrefToPathChars (Path.rstripSlash script) href := by
  unfold Generated.href_to_path Http.hrefToPathChars
  generalize Path.rstripSlash script = sn
  by_cases h0 : href = []
  · subst h0; simp [Str.truthy]
  · by_cases h1 : href = sn
    · subst h1
      simp [Str.truthy, h0, Str.startsWith]
    · by_cases h2 : (sn ++ ['/']).isPrefixOf href = true
      · obtain ⟨rest, hr⟩ := List.isPrefixOf_iff_prefix.mp h2
        subst hr
        simp [Str.truthy, Str.startsWith] at *
      · simp [Str.truthy, h0, h1, Str.startsWith, h2]

end Xandikos.Tie
