/-
  calendar-query filter evaluation on INDEX values (the "index" path): hand-written model of
  `icalendar.py` — `CalendarFilter.index_keys` / `check_from_indexes`, `ComponentFilter.index_keys`
  / `match_indexes`, `PropertyFilter.…`, `ParameterFilter.…`, `TextMatcher.match_indexes`,
  `PropertyTimeRangeMatcher.match_indexes`, `ComponentTimeRangeMatcher.index_keys` /
  `match_indexes`, `create_subindexes`, `ICalendarFile._get_index`, `_index_value` — and of
  `File.get_indexes` (`store/__init__.py`).

  No proofs here (the file is linked into the native driver); the agreement with the naive path
  (`Ical/Filter.lean`) is proved in `Ical/IndexProofs.lean`.

  Conventions shared with `Ical/Filter.lean`:
  * a filter's children are evaluated prop-filters first, then comp-filters (the XML the harness
    sends has them in that order); inside a prop-filter, text-matches first, then param-filters;
  * property / parameter names are compared exactly (the harness upper-cases them, as the
    library's caseless dictionaries do).

  TRUSTED LIBRARY ASSUMPTION (checked by differential testing, not proved): an index value is the
  `to_ical()` bytes of the property value (after `_index_value`'s conversion of zone-aware
  date-times to UTC) and is read back by the matchers — `TextMatcher._from_index` (un-escaping
  TEXT, splitting CATEGORIES at unescaped commas, `from_ical` for every other type),
  `vDDDTypes.from_ical` / `vPeriod.from_ical` for the time ranges.  The model keeps the abstract
  `PVal` and applies a parameter `rt : PVal → PVal` ("round trip") at the point where the real
  code serialises; the agreement theorem asks `rt v = v` for the values of the calendar at hand
  and nothing else about `rt`.  For TEXT and CATEGORIES the round trip is no longer an
  assumption: `rtText` below is the composition of the models of `_escape_char` and
  `_unescape_text` (`Ical/Escape.lean`), and `EscapeProofs.unescape_escape(_cats)` prove it is
  the identity on strings without CR and without backslash-`N` (where `_escape_char` itself is
  lossy).  For instants (date / date-time kind and instant are preserved by the UTC conversion),
  durations and periods `rt = id` remains trusted.  (Before the repair of `TextMatcher`,
  icalendar 7.3's `vText.from_ical` did not un-escape; the driver's `rt73` models that.)
  A parameter value is indexed as `str(param)` and compared as stored (`raw=True`);
  multi-valued parameters (a Python list) are outside the model (`PropI.params` holds strings).
  Ill-typed values (a DTSTART that is not a date, a prop-filter time range on a text, a FREEBUSY
  that is not a period) are treated as `Ical/Filter.lean` treats them on the naive side —
  "absent" / "no match" — although both real paths raise there (`AttributeError` /
  `ValueError`); `section99` / `section99Idx` only differ from the code on calendars the library
  would not produce.  A text-match on a non-text value (DTSTART, …) is `False` on both paths.
-/
import Xandikos.Ical.Filter
import Xandikos.Ical.Escape

namespace Xandikos.Ical
open Xandikos.Py

/-- one index value -/
inductive IVal
  | present                      -- the marker `True` a pure component key yields
  | val (v : PVal)               -- `_index_value(value)`, as the matchers read it back
  | param (s : List Char)        -- `str(param).encode("utf-8")`
  deriving Repr

/-- an index key / a segment of one, as characters -/
abbrev Key := List Char

/-- `SubIndexDict`: `None` can occur as a key.  A Python dict is an association list here;
    lookups take the first entry of a key (entries of one key always carry the same values: they
    are a function of the key) -/
abbrev SubIdx := List (Option Key × List IVal)

def cKey (name : List Char) : Key := 'C' :: '=' :: name
def pKey (name : List Char) : Key := 'P' :: '=' :: name
def aKey (name : List Char) : Key := 'A' :: '=' :: name
/-- `mine + "/" + child_index` -/
def joinKey (a b : Key) : Key := a ++ '/' :: b

/-! ### `index_keys()` -/

/-- `ComponentTimeRangeMatcher.all_props` -/
def allProps : List Key :=
  ["DTSTART", "DTEND", "DURATION", "CREATED", "COMPLETED", "DUE", "FREEBUSY"].map String.toList

/-- `ComponentTimeRangeMatcher.index_keys()` -/
def trKeys (comp : List Char) : Except PyErr (List (List Key)) :=
  let mk (l : List String) : List (List Key) := l.map fun p => [pKey p.toList]
  if comp = "VEVENT".toList then pure (mk ["DTSTART", "DTEND", "DURATION"])
  else if comp = "VTODO".toList then pure (mk ["DTSTART", "DUE", "DURATION", "CREATED", "COMPLETED"])
  else if comp = "VJOURNAL".toList then pure (mk ["DTSTART"])
  else if comp = "VFREEBUSY".toList then pure (mk ["DTSTART", "DTEND", "FREEBUSY"])
  else if comp = "VALARM".toList then throw (.raised "NotImplementedError" "")
  else pure (allProps.map fun p => [pKey p])

/-- `ParameterFilter.index_keys()` -/
def paramKeys (pf : ParamF) : List (List Key) := [[aKey pf.name]]

/-- `PropertyFilter.index_keys()`: the param-filter children, then `[mine]` -/
def propKeys (f : PropF) : List (List Key) :=
  (f.params.flatMap fun p => (paramKeys p).map fun tl => tl.map (joinKey (pKey f.name))) ++ [[pKey f.name]]

/-- `ComponentFilter._implicitly_defined()` -/
def implicitlyDefined {β : Type} (childND : β → Bool) (f : FNode β) : Bool :=
  f.props.any (fun p => !p.isNotDefined) || f.comps.any (fun c => !childND c)

def mapME {α γ : Type} (f : α → Except PyErr γ) : List α → Except PyErr (List γ)
  | [] => pure []
  | x :: xs => f x >>= fun y => mapME f xs >>= fun ys => pure (y :: ys)

/-- `ComponentFilter.index_keys()`: children (prop-filters, comp-filters), the time range, and
    `[mine]` when no child implies the component's existence -/
def nodeKeys {β : Type} (childKeys : β → Except PyErr (List (List Key))) (childND : β → Bool)
    (f : FNode β) : Except PyErr (List (List Key)) :=
  mapME childKeys f.comps >>= fun ck =>
  (match f.timeRange with
   | some _ => trKeys f.name
   | none => pure []) >>= fun tr =>
  pure (((f.props.flatMap propKeys ++ ck.flatten ++ tr).map fun tl => tl.map (joinKey (cKey f.name))) ++
    if implicitlyDefined childND f then [] else [[cKey f.name]])

def leafKeys (f : LeafF) : Except PyErr (List (List Key)) :=
  nodeKeys (fun (e : Empty) => nomatch e) (fun (e : Empty) => nomatch e) f
def midKeys (f : MidF) : Except PyErr (List (List Key)) := nodeKeys leafKeys (·.isNotDefined) f
def calKeys (f : CalF) : Except PyErr (List (List Key)) := nodeKeys midKeys (·.isNotDefined) f

/-- `CalendarFilter.index_keys()`: AND-list of OR-groups.  `NotImplementedError` (a time range on
    VALARM) makes `Store.iter_with_filter` fall back to the naive path. -/
def indexKeys (filters : List CalF) : Except PyErr (List (List String)) :=
  mapME calKeys filters >>= fun l => pure (l.flatten.map fun g => g.map String.ofList)

/-! ### `ICalendarFile._get_index(key)` and `File.get_indexes(keys)` -/

def flatMapE {α γ : Type} (f : α → Except PyErr (List γ)) : List α → Except PyErr (List γ)
  | [] => pure []
  | x :: xs => f x >>= fun a => flatMapE f xs >>= fun b => pure (a ++ b)

/-- the second loop of `_get_index` for one `(c, segments)` of `rest` -/
def yieldVals (rt : PVal → PVal) (props : List (List Char × PropI)) (segs : List Key) :
    Except PyErr (List IVal) :=
  match segs with
  | [] => pure [.present]
  | s0 :: tl =>
    if Str.startsWith s0 "P=".toList then
      if tl.length ≤ 1 then
        let insts := (props.filter fun p => p.1 == s0.drop 2).map (·.2)
        match tl with
        | [] => pure (insts.map fun p => .val (rt p.value))
        | s1 :: _ =>
          if Str.startsWith s1 "A=".toList then
            pure (insts.filterMap fun p => (p.params.lookup (s1.drop 2)).map .param)
          else if insts.isEmpty then pure []
          else throw (.raised "AssertionError" "segments")
      else throw (.raised "AssertionError" "")
    else throw (.raised "AssertionError" "segments")

/-- the first loop of `_get_index` below one component (`todo`), followed by the second -/
def nodeWalk {α : Type} (rt : PVal → PVal) (subWalk : α → List Key → Except PyErr (List IVal))
    (c : Node α) (segs : List Key) : Except PyErr (List IVal) :=
  match segs with
  | [] => pure []
  | s0 :: tl =>
    if Str.startsWith s0 "C=".toList && c.name == s0.drop 2 then
      match tl with
      | s1 :: _ =>
        if Str.startsWith s1 "C=".toList then flatMapE (fun s => subWalk s tl) c.subs
        else yieldVals rt c.props tl
      | [] => yieldVals rt c.props []
    else pure []

def leafWalk (rt : PVal → PVal) (c : Leaf) (segs : List Key) : Except PyErr (List IVal) :=
  nodeWalk rt (fun (e : Empty) _ => nomatch e) c segs
def midWalk (rt : PVal → PVal) (c : Mid) (segs : List Key) : Except PyErr (List IVal) :=
  nodeWalk rt (leafWalk rt) c segs
def calWalk (rt : PVal → PVal) (c : Cal) (segs : List Key) : Except PyErr (List IVal) :=
  nodeWalk rt (midWalk rt) c segs

/-- `list(file._get_index(key))`; `AssertionError` for a key no filter produces -/
def getIndex (rt : PVal → PVal) (c : Cal) (key : Key) : Except PyErr (List IVal) :=
  calWalk rt c (Str.splitOn '/' key)

/-- `file.get_indexes(keys)`, as the code runs it -/
def getIndexesE (rt : PVal → PVal) (c : Cal) (keys : List String) :
    Except PyErr (List (String × List IVal)) :=
  mapME (fun k => getIndex rt c k.toList >>= fun v => pure (k, v)) keys

/-- `file.get_indexes(keys)` made total: a key on which `_get_index` raises yields no values.
    The keys of the index all come from `index_keys()` of some filter; for well-formed filters
    `_get_index` does not raise on them and the two functions coincide
    (`IndexProofs.getIndexesE_eq`). -/
def getIndexes (rt : PVal → PVal) (c : Cal) (keys : List String) : List (String × List IVal) :=
  keys.map fun k => (k, match getIndex rt c k.toList with | .ok v => v | .error _ => [])

/-! ### `create_subindexes`, dict access -/

/-- `create_subindexes(indexes, base)` -/
def createSub (idx : SubIdx) (base : Key) : SubIdx :=
  idx.filterMap fun e =>
    match e.1 with
    | none => none
    | some k =>
      if Str.startsWith k (base ++ ['/']) then some (some (k.drop (base.length + 1)), e.2)
      else if k = base then some (none, e.2)
      else none

/-- `indexes[key]` -/
def lookupE (idx : SubIdx) (k : Option Key) : Except PyErr (List IVal) :=
  match idx.lookup k with
  | some v => pure v
  | none => throw (.raised "KeyError" "")

/-! ### `match_indexes` of the leaves -/

/-- `self.match(self._from_index(k, raw))` for one indexed value `k`: a parameter value
    (`raw=True`: values under an `A=` key) is compared as stored; a property value is read back
    by `_from_index` — by the round-trip assumption / theorem that is the value itself, and
    `match` answers `False` for anything that is not a text or a category list.  The marker
    never occurs under a property or parameter key. -/
def textMatchIVal (tm : TextMatch) : IVal → Bool
  | .present => false
  | .param s => textMatch false tm (.text s)
  | .val p => textMatch false tm p

/-- `TextMatcher.match_indexes(indexes, raw)`: some value under `None` matches -/
def textMatchIdx (tm : TextMatch) (idx : SubIdx) : Except PyErr Bool :=
  lookupE idx none >>= fun vs => pure (vs.any (textMatchIVal tm))

/-- `ParameterFilter.match_indexes(indexes)` -/
def paramMatchIdx (pf : ParamF) (idx : SubIdx) : Except PyErr Bool :=
  if pf.isNotDefined then lookupE idx (some (aKey pf.name)) >>= fun v => pure v.isEmpty
  else
    let sub := createSub idx (aKey pf.name)
    if ((sub.lookup none).getD []).isEmpty then pure false
    else allE (fun tm => textMatchIdx tm sub) pf.tms

/-- `PropertyTimeRangeMatcher.match_indexes(prop, tzify)`: bools are skipped -/
def propTimeMatchIdx (tz : TVal → Int) (r : Int × Int) (idx : SubIdx) : Except PyErr Bool :=
  lookupE idx none >>= fun vs =>
  pure (vs.any fun v => match v with
    | .present => false
    | .val p => propTimeMatch tz r p
    | .param _ => false)

/-- `PropertyFilter.match_indexes(indexes, tzify)` -/
def propMatchIdx (tz : TVal → Int) (f : PropF) (idx : SubIdx) : Except PyErr Bool :=
  if f.isNotDefined then lookupE idx (some (pKey f.name)) >>= fun v => pure v.isEmpty
  else
    let sub := createSub idx (pKey f.name)
    -- `if not indexes.get(myindex, True): return False`
    if (match idx.lookup (some (pKey f.name)) with
        | some v => v.isEmpty
        | none => false) then pure false
    else if f.tms.isEmpty && f.params.isEmpty && f.timeRange.isNone then
      lookupE idx (some (pKey f.name)) >>= fun v => pure (!v.isEmpty)
    else
      (match f.timeRange with
       | some r => propTimeMatchIdx tz r sub
       | none => pure true) >>= fun t =>
      if !t then pure false
      else
        allE (fun tm => textMatchIdx tm sub) f.tms >>= fun b =>
        if !b then pure false else allE (fun pf => paramMatchIdx pf sub) f.params

/-! ### `ComponentTimeRangeMatcher.match_indexes` -/

/-- Python truthiness of the bytes `to_ical()` gives -/
def PVal.truthy : PVal → Bool
  | .text s => !s.isEmpty
  | .cats l => !(l.all fun c => c.isEmpty) || decide (2 ≤ l.length)
  | _ => true

/-- `if value and not isinstance(value, bool)`, then `vDDDTypes(vDDDTypes.from_ical(value))` -/
def IVal.timeVal : IVal → Option PVal
  | .present => none
  | .val v => if v.truthy then some v else none
  | .param s => if s.isEmpty then none else some (.text s)

/-- `vs[field]` after the loop over `indexes.items()`: the entries whose name, minus its first
    two characters, is the field (`name[2:]`; the `P=` is not looked at) -/
def trVals (idx : SubIdx) (field : Key) : List PVal :=
  idx.flatMap fun e =>
    match e.1 with
    | none => []
    | some name => if name.drop 2 = field then e.2.filterMap IVal.timeVal else []

/-- `{k: vs[0] for (k, vs) in vs.items()}.get(field)` -/
def trGet (idx : SubIdx) (field : String) : Option PVal := (trVals idx field.toList).head?

/-- `x.dt` of a date / date-time value (anything else is treated as on the naive side, see
    `section99`: absent) -/
def timeOf : Option PVal → Option TVal
  | some (.time v) => some v
  | _ => none

def durOf : Option PVal → Option Int
  | some (.dur v) => some v
  | _ => none

/-- a PERIOD value, resolved to instants -/
def periodOf : PVal → Option (Int × Int)
  | .period s e => some (s, e)
  | _ => none

/-- `vs["FREEBUSY"]`: every indexed FREEBUSY value, parsed as a period (`vPeriod.from_ical`) -/
def trPeriods (idx : SubIdx) : List (Int × Int) :=
  (trVals idx "FREEBUSY".toList).filterMap periodOf

/-- the dict handed to the §9.9 handlers, read the way they read it:
    `{k: (vs if k == "FREEBUSY" else vs[0]) for (k, vs) in vs.items()}` -/
def section99Idx (idx : SubIdx) : Comp :=
  { dtstart := timeOf (trGet idx "DTSTART"), dtend := timeOf (trGet idx "DTEND"),
    due := timeOf (trGet idx "DUE"), completed := timeOf (trGet idx "COMPLETED"),
    created := timeOf (trGet idx "CREATED"), duration := durOf (trGet idx "DURATION"),
    freebusy := trPeriods idx }

/-- `ComponentTimeRangeMatcher.match_indexes(indexes, tzify)`; `comp` is the filter's name -/
def compTimeMatchIdx (tz : TVal → Int) (r : Int × Int) (comp : List Char) (idx : SubIdx) :
    Except PyErr Bool :=
  let c := section99Idx idx
  if comp = "VEVENT".toList then vevent r.1 r.2 c tz
  else if comp = "VTODO".toList then vtodo r.1 r.2 c tz
  else if comp = "VJOURNAL".toList then vjournal r.1 r.2 c tz
  else if comp = "VFREEBUSY".toList then vfreebusy r.1 r.2 c tz
  else if comp = "VALARM".toList then throw (.raised "NotImplementedError" "apply_time_range_valarm")
  else pure false

/-! ### `ComponentFilter.match_indexes`, `CalendarFilter.check_from_indexes` -/

/-- the part of `ComponentFilter.match_indexes` that runs on `subindexes`: the time range, then
    the children (a child that does not match ends the evaluation) -/
def nodeBodyIdx {β : Type} (tz : TVal → Int) (childMatchIdx : β → SubIdx → Except PyErr Bool)
    (f : FNode β) (sub : SubIdx) : Except PyErr Bool :=
  (match f.timeRange with
   | some r => compTimeMatchIdx tz r f.name sub
   | none => pure true) >>= fun t =>
  if !t then pure false
  else
    allE (fun pf => propMatchIdx tz pf sub) f.props >>= fun b =>
    if !b then pure false
    else allE (fun cf => childMatchIdx cf sub) f.comps

/-- `ComponentFilter.match_indexes(indexes, tzify)` -/
def nodeMatchIdx {β : Type} (tz : TVal → Int) (childMatchIdx : β → SubIdx → Except PyErr Bool)
    (childND : β → Bool) (f : FNode β) (idx : SubIdx) : Except PyErr Bool :=
  if f.isNotDefined then lookupE idx (some (cKey f.name)) >>= fun v => pure v.isEmpty
  else
    nodeBodyIdx tz childMatchIdx f (createSub idx (cKey f.name)) >>= fun b =>
    if !b then pure false
    else if !implicitlyDefined childND f then
      lookupE idx (some (cKey f.name)) >>= fun v => pure (!v.isEmpty)
    else pure true

def leafMatchIdx (tz : TVal → Int) (f : LeafF) (idx : SubIdx) : Except PyErr Bool :=
  nodeMatchIdx tz (fun (e : Empty) _ => nomatch e) (fun (e : Empty) => nomatch e) f idx
def midMatchIdx (tz : TVal → Int) (f : MidF) (idx : SubIdx) : Except PyErr Bool :=
  nodeMatchIdx tz (leafMatchIdx tz) (·.isNotDefined) f idx
def calMatchIdx (tz : TVal → Int) (f : CalF) (idx : SubIdx) : Except PyErr Bool :=
  nodeMatchIdx tz (midMatchIdx tz) (·.isNotDefined) f idx

/-- the `IndexDict` as a `SubIdx` -/
def toSubIdx (vals : List (String × List IVal)) : SubIdx := vals.map fun e => (some e.1.toList, e.2)

/-- `CalendarFilter.check_from_indexes(name, indexes)`: `MissingProperty` means "no match";
    any other exception propagates -/
def checkFromIndexes (tz : TVal → Int) (filters : List CalF) (vals : List (String × List IVal)) :
    Except PyErr Bool :=
  match allE (fun f => calMatchIdx tz f (toSubIdx vals)) filters with
  | .ok b => .ok b
  | .error (.raised "MissingProperty" _) => .ok false
  | .error e => .error e

/-! ### the round trip of TEXT, concretely -/

/-- what `TextMatcher._from_index` reads back from `to_ical()` of a `vText` / `vCategory`
    (`_unescape_text(…)[0]`, resp. `_unescape_text(…, split=True)`); the other kinds of value are
    left alone (trusted) -/
def rtText : PVal → PVal
  | .text s => .text ((unescapeText false (escapeText s)).headD [])
  | .cats l => .cats (unescapeText true (joinComma (l.map escapeText)))
  | v => v

end Xandikos.Ical
