/-
  RFC 4791 section 9.7 (CALDAV:filter) written as propositions from the RFC text, and the
  proof that the model of `icalendar.py`'s evaluator decides it.
-/
import Xandikos.Ical.Filter
import Xandikos.Ical.TimeRangeProofs

namespace Xandikos.Ical.Rfc
open Xandikos.Py Xandikos.Ical

/-! ### the specification -/

/-- §9.7.5: the text value matches the pattern under the collation; `substring = true` is the
    RFC ("substring match"), `false` the behaviour the code has (recorded finding). -/
def TextOk (substring : Bool) (tm : TextMatch) (value : List Char) : Prop :=
  (textCmp substring tm.collation tm.text value = some true) ≠ (tm.negate = true)

/-- CALDAV:text-match on a property value: TEXT values and each CATEGORIES item -/
def TextMatches (substring : Bool) (tm : TextMatch) : PVal → Prop
  | .text s => TextOk substring tm s
  | .cats l => ((∃ c ∈ l, textCmp substring tm.collation tm.text c = some true) ≠ (tm.negate = true))
  | _ => False

/-- §9.7.3 CALDAV:param-filter -/
def ParamMatches (substring : Bool) (pf : ParamF) (p : PropI) : Prop :=
  match p.params.lookup pf.name with
  | none => pf.isNotDefined = true
  | some v => pf.isNotDefined = false ∧ ∀ tm ∈ pf.tms, TextOk substring tm v

/-- §9.9 for a property: `start <= value < end` -/
def PropTime (tz : TVal → Int) (r : Int × Int) : PVal → Prop
  | .time t => r.1 ≤ tz t ∧ tz t < r.2
  | _ => False

/-- §9.7.2 CALDAV:prop-filter -/
def PropMatches (substring : Bool) (tz : TVal → Int) (f : PropF) (props : List (List Char × PropI)) : Prop :=
  if f.isNotDefined then ∀ p ∈ props, p.1 ≠ f.name
  else ∃ p ∈ props, p.1 = f.name ∧
    (match f.timeRange with | some r => PropTime tz r p.2.value | none => True) ∧
    (∀ tm ∈ f.tms, TextMatches substring tm p.2.value) ∧
    (∀ pf ∈ f.params, ParamMatches substring pf p.2)

/-- §9.9 for a component: the table of its type -/
def CompTime (tz : TVal → Int) (r : Int × Int) (name : List Char) (props : List (List Char × PropI)) : Prop :=
  let c := section99 props
  if name = "VEVENT".toList then
    (match c.dtstart with
     | some ds => Rfc4791.vevent r.1 r.2 ds c.dtend c.duration tz
     | none => False)
  else if name = "VTODO".toList then Rfc4791.vtodo r.1 r.2 c tz
  else if name = "VJOURNAL".toList then Rfc4791.vjournal r.1 r.2 c.dtstart tz
  else if name = "VFREEBUSY".toList then Rfc4791.vfreebusy r.1 r.2 c tz
  else False

def LevelTime (tz : TVal → Int) (tr : Option (Int × Int)) (name : List Char)
    (props : List (List Char × PropI)) : Prop :=
  match tr with
  | some r => CompTime tz r name props
  | none => True

/-- §9.7.1 CALDAV:comp-filter at one level, given what "a child filter matches a child
    component" means one level down -/
def NodeMatches {α β : Type} (substring : Bool) (tz : TVal → Int)
    (childMatches : β → α → Prop) (childName : α → List Char)
    (childND : β → Bool) (childFName : β → List Char)
    (f : FNode β) (c : Node α) : Prop :=
  c.name = f.name ∧
  LevelTime tz f.timeRange c.name c.props ∧
  (∀ pf ∈ f.props, PropMatches substring tz pf c.props) ∧
  (∀ cf ∈ f.comps,
    if childND cf then ∀ s ∈ c.subs, childName s ≠ childFName cf
    else ∃ s ∈ c.subs, childMatches cf s)

def LeafMatches (substring : Bool) (tz : TVal → Int) (f : LeafF) (c : Leaf) : Prop :=
  NodeMatches substring tz (fun (e : Empty) _ => nomatch e) (fun (e : Empty) => nomatch e)
    (fun (e : Empty) => nomatch e) (fun (e : Empty) => nomatch e) f c

def MidMatches (substring : Bool) (tz : TVal → Int) (f : MidF) (c : Mid) : Prop :=
  NodeMatches substring tz (LeafMatches substring tz) (·.name) (·.isNotDefined) (·.name) f c

def CalMatches (substring : Bool) (tz : TVal → Int) (f : CalF) (c : Cal) : Prop :=
  if f.isNotDefined then c.name ≠ f.name
  else NodeMatches substring tz (MidMatches substring tz) (·.name) (·.isNotDefined) (·.name) f c

/-- CALDAV:filter: every top-level comp-filter matches the calendar object -/
def Matches (substring : Bool) (tz : TVal → Int) (filters : List CalF) (c : Cal) : Prop :=
  ∀ f ∈ filters, CalMatches substring tz f c

/-! ### leaves decide their specification -/

theorem textMatch_iff (substring : Bool) (tm : TextMatch) (v : PVal) :
    textMatch substring tm v = true ↔ TextMatches substring tm v := by
  cases v with
  | text s =>
    simp only [textMatch, TextMatches, TextOk]
    cases h : textCmp substring tm.collation tm.text s with
    | none => cases tm.negate <;> simp
    | some b => cases b <;> cases tm.negate <;> simp
  | cats l =>
    simp only [textMatch, TextMatches]
    have : (l.any fun c => (textCmp substring tm.collation tm.text c).getD false) = true ↔
        ∃ c ∈ l, textCmp substring tm.collation tm.text c = some true := by
      rw [List.any_eq_true]
      constructor
      · rintro ⟨c, hc, h⟩
        refine ⟨c, hc, ?_⟩
        cases h' : textCmp substring tm.collation tm.text c with
        | none => simp [h'] at h
        | some b => simp [h'] at h; simp [h]
      · rintro ⟨c, hc, h⟩; exact ⟨c, hc, by simp [h]⟩
    cases hb : (l.any fun c => (textCmp substring tm.collation tm.text c).getD false) <;>
      cases tm.negate <;> simp_all
  | time t => simp [textMatch, TextMatches]
  | dur d => simp [textMatch, TextMatches]
  | period a b => simp [textMatch, TextMatches]
  | other => simp [textMatch, TextMatches]

theorem paramMatch_iff (substring : Bool) (pf : ParamF) (p : PropI) :
    paramMatch substring pf p = true ↔ ParamMatches substring pf p := by
  unfold paramMatch ParamMatches
  cases p.params.lookup pf.name with
  | none => simp
  | some v =>
    simp only [Bool.and_eq_true, Bool.not_eq_true', List.all_eq_true]
    constructor
    · rintro ⟨h1, h2⟩
      exact ⟨h1, fun tm htm => by
        have := (textMatch_iff substring tm (.text v)).mp (h2 tm htm); exact this⟩
    · rintro ⟨h1, h2⟩
      exact ⟨h1, fun tm htm => (textMatch_iff substring tm (.text v)).mpr (h2 tm htm)⟩

theorem propTimeMatch_iff (tz : TVal → Int) (r : Int × Int) (v : PVal) :
    propTimeMatch tz r v = true ↔ PropTime tz r v := by
  cases v <;> simp [propTimeMatch, PropTime]

theorem propMatch_iff (substring : Bool) (tz : TVal → Int) (f : PropF) (props : List (List Char × PropI)) :
    propMatch substring tz f props = true ↔ PropMatches substring tz f props := by
  unfold propMatch PropMatches
  simp only []
  cases hnd : f.isNotDefined with
  | true =>
    simp only [↓reduceIte, List.isEmpty_iff, List.map_eq_nil_iff, List.filter_eq_nil_iff, beq_iff_eq]
  | false =>
    simp only [Bool.false_eq_true, ↓reduceIte, List.any_eq_true, List.mem_map, List.mem_filter,
      beq_iff_eq, Bool.and_eq_true, List.all_eq_true]
    constructor
    · rintro ⟨pi, ⟨p, ⟨hp, hn⟩, rfl⟩, ⟨htr, htm⟩, hpa⟩
      refine ⟨p, hp, hn, ?_, ?_, ?_⟩
      · cases hr : f.timeRange with
        | none => trivial
        | some r => rw [hr] at htr; exact (propTimeMatch_iff tz r _).mp htr
      · intro tm h; exact (textMatch_iff substring tm _).mp (htm tm h)
      · intro pf h; exact (paramMatch_iff substring pf _).mp (hpa pf h)
    · rintro ⟨p, hp, hn, htr, htm, hpa⟩
      refine ⟨p.2, ⟨p, ⟨hp, hn⟩, rfl⟩, ⟨?_, ?_⟩, ?_⟩
      · cases hr : f.timeRange with
        | none => rfl
        | some r => rw [hr] at htr; exact (propTimeMatch_iff tz r _).mpr htr
      · intro tm h; exact (textMatch_iff substring tm _).mpr (htm tm h)
      · intro pf h; exact (paramMatch_iff substring pf _).mpr (hpa pf h)

/-! ### components -/

/-- `r` terminates normally with a value that is true exactly when `P` holds -/
def Decides (r : Except PyErr Bool) (P : Prop) : Prop := ∃ b, r = .ok b ∧ (b = true ↔ P)

theorem decides_of_tr {r : Except PyErr Bool} {P : Prop} (h : DecidesTR r P) : Decides r P := h

/-- the component time-range dispatch decides the §9.9 table of the component's type, provided
    a VEVENT has its DTSTART and the component is not a VALARM (whose table is not implemented) -/
theorem compTimeMatch_decides (tz : TVal → Int) (r : Int × Int) (name : List Char)
    (props : List (List Char × PropI))
    (hev : name = "VEVENT".toList → (section99 props).dtstart ≠ none)
    (hal : name ≠ "VALARM".toList) :
    Decides (compTimeMatch tz r name props) (CompTime tz r name props) := by
  unfold compTimeMatch CompTime
  simp only []
  by_cases h1 : name = "VEVENT".toList
  · simp only [h1, ↓reduceIte]
    cases hd : (section99 props).dtstart with
    | none => exact absurd hd (hev h1)
    | some ds => exact vevent_eq_rfc r.1 r.2 _ tz ds hd
  · simp only [h1, ↓reduceIte]
    by_cases h2 : name = "VTODO".toList
    · simp only [h2, ↓reduceIte]; exact vtodo_eq_rfc r.1 r.2 _ tz
    · simp only [h2, ↓reduceIte]
      by_cases h3 : name = "VJOURNAL".toList
      · simp only [h3, ↓reduceIte]; exact vjournal_eq_rfc r.1 r.2 _ tz
      · simp only [h3, ↓reduceIte]
        by_cases h4 : name = "VFREEBUSY".toList
        · simp only [h4, ↓reduceIte]; exact vfreebusy_eq_rfc r.1 r.2 _ tz
        · simp only [h4, hal, ↓reduceIte]
          exact ⟨false, rfl, by simp⟩

theorem allE_decides {α : Type} (f : α → Except PyErr Bool) (P : α → Prop) (l : List α)
    (h : ∀ x ∈ l, Decides (f x) (P x)) : Decides (allE f l) (∀ x ∈ l, P x) := by
  induction l with
  | nil => exact ⟨true, rfl, by simp⟩
  | cons x xs ih =>
    obtain ⟨b, hb, hiff⟩ := h x (List.mem_cons_self ..)
    obtain ⟨b', hb', hiff'⟩ := ih (fun y hy => h y (List.mem_cons_of_mem _ hy))
    unfold allE
    rw [hb]
    cases b with
    | true => exact ⟨b', hb', by rw [hiff']; simp [hiff.mp rfl]⟩
    | false =>
      refine ⟨false, rfl, ?_⟩
      have : ¬ P x := fun hp => by simpa using hiff.mpr hp
      simp [this]

theorem anyE_decides {α : Type} (f : α → Except PyErr Bool) (P : α → Prop) (l : List α)
    (h : ∀ x ∈ l, Decides (f x) (P x)) : Decides (anyE f l) (∃ x ∈ l, P x) := by
  induction l with
  | nil => exact ⟨false, rfl, by simp⟩
  | cons x xs ih =>
    obtain ⟨b, hb, hiff⟩ := h x (List.mem_cons_self ..)
    obtain ⟨b', hb', hiff'⟩ := ih (fun y hy => h y (List.mem_cons_of_mem _ hy))
    unfold anyE
    rw [hb]
    cases b with
    | true => exact ⟨true, rfl, by simp [hiff.mp rfl]⟩
    | false =>
      have : ¬ P x := fun hp => by simpa using hiff.mpr hp
      exact ⟨b', hb', by rw [hiff']; simp [this]⟩

/-- side conditions under which evaluating a filter level cannot raise -/
def LevelOk {β : Type} (f : FNode β) (name : List Char) (props : List (List Char × PropI)) : Prop :=
  f.timeRange.isSome →
    (name = "VEVENT".toList → (section99 props).dtstart ≠ none) ∧ name ≠ "VALARM".toList

/-- one level of comp-filter evaluation decides one level of the specification, given that the
    level below does -/
theorem nodeMatch_decides {α β : Type} (substring : Bool) (tz : TVal → Int)
    (childMatch : β → α → Except PyErr Bool) (childMatches : β → α → Prop)
    (childName : α → List Char) (childND : β → Bool) (childFName : β → List Char)
    (f : FNode β) (c : Node α)
    (hok : LevelOk f c.name c.props)
    (hchild : ∀ cf ∈ f.comps, ∀ s ∈ c.subs, Decides (childMatch cf s) (childMatches cf s)) :
    Decides (nodeMatch substring tz childMatch childName childND childFName f c)
      (NodeMatches substring tz childMatches childName childND childFName f c) := by
  unfold nodeMatch NodeMatches
  by_cases hn : c.name = f.name
  · simp only [hn, ne_eq, not_true_eq_false, ↓reduceIte, true_and]
    -- time range
    have htr : Decides (levelTime tz f.timeRange f.name c.props)
        (LevelTime tz f.timeRange f.name c.props) := by
      unfold levelTime LevelTime
      cases hr : f.timeRange with
      | none => exact ⟨true, rfl, by simp⟩
      | some r =>
        have := hok (by simp [hr])
        rw [hn] at this
        exact compTimeMatch_decides tz r f.name c.props this.1 this.2
    obtain ⟨bt, hbt, hit⟩ := htr
    rw [hbt]
    cases bt with
    | false =>
      refine ⟨false, rfl, ?_⟩
      have : ¬ LevelTime tz f.timeRange f.name c.props :=
        fun hp => by simpa using hit.mpr hp
      simp [this]
    | true =>
      have ht := hit.mp rfl
      show Decides (if !(true) = true then pure false else _) _
      simp only [Bool.not_true, Bool.false_eq_true, ↓reduceIte]
      by_cases hp : (f.props.all fun pf => propMatch substring tz pf c.props) = true
      · simp only [hp, Bool.not_true, Bool.false_eq_true, ↓reduceIte]
        have hp' : ∀ pf ∈ f.props, PropMatches substring tz pf c.props := by
          intro pf hpf
          exact (propMatch_iff substring tz pf c.props).mp (List.all_eq_true.mp hp pf hpf)
        obtain ⟨b, hb, hiff⟩ := allE_decides
          (fun cf => if childND cf then pure (!(c.subs.any fun s => childName s == childFName cf))
                     else anyE (childMatch cf) c.subs)
          (fun cf => if childND cf then ∀ s ∈ c.subs, childName s ≠ childFName cf
                     else ∃ s ∈ c.subs, childMatches cf s) f.comps
          (by
            intro cf hcf
            cases hnd : childND cf with
            | true =>
              refine ⟨_, rfl, ?_⟩
              simp only [↓reduceIte, Bool.not_eq_true', List.any_eq_false, beq_iff_eq]
            | false =>
              simp only [Bool.false_eq_true, ↓reduceIte]
              exact anyE_decides _ _ c.subs (fun s hs => hchild cf hcf s hs))
        refine ⟨b, hb, ?_⟩
        rw [hiff]
        constructor
        · intro h; exact ⟨ht, hp', h⟩
        · intro h; exact h.2.2
      · have hpf : (f.props.all fun pf => propMatch substring tz pf c.props) = false := by
          simpa using hp
        simp only [hpf, Bool.not_false, ↓reduceIte]
        refine ⟨false, rfl, ?_⟩
        simp only [Bool.false_eq_true, false_iff, not_and]
        intro _ hall
        exfalso; apply hp
        exact List.all_eq_true.mpr fun pf hpf' =>
          (propMatch_iff substring tz pf c.props).mpr (hall pf hpf')
  · simp only [ne_eq, hn, not_false_eq_true, ↓reduceIte, false_and]
    exact ⟨false, rfl, by simp⟩

/-- no level of the filter raises on this calendar object -/
def FilterOk (f : CalF) (c : Cal) : Prop :=
  LevelOk f c.name c.props ∧
  ∀ mf ∈ f.comps, ∀ m ∈ c.subs, LevelOk mf m.name m.props ∧
    ∀ lf ∈ mf.comps, ∀ l ∈ m.subs, LevelOk lf l.name l.props

theorem calMatch_decides (substring : Bool) (tz : TVal → Int) (f : CalF) (c : Cal) (hok : FilterOk f c) :
    Decides (calMatch substring tz f c) (CalMatches substring tz f c) := by
  unfold calMatch CalMatches
  cases hnd : f.isNotDefined with
  | true => exact ⟨_, rfl, by simp⟩
  | false =>
    simp only [Bool.false_eq_true, ↓reduceIte]
    apply nodeMatch_decides substring tz _ _ _ _ _ f c hok.1
    intro mf hmf m hm
    obtain ⟨hm1, hm2⟩ := hok.2 mf hmf m hm
    unfold midMatch MidMatches
    apply nodeMatch_decides substring tz _ _ _ _ _ mf m hm1
    intro lf hlf l hl
    unfold leafMatch LeafMatches
    apply nodeMatch_decides substring tz _ _ _ _ _ lf l (hm2 lf hlf l hl)
    intro cf hcf s _
    exact nomatch s

/-- **The evaluator decides the RFC 4791 §9.7 filter semantics** (with the §9.9 tables inside)
    for every calendar object and every filter whose evaluation does not hit the two documented
    gaps (a VEVENT without DTSTART under a time-range, a time-range on VALARM). -/
theorem check_decides (substring : Bool) (tz : TVal → Int) (filters : List CalF) (c : Cal)
    (hok : ∀ f ∈ filters, FilterOk f c) :
    Decides (check substring tz filters c) (Matches substring tz filters c) := by
  unfold check Matches
  obtain ⟨b, hb, hiff⟩ := allE_decides (fun f => calMatch substring tz f c)
    (fun f => CalMatches substring tz f c) filters
    (fun f hf => calMatch_decides substring tz f c (hok f hf))
  rw [hb]
  exact ⟨b, rfl, hiff⟩

end Xandikos.Ical.Rfc
