/-
  RFC 5545 TEXT escaping as the code and the library perform it (no proofs here; lemmas are in
  `EscapeProofs.lean`):

  * `escapeText`  — `icalendar.parser.string._escape_char` (icalendar 7), which `vText.to_ical()`
    applies: seven `str.replace` passes, in this order;
  * `unescapeText` — `xandikos.icalendar._unescape_text(text, split)`, which
    `TextMatcher._from_index` applies to an index value: the loop, literally.
-/
import Xandikos.Py.Str

namespace Xandikos.Ical
open Xandikos.Py

/-- `s.replace(a, r)` for a one-character pattern -/
def replace1 (a : Char) (r : List Char) (s : List Char) : List Char :=
  s.flatMap fun c => if c = a then r else [c]

/-- `s.replace(ab, r)` for a two-character pattern: leftmost matches, non-overlapping -/
def replace2 (a b : Char) (r : List Char) : List Char → List Char
  | [] => []
  | [c] => [c]
  | c :: d :: rest =>
    if c = a ∧ d = b then r ++ replace2 a b r rest
    else c :: replace2 a b r (d :: rest)

/-- `_escape_char(text)`:
    `text.replace(r"\N", "\n").replace("\\", "\\\\").replace(";", r"\;").replace(",", r"\,")
         .replace("\r\n", r"\n").replace("\n", r"\n").replace("\r", r"\n")`
    (the first pass turns the two characters backslash-`N` into a line feed; the last three
    turn CR LF, LF and CR into the two characters backslash-`n`) -/
def escapeText (s : List Char) : List Char :=
  replace1 '\r' ['\\', 'n']
    (replace1 '\n' ['\\', 'n']
      (replace2 '\r' '\n' ['\\', 'n']
        (replace1 ',' ['\\', ',']
          (replace1 ';' ['\\', ';']
            (replace1 '\\' ['\\', '\\']
              (replace2 '\\' 'N' ['\n'] s))))))

/-- the loop of `_unescape_text`: `text[i:]`, `cur`, `parts` -/
def unescapeGo (split : Bool) : List Char → List Char → List (List Char) → List (List Char)
  | [], cur, parts => parts ++ [cur]
  | ch :: rest, cur, parts =>
    if ch = '\\' then
      match rest with
      | nxt :: rest' =>
        -- `cur.append("\n" if nxt in "nN" else nxt); i += 2`
        unescapeGo split rest' (cur ++ [if nxt = 'n' ∨ nxt = 'N' then '\n' else nxt]) parts
      | [] =>
        -- a trailing lone backslash (`i + 1 < len(text)` fails): kept as it is
        parts ++ [cur ++ [ch]]
    else if ch = ',' ∧ split = true then unescapeGo split rest [] (parts ++ [cur])
    else unescapeGo split rest (cur ++ [ch]) parts

/-- `_unescape_text(text, split)`: never returns `[]` -/
def unescapeText (split : Bool) (s : List Char) : List (List Char) := unescapeGo split s [] []

/-- `",".join(parts)` -/
def joinComma (parts : List (List Char)) : List Char := Str.joinWith ',' parts

end Xandikos.Ical
