/-
  calendar-query filter evaluation (the "naive" path): hand-written model of
  `icalendar.py` — `CalendarFilter.check`, `ComponentFilter.match`, `PropertyFilter.match`,
  `ParameterFilter.match`, `TextMatcher.match`, `PropertyTimeRangeMatcher.match`,
  `ComponentTimeRangeMatcher.match` — over the component tree `icalendar` parses.

  A calendar object is three levels deep at most (VCALENDAR > VEVENT/VTODO/… > VALARM/STANDARD/…),
  and so is a filter; the model is generic in the level (`Node α` / `FNode β`) and instantiated
  three times, which keeps every function structurally recursive.
-/
import Xandikos.Ical.TimeRange

namespace Xandikos.Ical
open Xandikos.Py

/-- a property value as the library hands it over -/
inductive PVal
  | text (s : List Char)              -- vText (SUMMARY, DESCRIPTION, LOCATION, X-…)
  | cats (l : List (List Char))       -- vCategory
  | time (t : TVal)                   -- DATE / DATE-TIME
  | dur (secs : Int)                  -- DURATION
  | period (s e : Int)                -- PERIOD (FREEBUSY), resolved to instants
  | other                             -- anything else
  deriving Repr

/-- one property instance: value and parameters (name ↦ value) -/
structure PropI where
  value : PVal
  params : List (List Char × List Char) := []
  deriving Repr

/-- a component: name, properties in order (a name may occur several times), children -/
structure Node (α : Type) where
  name : List Char
  props : List (List Char × PropI) := []
  subs : List α := []
  deriving Repr

structure TextMatch where
  text : List Char
  collation : List Char := "i;ascii-casemap".toList
  negate : Bool := false
  deriving Repr

structure ParamF where
  name : List Char
  isNotDefined : Bool := false
  tms : List TextMatch := []
  deriving Repr

structure PropF where
  name : List Char
  isNotDefined : Bool := false
  timeRange : Option (Int × Int) := none
  tms : List TextMatch := []
  params : List ParamF := []
  deriving Repr

structure FNode (β : Type) where
  name : List Char
  isNotDefined : Bool := false
  timeRange : Option (Int × Int) := none
  props : List PropF := []
  comps : List β := []
  deriving Repr

/-! ### leaves -/

/-- the comparison a text-match performs.  RFC 4791 §9.7.5 asks for a substring match; the
    code compares for equality (recorded finding KF-C11-text-match-equality, pinned by the
    repository's own tests) — `substring` selects the RFC reading, used by the spec only. -/
def textCmp (substring : Bool) (coll : List Char) (pattern value : List Char) : Option Bool :=
  let fold (s : List Char) : List Char := if coll = "i;octet".toList then s else Str.upperAscii s
  if coll = "i;ascii-casemap".toList ∨ coll = "i;octet".toList ∨ coll = "i;unicode-casemap".toList then
    some (if substring then Str.isInfix (fold pattern) (fold value) else fold pattern == fold value)
  else none

/-- `TextMatcher.match(prop)` -/
def textMatch (substring : Bool) (tm : TextMatch) : PVal → Bool
  | .text s => ((textCmp substring tm.collation tm.text s).getD false) != tm.negate
  | .cats l => (l.any fun c => (textCmp substring tm.collation tm.text c).getD false) != tm.negate
  | _ => false

/-- `ParameterFilter.match(prop)` -/
def paramMatch (substring : Bool) (pf : ParamF) (p : PropI) : Bool :=
  match p.params.lookup pf.name with
  | none => pf.isNotDefined
  | some v => !pf.isNotDefined && pf.tms.all fun tm => textMatch substring tm (.text v)

/-- `PropertyTimeRangeMatcher.match(prop, tzify)`: `start <= dt < end` -/
def propTimeMatch (tz : TVal → Int) (r : Int × Int) : PVal → Bool
  | .time t => decide (r.1 ≤ tz t) && decide (tz t < r.2)
  | _ => false

/-- `PropertyFilter.match(comp, tzify)`: some instance of the property passes the time range,
    every text-match and every param-filter -/
def propMatch (substring : Bool) (tz : TVal → Int) (f : PropF) (props : List (List Char × PropI)) : Bool :=
  let insts := (props.filter fun p => p.1 == f.name).map (·.2)
  if f.isNotDefined then insts.isEmpty
  else insts.any fun p =>
    (match f.timeRange with | some r => propTimeMatch tz r p.value | none => true) &&
    f.tms.all (fun tm => textMatch substring tm p.value) &&
    f.params.all (fun pf => paramMatch substring pf p)

/-- the properties §9.9 looks at, as `comp.get(NAME)` returns them -/
def section99 (props : List (List Char × PropI)) : Comp :=
  let t (n : String) : Option TVal := match props.lookup n.toList with
    | some { value := .time v, .. } => some v
    | _ => none
  let d : Option Int := match props.lookup "DURATION".toList with
    | some { value := .dur v, .. } => some v
    | _ => none
  let fb : List (Int × Int) := props.filterMap fun p =>
    if p.1 = "FREEBUSY".toList then
      (match p.2.value with
       | .period s e => some (s, e)
       | _ => none)
    else none
  { dtstart := t "DTSTART", dtend := t "DTEND", due := t "DUE", completed := t "COMPLETED",
    created := t "CREATED", duration := d, freebusy := fb }

/-- `ComponentTimeRangeMatcher.match(comp, tzify)`: dispatch on the component name -/
def compTimeMatch (tz : TVal → Int) (r : Int × Int) (name : List Char) (props : List (List Char × PropI)) :
    Except PyErr Bool :=
  let c := section99 props
  if name = "VEVENT".toList then vevent r.1 r.2 c tz
  else if name = "VTODO".toList then vtodo r.1 r.2 c tz
  else if name = "VJOURNAL".toList then vjournal r.1 r.2 c tz
  else if name = "VFREEBUSY".toList then vfreebusy r.1 r.2 c tz
  else if name = "VALARM".toList then throw (.raised "NotImplementedError" "apply_time_range_valarm")
  else pure false

/-! ### the generic level -/

def allE {α : Type} (f : α → Except PyErr Bool) : List α → Except PyErr Bool
  | [] => pure true
  | x :: xs => f x >>= fun b => if b then allE f xs else pure false

def anyE {α : Type} (f : α → Except PyErr Bool) : List α → Except PyErr Bool
  | [] => pure false
  | x :: xs => f x >>= fun b => if b then pure true else anyE f xs

/-- the time-range part of a comp-filter (none: no constraint) -/
def levelTime (tz : TVal → Int) (tr : Option (Int × Int)) (name : List Char)
    (props : List (List Char × PropI)) : Except PyErr Bool :=
  match tr with
  | some r => compTimeMatch tz r name props
  | none => pure true

/-- `ComponentFilter.match(comp, tzify)` for a filter that is *not* `is-not-defined` (the
    enclosing level handles that case, see `childrenMatch`). -/
def nodeMatch {α β : Type} (substring : Bool) (tz : TVal → Int)
    (childMatch : β → α → Except PyErr Bool) (childName : α → List Char)
    (childND : β → Bool) (childFName : β → List Char)
    (f : FNode β) (c : Node α) : Except PyErr Bool :=
  if c.name ≠ f.name then pure false
  else
    levelTime tz f.timeRange c.name c.props >>= fun tr =>
    if !tr then pure false
    else if !(f.props.all fun pf => propMatch substring tz pf c.props) then pure false
    else
      allE (fun cf =>
        if childND cf then pure (!(c.subs.any fun s => childName s == childFName cf))
        else anyE (childMatch cf) c.subs) f.comps

/-- innermost level: no sub-components (VALARM, STANDARD, DAYLIGHT) -/
abbrev Leaf := Node Empty
abbrev LeafF := FNode Empty

def leafMatch (substring : Bool) (tz : TVal → Int) (f : LeafF) (c : Leaf) : Except PyErr Bool :=
  nodeMatch substring tz (fun (e : Empty) _ => nomatch e) (fun (e : Empty) => nomatch e)
    (fun (e : Empty) => nomatch e) (fun (e : Empty) => nomatch e) f c

abbrev Mid := Node Leaf
abbrev MidF := FNode LeafF

def midMatch (substring : Bool) (tz : TVal → Int) (f : MidF) (c : Mid) : Except PyErr Bool :=
  nodeMatch substring tz (leafMatch substring tz) (·.name) (·.isNotDefined) (·.name) f c

abbrev Cal := Node Mid
abbrev CalF := FNode MidF

def calMatch (substring : Bool) (tz : TVal → Int) (f : CalF) (c : Cal) : Except PyErr Bool :=
  if f.isNotDefined then pure (c.name != f.name)
  else nodeMatch substring tz (midMatch substring tz) (·.name) (·.isNotDefined) (·.name) f c

/-- `CalendarFilter.check(name, file)`: every top-level comp-filter matches; `MissingProperty`
    means "no match"; any other exception propagates (a 500). -/
def check (substring : Bool) (tz : TVal → Int) (filters : List CalF) (c : Cal) : Except PyErr Bool :=
  match allE (fun f => calMatch substring tz f c) filters with
  | .ok b => .ok b
  | .error (.raised "MissingProperty" _) => .ok false
  | .error e => .error e

end Xandikos.Ical
