/-
  C10 for iCalendar: the index path (`Ical/Index.lean`) agrees with the naive path
  (`Ical/Filter.lean`) on simple calendars and well-formed filters.

  Main results: `node_agree` (one level, generic), `check_from_indexes_eq_check` and
  `check_from_indexes_restrict_eq_check` (the two conjuncts of `AgreeOn` of `Theorems/C10.lean`).
-/
import Xandikos.Ical.Index
import Xandikos.Ical.EscapeProofs
import Xandikos.Py.StrProofs
import Xandikos.Store.Index

namespace Xandikos.Ical
open Xandikos.Py Xandikos.Py.Str

/-! ## 1. strings, association lists -/

theorem startsWith_iff {s p : List Char} : startsWith s p = true ↔ ∃ r, s = p ++ r := by
  unfold startsWith
  rw [List.isPrefixOf_iff_prefix]
  constructor
  · rintro ⟨r, h⟩; exact ⟨r, h.symm⟩
  · rintro ⟨r, h⟩; exact ⟨r, h.symm⟩

theorem startsWith_append (p r : List Char) : startsWith (p ++ r) p = true :=
  startsWith_iff.mpr ⟨r, rfl⟩

theorem startsWith_two {a b : Char} {s : List Char} :
    startsWith s [a, b] = true ↔ ∃ r, s = a :: b :: r := by
  rw [startsWith_iff]; rfl

/-- shape of `s.split(sep)` -/
theorem splitOn_eq_cons {sep : Char} {s s0 : List Char} {tl : List (List Char)}
    (h : splitOn sep s = s0 :: tl) :
    sep ∉ s0 ∧ ((tl = [] ∧ s = s0) ∨ ∃ r, s = s0 ++ sep :: r ∧ tl = splitOn sep r) := by
  induction s generalizing s0 tl with
  | nil =>
    simp only [splitOn, List.cons.injEq] at h
    obtain ⟨rfl, rfl⟩ := h
    exact ⟨by simp, Or.inl ⟨rfl, rfl⟩⟩
  | cons c cs ih =>
    simp only [splitOn] at h
    by_cases hc : c = sep
    · simp only [hc, ↓reduceIte, List.cons.injEq] at h
      obtain ⟨rfl, rfl⟩ := h
      exact ⟨by simp, Or.inr ⟨cs, by simp [hc], rfl⟩⟩
    · simp only [hc, ↓reduceIte] at h
      cases hs : splitOn sep cs with
      | nil => exact absurd hs (splitOn_ne_nil _ _)
      | cons h0 t0 =>
        rw [hs] at h
        simp only [consHead, List.cons.injEq] at h
        obtain ⟨rfl, rfl⟩ := h
        obtain ⟨hn, hr⟩ := ih hs
        refine ⟨?_, ?_⟩
        · intro hm
          rcases List.mem_cons.mp hm with e | e
          · exact hc e.symm
          · exact hn e
        · rcases hr with ⟨rfl, rfl⟩ | ⟨r, rfl, rfl⟩
          · exact Or.inl ⟨rfl, rfl⟩
          · exact Or.inr ⟨r, by simp, rfl⟩

theorem slash_not_mem_cKey {n : List Char} (h : '/' ∉ n) : '/' ∉ cKey n := by
  intro hm; simp only [cKey, List.mem_cons] at hm
  rcases hm with e | e | e
  · exact absurd e (by decide)
  · exact absurd e (by decide)
  · exact h e

theorem slash_not_mem_pKey {n : List Char} (h : '/' ∉ n) : '/' ∉ pKey n := by
  intro hm; simp only [pKey, List.mem_cons] at hm
  rcases hm with e | e | e
  · exact absurd e (by decide)
  · exact absurd e (by decide)
  · exact h e

theorem slash_not_mem_aKey {n : List Char} (h : '/' ∉ n) : '/' ∉ aKey n := by
  intro hm; simp only [aKey, List.mem_cons] at hm
  rcases hm with e | e | e
  · exact absurd e (by decide)
  · exact absurd e (by decide)
  · exact h e

/-- `(a + "/" + k).split("/")` when `a` has no slash -/
theorem splitOn_joinKey {a : Key} (h : '/' ∉ a) (k : Key) :
    splitOn '/' (joinKey a k) = a :: splitOn '/' k := by
  unfold joinKey
  rw [splitOn_append_sep, splitOn_noSep h]; rfl

/-- the tabulation of a function over a key list: the shape of every index dict at hand -/
def tab (g : Option Key → List IVal) (ks : List (Option Key)) : SubIdx := ks.map fun k => (k, g k)

theorem lookup_tab (g : Option Key → List IVal) (ks : List (Option Key)) (k : Option Key) :
    (tab g ks).lookup k = if k ∈ ks then some (g k) else none := by
  induction ks with
  | nil => simp [tab]
  | cons a as ih =>
    simp only [tab, List.map_cons, List.lookup_cons] at ih ⊢
    by_cases h : k = a
    · subst h; simp
    · have : (k == a) = false := by simpa using h
      rw [this]; simp only []
      rw [ih]; simp [h]

theorem lookup_tab_mem {g : Option Key → List IVal} {ks : List (Option Key)} {k : Option Key}
    (h : k ∈ ks) : (tab g ks).lookup k = some (g k) := by
  rw [lookup_tab]; simp [h]

theorem lookupE_tab_mem {g : Option Key → List IVal} {ks : List (Option Key)} {k : Option Key}
    (h : k ∈ ks) : lookupE (tab g ks) k = .ok (g k) := by
  unfold lookupE; rw [lookup_tab_mem h]; rfl

/-- what `create_subindexes` does to a key … -/
def stripKey (b : Key) : Option Key → Option (Option Key)
  | none => none
  | some k =>
    if startsWith k (b ++ ['/']) then some (some (k.drop (b.length + 1)))
    else if k = b then some none
    else none

/-- … and the key an entry of the sub-dict came from -/
def unstrip (b : Key) : Option Key → Option Key
  | none => some b
  | some k => some (joinKey b k)

theorem stripKey_unstrip {b : Key} {k k' : Option Key} (h : stripKey b k = some k') :
    unstrip b k' = k := by
  cases k with
  | none => simp [stripKey] at h
  | some s =>
    simp only [stripKey] at h
    by_cases h1 : startsWith s (b ++ ['/']) = true
    · simp only [h1, ↓reduceIte, Option.some.injEq] at h
      subst h
      obtain ⟨r, rfl⟩ := startsWith_iff.mp h1
      simp [unstrip, joinKey]
    · simp only [h1, Bool.false_eq_true, ↓reduceIte] at h
      by_cases h2 : s = b
      · simp only [h2, ↓reduceIte, Option.some.injEq] at h
        subst h; simp [unstrip, h2]
      · simp [h2] at h

theorem createSub_tab (g : Option Key → List IVal) (ks : List (Option Key)) (b : Key) :
    createSub (tab g ks) b = tab (fun k => g (unstrip b k)) (ks.filterMap (stripKey b)) := by
  induction ks with
  | nil => rfl
  | cons a as ih =>
    have ih' : createSub (tab g as) b = tab (fun k => g (unstrip b k)) (as.filterMap (stripKey b)) := ih
    unfold createSub tab at ih' ⊢
    simp only [List.map_cons, List.filterMap_cons]
    rw [ih']
    cases a with
    | none => simp [stripKey]
    | some s =>
      simp only [stripKey]
      by_cases h1 : startsWith s (b ++ ['/']) = true
      · have := stripKey_unstrip (b := b) (k := some s) (k' := some (s.drop (b.length + 1)))
          (by simp [stripKey, h1])
        simp [h1, this]
      · by_cases h2 : s = b
        · subst h2; simp [h1, unstrip]
        · simp [h1, h2]

theorem mem_strip_join {b k : Key} {ks : List (Option Key)} (h : some (joinKey b k) ∈ ks) :
    some k ∈ ks.filterMap (stripKey b) := by
  rw [List.mem_filterMap]
  refine ⟨_, h, ?_⟩
  have h1 : startsWith (b ++ '/' :: k) (b ++ ['/']) = true :=
    startsWith_iff.mpr ⟨k, by simp⟩
  simp [stripKey, h1, joinKey]

theorem mem_strip_base {b : Key} {ks : List (Option Key)} (h : some b ∈ ks) :
    none ∈ ks.filterMap (stripKey b) := by
  rw [List.mem_filterMap]
  refine ⟨_, h, ?_⟩
  have h1 : startsWith b (b ++ ['/']) = false := by
    cases hb : startsWith b (b ++ ['/']) with
    | false => rfl
    | true =>
      obtain ⟨r, hr⟩ := startsWith_iff.mp hb
      have := congrArg List.length hr
      simp at this
  simp [stripKey, h1]

/-! ## 2. outcomes up to "no match": `MissingProperty` counts as `false` -/

/-- `x` evaluates to the truth value `b`, where a raised `MissingProperty` stands for `false`
    (that is how `check` / `check_from_indexes` read it) and nothing else is raised -/
def Is (x : Except PyErr Bool) (b : Bool) : Prop :=
  (b = true ∧ x = .ok true) ∨
  (b = false ∧ (x = .ok false ∨ ∃ a, x = .error (.raised "MissingProperty" a)))

theorem Is_ok (b : Bool) : Is (.ok b) b := by
  cases b
  · exact Or.inr ⟨rfl, Or.inl rfl⟩
  · exact Or.inl ⟨rfl, rfl⟩

theorem Is_pure (b : Bool) : Is (pure b) b := Is_ok b

theorem Is_true {x : Except PyErr Bool} (h : Is x true) : x = .ok true := by
  rcases h with ⟨_, h⟩ | ⟨h, _⟩
  · exact h
  · exact absurd h (by decide)

theorem Is_false_of {x : Except PyErr Bool} (h : x = .ok false ∨ ∃ a, x = .error (.raised "MissingProperty" a)) :
    Is x false := Or.inr ⟨rfl, h⟩

theorem Is_unique {x : Except PyErr Bool} {b c : Bool} (h1 : Is x b) (h2 : Is x c) : b = c := by
  rcases h1 with ⟨rfl, h1⟩ | ⟨rfl, h1⟩ <;> rcases h2 with ⟨rfl, h2⟩ | ⟨rfl, h2⟩
  · rfl
  · rw [h1] at h2; rcases h2 with h2 | ⟨a, h2⟩ <;> cases h2
  · rw [h2] at h1; rcases h1 with h1 | ⟨a, h1⟩ <;> cases h1
  · rfl

/-- `x >>= fun t => if !t then pure false else k` -/
theorem Is_bind_guard {x k : Except PyErr Bool} {b c : Bool} (hx : Is x b) (hk : b = true → Is k c) :
    Is (x >>= fun t => if !t then pure false else k) (b && c) := by
  rcases hx with ⟨rfl, hx⟩ | ⟨rfl, hx | ⟨a, hx⟩⟩
  · subst hx; simpa [ok_bind] using hk rfl
  · subst hx; exact Is_ok false
  · subst hx; exact Is_false_of (Or.inr ⟨a, rfl⟩)

theorem Is_allE {α : Type} (f : α → Except PyErr Bool) (p : α → Bool) (l : List α)
    (h : ∀ x ∈ l, Is (f x) (p x)) : Is (allE f l) (l.all p) := by
  induction l with
  | nil => exact Is_ok true
  | cons x xs ih =>
    have hx := h x (List.mem_cons_self ..)
    have hxs := ih (fun y hy => h y (List.mem_cons_of_mem _ hy))
    simp only [allE, List.all_cons]
    rcases hx with ⟨hp, hx⟩ | ⟨hp, hx | ⟨a, hx⟩⟩
    · rw [hp, hx]; simpa [ok_bind] using hxs
    · rw [hp, hx]; exact Is_ok false
    · rw [hp, hx]; exact Is_false_of (Or.inr ⟨a, rfl⟩)

theorem allE_ok {α : Type} (f : α → Except PyErr Bool) (p : α → Bool) (l : List α)
    (h : ∀ x ∈ l, f x = .ok (p x)) : allE f l = .ok (l.all p) := by
  induction l with
  | nil => rfl
  | cons x xs ih =>
    have hx := h x (List.mem_cons_self ..)
    have hxs := ih (fun y hy => h y (List.mem_cons_of_mem _ hy))
    simp only [allE, List.all_cons, hx, ok_bind, hxs]
    cases p x <;> rfl

theorem anyE_ok {α : Type} (f : α → Except PyErr Bool) (p : α → Bool) (l : List α)
    (h : ∀ x ∈ l, f x = .ok (p x)) : anyE f l = .ok (l.any p) := by
  induction l with
  | nil => rfl
  | cons x xs ih =>
    have hx := h x (List.mem_cons_self ..)
    have hxs := ih (fun y hy => h y (List.mem_cons_of_mem _ hy))
    simp only [anyE, List.any_cons, hx, ok_bind, hxs]
    cases p x <;> rfl

theorem anyE_all_false {α : Type} (f : α → Except PyErr Bool) (l : List α)
    (h : ∀ x ∈ l, f x = .ok false) : anyE f l = .ok false := by
  rw [anyE_ok f (fun _ => false) l h]; simp

/-- `any(child.match(c) for c in subcomponents)` when at most one sub-component can match -/
theorem Is_anyE_unique {α : Type} (m : α → Except PyErr Bool) (name : α → List Char) (l : List α)
    (c : α) (b : Bool) (hnd : (l.map name).Nodup) (hc : c ∈ l)
    (hoth : ∀ s ∈ l, name s ≠ name c → m s = .ok false) (hm : Is (m c) b) : Is (anyE m l) b := by
  induction l with
  | nil => cases hc
  | cons x xs ih =>
    simp only [List.map_cons, List.nodup_cons] at hnd
    by_cases hx : name x = name c
    · have hcx : c = x := by
        rcases List.mem_cons.mp hc with e | e
        · exact e
        · exact absurd (hx ▸ List.mem_map_of_mem (f := name) e) hnd.1
      subst hcx
      have hrest : anyE m xs = .ok false := by
        apply anyE_all_false
        intro s hs
        apply hoth s (List.mem_cons_of_mem _ hs)
        intro e
        exact hnd.1 (e ▸ List.mem_map_of_mem (f := name) hs)
      simp only [anyE]
      rcases hm with ⟨rfl, hm⟩ | ⟨rfl, hm | ⟨a, hm⟩⟩
      · rw [hm]; exact Is_ok true
      · rw [hm, ok_bind]; simp only [Bool.false_eq_true, ↓reduceIte]; rw [hrest]; exact Is_ok false
      · rw [hm]; exact Is_false_of (Or.inr ⟨a, rfl⟩)
    · have hcx : c ∈ xs := by
        rcases List.mem_cons.mp hc with e | e
        · exact absurd (e ▸ rfl) hx
        · exact e
      simp only [anyE]
      rw [hoth x (List.mem_cons_self ..) hx, ok_bind]
      simp only [Bool.false_eq_true, ↓reduceIte]
      exact ih hnd.2 hcx (fun s hs => hoth s (List.mem_cons_of_mem _ hs))

/-! ## 3. what `_get_index` yields -/

/-- values of a key, `[]` when `_get_index` raises -/
def T (e : Except PyErr (List IVal)) : List IVal :=
  match e with
  | .ok v => v
  | .error _ => []

theorem flatMapE_all_nil {α : Type} (f : α → Except PyErr (List IVal)) (l : List α)
    (h : ∀ s ∈ l, f s = .ok []) : flatMapE f l = .ok [] := by
  induction l with
  | nil => rfl
  | cons x xs ih =>
    simp only [flatMapE, h x (List.mem_cons_self ..), ok_bind,
      ih (fun s hs => h s (List.mem_cons_of_mem _ hs))]
    rfl

theorem T_flatMapE_unique {α : Type} (f : α → Except PyErr (List IVal)) (name : α → List Char)
    (l : List α) (c : α) (hnd : (l.map name).Nodup) (hc : c ∈ l)
    (hoth : ∀ s ∈ l, name s ≠ name c → f s = .ok []) : T (flatMapE f l) = T (f c) := by
  induction l with
  | nil => cases hc
  | cons x xs ih =>
    simp only [List.map_cons, List.nodup_cons] at hnd
    by_cases hx : name x = name c
    · have hcx : c = x := by
        rcases List.mem_cons.mp hc with e | e
        · exact e
        · exact absurd (hx ▸ List.mem_map_of_mem (f := name) e) hnd.1
      subst hcx
      have hrest : flatMapE f xs = .ok [] := by
        apply flatMapE_all_nil
        intro s hs
        apply hoth s (List.mem_cons_of_mem _ hs)
        intro e
        exact hnd.1 (e ▸ List.mem_map_of_mem (f := name) hs)
      simp only [flatMapE, hrest]
      cases f c with
      | error e => rfl
      | ok v => simp [ok_bind, T, pure, Except.pure]
    · have hcx : c ∈ xs := by
        rcases List.mem_cons.mp hc with e | e
        · exact absurd (e ▸ rfl) hx
        · exact e
      simp only [flatMapE, hoth x (List.mem_cons_self ..) hx, ok_bind]
      rw [← ih hnd.2 hcx (fun s hs => hoth s (List.mem_cons_of_mem _ hs))]
      cases flatMapE f xs with
      | error e => rfl
      | ok v => simp [ok_bind, T, pure, Except.pure]

theorem mem_T_flatMapE {α : Type} (f : α → Except PyErr (List IVal)) (l : List α) (v : IVal)
    (h : v ∈ T (flatMapE f l)) : ∃ s ∈ l, v ∈ T (f s) := by
  induction l with
  | nil => simp [flatMapE, T, pure, Except.pure] at h
  | cons x xs ih =>
    simp only [flatMapE] at h
    cases hx : f x with
    | error e => rw [hx, error_bind] at h; simp [T] at h
    | ok a =>
      rw [hx, ok_bind] at h
      cases hxs : flatMapE f xs with
      | error e => rw [hxs, error_bind] at h; simp [T] at h
      | ok b =>
        rw [hxs, ok_bind] at h
        simp only [T, pure, Except.pure, List.mem_append] at h
        rcases h with h | h
        · exact ⟨x, List.mem_cons_self .., by rw [hx]; exact h⟩
        · obtain ⟨s, hs, hv⟩ := ih (by rw [hxs]; exact h)
          exact ⟨s, List.mem_cons_of_mem _ hs, hv⟩

/-- `_get_index` below a component whose name has already been matched: descend (`C=`) or yield -/
def innerWalk {α : Type} (rt : PVal → PVal) (subWalk : α → List Key → Except PyErr (List IVal))
    (props : List (List Char × PropI)) (subs : List α) (segs : List Key) : Except PyErr (List IVal) :=
  match segs with
  | s1 :: _ =>
    if startsWith s1 "C=".toList then flatMapE (fun s => subWalk s segs) subs
    else yieldVals rt props segs
  | [] => yieldVals rt props []

theorem nodeWalk_cons {α : Type} (rt : PVal → PVal) (subWalk : α → List Key → Except PyErr (List IVal))
    (c : Node α) (n : List Char) (tl : List Key) :
    nodeWalk rt subWalk c (cKey n :: tl) =
      if c.name = n then innerWalk rt subWalk c.props c.subs tl else pure [] := by
  have h1 : startsWith (cKey n) "C=".toList = true := startsWith_two.mpr ⟨n, rfl⟩
  have h2 : (cKey n).drop 2 = n := rfl
  unfold nodeWalk
  simp only [h1, h2, Bool.true_and, beq_iff_eq]
  by_cases hn : c.name = n
  · simp only [hn, ↓reduceIte]
    cases tl <;> rfl
  · simp only [hn, ↓reduceIte]

/-- a one-segment key yields markers only -/
theorem nodeWalk_single {α : Type} (rt : PVal → PVal) (subWalk : α → List Key → Except PyErr (List IVal))
    (c : Node α) (seg : Key) (v : IVal) (h : v ∈ T (nodeWalk rt subWalk c [seg])) : v = .present := by
  unfold nodeWalk at h
  by_cases hc : (startsWith seg "C=".toList && c.name == seg.drop 2) = true
  · simp only [hc, ↓reduceIte, yieldVals, T, pure, Except.pure, List.mem_singleton] at h
    exact h
  · simp only [hc, Bool.false_eq_true, ↓reduceIte, T, pure, Except.pure, List.not_mem_nil] at h

/-! ## 4. prop-filters, param-filters, text-matches -/

/-- the instances of a property in a component (`comp[name]`, as a list) -/
def instsOf (props : List (List Char × PropI)) (name : List Char) : List PropI :=
  (props.filter fun p => p.1 == name).map (·.2)

theorem textMatchIdx_single (tm : TextMatch) (g : Option Key → List IVal) (ks : List (Option Key))
    (iv : IVal) (hk : none ∈ ks) (hg : g none = [iv]) :
    textMatchIdx tm (tab g ks) = .ok (textMatchIVal tm iv) := by
  unfold textMatchIdx
  rw [lookupE_tab_mem hk, hg, ok_bind]
  simp [pure, Except.pure]

theorem paramMatchIdx_eq (q : ParamF) (p : PropI) (g : Option Key → List IVal) (ks : List (Option Key))
    (hk : some (aKey q.name) ∈ ks)
    (hg : g (some (aKey q.name)) = [p].filterMap fun p => (p.params.lookup q.name).map IVal.param) :
    paramMatchIdx q (tab g ks) = .ok (paramMatch false q p) := by
  unfold paramMatchIdx paramMatch
  have hgn : (fun k => g (unstrip (aKey q.name) k)) none = g (some (aKey q.name)) := rfl
  cases hl : p.params.lookup q.name with
  | none =>
    have hg' : g (some (aKey q.name)) = [] := by rw [hg]; simp [hl]
    by_cases hnd : q.isNotDefined = true
    · simp only [hnd, ↓reduceIte]
      rw [lookupE_tab_mem hk, hg', ok_bind]; rfl
    · have hnd' : q.isNotDefined = false := by simpa using hnd
      simp only [hnd', Bool.false_eq_true, ↓reduceIte]
      rw [createSub_tab, lookup_tab_mem (mem_strip_base hk)]
      simp only [hgn, hg', Option.getD_some, List.isEmpty_nil, ↓reduceIte]
      rfl
  | some v =>
    have hg' : g (some (aKey q.name)) = [IVal.param v] := by rw [hg]; simp [hl]
    by_cases hnd : q.isNotDefined = true
    · simp only [hnd, ↓reduceIte]
      rw [lookupE_tab_mem hk, hg', ok_bind]; rfl
    · have hnd' : q.isNotDefined = false := by simpa using hnd
      simp only [hnd', Bool.false_eq_true, ↓reduceIte, Bool.not_false, Bool.true_and]
      rw [createSub_tab, lookup_tab_mem (mem_strip_base hk)]
      simp only [hgn, hg', Option.getD_some, List.isEmpty_cons, Bool.false_eq_true, ↓reduceIte]
      apply allE_ok
      intro tm _
      exact textMatchIdx_single tm _ _ (.param v) (mem_strip_base hk) hg'

theorem instsOf_head? (props : List (List Char × PropI)) (name : List Char) :
    (instsOf props name).head? = props.lookup name := by
  unfold instsOf
  induction props with
  | nil => rfl
  | cons x xs ih =>
    obtain ⟨n, p⟩ := x
    simp only [List.filter_cons, List.lookup_cons]
    by_cases hn : n = name
    · subst hn; simp
    · have h1 : (n == name) = false := by simpa using hn
      have h2 : (name == n) = false := by simpa using fun e => hn e.symm
      simp only [h1, h2, Bool.false_eq_true, ↓reduceIte]
      exact ih

theorem instsOf_cases {props : List (List Char × PropI)} {name : List Char}
    (h : (instsOf props name).length ≤ 1) :
    instsOf props name = [] ∨ ∃ p, instsOf props name = [p] := by
  cases hi : instsOf props name with
  | nil => exact Or.inl rfl
  | cons p rest =>
    cases rest with
    | nil => exact Or.inr ⟨p, rfl⟩
    | cons q r => rw [hi] at h; simp at h

theorem propMatchIdx_eq (tz : TVal → Int) (pf : PropF) (props : List (List Char × PropI))
    (g : Option Key → List IVal) (ks : List (Option Key))
    (hk1 : some (pKey pf.name) ∈ ks)
    (hk2 : ∀ q ∈ pf.params, some (joinKey (pKey pf.name) (aKey q.name)) ∈ ks)
    (h1 : g (some (pKey pf.name)) = (instsOf props pf.name).map fun p => IVal.val p.value)
    (h2 : ∀ q ∈ pf.params, g (some (joinKey (pKey pf.name) (aKey q.name))) =
      (instsOf props pf.name).filterMap fun p => (p.params.lookup q.name).map IVal.param)
    (hs : (instsOf props pf.name).length ≤ 1) :
    propMatchIdx tz pf (tab g ks) = .ok (propMatch false tz pf props) := by
  have hpm : propMatch false tz pf props =
      if pf.isNotDefined then (instsOf props pf.name).isEmpty
      else (instsOf props pf.name).any fun p =>
        (match pf.timeRange with | some r => propTimeMatch tz r p.value | none => true) &&
        pf.tms.all (fun tm => textMatch false tm p.value) &&
        pf.params.all (fun q => paramMatch false q p) := rfl
  rw [hpm]
  unfold propMatchIdx
  by_cases hnd : pf.isNotDefined = true
  · simp only [hnd, ↓reduceIte]
    rw [lookupE_tab_mem hk1, h1, ok_bind]
    simp [pure, Except.pure]
  · have hnd' : pf.isNotDefined = false := by simpa using hnd
    simp only [hnd', Bool.false_eq_true, ↓reduceIte]
    rw [lookup_tab_mem hk1, lookupE_tab_mem hk1, h1]
    rcases instsOf_cases hs with hi | ⟨p, hi⟩
    · rw [hi]; simp [pure, Except.pure]
    · rw [hi] at h1 h2
      rw [hi]
      simp only [List.map_cons, List.map_nil, List.isEmpty_cons, Bool.false_eq_true, ↓reduceIte,
        List.any_cons, List.any_nil, Bool.or_false]
      by_cases hno : (pf.tms.isEmpty && pf.params.isEmpty && pf.timeRange.isNone) = true
      · simp only [hno, ↓reduceIte, ok_bind]
        simp only [Bool.and_eq_true, List.isEmpty_iff, Option.isNone_iff_eq_none] at hno
        obtain ⟨⟨ht, hp⟩, hr⟩ := hno
        simp [ht, hp, hr, pure, Except.pure]
      · simp only [hno, Bool.false_eq_true, ↓reduceIte]
        rw [createSub_tab]
        have hnone : none ∈ ks.filterMap (stripKey (pKey pf.name)) := mem_strip_base hk1
        have hgn : g (unstrip (pKey pf.name) none) = [IVal.val p.value] := by
          simp only [unstrip]; rw [h1]; rfl
        -- the text-matches
        have htm : allE (fun tm => textMatchIdx tm (tab (fun k => g (unstrip (pKey pf.name) k))
            (ks.filterMap (stripKey (pKey pf.name))))) pf.tms =
            .ok (pf.tms.all fun tm => textMatch false tm p.value) := by
          apply allE_ok
          intro tm _
          exact textMatchIdx_single tm _ _ (.val p.value) hnone hgn
        -- the param-filters
        have hpa : allE (fun q => paramMatchIdx q (tab (fun k => g (unstrip (pKey pf.name) k))
            (ks.filterMap (stripKey (pKey pf.name))))) pf.params =
            .ok (pf.params.all fun q => paramMatch false q p) := by
          apply allE_ok
          intro q hq
          exact paramMatchIdx_eq q p _ _ (mem_strip_join (hk2 q hq)) (h2 q hq)
        rw [htm, hpa]
        cases pf.timeRange with
        | none =>
          simp only [pure, Except.pure, ok_bind, Bool.not_true, Bool.false_eq_true, ↓reduceIte, Bool.true_and]
          cases (pf.tms.all fun tm => textMatch false tm p.value) <;> rfl
        | some r =>
          simp only [propTimeMatchIdx]
          rw [lookupE_tab_mem hnone]
          simp only [hgn, ok_bind, List.any_cons, List.any_nil, Bool.or_false, pure, Except.pure]
          cases propTimeMatch tz r p.value with
          | false => rfl
          | true =>
            simp only [Bool.not_true, Bool.false_eq_true, ↓reduceIte, Bool.true_and]
            cases (pf.tms.all fun tm => textMatch false tm p.value) <;> rfl

/-! ## 5. inside one component: what the sub-dict holds -/

/-- the sub-dict (after `create_subindexes(indexes, "C=NAME")`) describes a component with these
    properties and sub-components -/
def InCtx {α : Type} (rt : PVal → PVal) (subWalk : α → List Key → Except PyErr (List IVal))
    (props : List (List Char × PropI)) (subs : List α) (g : Option Key → List IVal) : Prop :=
  ∀ name, g (some name) = T (innerWalk rt subWalk props subs (splitOn '/' name))

theorem cprefix : "C=".toList = ['C', '='] := rfl
theorem pprefix : "P=".toList = ['P', '='] := rfl
theorem aprefix : "A=".toList = ['A', '='] := rfl

theorem pKey_not_C (X : List Char) : startsWith (pKey X) "C=".toList = false := by
  simp [startsWith, pKey, cprefix, List.isPrefixOf]

theorem pKey_P (X : List Char) : startsWith (pKey X) "P=".toList = true :=
  startsWith_two.mpr ⟨X, rfl⟩

theorem aKey_A (X : List Char) : startsWith (aKey X) "A=".toList = true :=
  startsWith_two.mpr ⟨X, rfl⟩

section ctx
variable {α : Type} {rt : PVal → PVal} {subWalk : α → List Key → Except PyErr (List IVal)}
  {props : List (List Char × PropI)} {subs : List α} {g : Option Key → List IVal}

theorem ctx_pKey (h : InCtx rt subWalk props subs g) {X : List Char} (hX : '/' ∉ X) :
    g (some (pKey X)) = (instsOf props X).map fun p => IVal.val (rt p.value) := by
  rw [h, splitOn_noSep (slash_not_mem_pKey hX)]
  simp only [innerWalk, pKey_not_C, Bool.false_eq_true, ↓reduceIte, yieldVals, pKey_P,
    List.length_nil, Nat.zero_le]
  rfl

theorem ctx_paKey (h : InCtx rt subWalk props subs g) {X Y : List Char} (hX : '/' ∉ X) (hY : '/' ∉ Y) :
    g (some (joinKey (pKey X) (aKey Y))) =
      (instsOf props X).filterMap fun p => (p.params.lookup Y).map IVal.param := by
  rw [h, splitOn_joinKey (slash_not_mem_pKey hX), splitOn_noSep (slash_not_mem_aKey hY)]
  simp only [innerWalk, pKey_not_C, Bool.false_eq_true, ↓reduceIte, yieldVals, pKey_P,
    List.length_cons, List.length_nil, Nat.le_refl, aKey_A]
  rfl

theorem splitOn_C (k : List Char) :
    ∃ h0 t0, splitOn '/' ('C' :: '=' :: k) = ('C' :: '=' :: h0) :: t0 := by
  cases hs : splitOn '/' k with
  | nil => exact absurd hs (splitOn_ne_nil _ _)
  | cons h0 t0 =>
    refine ⟨h0, t0, ?_⟩
    have h1 : ('C' = '/') = False := by decide
    have h2 : ('=' = '/') = False := by decide
    simp only [splitOn, h1, h2, ↓reduceIte, hs, consHead]

theorem ctx_desc (h : InCtx rt subWalk props subs g) (k : List Char) :
    g (some ('C' :: '=' :: k)) =
      T (flatMapE (fun s => subWalk s (splitOn '/' ('C' :: '=' :: k))) subs) := by
  rw [h]
  obtain ⟨h0, t0, hs⟩ := splitOn_C k
  rw [hs]
  have : startsWith ('C' :: '=' :: h0) "C=".toList = true := startsWith_two.mpr ⟨h0, rfl⟩
  simp only [innerWalk, this, ↓reduceIte]

/-- the only key of the sub-dict whose name minus two characters is a §9.9 property *and* that
    carries values (not markers) is `P=` + that property -/
theorem ctx_other_names (h : InCtx rt subWalk props subs g)
    (hsub1 : ∀ s ∈ subs, ∀ seg v, v ∈ T (subWalk s [seg]) → v = IVal.present)
    {F name : Key} (hF : F ∈ allProps) (hd : name.drop 2 = F) (hne : name ≠ pKey F) :
    (g (some name)).filterMap IVal.timeVal = [] := by
  rw [List.filterMap_eq_nil_iff]
  intro v hv
  rw [h] at hv
  have hFs : '/' ∉ F := (by decide : ∀ F ∈ allProps, '/' ∉ F) F hF
  cases hs : splitOn '/' name with
  | nil => exact absurd hs (splitOn_ne_nil _ _)
  | cons s0 tl =>
    rw [hs] at hv
    obtain ⟨_, hshape⟩ := splitOn_eq_cons hs
    have hpre : ∃ r, name = s0 ++ r := by
      rcases hshape with ⟨_, e⟩ | ⟨r, e, _⟩
      · exact ⟨[], by simp [e]⟩
      · exact ⟨'/' :: r, e⟩
    by_cases hC : startsWith s0 "C=".toList = true
    · simp only [innerWalk, hC, ↓reduceIte] at hv
      obtain ⟨s, hsm, hvs⟩ := mem_T_flatMapE _ _ _ hv
      rcases hshape with ⟨htl, _⟩ | ⟨r, e, _⟩
      · subst htl
        rw [hsub1 s hsm s0 v hvs]; rfl
      · exfalso
        obtain ⟨s0', hs0⟩ := startsWith_two.mp (cprefix ▸ hC)
        apply hFs
        rw [← hd, e, hs0]
        simp
    · have hC' : startsWith s0 "C=".toList = false := by simpa using hC
      simp only [innerWalk, hC', Bool.false_eq_true, ↓reduceIte] at hv
      by_cases hP : startsWith s0 "P=".toList = true
      · exfalso
        apply hne
        obtain ⟨s0', hs0⟩ := startsWith_two.mp (pprefix ▸ hP)
        obtain ⟨r, hr⟩ := hpre
        rw [hr, hs0] at hd ⊢
        simp only [List.cons_append, List.drop_succ_cons, List.drop_zero] at hd
        rw [pKey, ← hd]; rfl
      · have hP' : startsWith s0 ['P', '='] = false := by simpa using hP
        simp only [yieldVals, pprefix, hP', Bool.false_eq_true, ↓reduceIte, T] at hv
        cases hv

theorem head?_flatMap_const {β γ : Type} (h : β → List γ) (A : List γ) (l : List β)
    (hall : ∀ e ∈ l, h e = [] ∨ h e = A) (hex : ∃ e ∈ l, h e = A) :
    (l.flatMap h).head? = A.head? := by
  induction l with
  | nil => obtain ⟨e, he, _⟩ := hex; cases he
  | cons x xs ih =>
    rw [List.flatMap_cons]
    cases A with
    | nil =>
      have : ∀ e ∈ x :: xs, h e = [] := fun e he => by rcases hall e he with h | h <;> exact h
      rw [this x (List.mem_cons_self ..)]
      have hxs : xs.flatMap h = [] := by
        rw [List.flatMap_eq_nil_iff]; exact fun e he => this e (List.mem_cons_of_mem _ he)
      rw [hxs]; rfl
    | cons a as =>
      rcases hall x (List.mem_cons_self ..) with hx | hx
      · rw [hx, List.nil_append]
        apply ih (fun e he => hall e (List.mem_cons_of_mem _ he))
        obtain ⟨e, he, hea⟩ := hex
        rcases List.mem_cons.mp he with rfl | he'
        · rw [hx] at hea; cases hea
        · exact ⟨e, he', hea⟩
      · rw [hx]; rfl

theorem any_flatMap_const {β γ : Type} (h : β → List γ) (A : List γ) (l : List β) (q : γ → Bool)
    (hall : ∀ e ∈ l, h e = [] ∨ h e = A) (hex : ∃ e ∈ l, h e = A) :
    (l.flatMap h).any q = A.any q := by
  induction l with
  | nil => obtain ⟨e, he, _⟩ := hex; cases he
  | cons x xs ih =>
    rw [List.flatMap_cons, List.any_append]
    by_cases hx : ∃ e ∈ xs, h e = A
    · rw [ih (fun e he => hall e (List.mem_cons_of_mem _ he)) hx]
      rcases hall x (List.mem_cons_self ..) with h0 | h0 <;> rw [h0] <;> simp
    · have hnil : ∀ e ∈ xs, h e = [] := by
        intro e he
        rcases hall e (List.mem_cons_of_mem _ he) with h0 | h0
        · exact h0
        · exact absurd ⟨e, he, h0⟩ hx
      have : xs.flatMap h = [] := by rw [List.flatMap_eq_nil_iff]; exact hnil
      rw [this]
      obtain ⟨e, he, hea⟩ := hex
      rcases List.mem_cons.mp he with rfl | he'
      · rw [hea]; simp
      · exact absurd ⟨e, he', hea⟩ hx

/-- `comp.get(F)` of the dict `ComponentTimeRangeMatcher.match_indexes` builds -/
theorem trGet_tab (h : InCtx rt subWalk props subs g)
    (hsub1 : ∀ s ∈ subs, ∀ seg v, v ∈ T (subWalk s [seg]) → v = IVal.present)
    (hrt : ∀ p ∈ props, rt p.2.value = p.2.value)
    (ks : List (Option Key)) (F : String) (hF : F.toList ∈ allProps) (hk : some (pKey F.toList) ∈ ks)
    (hs : (instsOf props F.toList).length ≤ 1) :
    trGet (tab g ks) F =
      (props.lookup F.toList).bind fun p => if p.value.truthy then some p.value else none := by
  have hFs : '/' ∉ F.toList := (by decide : ∀ F ∈ allProps, '/' ∉ F) _ hF
  have hA : g (some (pKey F.toList)) = (instsOf props F.toList).map fun p => IVal.val p.value := by
    rw [ctx_pKey h hFs]
    apply List.map_congr_left
    intro p hp
    simp only [instsOf, List.mem_map, List.mem_filter] at hp
    obtain ⟨q, ⟨hq, _⟩, rfl⟩ := hp
    rw [hrt q hq]
  have hflat : trVals (tab g ks) F.toList =
      ks.flatMap fun k => match k with
        | none => []
        | some name => if name.drop 2 = F.toList then (g (some name)).filterMap IVal.timeVal else [] := by
    simp only [trVals, tab, List.flatMap_map]
    congr 1; funext a; cases a <;> rfl
  unfold trGet
  rw [hflat, head?_flatMap_const _ ((g (some (pKey F.toList))).filterMap IVal.timeVal)]
  · rw [hA]
    have hlk := instsOf_head? props F.toList
    rw [← hlk]
    rcases instsOf_cases hs with hi | ⟨p, hi⟩
    · rw [hi]; rfl
    · rw [hi]
      simp only [List.map_cons, List.map_nil, List.filterMap_cons, IVal.timeVal, List.head?_cons,
        Option.bind_some]
      cases p.value.truthy <;> rfl
  · intro e _
    cases e with
    | none => exact Or.inl rfl
    | some name =>
      simp only []
      by_cases hd : name.drop 2 = F.toList
      · simp only [hd, ↓reduceIte]
        by_cases hn : name = pKey F.toList
        · right; rw [hn]
        · left; exact ctx_other_names h hsub1 hF hd hn
      · simp only [hd, ↓reduceIte]; exact Or.inl trivial
  · refine ⟨some (pKey F.toList), hk, ?_⟩
    have : (pKey F.toList).drop 2 = F.toList := rfl
    simp only [this, ↓reduceIte]

theorem periods_of_vals (ps : List PropI) :
    ((ps.map fun p => IVal.val p.value).filterMap IVal.timeVal).filterMap periodOf =
      ps.filterMap fun p => periodOf p.value := by
  induction ps with
  | nil => rfl
  | cons p ps ih =>
    simp only [List.map_cons, List.filterMap_cons, IVal.timeVal]
    by_cases ht : p.value.truthy = true
    · simp only [ht, ↓reduceIte, List.filterMap_cons, ih]
    · have hn : periodOf p.value = none := by
        cases hv : p.value <;> simp_all [PVal.truthy, periodOf]
      simp only [ht, Bool.false_eq_true, ↓reduceIte, hn, ih]

/-- `comp.get("FREEBUSY")` of that dict: every period of every FREEBUSY instance (a key that is
    available twice contributes twice, which `any` does not see) -/
theorem trPeriods_tab (h : InCtx rt subWalk props subs g)
    (hsub1 : ∀ s ∈ subs, ∀ seg v, v ∈ T (subWalk s [seg]) → v = IVal.present)
    (hrt : ∀ p ∈ props, rt p.2.value = p.2.value)
    (ks : List (Option Key)) (hk : some (pKey "FREEBUSY".toList) ∈ ks) (q : Int × Int → Bool) :
    (trPeriods (tab g ks)).any q =
      ((instsOf props "FREEBUSY".toList).filterMap fun p => periodOf p.value).any q := by
  have hF : "FREEBUSY".toList ∈ allProps := by decide
  have hFs : '/' ∉ "FREEBUSY".toList := by decide
  have hA : g (some (pKey "FREEBUSY".toList)) =
      (instsOf props "FREEBUSY".toList).map fun p => IVal.val p.value := by
    rw [ctx_pKey h hFs]
    apply List.map_congr_left
    intro p hp
    simp only [instsOf, List.mem_map, List.mem_filter] at hp
    obtain ⟨x, ⟨hx, _⟩, rfl⟩ := hp
    rw [hrt x hx]
  have hflat : trPeriods (tab g ks) =
      ks.flatMap fun k => match k with
        | none => []
        | some name => if name.drop 2 = "FREEBUSY".toList then
            ((g (some name)).filterMap IVal.timeVal).filterMap periodOf else [] := by
    simp only [trPeriods, trVals, tab, List.flatMap_map, List.filterMap_flatMap]
    congr 1; funext a; cases a with
    | none => rfl
    | some name => simp only []; split <;> rfl
  rw [hflat, any_flatMap_const _
    (((g (some (pKey "FREEBUSY".toList))).filterMap IVal.timeVal).filterMap periodOf)]
  · rw [hA, periods_of_vals]
  · intro e _
    cases e with
    | none => exact Or.inl rfl
    | some name =>
      simp only []
      by_cases hd : name.drop 2 = "FREEBUSY".toList
      · simp only [hd, ↓reduceIte]
        by_cases hn : name = pKey "FREEBUSY".toList
        · right; rw [hn]
        · left; rw [ctx_other_names h hsub1 hF hd hn]; rfl
      · simp only [hd, ↓reduceIte]; exact Or.inl trivial
  · refine ⟨some (pKey "FREEBUSY".toList), hk, ?_⟩
    have : (pKey "FREEBUSY".toList).drop 2 = "FREEBUSY".toList := rfl
    simp only [this, ↓reduceIte]

end ctx

/-! ## 6. the §9.9 time range of a comp-filter -/

/-- `comp.get(NAME)` on the naive side, as a value -/
def pvOf (props : List (List Char × PropI)) (n : String) : Option PVal :=
  (props.lookup n.toList).map (·.value)

theorem s99_time (props : List (List Char × PropI)) (n : String) :
    (match props.lookup n.toList with
      | some { value := .time v, .. } => some v
      | _ => none) = timeOf (pvOf props n) := by
  unfold pvOf
  cases props.lookup n.toList with
  | none => rfl
  | some p => obtain ⟨v, ps⟩ := p; cases v <;> rfl

theorem s99_dtstart (props : List (List Char × PropI)) :
    (section99 props).dtstart = timeOf (pvOf props "DTSTART") := s99_time props "DTSTART"
theorem s99_dtend (props : List (List Char × PropI)) :
    (section99 props).dtend = timeOf (pvOf props "DTEND") := s99_time props "DTEND"
theorem s99_due (props : List (List Char × PropI)) :
    (section99 props).due = timeOf (pvOf props "DUE") := s99_time props "DUE"
theorem s99_completed (props : List (List Char × PropI)) :
    (section99 props).completed = timeOf (pvOf props "COMPLETED") := s99_time props "COMPLETED"
theorem s99_created (props : List (List Char × PropI)) :
    (section99 props).created = timeOf (pvOf props "CREATED") := s99_time props "CREATED"
theorem s99_duration (props : List (List Char × PropI)) :
    (section99 props).duration = durOf (pvOf props "DURATION") := by
  show (match props.lookup "DURATION".toList with
      | some { value := .dur v, .. } => some v
      | _ => none) = _
  unfold pvOf
  cases props.lookup "DURATION".toList with
  | none => rfl
  | some p => obtain ⟨v, ps⟩ := p; cases v <;> rfl

theorem timeOf_truthy (o : Option PropI) :
    timeOf (o.bind fun p => if p.value.truthy then some p.value else none) = timeOf (o.map (·.value)) := by
  cases o with
  | none => rfl
  | some p => obtain ⟨v, ps⟩ := p; cases v <;> simp [timeOf, PVal.truthy] <;> split <;> rfl

theorem durOf_truthy (o : Option PropI) :
    durOf (o.bind fun p => if p.value.truthy then some p.value else none) = durOf (o.map (·.value)) := by
  cases o with
  | none => rfl
  | some p => obtain ⟨v, ps⟩ := p; cases v <;> simp [durOf, PVal.truthy] <;> split <;> rfl

theorem instsOf_length_le_one (props : List (List Char × PropI)) (n : List Char)
    (h : (props.map (·.1)).Nodup) : (instsOf props n).length ≤ 1 := by
  unfold instsOf
  induction props with
  | nil => simp
  | cons x xs ih =>
    obtain ⟨m, p⟩ := x
    simp only [List.map_cons, List.nodup_cons] at h
    simp only [List.filter_cons]
    by_cases hm : m = n
    · subst hm
      have : xs.filter (fun q => q.1 == m) = [] := by
        rw [List.filter_eq_nil_iff]
        intro q hq hqm
        exact h.1 (by simp only [beq_iff_eq] at hqm; exact hqm ▸ List.mem_map_of_mem (f := (·.1)) hq)
      simp [this]
    · have h1 : (m == n) = false := by simpa using hm
      simp only [h1, Bool.false_eq_true, ↓reduceIte]
      exact ih h.2

theorem vevent_congr {c c' : Comp} (a b : Int) (tz : TVal → Int) (h1 : c.dtstart = c'.dtstart)
    (h2 : c.dtend = c'.dtend) (h3 : c.duration = c'.duration) : vevent a b c tz = vevent a b c' tz := by
  unfold vevent; rw [h1, h2, h3]

theorem vjournal_congr {c c' : Comp} (a b : Int) (tz : TVal → Int) (h1 : c.dtstart = c'.dtstart) :
    vjournal a b c tz = vjournal a b c' tz := by
  unfold vjournal; rw [h1]

theorem vtodo_congr {c c' : Comp} (a b : Int) (tz : TVal → Int) (h1 : c.dtstart = c'.dtstart)
    (h2 : c.due = c'.due) (h3 : c.duration = c'.duration) (h4 : c.completed = c'.completed)
    (h5 : c.created = c'.created) : vtodo a b c tz = vtodo a b c' tz := by
  unfold vtodo; rw [h1, h2, h3, h4, h5]

theorem lookup_none_ne {β : Type} (l : List (List Char × β)) (n : List Char) (h : l.lookup n = none) :
    ∀ p ∈ l, p.1 ≠ n := by
  induction l with
  | nil => intro p hp; cases hp
  | cons x xs ih =>
    obtain ⟨m, v⟩ := x
    simp only [List.lookup_cons] at h
    by_cases hm : n = m
    · simp [hm] at h
    · have : (n == m) = false := by simpa using hm
      rw [this] at h
      intro p hp
      rcases List.mem_cons.mp hp with rfl | hp
      · exact fun e => hm e.symm
      · exact ih h p hp

/-- the periods `apply_time_range_vfreebusy` iterates over on the naive side: those of every
    FREEBUSY instance, in order -/
theorem s99_freebusy (props : List (List Char × PropI)) :
    (section99 props).freebusy =
      (instsOf props "FREEBUSY".toList).filterMap fun p => periodOf p.value := by
  unfold section99 instsOf
  simp only []
  induction props with
  | nil => rfl
  | cons x xs ih =>
    obtain ⟨n, p⟩ := x
    simp only [List.filterMap_cons, List.filter_cons]
    by_cases hn : n = "FREEBUSY".toList
    · subst hn
      simp only [↓reduceIte, BEq.rfl, List.map_cons, List.filterMap_cons]
      rw [ih]
      cases p.value <;> rfl
    · have h1 : (n == "FREEBUSY".toList) = false := by simpa using hn
      simp only [hn, h1, ↓reduceIte, Bool.false_eq_true]
      exact ih

theorem vfreebusy_congr {c c' : Comp} (a b : Int) (tz : TVal → Int) (h1 : c.dtstart = c'.dtstart)
    (h2 : c.dtend = c'.dtend) (h3 : ∀ q, c.freebusy.any q = c'.freebusy.any q) :
    vfreebusy a b c tz = vfreebusy a b c' tz := by
  unfold vfreebusy; rw [h1, h2, h3]

/-- the fields `ComponentTimeRangeMatcher.index_keys()` asks for -/
def trFields (comp : List Char) : List Key :=
  if comp = "VEVENT".toList then ["DTSTART", "DTEND", "DURATION"].map String.toList
  else if comp = "VTODO".toList then ["DTSTART", "DUE", "DURATION", "CREATED", "COMPLETED"].map String.toList
  else if comp = "VJOURNAL".toList then ["DTSTART"].map String.toList
  else if comp = "VFREEBUSY".toList then ["DTSTART", "DTEND", "FREEBUSY"].map String.toList
  else allProps

theorem trFields_sub (comp : List Char) : ∀ F ∈ trFields comp, F ∈ allProps := by
  unfold trFields
  by_cases h1 : comp = "VEVENT".toList
  · simp only [h1, ↓reduceIte]; decide
  · by_cases h2 : comp = "VTODO".toList
    · simp only [h2, ↓reduceIte]; decide
    · by_cases h3 : comp = "VJOURNAL".toList
      · simp only [h3, ↓reduceIte]; decide
      · by_cases h4 : comp = "VFREEBUSY".toList
        · simp only [h4, ↓reduceIte]; decide
        · simp only [h1, h2, h3, h4, ↓reduceIte]; exact fun F hF => hF

theorem trKeys_ok (comp : List Char) (h : comp ≠ "VALARM".toList) :
    trKeys comp = .ok ((trFields comp).map fun p => [pKey p]) := by
  unfold trKeys trFields
  by_cases h1 : comp = "VEVENT".toList
  · simp only [h1, ↓reduceIte]; rfl
  · by_cases h2 : comp = "VTODO".toList
    · simp only [h2, ↓reduceIte]; rfl
    · by_cases h3 : comp = "VJOURNAL".toList
      · simp only [h3, ↓reduceIte]; rfl
      · by_cases h4 : comp = "VFREEBUSY".toList
        · simp only [h4, ↓reduceIte]; rfl
        · simp only [h1, h2, h3, h4, h, ↓reduceIte]; rfl

section time
variable {α : Type} {rt : PVal → PVal} {subWalk : α → List Key → Except PyErr (List IVal)}
  {props : List (List Char × PropI)} {subs : List α} {g : Option Key → List IVal}

theorem compTimeMatchIdx_eq (h : InCtx rt subWalk props subs g)
    (hsub1 : ∀ s ∈ subs, ∀ seg v, v ∈ T (subWalk s [seg]) → v = IVal.present)
    (hrt : ∀ p ∈ props, rt p.2.value = p.2.value) (hnd : (props.map (·.1)).Nodup)
    (ks : List (Option Key)) (tz : TVal → Int) (r : Int × Int) (name : List Char)
    (hcov : ∀ F ∈ trFields name, some (pKey F) ∈ ks) :
    compTimeMatchIdx tz r name (tab g ks) = compTimeMatch tz r name props := by
  have get : ∀ F : String, F.toList ∈ allProps → F.toList ∈ trFields name →
      trGet (tab g ks) F =
        (props.lookup F.toList).bind fun p => if p.value.truthy then some p.value else none :=
    fun F hF hT => trGet_tab h hsub1 hrt ks F hF (hcov _ hT) (instsOf_length_le_one props _ hnd)
  have tm : ∀ F : String, F.toList ∈ allProps → F.toList ∈ trFields name →
      timeOf (trGet (tab g ks) F) = timeOf (pvOf props F) :=
    fun F hF hT => by rw [get F hF hT, timeOf_truthy]; rfl
  have du : "DURATION".toList ∈ trFields name →
      durOf (trGet (tab g ks) "DURATION") = durOf (pvOf props "DURATION") :=
    fun hT => by rw [get "DURATION" (by decide) hT, durOf_truthy]; rfl
  unfold compTimeMatchIdx compTimeMatch
  by_cases h1 : name = "VEVENT".toList
  · subst h1
    simp only [↓reduceIte]
    apply vevent_congr
    · rw [s99_dtstart]; exact tm "DTSTART" (by decide) (by decide)
    · rw [s99_dtend]; exact tm "DTEND" (by decide) (by decide)
    · rw [s99_duration]; exact du (by decide)
  · by_cases h2 : name = "VTODO".toList
    · subst h2
      simp only [h1, ↓reduceIte]
      apply vtodo_congr
      · rw [s99_dtstart]; exact tm "DTSTART" (by decide) (by decide)
      · rw [s99_due]; exact tm "DUE" (by decide) (by decide)
      · rw [s99_duration]; exact du (by decide)
      · rw [s99_completed]; exact tm "COMPLETED" (by decide) (by decide)
      · rw [s99_created]; exact tm "CREATED" (by decide) (by decide)
    · by_cases h3 : name = "VJOURNAL".toList
      · subst h3
        simp only [h1, h2, ↓reduceIte]
        apply vjournal_congr
        rw [s99_dtstart]; exact tm "DTSTART" (by decide) (by decide)
      · by_cases h4 : name = "VFREEBUSY".toList
        · subst h4
          simp only [h1, h2, h3, ↓reduceIte]
          have e1 : (section99Idx (tab g ks)).dtstart = (section99 props).dtstart := by
            rw [s99_dtstart]; exact tm "DTSTART" (by decide) (by decide)
          have e2 : (section99Idx (tab g ks)).dtend = (section99 props).dtend := by
            rw [s99_dtend]; exact tm "DTEND" (by decide) (by decide)
          apply vfreebusy_congr _ _ _ e1 e2
          intro q
          rw [s99_freebusy]
          exact trPeriods_tab h hsub1 hrt ks (hcov _ (by decide)) q
        · simp only [h1, h2, h3, h4, ↓reduceIte]

end time

/-! ## 7. one level of comp-filter, generically -/

/-- what the theorem asks of one component: no property name twice, values that survive the
    index round trip -/
structure CompOK (rt : PVal → PVal) (props : List (List Char × PropI)) : Prop where
  nodup : (props.map (·.1)).Nodup
  rt : ∀ p ∈ props, rt p.2.value = p.2.value

/-- … and of a component tree: additionally no sub-component name twice, recursively -/
def NodeOK {α : Type} (rt : PVal → PVal) (childOK : α → Prop) (childName : α → List Char)
    (c : Node α) : Prop :=
  CompOK rt c.props ∧ (c.subs.map childName).Nodup ∧ ∀ s ∈ c.subs, childOK s

def PropWF (pf : PropF) : Prop := '/' ∉ pf.name ∧ ∀ q ∈ pf.params, '/' ∉ q.name

/-- well-formed comp-filter: no `/` in names, no time range on VALARM, and an `is-not-defined`
    comp-filter has no child that is itself "defined" -/
def NodeWF {β : Type} (childWF : β → Prop) (childND : β → Bool) (f : FNode β) : Prop :=
  '/' ∉ f.name ∧ (f.timeRange ≠ none → f.name ≠ "VALARM".toList) ∧
  (f.isNotDefined = true → implicitlyDefined childND f = false) ∧
  (∀ pf ∈ f.props, PropWF pf) ∧ ∀ cf ∈ f.comps, childWF cf

/-- `PropertyFilter.index_keys()`, flattened (every OR-group is a singleton) -/
def propKeysFlat (pf : PropF) : List Key :=
  pf.params.map (fun q => joinKey (pKey pf.name) (aKey q.name)) ++ [pKey pf.name]

/-- keys of the children and the time range, relative to the component -/
def bodyKeysFlat {β : Type} (childKeysFlat : β → List Key) (f : FNode β) : List Key :=
  f.props.flatMap propKeysFlat ++ f.comps.flatMap childKeysFlat ++
    (match f.timeRange with
     | some _ => (trFields f.name).map pKey
     | none => [])

/-- `ComponentFilter.index_keys()`, flattened -/
def nodeKeysFlat {β : Type} (childKeysFlat : β → List Key) (childND : β → Bool) (f : FNode β) : List Key :=
  (bodyKeysFlat childKeysFlat f).map (joinKey (cKey f.name)) ++
    if implicitlyDefined childND f then [] else [cKey f.name]

/-- how the naive path evaluates one child comp-filter against the sub-components -/
def childNaive {α β : Type} (childMatch : β → α → Except PyErr Bool) (childName : α → List Char)
    (childND : β → Bool) (childFName : β → List Char) (subs : List α) (cf : β) : Except PyErr Bool :=
  if childND cf then pure (!(subs.any fun s => childName s == childFName cf))
  else anyE (childMatch cf) subs

/-- the naive `ComponentFilter.match` after the name test -/
def nodeBody {α β : Type} (substring : Bool) (tz : TVal → Int)
    (childMatch : β → α → Except PyErr Bool) (childName : α → List Char)
    (childND : β → Bool) (childFName : β → List Char)
    (f : FNode β) (name : List Char) (props : List (List Char × PropI)) (subs : List α) :
    Except PyErr Bool :=
  levelTime tz f.timeRange name props >>= fun tr =>
  if !tr then pure false
  else if !(f.props.all fun pf => propMatch substring tz pf props) then pure false
  else allE (childNaive childMatch childName childND childFName subs) f.comps

theorem nodeMatch_eq {α β : Type} (substring : Bool) (tz : TVal → Int)
    (childMatch : β → α → Except PyErr Bool) (childName : α → List Char)
    (childND : β → Bool) (childFName : β → List Char) (f : FNode β) (c : Node α) :
    nodeMatch substring tz childMatch childName childND childFName f c =
      if c.name ≠ f.name then pure false
      else nodeBody substring tz childMatch childName childND childFName f c.name c.props c.subs := rfl

def isT (x : Except PyErr Bool) : Bool :=
  match x with
  | .ok true => true
  | _ => false

theorem Is_isT {x : Except PyErr Bool} {b : Bool} (h : Is x b) : b = isT x := by
  rcases h with ⟨rfl, h⟩ | ⟨rfl, h | ⟨a, h⟩⟩ <;> rw [h] <;> rfl

theorem compTimeMatch_benign (tz : TVal → Int) (r : Int × Int) (name : List Char)
    (props : List (List Char × PropI)) (h : name ≠ "VALARM".toList) :
    ∃ b, Is (compTimeMatch tz r name props) b := by
  unfold compTimeMatch
  by_cases h1 : name = "VEVENT".toList
  · subst h1
    simp only [↓reduceIte]
    unfold vevent
    cases (section99 props).dtstart with
    | none => exact ⟨false, Is_false_of (Or.inr ⟨_, rfl⟩)⟩
    | some ds =>
      simp only []
      split
      · exact ⟨_, Is_pure _⟩
      · cases (section99 props).dtend with
        | some de => exact ⟨_, Is_pure _⟩
        | none =>
          cases (section99 props).duration with
          | some d => simp only []; split <;> exact ⟨_, Is_pure _⟩
          | none => simp only []; split <;> exact ⟨_, Is_pure _⟩
  · by_cases h2 : name = "VTODO".toList
    · subst h2
      simp only [h1, ↓reduceIte]
      unfold vtodo
      cases (section99 props).dtstart with
      | some ds =>
        cases (section99 props).duration <;> cases (section99 props).due <;> exact ⟨_, Is_pure _⟩
      | none =>
        cases (section99 props).due with
        | some du => exact ⟨_, Is_pure _⟩
        | none =>
          cases (section99 props).completed <;> cases (section99 props).created <;> exact ⟨_, Is_pure _⟩
    · by_cases h3 : name = "VJOURNAL".toList
      · subst h3
        simp only [h1, h2, ↓reduceIte]
        unfold vjournal
        cases (section99 props).dtstart with
        | none => exact ⟨_, Is_pure _⟩
        | some ds =>
          simp only []
          split
          · exact ⟨_, Is_pure _⟩
          · split <;> exact ⟨_, Is_pure _⟩
      · by_cases h4 : name = "VFREEBUSY".toList
        · subst h4
          simp only [h1, h2, h3, ↓reduceIte]
          unfold vfreebusy
          cases (section99 props).dtstart <;> cases (section99 props).dtend <;> exact ⟨_, Is_pure _⟩
        · simp only [h1, h2, h3, h4, h, ↓reduceIte]
          exact ⟨_, Is_pure _⟩

theorem allE_true {α : Type} (f : α → Except PyErr Bool) (l : List α) (h : allE f l = .ok true) :
    ∀ x ∈ l, f x = .ok true := by
  induction l with
  | nil => intro x hx; cases hx
  | cons y ys ih =>
    simp only [allE] at h
    cases hy : f y with
    | error e => rw [hy] at h; cases h
    | ok b =>
      rw [hy, ok_bind] at h
      cases b with
      | false => simp at h; cases h
      | true =>
        simp only [↓reduceIte] at h
        intro x hx
        rcases List.mem_cons.mp hx with rfl | hx
        · exact hy
        · exact ih h x hx

theorem propMatch_nil (tz : TVal → Int) (pf : PropF) : propMatch false tz pf [] = pf.isNotDefined := by
  unfold propMatch
  cases pf.isNotDefined <;> rfl

/-- if the naive body accepts a component with no properties and no sub-components, every child
    of the filter is `is-not-defined` -/
theorem nodeBody_nil_true {α β : Type} (tz : TVal → Int)
    (childMatch : β → α → Except PyErr Bool) (childName : α → List Char)
    (childND : β → Bool) (childFName : β → List Char) (f : FNode β) (name : List Char)
    (h : nodeBody false tz childMatch childName childND childFName f name [] [] = .ok true) :
    implicitlyDefined childND f = false := by
  unfold nodeBody at h
  cases hx : levelTime tz f.timeRange name [] with
  | error e => rw [hx] at h; cases h
  | ok t =>
    rw [hx, ok_bind] at h
    cases t with
    | false => simp at h; cases h
    | true =>
      simp only [Bool.not_true, Bool.false_eq_true, ↓reduceIte] at h
      by_cases hp : (f.props.all fun pf => propMatch false tz pf []) = true
      · simp only [hp, Bool.not_true, Bool.false_eq_true, ↓reduceIte] at h
        have hc := allE_true _ _ h
        unfold implicitlyDefined
        rw [Bool.or_eq_false_iff]
        constructor
        · rw [List.any_eq_false]
          intro pf hpf
          have := List.all_eq_true.mp hp pf hpf
          rw [propMatch_nil] at this
          simp [this]
        · rw [List.any_eq_false]
          intro cf hcf
          have := hc cf hcf
          unfold childNaive at this
          cases hnd : childND cf with
          | true => simp
          | false => rw [hnd] at this; simp [anyE, pure, Except.pure] at this
      · simp only [hp, Bool.not_false, ↓reduceIte] at h
        cases h

theorem T_innerWalk_nil {α : Type} (rt : PVal → PVal) (subWalk : α → List Key → Except PyErr (List IVal))
    (segs : List Key) (h : segs ≠ []) : T (innerWalk rt subWalk [] ([] : List α) segs) = [] := by
  cases segs with
  | nil => exact absurd rfl h
  | cons s1 tl =>
    unfold innerWalk
    by_cases hC : startsWith s1 "C=".toList = true
    · simp only [hC, ↓reduceIte]; rfl
    · simp only [hC, Bool.false_eq_true, ↓reduceIte]
      unfold yieldVals
      by_cases hP : startsWith s1 "P=".toList = true
      · simp only [hP, ↓reduceIte]
        by_cases hl : tl.length ≤ 1
        · simp only [hl, ↓reduceIte]
          cases tl with
          | nil => rfl
          | cons s2 t2 =>
            simp only [List.filter_nil, List.map_nil, List.filterMap_nil, List.isEmpty_nil, ↓reduceIte]
            split <;> rfl
        · simp only [hl, ↓reduceIte]; rfl
      · simp only [hP, Bool.false_eq_true, ↓reduceIte]; rfl

/-- the values of the pure component key: one marker per sibling of that name -/
theorem T_flatMapE_present {α : Type} (p : α → Bool) (l : List α) :
    (T (flatMapE (fun s => if p s = true then (pure [IVal.present] : Except PyErr (List IVal)) else pure []) l)).isEmpty
      = !(l.any p) := by
  induction l with
  | nil => rfl
  | cons x xs ih =>
    simp only [flatMapE, List.any_cons]
    cases hxs : flatMapE (fun s => if p s = true then (pure [IVal.present] : Except PyErr (List IVal)) else pure []) xs with
    | error e =>
      exfalso
      have : ∀ (l : List α), ∃ v, flatMapE (fun s => if p s = true then (pure [IVal.present] : Except PyErr (List IVal)) else pure []) l = .ok v := by
        intro l
        induction l with
        | nil => exact ⟨[], rfl⟩
        | cons y ys ihy =>
          obtain ⟨v, hv⟩ := ihy
          simp only [flatMapE, hv]
          by_cases hy : p y = true
          · simp only [hy, ↓reduceIte]; exact ⟨_, rfl⟩
          · simp only [hy, Bool.false_eq_true, ↓reduceIte]; exact ⟨_, rfl⟩
      obtain ⟨v, hv⟩ := this xs
      rw [hv] at hxs; cases hxs
    | ok v =>
      rw [hxs] at ih
      by_cases hx : p x = true
      · simp only [hx, ↓reduceIte, Bool.true_or, Bool.not_true]; rfl
      · have hx' : p x = false := by simpa using hx
        simp only [hx', Bool.false_eq_true, ↓reduceIte, Bool.false_or]
        rw [← ih]; rfl

section level
variable {α β : Type} (rt : PVal → PVal) (tz : TVal → Int)
  (subWalk : α → List Key → Except PyErr (List IVal))
  (childMatch : β → α → Except PyErr Bool) (childMatchIdx : β → SubIdx → Except PyErr Bool)
  (childName : α → List Char) (childND : β → Bool) (childFName : β → List Char)
  (childKeysFlat : β → List Key) (childWF : β → Prop) (childOK : α → Prop)

/-- the agreement statement one level down, for a child comp-filter against a list of sibling
    components described by the dict `tab g ks` -/
def ChildAgree : Prop :=
  ∀ (cf : β) (sibs : List α) (g : Option Key → List IVal) (ks : List (Option Key)),
    childWF cf → (sibs.map childName).Nodup → (∀ s ∈ sibs, childOK s) →
    (∀ k, g (some ('C' :: '=' :: k)) =
      T (flatMapE (fun s => subWalk s (splitOn '/' ('C' :: '=' :: k))) sibs)) →
    (∀ k ∈ childKeysFlat cf, some k ∈ ks) →
    ∃ b, Is (childMatchIdx cf (tab g ks)) b ∧
      Is (childNaive childMatch childName childND childFName sibs cf) b

theorem body_agree
    (hchild : ChildAgree subWalk childMatch childMatchIdx childName childND childFName childKeysFlat
      childWF childOK)
    (hsub1 : ∀ s seg v, v ∈ T (subWalk s [seg]) → v = IVal.present)
    (f : FNode β) (props : List (List Char × PropI)) (subs : List α)
    (g : Option Key → List IVal) (ks : List (Option Key))
    (hwf : NodeWF childWF childND f) (hctx : InCtx rt subWalk props subs g)
    (hok : CompOK rt props) (hsn : (subs.map childName).Nodup) (hso : ∀ s ∈ subs, childOK s)
    (hk : ∀ k ∈ bodyKeysFlat childKeysFlat f, some k ∈ ks) :
    ∃ b, Is (nodeBodyIdx tz childMatchIdx f (tab g ks)) b ∧
      Is (nodeBody false tz childMatch childName childND childFName f f.name props subs) b := by
  obtain ⟨_, hval, _, hpw, hcw⟩ := hwf
  -- keys
  have hkp : ∀ pf ∈ f.props, ∀ k ∈ propKeysFlat pf, some k ∈ ks := by
    intro pf hpf k hk'
    apply hk
    unfold bodyKeysFlat
    exact List.mem_append_left _ (List.mem_append_left _ (List.mem_flatMap.mpr ⟨pf, hpf, hk'⟩))
  have hkc : ∀ cf ∈ f.comps, ∀ k ∈ childKeysFlat cf, some k ∈ ks := by
    intro cf hcf k hk'
    apply hk
    unfold bodyKeysFlat
    exact List.mem_append_left _ (List.mem_append_right _ (List.mem_flatMap.mpr ⟨cf, hcf, hk'⟩))
  have hkt : ∀ r, f.timeRange = some r → ∀ F ∈ trFields f.name, some (pKey F) ∈ ks := by
    intro r hr F hF
    apply hk
    unfold bodyKeysFlat
    rw [hr]
    exact List.mem_append_right _ (List.mem_map_of_mem hF)
  -- prop-filters
  have hprops : allE (fun pf => propMatchIdx tz pf (tab g ks)) f.props =
      .ok (f.props.all fun pf => propMatch false tz pf props) := by
    apply allE_ok
    intro pf hpf
    obtain ⟨hX, hY⟩ := hpw pf hpf
    apply propMatchIdx_eq
    · exact hkp pf hpf _ (by simp [propKeysFlat])
    · intro q hq
      exact hkp pf hpf _ (by
        unfold propKeysFlat
        exact List.mem_append_left _ (List.mem_map.mpr ⟨q, hq, rfl⟩))
    · rw [ctx_pKey hctx hX]
      apply List.map_congr_left
      intro p hp
      simp only [instsOf, List.mem_map, List.mem_filter] at hp
      obtain ⟨q, ⟨hq, _⟩, rfl⟩ := hp
      rw [hok.rt q hq]
    · exact fun q hq => ctx_paKey hctx hX (hY q hq)
    · exact instsOf_length_le_one _ _ hok.nodup
  -- child comp-filters
  have hcomps : ∀ cf ∈ f.comps,
      Is (childMatchIdx cf (tab g ks)) (isT (childNaive childMatch childName childND childFName subs cf)) ∧
      Is (childNaive childMatch childName childND childFName subs cf)
        (isT (childNaive childMatch childName childND childFName subs cf)) := by
    intro cf hcf
    obtain ⟨b, h1, h2⟩ := hchild cf subs g ks (hcw cf hcf) hsn hso (ctx_desc hctx) (hkc cf hcf)
    rw [← Is_isT h2]; exact ⟨h1, h2⟩
  have hci := Is_allE _ _ f.comps (fun cf hcf => (hcomps cf hcf).1)
  have hcn := Is_allE _ _ f.comps (fun cf hcf => (hcomps cf hcf).2)
  -- after the time range
  have hrest : ∃ b,
      Is (allE (fun pf => propMatchIdx tz pf (tab g ks)) f.props >>= fun b =>
        if !b then pure false else allE (fun cf => childMatchIdx cf (tab g ks)) f.comps) b ∧
      Is (if !(f.props.all fun pf => propMatch false tz pf props) then pure false
        else allE (childNaive childMatch childName childND childFName subs) f.comps) b := by
    rw [hprops, ok_bind]
    cases (f.props.all fun pf => propMatch false tz pf props) with
    | false => exact ⟨false, Is_ok false, Is_ok false⟩
    | true => exact ⟨_, hci, hcn⟩
  obtain ⟨b, hri, hrn⟩ := hrest
  unfold nodeBodyIdx nodeBody levelTime
  cases htr : f.timeRange with
  | none =>
    simp only [pure, Except.pure, ok_bind, Bool.not_true, Bool.false_eq_true, ↓reduceIte]
    exact ⟨b, hri, hrn⟩
  | some r =>
    simp only []
    rw [compTimeMatchIdx_eq hctx (fun s _ => hsub1 s) hok.rt hok.nodup ks tz r f.name (hkt r htr)]
    obtain ⟨bx, hbx⟩ := compTimeMatch_benign tz r f.name props (hval (by rw [htr]; simp))
    exact ⟨bx && b, Is_bind_guard hbx (fun _ => hri), Is_bind_guard hbx (fun _ => hrn)⟩

/-- **One level of the agreement.**  If the agreement holds for the child comp-filters (one level
    down), it holds for a comp-filter of this level against any list of sibling components that
    the dict describes. -/
theorem node_agree
    (hchild : ChildAgree subWalk childMatch childMatchIdx childName childND childFName childKeysFlat
      childWF childOK)
    (hsub1 : ∀ s seg v, v ∈ T (subWalk s [seg]) → v = IVal.present) :
    ChildAgree (nodeWalk rt subWalk)
      (nodeMatch false tz childMatch childName childND childFName)
      (nodeMatchIdx tz childMatchIdx childND)
      (fun (c : Node α) => c.name) (fun (f : FNode β) => f.isNotDefined) (fun (f : FNode β) => f.name)
      (nodeKeysFlat childKeysFlat childND) (NodeWF childWF childND)
      (NodeOK rt childOK childName) := by
  intro f sibs g ks hwf hnd hok hg hk
  have hN : '/' ∉ f.name := hwf.1
  -- the pure component key: one marker per sibling of that name
  have hmine : (g (some (cKey f.name))).isEmpty = !(sibs.any fun s => s.name == f.name) := by
    have h0 := hg f.name
    have hfun : (fun s => nodeWalk rt subWalk s (splitOn '/' ('C' :: '=' :: f.name))) =
        fun (s : Node α) => if (s.name == f.name) = true then
          (pure [IVal.present] : Except PyErr (List IVal)) else pure [] := by
      funext s
      rw [show ('C' :: '=' :: f.name) = cKey f.name from rfl, splitOn_noSep (slash_not_mem_cKey hN),
        nodeWalk_cons]
      by_cases h : s.name = f.name
      · simp only [h, ↓reduceIte, BEq.rfl]; rfl
      · have : (s.name == f.name) = false := by simpa using h
        simp only [h, this, ↓reduceIte, Bool.false_eq_true]
    rw [hfun] at h0
    show (g (some ('C' :: '=' :: f.name))).isEmpty = _
    rw [h0]
    exact T_flatMapE_present _ _
  have hkmine : implicitlyDefined childND f = false → some (cKey f.name) ∈ ks := by
    intro himp
    apply hk
    unfold nodeKeysFlat
    rw [himp]
    simp
  by_cases hndf : f.isNotDefined = true
  · -- is-not-defined
    have himp := hwf.2.2.1 hndf
    refine ⟨!(sibs.any fun s => s.name == f.name), ?_, ?_⟩
    · unfold nodeMatchIdx
      simp only [hndf, ↓reduceIte]
      rw [lookupE_tab_mem (hkmine himp), ok_bind, hmine]
      exact Is_pure _
    · unfold childNaive
      simp only [hndf, ↓reduceIte]
      exact Is_pure _
  · have hndf' : f.isNotDefined = false := by simpa using hndf
    -- the sub-dict
    have hg' : ∀ name, g (unstrip (cKey f.name) (some name)) =
        T (flatMapE (fun (s : Node α) => if s.name = f.name then
          innerWalk rt subWalk s.props s.subs (splitOn '/' name) else pure []) sibs) := by
      intro name
      have h0 := hg (f.name ++ '/' :: name)
      rw [show ('C' :: '=' :: (f.name ++ '/' :: name)) = joinKey (cKey f.name) name from rfl,
        splitOn_joinKey (slash_not_mem_cKey hN)] at h0
      simp only [unstrip]
      rw [h0]
      have hf : (fun s => nodeWalk rt subWalk s (cKey f.name :: splitOn '/' name)) =
          fun (s : Node α) => if s.name = f.name then
            innerWalk rt subWalk s.props s.subs (splitOn '/' name) else pure [] := by
        funext s; exact nodeWalk_cons rt subWalk s f.name _
      rw [hf]
    have hk' : ∀ k ∈ bodyKeysFlat childKeysFlat f, some k ∈ ks.filterMap (stripKey (cKey f.name)) := by
      intro k hk'
      apply mem_strip_join
      apply hk
      unfold nodeKeysFlat
      exact List.mem_append_left _ (List.mem_map_of_mem hk')
    have hidx : nodeMatchIdx tz childMatchIdx childND f (tab g ks) =
        (nodeBodyIdx tz childMatchIdx f (tab (fun k => g (unstrip (cKey f.name) k))
          (ks.filterMap (stripKey (cKey f.name)))) >>= fun b =>
        if !b then pure false
        else if !implicitlyDefined childND f then
          lookupE (tab g ks) (some (cKey f.name)) >>= fun v => pure (!v.isEmpty)
        else pure true) := by
      unfold nodeMatchIdx
      simp only [hndf', Bool.false_eq_true, ↓reduceIte]
      rw [createSub_tab]
    have hnaive : childNaive (nodeMatch false tz childMatch childName childND childFName)
        (fun (c : Node α) => c.name) (fun (f : FNode β) => f.isNotDefined) (fun (f : FNode β) => f.name) sibs f =
        anyE (nodeMatch false tz childMatch childName childND childFName f) sibs := by
      unfold childNaive
      simp only [hndf', Bool.false_eq_true, ↓reduceIte]
    rw [hidx, hnaive]
    by_cases hex : ∃ c ∈ sibs, c.name = f.name
    · obtain ⟨c, hc, hcn⟩ := hex
      have hctx : InCtx rt subWalk c.props c.subs (fun k => g (unstrip (cKey f.name) k)) := by
        intro name
        show g (unstrip (cKey f.name) (some name)) = _
        rw [hg' name, T_flatMapE_unique _ (fun (s : Node α) => s.name) sibs c hnd hc]
        · simp only [hcn, ↓reduceIte]
        · intro s _ hne
          have : s.name ≠ f.name := hcn ▸ hne
          simp only [this, ↓reduceIte]; rfl
      obtain ⟨ok1, ok2, ok3⟩ := hok c hc
      obtain ⟨b, hbi, hbn⟩ := body_agree rt tz subWalk childMatch childMatchIdx childName childND childFName
        childKeysFlat childWF childOK hchild hsub1 f c.props c.subs _ _ hwf hctx
        ok1 ok2 ok3 hk'
      refine ⟨b, ?_, ?_⟩
      · have hfin : Is (if !implicitlyDefined childND f then
            lookupE (tab g ks) (some (cKey f.name)) >>= fun v => pure (!v.isEmpty)
            else pure true) true := by
          by_cases himp : implicitlyDefined childND f = true
          · simp only [himp, Bool.not_true, Bool.false_eq_true, ↓reduceIte]; exact Is_pure true
          · have himp' : implicitlyDefined childND f = false := by simpa using himp
            simp only [himp', Bool.not_false, ↓reduceIte]
            rw [lookupE_tab_mem (hkmine himp'), ok_bind, hmine]
            have : (sibs.any fun s => s.name == f.name) = true :=
              List.any_eq_true.mpr ⟨c, hc, by simp [hcn]⟩
            rw [this]; exact Is_pure true
        have := Is_bind_guard hbi (fun _ => hfin)
        simpa using this
      · apply Is_anyE_unique _ (fun (s : Node α) => s.name) sibs c b hnd hc
        · intro s _ hne
          have : s.name ≠ f.name := hcn ▸ hne
          rw [nodeMatch_eq]
          simp only [ne_eq, this, not_false_eq_true, ↓reduceIte]; rfl
        · rw [nodeMatch_eq]
          simp only [ne_eq, hcn, not_true_eq_false, ↓reduceIte]
          exact hbn
    · have hno : ∀ s ∈ sibs, s.name ≠ f.name := fun s hs e => hex ⟨s, hs, e⟩
      have hmine' : (g (some (cKey f.name))).isEmpty = true := by
        rw [hmine]
        have : (sibs.any fun s => s.name == f.name) = false := by
          rw [List.any_eq_false]; intro s hs; simpa using hno s hs
        rw [this]; rfl
      have hctx : InCtx rt subWalk [] ([] : List α) (fun k => g (unstrip (cKey f.name) k)) := by
        intro name
        show g (unstrip (cKey f.name) (some name)) = _
        rw [hg' name, flatMapE_all_nil, T_innerWalk_nil _ _ _ (splitOn_ne_nil _ _)]
        · rfl
        · intro s hs
          simp only [hno s hs, ↓reduceIte]; rfl
      have okNil : CompOK rt [] := ⟨List.nodup_nil, fun p hp => (by cases hp)⟩
      obtain ⟨b, hbi, hbn⟩ := body_agree rt tz subWalk childMatch childMatchIdx childName childND childFName
        childKeysFlat childWF childOK hchild hsub1 f [] [] _ _ hwf hctx
        okNil List.nodup_nil (fun s hs => by cases hs) hk'
      refine ⟨false, ?_, ?_⟩
      · cases b with
        | false =>
          have := Is_bind_guard (k := if !implicitlyDefined childND f then
            lookupE (tab g ks) (some (cKey f.name)) >>= fun v => pure (!v.isEmpty)
            else pure true) (c := true) hbi (fun h => by cases h)
          simpa using this
        | true =>
          have himp := nodeBody_nil_true tz childMatch childName childND childFName f f.name (Is_true hbn)
          have hfin : Is (if !implicitlyDefined childND f then
              lookupE (tab g ks) (some (cKey f.name)) >>= fun v => pure (!v.isEmpty)
              else pure true) false := by
            simp only [himp, Bool.not_false, ↓reduceIte]
            rw [lookupE_tab_mem (hkmine himp), ok_bind, hmine']
            exact Is_pure false
          have := Is_bind_guard hbi (fun _ => hfin)
          simpa using this
      · rw [anyE_all_false]
        · exact Is_ok false
        · intro s hs
          rw [nodeMatch_eq]
          simp only [ne_eq, hno s hs, not_false_eq_true, ↓reduceIte]; rfl

end level

/-! ## 8. the three levels, and `check_from_indexes` against `check` -/

def LeafOK (rt : PVal → PVal) (c : Leaf) : Prop :=
  NodeOK rt (fun (_ : Empty) => True) (fun (e : Empty) => nomatch e) c
def MidOK (rt : PVal → PVal) (c : Mid) : Prop := NodeOK rt (LeafOK rt) (fun (l : Leaf) => l.name) c
/-- the calendars of the theorem: at every level no property name and no sub-component name
    occurs twice (`Simple`), and every value survives the index round trip (`RoundTrips`) -/
def CalOK (rt : PVal → PVal) (c : Cal) : Prop := NodeOK rt (MidOK rt) (fun (m : Mid) => m.name) c

def LeafWF (f : LeafF) : Prop := NodeWF (fun (_ : Empty) => True) (fun (e : Empty) => nomatch e) f
def MidWF (f : MidF) : Prop := NodeWF LeafWF (fun (l : LeafF) => l.isNotDefined) f
/-- well-formed filters: see `NodeWF` -/
def WF (f : CalF) : Prop := NodeWF MidWF (fun (m : MidF) => m.isNotDefined) f

def leafKeysFlat (f : LeafF) : List Key :=
  nodeKeysFlat (fun (e : Empty) => nomatch e) (fun (e : Empty) => nomatch e) f
def midKeysFlat (f : MidF) : List Key := nodeKeysFlat leafKeysFlat (fun (l : LeafF) => l.isNotDefined) f
def calKeysFlat (f : CalF) : List Key := nodeKeysFlat midKeysFlat (fun (m : MidF) => m.isNotDefined) f

theorem leaf_agree (rt : PVal → PVal) (tz : TVal → Int) :
    ChildAgree (leafWalk rt) (leafMatch false tz) (leafMatchIdx tz)
      (fun (c : Leaf) => c.name) (fun (f : LeafF) => f.isNotDefined) (fun (f : LeafF) => f.name)
      leafKeysFlat LeafWF (LeafOK rt) :=
  node_agree rt tz (fun (e : Empty) _ => nomatch e) (fun (e : Empty) _ => nomatch e)
    (fun (e : Empty) _ => nomatch e) (fun (e : Empty) => nomatch e) (fun (e : Empty) => nomatch e)
    (fun (e : Empty) => nomatch e) (fun (e : Empty) => nomatch e) (fun (_ : Empty) => True)
    (fun (_ : Empty) => True)
    (fun cf => nomatch cf) (fun s => nomatch s)

theorem mid_agree (rt : PVal → PVal) (tz : TVal → Int) :
    ChildAgree (midWalk rt) (midMatch false tz) (midMatchIdx tz)
      (fun (c : Mid) => c.name) (fun (f : MidF) => f.isNotDefined) (fun (f : MidF) => f.name)
      midKeysFlat MidWF (MidOK rt) :=
  node_agree rt tz (leafWalk rt) (leafMatch false tz) (leafMatchIdx tz)
    (fun (c : Leaf) => c.name) (fun (f : LeafF) => f.isNotDefined) (fun (f : LeafF) => f.name)
    leafKeysFlat LeafWF (LeafOK rt) (leaf_agree rt tz)
    (fun s seg v h => nodeWalk_single rt _ s seg v h)

theorem cal_agree (rt : PVal → PVal) (tz : TVal → Int) :
    ChildAgree (calWalk rt)
      (nodeMatch false tz (midMatch false tz) (fun (m : Mid) => m.name) (fun (f : MidF) => f.isNotDefined)
        (fun (f : MidF) => f.name))
      (calMatchIdx tz)
      (fun (c : Cal) => c.name) (fun (f : CalF) => f.isNotDefined) (fun (f : CalF) => f.name)
      calKeysFlat WF (CalOK rt) :=
  node_agree rt tz (midWalk rt) (midMatch false tz) (midMatchIdx tz)
    (fun (c : Mid) => c.name) (fun (f : MidF) => f.isNotDefined) (fun (f : MidF) => f.name)
    midKeysFlat MidWF (MidOK rt) (mid_agree rt tz)
    (fun s seg v h => nodeWalk_single rt _ s seg v h)

/-- how `check` / `check_from_indexes` read the outcome of the comp-filters -/
theorem check_of_Is {tz : TVal → Int} {filters : List CalF} {c : Cal} {b : Bool}
    (h : Is (allE (fun f => calMatch false tz f c) filters) b) : check false tz filters c = .ok b := by
  unfold check
  rcases h with ⟨rfl, h⟩ | ⟨rfl, h | ⟨a, h⟩⟩
  · rw [h]
  · rw [h]
  · rw [h]; rfl

theorem checkFromIndexes_of_Is {tz : TVal → Int} {filters : List CalF} {vals : List (String × List IVal)}
    {b : Bool} (h : Is (allE (fun f => calMatchIdx tz f (toSubIdx vals)) filters) b) :
    checkFromIndexes tz filters vals = .ok b := by
  unfold checkFromIndexes
  rcases h with ⟨rfl, h⟩ | ⟨rfl, h | ⟨a, h⟩⟩
  · rw [h]
  · rw [h]
  · rw [h]; rfl

theorem Is_anyE_single {α : Type} (m : α → Except PyErr Bool) (c : α) (b : Bool)
    (h : Is (anyE m [c]) b) : Is (m c) b := by
  simp only [anyE] at h
  cases hm : m c with
  | error e =>
    rw [hm] at h
    exact h
  | ok v =>
    rw [hm, ok_bind] at h
    cases v with
    | true => exact h
    | false => exact h

/-- values of a key of the whole calendar (`[]` when `_get_index` raises) -/
def gOf (rt : PVal → PVal) (c : Cal) : Option Key → List IVal
  | some k => T (getIndex rt c k)
  | none => []

/-- the index dict of a calendar for a key list, as a tabulation -/
theorem toSubIdx_getIndexes (rt : PVal → PVal) (c : Cal) (avail : List String) :
    toSubIdx (getIndexes rt c avail) = tab (gOf rt c) (avail.map fun k => some k.toList) := by
  unfold toSubIdx getIndexes tab
  simp only [List.map_map]
  rfl

/-- one top-level comp-filter: index path and naive path agree up to "no match" -/
theorem calMatch_agree (rt : PVal → PVal) (tz : TVal → Int) (f : CalF) (c : Cal)
    (hs : CalOK rt c) (hw : WF f) (avail : List String)
    (hcov : ∀ k ∈ calKeysFlat f, String.ofList k ∈ avail) :
    ∃ b, Is (calMatchIdx tz f (toSubIdx (getIndexes rt c avail))) b ∧ Is (calMatch false tz f c) b := by
  rw [toSubIdx_getIndexes]
  obtain ⟨b, h1, h2⟩ := cal_agree rt tz f [c] (gOf rt c) (avail.map fun k => some k.toList) hw
    (by simp) (fun s hs' => by rw [List.mem_singleton.mp hs']; exact hs)
    (by
      intro k
      show T (getIndex rt c ('C' :: '=' :: k)) = _
      unfold getIndex
      simp only [flatMapE]
      cases calWalk rt c (splitOn '/' ('C' :: '=' :: k)) with
      | error e => rfl
      | ok v => simp [T, ok_bind, pure, Except.pure])
    (by
      intro k hk
      rw [List.mem_map]
      exact ⟨String.ofList k, hcov k hk, by rw [String.toList_ofList]⟩)
  refine ⟨b, h1, ?_⟩
  unfold childNaive at h2
  unfold calMatch
  by_cases hnd : f.isNotDefined = true
  · simp only [hnd, ↓reduceIte] at h2 ⊢
    simpa [bne] using h2
  · have hnd' : f.isNotDefined = false := by simpa using hnd
    simp only [hnd', Bool.false_eq_true, ↓reduceIte] at h2 ⊢
    exact Is_anyE_single _ c b h2

/-- **The index path agrees with the naive path** (first conjunct of `AgreeOn`): on a calendar
    that is simple and round-trips through the index (`CalOK`), for well-formed filters
    (`WF`), and any set of available index keys that contains the keys the filters ask for,
    `check_from_indexes` on the values `get_indexes` extracts returns what `check` returns on
    the calendar itself — the same Boolean, and no exception on either side. -/
theorem check_from_indexes_eq_check_flat (rt : PVal → PVal) (tz : TVal → Int) (filters : List CalF) (c : Cal)
    (hs : CalOK rt c) (hw : ∀ f ∈ filters, WF f)
    (avail : List String)
    (hcov : ∀ f ∈ filters, ∀ k ∈ calKeysFlat f, String.ofList k ∈ avail) :
    checkFromIndexes tz filters (getIndexes rt c avail) = check false tz filters c := by
  have hall : ∀ f ∈ filters,
      Is (calMatchIdx tz f (toSubIdx (getIndexes rt c avail))) (isT (calMatch false tz f c)) ∧
      Is (calMatch false tz f c) (isT (calMatch false tz f c)) := by
    intro f hf
    obtain ⟨b, h1, h2⟩ := calMatch_agree rt tz f c hs (hw f hf) avail (hcov f hf)
    rw [← Is_isT h2]; exact ⟨h1, h2⟩
  have h1 := Is_allE _ _ filters (fun f hf => (hall f hf).1)
  have h2 := Is_allE _ _ filters (fun f hf => (hall f hf).2)
  rw [checkFromIndexes_of_Is h1, check_of_Is h2]

/-! ## 9. `index_keys()` as the code builds it, and the statement in the terms of `AgreeOn` -/

theorem mapME_ok {α γ : Type} (f : α → Except PyErr γ) (h : α → γ) (l : List α)
    (hl : ∀ x ∈ l, f x = .ok (h x)) : mapME f l = .ok (l.map h) := by
  induction l with
  | nil => rfl
  | cons x xs ih =>
    simp only [mapME, hl x (List.mem_cons_self ..), ok_bind,
      ih (fun y hy => hl y (List.mem_cons_of_mem _ hy)), List.map_cons]
    rfl

theorem flatten_map_singletons {α : Type} (l : List α) (h : α → List Key) :
    (l.map fun x => (h x).map fun k => [k]).flatten = (l.flatMap h).map fun k => [k] := by
  induction l with
  | nil => rfl
  | cons x xs ih => simp only [List.map_cons, List.flatten_cons, ih, List.flatMap_cons, List.map_append]

theorem propKeys_flat (pf : PropF) : propKeys pf = (propKeysFlat pf).map fun k => [k] := by
  unfold propKeys propKeysFlat paramKeys
  simp only [List.map_cons, List.map_nil, List.map_append, List.map_map]
  congr 1
  induction pf.params with
  | nil => rfl
  | cons q qs ih => simp only [List.flatMap_cons, ih, List.map_cons]; rfl

theorem nodeKeys_ok {β : Type} (childKeys : β → Except PyErr (List (List Key)))
    (childKeysFlat : β → List Key) (childND : β → Bool) (f : FNode β)
    (hc : ∀ cf ∈ f.comps, childKeys cf = .ok ((childKeysFlat cf).map fun k => [k]))
    (hv : f.timeRange ≠ none → f.name ≠ "VALARM".toList) :
    nodeKeys childKeys childND f = .ok ((nodeKeysFlat childKeysFlat childND f).map fun k => [k]) := by
  unfold nodeKeys
  rw [mapME_ok childKeys (fun cf => (childKeysFlat cf).map fun k => [k]) f.comps hc, ok_bind]
  have hp : f.props.flatMap propKeys = (f.props.flatMap propKeysFlat).map fun k => [k] := by
    rw [List.map_flatMap]
    congr 1; funext pf; exact propKeys_flat pf
  rw [hp, flatten_map_singletons]
  unfold nodeKeysFlat bodyKeysFlat
  cases htr : f.timeRange with
  | none =>
    simp only [pure, Except.pure, ok_bind, List.append_nil, List.map_append, List.map_map]
    congr 1
    cases implicitlyDefined childND f <;> simp [Function.comp_def]
  | some r =>
    simp only []
    rw [trKeys_ok f.name (hv (by rw [htr]; simp)), ok_bind]
    simp only [pure, Except.pure, List.map_append, List.map_map]
    congr 1
    cases implicitlyDefined childND f <;> simp [Function.comp_def]

theorem leafKeys_ok (f : LeafF) (h : LeafWF f) : leafKeys f = .ok ((leafKeysFlat f).map fun k => [k]) :=
  nodeKeys_ok _ _ _ f (fun cf => nomatch cf) h.2.1

theorem midKeys_ok (f : MidF) (h : MidWF f) : midKeys f = .ok ((midKeysFlat f).map fun k => [k]) :=
  nodeKeys_ok _ _ _ f (fun cf hcf => leafKeys_ok cf (h.2.2.2.2 cf hcf)) h.2.1

theorem calKeys_ok (f : CalF) (h : WF f) : calKeys f = .ok ((calKeysFlat f).map fun k => [k]) :=
  nodeKeys_ok _ _ _ f (fun cf hcf => midKeys_ok cf (h.2.2.2.2 cf hcf)) h.2.1

/-- `CalendarFilter.index_keys()` of well-formed filters: it does not raise, and every OR-group
    is a singleton -/
theorem indexKeys_ok (filters : List CalF) (hw : ∀ f ∈ filters, WF f) :
    indexKeys filters = .ok ((filters.flatMap calKeysFlat).map fun k => [String.ofList k]) := by
  unfold indexKeys
  rw [mapME_ok calKeys (fun f => (calKeysFlat f).map fun k => [k]) filters
    (fun f hf => calKeys_ok f (hw f hf)), ok_bind, flatten_map_singletons]
  simp only [pure, Except.pure, List.map_map]
  rfl

/-- **The index path agrees with the naive path** (first conjunct of `AgreeOn`).  `keys` is what
    `CalendarFilter.index_keys()` returns (AND-list of OR-groups), `avail` any list of index keys
    that covers it. -/
theorem check_from_indexes_eq_check (rt : PVal → PVal) (tz : TVal → Int) (filters : List CalF) (c : Cal)
    (hs : CalOK rt c) (hw : ∀ f ∈ filters, WF f)
    (keys : List (List String)) (hkeys : indexKeys filters = .ok keys)
    (avail : List String) (hcov : ∀ g ∈ keys, ∃ k ∈ g, k ∈ avail) :
    checkFromIndexes tz filters (getIndexes rt c avail) = check false tz filters c := by
  apply check_from_indexes_eq_check_flat rt tz filters c hs hw avail
  intro f hf k hk
  rw [indexKeys_ok filters hw] at hkeys
  cases hkeys
  obtain ⟨k', hk', hka⟩ := hcov [String.ofList k]
    (List.mem_map.mpr ⟨k, List.mem_flatMap.mpr ⟨f, hf, hk⟩, rfl⟩)
  rw [List.mem_singleton.mp hk'] at hka
  exact hka

theorem lookup_map_self {γ : Type} (h : String → γ) (l : List String) (k : String) (hk : k ∈ l) :
    (l.map fun k => (k, h k)).lookup k = some (h k) := by
  induction l with
  | nil => cases hk
  | cons x xs ih =>
    simp only [List.map_cons, List.lookup_cons]
    by_cases hx : k = x
    · subst hx; simp
    · have : (k == x) = false := by simpa using hx
      rw [this]
      rcases List.mem_cons.mp hk with e | e
      · exact absurd e hx
      · exact ih e

/-- `MemoryIndex.get_values` on cached values is `get_indexes` for the requested keys -/
theorem restrict_getIndexes (rt : PVal → PVal) (c : Cal) (avail sub : List String)
    (hsub : ∀ k ∈ sub, k ∈ avail) :
    Store.Index.restrict (getIndexes rt c avail) sub = getIndexes rt c sub := by
  unfold Store.Index.restrict getIndexes
  apply List.map_congr_left
  intro k hk
  rw [lookup_map_self _ avail k (hsub k hk)]
  rfl

/-- second conjunct of `AgreeOn`: the same for the restriction of cached values to a covering
    sub-list of the available keys -/
theorem check_from_indexes_restrict_eq_check (rt : PVal → PVal) (tz : TVal → Int) (filters : List CalF)
    (c : Cal) (hs : CalOK rt c) (hw : ∀ f ∈ filters, WF f)
    (keys : List (List String)) (hkeys : indexKeys filters = .ok keys)
    (avail sub : List String) (hsub : ∀ k ∈ sub, k ∈ avail) (hcov : ∀ g ∈ keys, ∃ k ∈ g, k ∈ sub) :
    checkFromIndexes tz filters (Store.Index.restrict (getIndexes rt c avail) sub) =
      check false tz filters c := by
  rw [restrict_getIndexes rt c avail sub hsub]
  exact check_from_indexes_eq_check rt tz filters c hs hw keys hkeys sub hcov

/-- on the class of the theorem neither path raises -/
theorem check_total (rt : PVal → PVal) (tz : TVal → Int) (filters : List CalF) (c : Cal)
    (hs : CalOK rt c) (hw : ∀ f ∈ filters, WF f) :
    ∃ b, check false tz filters c = .ok b := by
  have hall : ∀ f ∈ filters, Is (calMatch false tz f c) (isT (calMatch false tz f c)) := by
    intro f hf
    obtain ⟨b, _, h2⟩ := calMatch_agree rt tz f c hs (hw f hf)
      ((calKeysFlat f).map String.ofList) (fun k hk => List.mem_map_of_mem hk)
    rw [← Is_isT h2]; exact h2
  exact ⟨_, check_of_Is (Is_allE _ _ filters hall)⟩

/-! ## 10. `CalOK`, spelled out -/

/-- no property name and no sub-component name twice (one level) -/
def NodeSimple {α : Type} (childSimple : α → Prop) (childName : α → List Char) (c : Node α) : Prop :=
  (c.props.map (·.1)).Nodup ∧ (c.subs.map childName).Nodup ∧ ∀ s ∈ c.subs, childSimple s

def NodeRT {α : Type} (rt : PVal → PVal) (childRT : α → Prop) (c : Node α) : Prop :=
  (∀ p ∈ c.props, rt p.2.value = p.2.value) ∧ ∀ s ∈ c.subs, childRT s

theorem nodeOK_iff {α : Type} (rt : PVal → PVal) (childOK cS cR : α → Prop) (childName : α → List Char)
    (h : ∀ s, childOK s ↔ cS s ∧ cR s) (c : Node α) :
    NodeOK rt childOK childName c ↔ NodeSimple cS childName c ∧ NodeRT rt cR c := by
  constructor
  · rintro ⟨⟨h1, h2⟩, h4, h5⟩
    exact ⟨⟨h1, h4, fun s hs => ((h s).mp (h5 s hs)).1⟩, ⟨h2, fun s hs => ((h s).mp (h5 s hs)).2⟩⟩
  · rintro ⟨⟨h1, h4, hs1⟩, ⟨h2, hs2⟩⟩
    exact ⟨⟨h1, h2⟩, h4, fun s hs => (h s).mpr ⟨hs1 s hs, hs2 s hs⟩⟩

def LeafSimple (c : Leaf) : Prop := NodeSimple (fun (_ : Empty) => True) (fun (e : Empty) => nomatch e) c
def MidSimple (c : Mid) : Prop := NodeSimple LeafSimple (fun (l : Leaf) => l.name) c
/-- **simple** calendar object: in the VCALENDAR, in each of its components and in each of their
    sub-components, no property name occurs twice and no two sub-components have the same name -/
def Simple (c : Cal) : Prop := NodeSimple MidSimple (fun (m : Mid) => m.name) c

def LeafRT (rt : PVal → PVal) (c : Leaf) : Prop := NodeRT rt (fun (_ : Empty) => True) c
def MidRT (rt : PVal → PVal) (c : Mid) : Prop := NodeRT rt (LeafRT rt) c
/-- every property value of the calendar survives `to_ical` → index → `from_ical` -/
def RoundTrips (rt : PVal → PVal) (c : Cal) : Prop := NodeRT rt (MidRT rt) c

theorem leafOK_iff (rt : PVal → PVal) (c : Leaf) : LeafOK rt c ↔ LeafSimple c ∧ LeafRT rt c :=
  nodeOK_iff rt _ _ _ _ (fun s => nomatch s) c

theorem midOK_iff (rt : PVal → PVal) (c : Mid) : MidOK rt c ↔ MidSimple c ∧ MidRT rt c :=
  nodeOK_iff rt _ _ _ _ (leafOK_iff rt) c

theorem calOK_iff (rt : PVal → PVal) (c : Cal) :
    CalOK rt c ↔ Simple c ∧ RoundTrips rt c :=
  nodeOK_iff rt _ _ _ _ (midOK_iff rt) c

/-! ## 11. `_get_index` does not raise on the keys well-formed filters ask for

`getIndexes` (used by the theorems) answers `[]` where `_get_index` raises `AssertionError`; on
every key a well-formed filter produces the two coincide, for every calendar. -/

theorem flatMapE_ok {α : Type} (f : α → Except PyErr (List IVal)) (l : List α)
    (h : ∀ s ∈ l, ∃ v, f s = .ok v) : ∃ v, flatMapE f l = .ok v := by
  induction l with
  | nil => exact ⟨[], rfl⟩
  | cons x xs ih =>
    obtain ⟨a, ha⟩ := h x (List.mem_cons_self ..)
    obtain ⟨b, hb⟩ := ih (fun s hs => h s (List.mem_cons_of_mem _ hs))
    exact ⟨a ++ b, by simp only [flatMapE, ha, hb, ok_bind]; rfl⟩

theorem innerWalk_pKey {α : Type} (rt : PVal → PVal) (subWalk : α → List Key → Except PyErr (List IVal))
    (props : List (List Char × PropI)) (subs : List α) (X : List Char) (hX : '/' ∉ X) :
    ∃ v, innerWalk rt subWalk props subs (splitOn '/' (pKey X)) = .ok v := by
  rw [splitOn_noSep (slash_not_mem_pKey hX)]
  simp only [innerWalk, pKey_not_C, Bool.false_eq_true, ↓reduceIte, yieldVals, pKey_P,
    List.length_nil, Nat.zero_le]
  exact ⟨_, rfl⟩

theorem innerWalk_paKey {α : Type} (rt : PVal → PVal) (subWalk : α → List Key → Except PyErr (List IVal))
    (props : List (List Char × PropI)) (subs : List α) (X Y : List Char) (hX : '/' ∉ X) (hY : '/' ∉ Y) :
    ∃ v, innerWalk rt subWalk props subs (splitOn '/' (joinKey (pKey X) (aKey Y))) = .ok v := by
  rw [splitOn_joinKey (slash_not_mem_pKey hX), splitOn_noSep (slash_not_mem_aKey hY)]
  simp only [innerWalk, pKey_not_C, Bool.false_eq_true, ↓reduceIte, yieldVals, pKey_P,
    List.length_cons, List.length_nil, Nat.le_refl, aKey_A]
  exact ⟨_, rfl⟩

section walkok
variable {α β : Type} (rt : PVal → PVal) (subWalk : α → List Key → Except PyErr (List IVal))
  (childND : β → Bool) (childKeysFlat : β → List Key) (childWF : β → Prop)

def WalkOK {α β : Type} (walk : α → List Key → Except PyErr (List IVal)) (keysFlat : β → List Key)
    (wf : β → Prop) : Prop :=
  ∀ (cf : β) (s : α) (k : Key), wf cf → k ∈ keysFlat cf → ∃ v, walk s (splitOn '/' k) = .ok v

theorem nodeKeysFlat_C (f : FNode β) (k : Key) (hk : k ∈ nodeKeysFlat childKeysFlat childND f) :
    ∃ r, k = 'C' :: '=' :: r := by
  unfold nodeKeysFlat at hk
  rcases List.mem_append.mp hk with h | h
  · obtain ⟨k', _, rfl⟩ := List.mem_map.mp h
    exact ⟨f.name ++ '/' :: k', rfl⟩
  · by_cases hi : implicitlyDefined childND f = true
    · simp [hi] at h
    · simp only [hi, Bool.false_eq_true, ↓reduceIte, List.mem_singleton] at h
      exact ⟨f.name, h⟩

theorem walk_ok (hchild : WalkOK subWalk childKeysFlat childWF)
    (hC : ∀ cf k, k ∈ childKeysFlat cf → ∃ r, k = 'C' :: '=' :: r) :
    WalkOK (nodeWalk rt subWalk) (nodeKeysFlat childKeysFlat childND) (NodeWF childWF childND) := by
  intro f c k hwf hk
  obtain ⟨hN, hval, _, hpw, hcw⟩ := hwf
  unfold nodeKeysFlat at hk
  rcases List.mem_append.mp hk with h | h
  · obtain ⟨k', hk', rfl⟩ := List.mem_map.mp h
    rw [splitOn_joinKey (slash_not_mem_cKey hN), nodeWalk_cons]
    by_cases hn : c.name = f.name
    · simp only [hn, ↓reduceIte]
      unfold bodyKeysFlat at hk'
      rcases List.mem_append.mp hk' with h1 | h1
      · rcases List.mem_append.mp h1 with h2 | h2
        · obtain ⟨pf, hpf, hkp⟩ := List.mem_flatMap.mp h2
          obtain ⟨hX, hY⟩ := hpw pf hpf
          unfold propKeysFlat at hkp
          rcases List.mem_append.mp hkp with h3 | h3
          · obtain ⟨q, hq, rfl⟩ := List.mem_map.mp h3
            exact innerWalk_paKey rt subWalk _ _ _ _ hX (hY q hq)
          · rw [List.mem_singleton.mp h3]
            exact innerWalk_pKey rt subWalk _ _ _ hX
        · obtain ⟨cf, hcf, hkc⟩ := List.mem_flatMap.mp h2
          obtain ⟨r, rfl⟩ := hC cf k' hkc
          obtain ⟨h0, t0, hs⟩ := splitOn_C r
          have hst : startsWith ('C' :: '=' :: h0) "C=".toList = true := startsWith_two.mpr ⟨h0, rfl⟩
          rw [hs]
          simp only [innerWalk, hst, ↓reduceIte]
          rw [← hs]
          exact flatMapE_ok _ _ (fun s _ => hchild cf s _ (hcw cf hcf) hkc)
      · cases htr : f.timeRange with
        | none => rw [htr] at h1; cases h1
        | some r =>
          rw [htr] at h1
          obtain ⟨F, hF, rfl⟩ := List.mem_map.mp h1
          have hFa : F ∈ allProps := trFields_sub f.name F hF
          exact innerWalk_pKey rt subWalk _ _ _ ((by decide : ∀ F ∈ allProps, '/' ∉ F) F hFa)
    · simp only [hn, ↓reduceIte]; exact ⟨[], rfl⟩
  · by_cases hi : implicitlyDefined childND f = true
    · simp [hi] at h
    · simp only [hi, Bool.false_eq_true, ↓reduceIte, List.mem_singleton] at h
      rw [h, splitOn_noSep (slash_not_mem_cKey hN), nodeWalk_cons]
      by_cases hn : c.name = f.name
      · simp only [hn, ↓reduceIte]; exact ⟨_, rfl⟩
      · simp only [hn, ↓reduceIte]; exact ⟨[], rfl⟩

end walkok

theorem leafWalk_ok (rt : PVal → PVal) : WalkOK (leafWalk rt) leafKeysFlat LeafWF :=
  walk_ok rt (fun (e : Empty) _ => nomatch e) (fun (e : Empty) => nomatch e) (fun (e : Empty) => nomatch e)
    (fun (_ : Empty) => True) (fun cf => nomatch cf) (fun cf => nomatch cf)

theorem midWalk_ok (rt : PVal → PVal) : WalkOK (midWalk rt) midKeysFlat MidWF :=
  walk_ok rt (leafWalk rt) (fun (l : LeafF) => l.isNotDefined) leafKeysFlat LeafWF (leafWalk_ok rt)
    (fun cf k hk => nodeKeysFlat_C _ _ cf k hk)

theorem calWalk_ok (rt : PVal → PVal) : WalkOK (calWalk rt) calKeysFlat WF :=
  walk_ok rt (midWalk rt) (fun (m : MidF) => m.isNotDefined) midKeysFlat MidWF (midWalk_ok rt)
    (fun cf k hk => nodeKeysFlat_C _ _ cf k hk)

/-- `get_indexes` as the code runs it does not raise on keys that come from `index_keys()` of
    well-formed filters, and then it is the total `getIndexes` the theorems are stated with -/
theorem getIndexesE_eq (rt : PVal → PVal) (c : Cal) (keys : List String)
    (h : ∀ k ∈ keys, ∃ f, WF f ∧ k.toList ∈ calKeysFlat f) :
    getIndexesE rt c keys = .ok (getIndexes rt c keys) := by
  unfold getIndexesE getIndexes
  apply mapME_ok
  intro k hk
  obtain ⟨f, hw, hkf⟩ := h k hk
  obtain ⟨v, hv⟩ := calWalk_ok rt f c k.toList hw hkf
  have : getIndex rt c k.toList = .ok v := hv
  rw [this]; rfl

/-! ## 12. `RoundTrips` for TEXT and CATEGORIES is a theorem

With `rt := rtText` — the composition of the models of `_escape_char` (`vText.to_ical`) and of
`_unescape_text` (`TextMatcher._from_index`) — the hypothesis `RoundTrips` of the agreement
theorem follows from a condition on the strings alone. -/

/-- texts without CR and without backslash-`N`; non-empty category lists of such texts; any
    value of another kind (for those the round trip stays a trusted library assumption) -/
def CleanVal : PVal → Prop
  | .text s => Clean s
  | .cats l => l ≠ [] ∧ ∀ c ∈ l, Clean c
  | _ => True

theorem rtText_fix (v : PVal) (h : CleanVal v) : rtText v = v := by
  cases v with
  | text s =>
    have := unescape_escape s h
    simp [rtText, this]
  | cats l =>
    have := unescape_escape_cats l h.1 h.2
    simp [rtText, this]
  | time t => rfl
  | dur d => rfl
  | period a b => rfl
  | other => rfl

/-- every property value of the calendar (all three levels) satisfies `Q` -/
def ValsAll (Q : PVal → Prop) (c : Cal) : Prop :=
  (∀ p ∈ c.props, Q p.2.value) ∧
  ∀ m ∈ c.subs, (∀ p ∈ m.props, Q p.2.value) ∧ ∀ l ∈ m.subs, ∀ p ∈ l.props, Q p.2.value

theorem roundTrips_iff (rt : PVal → PVal) (c : Cal) :
    RoundTrips rt c ↔ ValsAll (fun v => rt v = v) c := by
  constructor
  · rintro ⟨h1, h2⟩
    exact ⟨h1, fun m hm => ⟨(h2 m hm).1, fun l hl => ((h2 m hm).2 l hl).1⟩⟩
  · rintro ⟨h1, h2⟩
    exact ⟨h1, fun m hm => ⟨(h2 m hm).1, fun l hl => ⟨(h2 m hm).2 l hl, fun e => nomatch e⟩⟩⟩

/-- **the text part of the round-trip assumption, discharged** -/
theorem roundTrips_rtText (c : Cal) (h : ValsAll CleanVal c) : RoundTrips rtText c := by
  rw [roundTrips_iff]
  exact ⟨fun p hp => rtText_fix _ (h.1 p hp),
    fun m hm => ⟨fun p hp => rtText_fix _ ((h.2 m hm).1 p hp),
      fun l hl p hp => rtText_fix _ ((h.2 m hm).2 l hl p hp)⟩⟩

end Xandikos.Ical
