import Xandikos.Ical.TimeRange

namespace Xandikos.Ical
open Xandikos.Py

/-- the result of a time-range test: it terminates with a value that is true exactly when the
    RFC condition holds -/
def DecidesTR (r : Except PyErr Bool) (P : Prop) : Prop := ∃ b, r = .ok b ∧ (b = true ↔ P)

theorem vevent_eq_rfc (start end_ : Int) (c : Comp) (tz : TVal → Int) (ds : TVal)
    (h : c.dtstart = some ds) :
    DecidesTR (vevent start end_ c tz) (Rfc4791.vevent start end_ ds c.dtend c.duration tz) := by
  unfold vevent Rfc4791.vevent DecidesTR
  rw [h]
  simp only []
  by_cases he : end_ > tz ds
  · simp only [he, decide_true, Bool.not_true, Bool.false_eq_true, ↓reduceIte]
    cases c.dtend with
    | some de => exact ⟨_, rfl, by simp [he]⟩
    | none =>
      cases c.duration with
      | some d =>
        simp only []
        by_cases hd : d > 0
        · simp only [hd, ↓reduceIte]; exact ⟨_, rfl, by simp [he]⟩
        · simp only [hd, ↓reduceIte]; exact ⟨_, rfl, by simp [he]⟩
      | none =>
        simp only []
        cases ds.isDateTime
        · simp only [Bool.false_eq_true, ↓reduceIte]; exact ⟨_, rfl, by simp [he]⟩
        · simp only [↓reduceIte]; exact ⟨_, rfl, by simp [he]⟩
  · simp only [he, decide_false, Bool.not_false, ↓reduceIte]
    refine ⟨false, rfl, ?_⟩
    simp only [Bool.false_eq_true, false_iff]
    cases c.dtend with
    | some de => simp [he]
    | none =>
      cases c.duration with
      | some d => simp only []; split <;> simp [he]
      | none => simp only []; split <;> simp [he]

theorem vjournal_eq_rfc (start end_ : Int) (c : Comp) (tz : TVal → Int) :
    DecidesTR (vjournal start end_ c tz) (Rfc4791.vjournal start end_ c.dtstart tz) := by
  unfold vjournal Rfc4791.vjournal DecidesTR
  cases c.dtstart with
  | none => exact ⟨false, rfl, by simp⟩
  | some ds =>
    simp only []
    by_cases he : end_ > tz ds
    · simp only [he, decide_true, Bool.not_true, Bool.false_eq_true, ↓reduceIte]
      cases ds.isDateTime
      · simp only [Bool.false_eq_true, ↓reduceIte]; exact ⟨_, rfl, by simp [he]⟩
      · simp only [↓reduceIte]; exact ⟨_, rfl, by simp [he]⟩
    · simp only [he, decide_false, Bool.not_false, ↓reduceIte]
      refine ⟨false, rfl, ?_⟩
      simp only [Bool.false_eq_true, false_iff]
      split <;> simp [he]

theorem vtodo_eq_rfc (start end_ : Int) (c : Comp) (tz : TVal → Int) :
    DecidesTR (vtodo start end_ c tz) (Rfc4791.vtodo start end_ c tz) := by
  unfold vtodo Rfc4791.vtodo DecidesTR
  cases c.dtstart <;> cases c.duration <;> cases c.due <;> cases c.completed <;> cases c.created <;>
    exact ⟨_, rfl, by simp <;> omega⟩

theorem vfreebusy_eq_rfc (start end_ : Int) (c : Comp) (tz : TVal → Int) :
    DecidesTR (vfreebusy start end_ c tz) (Rfc4791.vfreebusy start end_ c tz) := by
  unfold vfreebusy Rfc4791.vfreebusy DecidesTR
  cases c.dtstart <;> cases c.dtend <;> exact ⟨_, rfl, by simp⟩

end Xandikos.Ical
