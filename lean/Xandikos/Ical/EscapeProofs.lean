/-
  `_unescape_text` undoes `_escape_char` — the index round trip of TEXT and of CATEGORIES as a
  theorem — for every string without a carriage return and without the two characters
  backslash-`N` next to each other (`Clean`).  Both exclusions are forced by `_escape_char`
  itself, which is lossy there (it writes CR, CR LF and backslash-`N` as the same `\n` it
  writes for LF).
-/
import Xandikos.Ical.Escape

namespace Xandikos.Ical
open Xandikos.Py

/-! ### the loop, without accumulators -/

/-- put `cur` in front of the first part -/
def pre (cur : List Char) : List (List Char) → List (List Char)
  | [] => [cur]
  | h :: t => (cur ++ h) :: t

/-- what an escape pair stands for -/
def decEsc (nxt : Char) : Char := if nxt = 'n' ∨ nxt = 'N' then '\n' else nxt

/-- `_unescape_text` as a recursive function on the text -/
def unesc (split : Bool) : List Char → List (List Char)
  | [] => [[]]
  | ch :: rest =>
    if ch = '\\' then
      match rest with
      | nxt :: rest' => pre [decEsc nxt] (unesc split rest')
      | [] => [[ch]]
    else if ch = ',' ∧ split = true then [] :: unesc split rest
    else pre [ch] (unesc split rest)

theorem unesc_bs (split : Bool) (nxt : Char) (rest : List Char) :
    unesc split ('\\' :: nxt :: rest) = pre [decEsc nxt] (unesc split rest) := by
  conv => lhs; rw [unesc.eq_def]
  simp

theorem unesc_comma (rest : List Char) : unesc true (',' :: rest) = [] :: unesc true rest := by
  conv => lhs; rw [unesc.eq_def]
  simp

theorem unesc_other (split : Bool) (c : Char) (rest : List Char) (h1 : c ≠ '\\')
    (h2 : ¬(c = ',' ∧ split = true)) : unesc split (c :: rest) = pre [c] (unesc split rest) := by
  conv => lhs; rw [unesc.eq_def]
  simp only [h1, h2, ↓reduceIte]

theorem unesc_ne_nil (split : Bool) (s : List Char) : unesc split s ≠ [] := by
  match s with
  | [] => simp [unesc]
  | ch :: rest =>
    unfold unesc
    by_cases h1 : ch = '\\'
    · simp only [h1, ↓reduceIte]
      cases rest with
      | nil => simp
      | cons nxt rest' =>
        simp only []
        cases unesc split rest' <;> simp [pre]
    · simp only [h1, ↓reduceIte]
      by_cases h2 : ch = ',' ∧ split = true
      · simp [h2]
      · simp only [h2, ↓reduceIte]
        cases unesc split rest <;> simp [pre]

theorem pre_pre (a b : List Char) (l : List (List Char)) : pre a (pre b l) = pre (a ++ b) l := by
  cases l <;> simp [pre]

theorem pre_nil (l : List (List Char)) (h : l ≠ []) : pre [] l = l := by
  cases l with
  | nil => exact absurd rfl h
  | cons x xs => simp [pre]

theorem unescapeGo_eq (split : Bool) (s cur : List Char) (parts : List (List Char)) :
    unescapeGo split s cur parts = parts ++ pre cur (unesc split s) := by
  match s with
  | [] => simp [unescapeGo, unesc, pre]
  | [ch] =>
    unfold unescapeGo unesc
    by_cases h1 : ch = '\\'
    · simp [h1, pre]
    · simp only [h1, ↓reduceIte]
      by_cases h2 : ch = ',' ∧ split = true
      · obtain ⟨hc, rfl⟩ := h2
        simp only [hc, and_self, ↓reduceIte]
        rw [unescapeGo_eq true [] [] (parts ++ [cur])]
        simp [unesc, pre]
      · simp only [h2, ↓reduceIte]
        rw [unescapeGo_eq split [] (cur ++ [ch]) parts]
        simp [unesc, pre]
  | ch :: nxt :: rest' =>
    unfold unescapeGo unesc
    by_cases h1 : ch = '\\'
    · simp only [h1, ↓reduceIte]
      rw [unescapeGo_eq split rest' _ parts, pre_pre]
      rfl
    · simp only [h1, ↓reduceIte]
      by_cases h2 : ch = ',' ∧ split = true
      · obtain ⟨hc, rfl⟩ := h2
        simp only [hc, and_self, ↓reduceIte]
        rw [unescapeGo_eq true (nxt :: rest') [] (parts ++ [cur])]
        rw [pre_nil _ (unesc_ne_nil _ _)]
        simp [pre]
      · simp only [h2, ↓reduceIte]
        rw [unescapeGo_eq split (nxt :: rest') (cur ++ [ch]) parts, pre_pre]
termination_by s.length

theorem unescapeText_eq (split : Bool) (s : List Char) : unescapeText split s = unesc split s := by
  unfold unescapeText
  rw [unescapeGo_eq, List.nil_append, pre_nil _ (unesc_ne_nil _ _)]

/-! ### `_escape_char` on clean strings is a character-wise map -/

/-- the character-wise escape: what the seven passes amount to when there is no CR and no
    backslash-`N` -/
def esc1 (c : Char) : List Char :=
  if c = '\\' then ['\\', '\\']
  else if c = ';' then ['\\', ';']
  else if c = ',' then ['\\', ',']
  else if c = '\n' then ['\\', 'n']
  else [c]

/-- `a` immediately followed by `b` somewhere in `s` -/
def hasPair (a b : Char) : List Char → Bool
  | [] => false
  | [_] => false
  | c :: d :: rest => (decide (c = a) && decide (d = b)) || hasPair a b (d :: rest)

/-- strings `_escape_char` does not garble: no carriage return, no backslash-`N` -/
def Clean (s : List Char) : Prop := '\r' ∉ s ∧ hasPair '\\' 'N' s = false

instance (s : List Char) : Decidable (Clean s) := by unfold Clean; exact inferInstance

theorem replace2_noPair (a b : Char) (r s : List Char) (h : hasPair a b s = false) :
    replace2 a b r s = s := by
  match s with
  | [] => rfl
  | [c] => rfl
  | c :: d :: rest =>
    simp only [hasPair, Bool.or_eq_false_iff, Bool.and_eq_false_iff, decide_eq_false_iff_not] at h
    unfold replace2
    have hn : ¬(c = a ∧ d = b) := by
      rintro ⟨h1, h2⟩
      rcases h.1 with h' | h'
      · exact h' h1
      · exact h' h2
    simp only [hn, ↓reduceIte]
    rw [replace2_noPair a b r (d :: rest) h.2]

theorem hasPair_of_not_mem (a b : Char) (s : List Char) (h : a ∉ s) : hasPair a b s = false := by
  match s with
  | [] => rfl
  | [c] => rfl
  | c :: d :: rest =>
    have hc : c ≠ a := fun e => h (by simp [e])
    have hr : a ∉ d :: rest := fun e => h (List.mem_cons_of_mem _ e)
    simp only [hasPair, hc, decide_false, Bool.false_and, Bool.false_or]
    exact hasPair_of_not_mem a b (d :: rest) hr

theorem replace1_noMem (a : Char) (r s : List Char) (h : a ∉ s) : replace1 a r s = s := by
  unfold replace1
  induction s with
  | nil => rfl
  | cons c cs ih =>
    have hc : c ≠ a := fun e => h (by simp [e])
    have hr : a ∉ cs := fun e => h (List.mem_cons_of_mem _ e)
    simp only [List.flatMap_cons, hc, ↓reduceIte, ih hr, List.singleton_append]

theorem not_mem_replace1 (x a : Char) (r s : List Char) (hs : x ∉ s) (hr : x ∉ r) :
    x ∉ replace1 a r s := by
  unfold replace1
  intro hm
  obtain ⟨c, hc, hx⟩ := List.mem_flatMap.mp hm
  by_cases h : c = a
  · simp only [h, ↓reduceIte] at hx; exact hr hx
  · simp only [h, ↓reduceIte, List.mem_singleton] at hx; exact hs (hx ▸ hc)

theorem flatMap_congr' {α β : Type} (f g : α → List β) (l : List α) (h : ∀ x ∈ l, f x = g x) :
    l.flatMap f = l.flatMap g := by
  induction l with
  | nil => rfl
  | cons x xs ih =>
    simp only [List.flatMap_cons, h x (List.mem_cons_self ..),
      ih (fun y hy => h y (List.mem_cons_of_mem _ hy))]

/-- on a clean string `_escape_char` is the character-wise map `esc1` -/
theorem escapeText_clean (s : List Char) (h : Clean s) : escapeText s = s.flatMap esc1 := by
  obtain ⟨hcr, hbn⟩ := h
  unfold escapeText
  rw [replace2_noPair _ _ _ s hbn]
  have h1 : '\r' ∉ replace1 '\\' ['\\', '\\'] s := not_mem_replace1 _ _ _ _ hcr (by decide)
  have h2 : '\r' ∉ replace1 ';' ['\\', ';'] (replace1 '\\' ['\\', '\\'] s) :=
    not_mem_replace1 _ _ _ _ h1 (by decide)
  have h3 : '\r' ∉ replace1 ',' ['\\', ','] (replace1 ';' ['\\', ';'] (replace1 '\\' ['\\', '\\'] s)) :=
    not_mem_replace1 _ _ _ _ h2 (by decide)
  rw [replace2_noPair _ _ _ _ (hasPair_of_not_mem _ _ _ h3)]
  rw [replace1_noMem '\r' _ _ (not_mem_replace1 _ _ _ _ h3 (by decide))]
  unfold replace1
  simp only [List.flatMap_assoc]
  apply flatMap_congr'
  intro c _
  unfold esc1
  by_cases h1 : c = '\\'
  · subst h1; decide
  · by_cases h2 : c = ';'
    · subst h2; decide
    · by_cases h3 : c = ','
      · subst h3; decide
      · by_cases h4 : c = '\n'
        · subst h4; decide
        · simp [h1, h2, h3, h4]

/-! ### the round trip -/

theorem unesc_esc1_append (split : Bool) (s t : List Char) :
    unesc split (s.flatMap esc1 ++ t) = pre s (unesc split t) := by
  induction s with
  | nil => simp [pre_nil _ (unesc_ne_nil _ _)]
  | cons c cs ih =>
    simp only [List.flatMap_cons, List.append_assoc]
    by_cases h1 : c = '\\'
    · subst h1
      rw [show esc1 '\\' = ['\\', '\\'] by decide]
      simp only [List.cons_append, List.nil_append]
      rw [unesc_bs, ih, pre_pre]; rfl
    · by_cases h2 : c = ';'
      · subst h2
        rw [show esc1 ';' = ['\\', ';'] by decide]
        simp only [List.cons_append, List.nil_append]
        rw [unesc_bs, ih, pre_pre]; rfl
      · by_cases h3 : c = ','
        · subst h3
          rw [show esc1 ',' = ['\\', ','] by decide]
          simp only [List.cons_append, List.nil_append]
          rw [unesc_bs, ih, pre_pre]; rfl
        · by_cases h4 : c = '\n'
          · subst h4
            rw [show esc1 '\n' = ['\\', 'n'] by decide]
            simp only [List.cons_append, List.nil_append]
            rw [unesc_bs, ih, pre_pre]; rfl
          · rw [show esc1 c = [c] by simp [esc1, h1, h2, h3, h4]]
            simp only [List.cons_append, List.nil_append]
            rw [unesc_other split c _ h1 (fun e => h3 e.1), ih, pre_pre]; rfl

/-- **TEXT round trip**: what `TextMatcher._from_index` reads back from the index value of a
    `vText` is the text itself -/
theorem unescape_escape (s : List Char) (h : Clean s) : unescapeText false (escapeText s) = [s] := by
  rw [unescapeText_eq, escapeText_clean s h]
  have := unesc_esc1_append false s []
  rw [List.append_nil] at this
  rw [this]
  simp [unesc, pre]

/-- **CATEGORIES round trip**: splitting the index value of a `vCategory` at the unescaped commas
    and unescaping gives the categories back (`vCategory.to_ical()` joins the escaped categories
    with commas) -/
theorem unescape_escape_cats (cats : List (List Char)) (hne : cats ≠ []) (h : ∀ c ∈ cats, Clean c) :
    unescapeText true (joinComma (cats.map escapeText)) = cats := by
  rw [unescapeText_eq]
  unfold joinComma
  induction cats with
  | nil => exact absurd rfl hne
  | cons a rest ih =>
    have ha := escapeText_clean a (h a (List.mem_cons_self ..))
    cases rest with
    | nil =>
      simp only [List.map_cons, List.map_nil, Str.joinWith, ha]
      have := unesc_esc1_append true a []
      rw [List.append_nil] at this
      rw [this]
      simp [unesc, pre]
    | cons b rest' =>
      have ih' := ih (by simp) (fun c hc => h c (List.mem_cons_of_mem _ hc))
      simp only [List.map_cons, Str.joinWith, ha] at ih' ⊢
      rw [unesc_esc1_append, unesc_comma, ih']
      simp [pre]

/-! ### non-vacuity, and the two exclusions

(`decide +kernel`: plain kernel evaluation of the decision procedure, no extra axiom; the
elaborator's own evaluation of the accumulator loop is too slow on strings of this length) -/

example : Clean "Lunch, with Bob; room 1\\2\nsecond line".toList := by decide +kernel

example : unescapeText false (escapeText "Lunch, with Bob; room 1\\2\nsecond line".toList) =
    ["Lunch, with Bob; room 1\\2\nsecond line".toList] := by decide +kernel

example : unescapeText true (joinComma (["x,y".toList, "z".toList, "".toList, "a\\nb".toList].map escapeText)) =
    ["x,y".toList, "z".toList, "".toList, "a\\nb".toList] := by decide +kernel

/-- a trailing lone backslash in an index value is kept -/
example : unescapeText true "a,b\\,c,,\\".toList = ["a".toList, "b,c".toList, [], "\\".toList] := by decide +kernel

/-- a carriage return does not survive (`_escape_char` writes it as `\n`) … -/
example : unescapeText false (escapeText "a\rb".toList) = ["a\nb".toList] := by decide +kernel
/-- … nor does backslash-`N` (`_escape_char` first turns it into a line feed) -/
example : unescapeText false (escapeText "a\\Nb".toList) = ["a\nb".toList] := by decide +kernel
/-- CR followed by backslash-`N` even collapses to one line feed -/
example : escapeText "\r\\N".toList = "\\n".toList := by decide +kernel
/-- an empty category list does not survive either: `b",".join([])` is the empty value -/
example : unescapeText true (joinComma (([] : List (List Char)).map escapeText)) = [[]] := by decide +kernel

end Xandikos.Ical
