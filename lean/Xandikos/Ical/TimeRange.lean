/-
  RFC 4791 section 9.9 time-range tests: hand-written model of `icalendar.apply_time_range_*`
  (tied to /repo by the translator) — and, separately, the RFC tables as written in the RFC.
-/
import Xandikos.Py.Prelude

namespace Xandikos.Ical
open Xandikos.Py

/-! ### model of the code (after the repairs recorded in known_findings.json) -/

/-- `apply_time_range_vevent(start, end, comp, tzify)` -/
def vevent (start end_ : Int) (c : Comp) (tz : TVal → Int) : Except PyErr Bool :=
  match c.dtstart with
  | none => throw (.raised "MissingProperty" "DTSTART")
  | some ds =>
    if !(end_ > tz ds) then pure false
    else
      match c.dtend with
      | some de => pure (decide (start < tz de))
      | none =>
        match c.duration with
        | some d =>
          if d > 0 then pure (decide (start < tz ds + d)) else pure (decide (start ≤ tz ds))
        | none =>
          if ds.isDateTime then pure (decide (start ≤ tz ds))
          else pure (decide (start < tz ds + oneDay))

/-- `apply_time_range_vjournal` -/
def vjournal (start end_ : Int) (c : Comp) (tz : TVal → Int) : Except PyErr Bool :=
  match c.dtstart with
  | none => pure false
  | some ds =>
    if !(end_ > tz ds) then pure false
    else if ds.isDateTime then pure (decide (start ≤ tz ds))
    else pure (decide (start < tz ds + oneDay))

/-- `apply_time_range_vtodo` -/
def vtodo (start end_ : Int) (c : Comp) (tz : TVal → Int) : Except PyErr Bool :=
  match c.dtstart with
  | some ds =>
    (match c.duration, c.due with
     | some d, none =>
       pure (decide (start ≤ tz ds + d) && (decide (end_ > tz ds) || decide (end_ ≥ tz ds + d)))
     | none, some du =>
       pure ((decide (start ≤ tz ds) || decide (start < tz du)) &&
             (decide (end_ > tz ds) || decide (end_ ≥ tz du)))
     | _, _ => pure (decide (start ≤ tz ds) && decide (end_ > tz ds)))
  | none =>
    match c.due with
    | some du => pure (decide (start < tz du) && decide (end_ ≥ tz du))
    | none =>
      match c.completed, c.created with
      | some co, some cr =>
        pure ((decide (start ≤ tz cr) || decide (start ≤ tz co)) &&
              (decide (end_ ≥ tz cr) || decide (end_ ≥ tz co)))
      | some co, none => pure (decide (start ≤ tz co) && decide (end_ ≥ tz co))
      | none, some cr => pure (decide (end_ > tz cr))
      | none, none => pure true

/-- `apply_time_range_vfreebusy` -/
def vfreebusy (start end_ : Int) (c : Comp) (tz : TVal → Int) : Except PyErr Bool :=
  match c.dtstart, c.dtend with
  | some ds, some de => pure (decide (start ≤ tz de) && decide (end_ > tz ds))
  | _, _ => pure (c.freebusy.any fun p => decide (start < p.2) && decide (end_ > p.1))

/-! ### RFC 4791 section 9.9, as tables over the presence pattern -/

namespace Rfc4791

/-- VEVENT table (5 rows). A VEVENT always has DTSTART (RFC 5545 without METHOD). -/
def vevent (start end_ : Int) (ds : TVal) (dtend : Option TVal) (dur : Option Int) (tz : TVal → Int) : Prop :=
  match dtend, dur with
  | some de, _ => start < tz de ∧ end_ > tz ds
  | none, some d =>
    if d > 0 then start < tz ds + d ∧ end_ > tz ds
    else start ≤ tz ds ∧ end_ > tz ds
  | none, none =>
    if ds.isDateTime then start ≤ tz ds ∧ end_ > tz ds
    else start < tz ds + oneDay ∧ end_ > tz ds

/-- VJOURNAL table (3 rows) -/
def vjournal (start end_ : Int) (dtstart : Option TVal) (tz : TVal → Int) : Prop :=
  match dtstart with
  | some ds =>
    if ds.isDateTime then start ≤ tz ds ∧ end_ > tz ds
    else start < tz ds + oneDay ∧ end_ > tz ds
  | none => False

/-- VTODO table (8 rows; DUE and DURATION never occur together, RFC 5545) -/
def vtodo (start end_ : Int) (c : Comp) (tz : TVal → Int) : Prop :=
  match c.dtstart, c.duration, c.due, c.completed, c.created with
  | some ds, some d, none, _, _ => start ≤ tz ds + d ∧ (end_ > tz ds ∨ end_ ≥ tz ds + d)
  | some ds, none, some du, _, _ => (start < tz du ∨ start ≤ tz ds) ∧ (end_ > tz ds ∨ end_ ≥ tz du)
  | some ds, none, none, _, _ => start ≤ tz ds ∧ end_ > tz ds
  | none, none, some du, _, _ => start < tz du ∧ end_ ≥ tz du
  | none, none, none, some co, some cr =>
    (start ≤ tz cr ∨ start ≤ tz co) ∧ (end_ ≥ tz cr ∨ end_ ≥ tz co)
  | none, none, none, some co, none => start ≤ tz co ∧ end_ ≥ tz co
  | none, none, none, none, some cr => end_ > tz cr
  | none, none, none, none, none => True
  -- combinations RFC 5545 forbids (DUE with DURATION; DURATION without DTSTART): the RFC is silent
  | some ds, some _, some _, _, _ => start ≤ tz ds ∧ end_ > tz ds
  | none, some _, some du, _, _ => start < tz du ∧ end_ ≥ tz du
  | none, some _, none, co, cr =>
    (match co, cr with
     | some co, some cr => (start ≤ tz cr ∨ start ≤ tz co) ∧ (end_ ≥ tz cr ∨ end_ ≥ tz co)
     | some co, none => start ≤ tz co ∧ end_ ≥ tz co
     | none, some cr => end_ > tz cr
     | none, none => True)

/-- VFREEBUSY table (3 rows) -/
def vfreebusy (start end_ : Int) (c : Comp) (tz : TVal → Int) : Prop :=
  match c.dtstart, c.dtend with
  | some ds, some de => start ≤ tz de ∧ end_ > tz ds
  | _, _ => ∃ p ∈ c.freebusy, start < p.2 ∧ end_ > p.1

end Rfc4791
end Xandikos.Ical
