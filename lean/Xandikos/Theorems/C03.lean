/-
  C03 — conditional requests are honoured and have no effect when they fail.
-/
import Xandikos.Http.EtagProofs
import Xandikos.Tie.EtagEq
import Xandikos.Tie.GatesEq
import Xandikos.Tie.StoreGateEq
import Xandikos.Http.World
import Xandikos.Store.UidProofs

namespace Xandikos.Theorems.C03
open Xandikos Xandikos.Store Xandikos.Http Xandikos.Py

/-- Tie: the function the handlers call is, on this run's source, the model below. -/
theorem code_is_model : Generated.etag_matches = Http.etagMatches := Tie.etag_matches_eq

/-- **the handlers' gates are the model's**: the precondition tests of `PutMethod.handle`,
    `DeleteMethod.handle` and `_do_get`, as translated from /repo on this run (Python's
    short-circuit `and`/`not`, truthiness of the header, `etag_matches` = the translated
    function), decide exactly what `condFails` / the model's `delete` / `get` decide — and never
    raise (the header argument of `etag_matches` is never `None`). -/
theorem code_is_model_put_gate (r : Http.Req) (cur : Option String) :
    Generated.put_refuses (r.ifMatch.map String.toList) (r.ifNoneMatch.map String.toList)
        (cur.map String.toList) = .ok (Http.condFails r cur) := Tie.put_refuses_eq r cur

theorem code_is_model_delete_gate (im : Option String) (cur : String) :
    Generated.delete_refuses (im.map String.toList) (some cur.toList) =
      .ok (im.isSome && !(Http.condMatches (im.getD "") (some cur))) := Tie.delete_refuses_eq im cur

theorem code_is_model_get_gate (inm : Option String) (cur : String) :
    Generated.get_not_modified (inm.map String.toList) (some cur.toList) =
      .ok ((inm.getD "") != "" && Http.condMatches (inm.getD "") (some cur)) := Tie.get_not_modified_eq inm cur

/-- **the etag arguments of the store API, on the translated code**: `_check_duplicate` (git and
    vdir) raises `InvalidETag` for a `replace_etag` that is not the current ETag (also when the
    item does not exist), and hands the current ETag back when it is — unless the UID test, which
    comes first, refuses the write -/
theorem code_store_gate_etag (c : Store.Cache) (cur uid : Option String) (name r : String)
    (hnd : Store.dupError c uid name = none) :
    (cur ≠ some r →
      Generated.git_check_duplicate true c.u2f cur uid name (some r) = .error (.raised "InvalidETag" name) ∧
      Generated.vdir_check_duplicate true c.u2f cur uid name (some r) = .error (.raised "InvalidETag" name)) ∧
    (cur = some r →
      Generated.git_check_duplicate true c.u2f cur uid name (some r) = .ok cur ∧
      Generated.vdir_check_duplicate true c.u2f cur uid name (some r) = .ok cur) := by
  rw [Tie.git_check_duplicate_eq, Tie.vdir_check_duplicate_eq]
  unfold Tie.gateOf Store.etagError
  rw [hnd]
  constructor
  · intro h; simp [h]
  · intro h; simp [h]

/-- on the translated PUT gate: `If-Match: *` on a resource that does not exist is refused, and
    `If-None-Match: *` on one that exists is refused — whatever the other header says -/
theorem code_put_gate_star (cur : Option (List Char)) (other : Option (List Char)) :
    (cur = none → Generated.put_refuses (some ['*']) other cur = .ok true) ∧
    (∀ e, cur = some e → (other = none ∨ other = some ['*']) →
        Generated.put_refuses other (some ['*']) cur = .ok true) := by
  constructor
  · intro h; subst h
    cases other <;> rfl
  · intro e h ho
    subst h
    rcases ho with rfl | rfl
    · simp [Generated.put_refuses, Py.andM, Py.notM, Py.otruthy, Py.strArg, Py.Str.truthy,
        Generated.etag_matches, Py.Str.splitOn, Py.Str.strip, Py.Str.rstrip, Py.Str.lstrip, Py.Str.consHead]
      rfl
    · simp [Generated.put_refuses, Py.andM, Py.notM, Py.otruthy, Py.strArg, Py.Str.truthy,
        Generated.etag_matches, Py.Str.splitOn, Py.Str.strip, Py.Str.rstrip, Py.Str.lstrip, Py.Str.consHead]
      rfl

/-- `etag_matches` decides RFC 7232 on every well-formed header (any list, any padding). -/
theorem etag_matches_is_rfc7232 (items : List (List Char × Nat × Nat)) (hne : items ≠ [])
    (hwf : ∀ p ∈ items, WellFormedItem p.1) (cur : Option (List Char)) :
    Generated.etag_matches (renderHeader items) cur = Rfc7232.matches (items.map (·.1)) cur := by
  rw [code_is_model]; exact etagMatches_spec items hne hwf cur

/-- …and nothing ever matches a resource that does not exist, even a malformed header. -/
theorem nothing_matches_absent (h : List Char) : Generated.etag_matches h none = false := by
  rw [code_is_model]; exact etagMatches_absent h

/-- non-vacuity: a two-element list with padding, one of them the current tag -/
example : Generated.etag_matches (renderHeader [("\"x\"".toList, 0, 1), ("\"cur\"".toList, 2, 0)])
    (some "\"cur\"".toList) = true := by
  rw [etag_matches_is_rfc7232 _ (by simp) (by decide)]; decide

/-! ### PUT -/

/-- the ETag the PUT handler compares against -/
def putCur (w : World) (r : Req) : Option String := (resolve w r.path).bind (currentEtag w)

/-- the targets for which `get_etag()` does not raise -/
def Addressable (w : World) (r : Req) : Prop := etagRaises (resolve w r.path) = false

/-- **A PUT whose preconditions fail is answered 412 and changes nothing.** -/
theorem put_precondition_fails (env : Env) (w : World) (r : Req) (ha : Addressable w r)
    (hf : condFails r (putCur w r) = true) : put env w r = (w, .precondition) := by
  unfold put putCur at *
  unfold Addressable at ha
  simp [ha, hf]

/-- `If-Match` that does not match ⇒ the preconditions fail -/
theorem if_match_fails (r : Req) (cur : Option String) (h : String) (hm : r.ifMatch = some h)
    (hf : condMatches h cur = false) : condFails r cur = true := by
  unfold condFails; simp [hm, hf]

/-- `If-None-Match` that matches ⇒ the preconditions fail -/
theorem if_none_match_fails (r : Req) (cur : Option String) (h : String)
    (hm : r.ifNoneMatch = some h) (hne : h ≠ "") (hf : condMatches h cur = true) :
    condFails r cur = true := by
  unfold condFails; simp [hm, hf, hne]

/-- **A PUT whose `If-Match` does not hold is answered 412 and changes nothing.** -/
theorem put_if_match_fails (env : Env) (w : World) (r : Req) (h : String)
    (ha : Addressable w r) (hm : r.ifMatch = some h) (hf : condMatches h (putCur w r) = false) :
    put env w r = (w, .precondition) :=
  put_precondition_fails env w r ha (if_match_fails r _ h hm hf)

/-- **A PUT whose `If-None-Match` matches is answered 412 and changes nothing.** -/
theorem put_if_none_match_fails (env : Env) (w : World) (r : Req) (h : String)
    (ha : Addressable w r) (hm : r.ifNoneMatch = some h) (hne : h ≠ "")
    (hf : condMatches h (putCur w r) = true) :
    put env w r = (w, .precondition) :=
  put_precondition_fails env w r ha (if_none_match_fails r _ h hm hne hf)

/-- **A PUT that is executed satisfied its conditions**: any acknowledged PUT had a matching
    `If-Match` (if given) and a non-matching `If-None-Match` (if given). -/
theorem put_ok_implies_conditions (env : Env) (w : World) (r : Req)
    (hok : (put env w r).2.isOk = true) :
    (∀ h, r.ifMatch = some h → condMatches h (putCur w r) = true) ∧
    (∀ h, r.ifNoneMatch = some h → h ≠ "" → condMatches h (putCur w r) = false) := by
  have hcf : condFails r (putCur w r) = false := by
    by_cases hc : condFails r (putCur w r) = true
    · exfalso
      unfold put putCur at *
      simp only [] at hok
      by_cases hr : etagRaises (resolve w r.path) = true
      · simp [hr, Outcome.isOk] at hok
      · simp [hr, hc, Outcome.isOk] at hok
    · simpa using hc
  constructor
  · intro h hm
    by_cases hc : condMatches h (putCur w r) = true
    · exact hc
    · rw [if_match_fails r _ h hm (by simpa using hc)] at hcf; cases hcf
  · intro h hm hne
    by_cases hc : condMatches h (putCur w r) = false
    · exact hc
    · rw [if_none_match_fails r _ h hm hne (by simpa using hc)] at hcf; cases hcf

/-! ### DELETE and GET -/

/-- **A DELETE whose `If-Match` does not hold is answered 412 (or 404/500) and changes
    nothing**: it is never executed. -/
theorem delete_if_match_fails (w : World) (r : Req) (h : String) (hm : r.ifMatch = some h)
    (hf : ∀ res, resolve w r.path = some res → ∀ cur, currentEtag w res = some cur →
      condMatches h (some cur) = false) :
    (delete w r).1 = w ∧ (delete w r).2.isOk = false := by
  unfold delete
  split
  · exact ⟨rfl, rfl⟩
  · rename_i res hres
    simp only []
    split
    · exact ⟨rfl, rfl⟩
    · split
      · exact ⟨rfl, rfl⟩
      · rename_i cur hcur
        have := hf res hres cur hcur
        simp [hm, this, Outcome.isOk]

/-- **GET/HEAD with a matching `If-None-Match` answer 304** (no body). -/
theorem get_if_none_match_304 (w : World) (r : Req) (cp name e h : String)
    (hres : resolve w r.path = some (.member cp name e)) (hm : r.ifNoneMatch = some h)
    (hne : h ≠ "") (hc : condMatches h (some (strong e)) = true) :
    Http.get w r = .notModified := by
  unfold Http.get
  simp [hres, hm, hne, hc]

/-! ### the `etag` arguments of the store API (all three back ends) -/

/-- `import_one(replace_etag=r)` is refused and changes nothing unless the member currently
    has exactly that ETag. -/
theorem store_replace_etag (env : Env) (s : St) (n : String) (ct : Option String) (t r : String)
    (hne : s.etag n ≠ some r) :
    (importOne env s n ct t (some r)).2.isOk = false ∧
    (importOne env s n ct t (some r)).1.files = s.files := by
  have hout : (importOne env s n ct t (some r)).2.isOk = false := by
    rw [importOne_out]
    split
    · rfl
    · split
      · rename_i e he; exact dupError_notOk _ _ _ _ he
      · simp [etagError, hne, Out.isOk]
  refine ⟨hout, ?_⟩
  rw [importOne_spec]
  exact Spec.apply_put_not_ok _ _ _ _ _ _ hout

/-- `delete_one(etag=e)` is refused and changes nothing unless the member currently has
    exactly that ETag (tree store: under the working-tree = index invariant). -/
theorem store_delete_etag (s : St) (n e : String)
    (hne : (match s.kind with | .tree => s.worktree[n]? | _ => s.files[n]?) ≠ some e) :
    (deleteOne s n (some e)).2.isOk = false ∧ (deleteOne s n (some e)).1 = s := by
  unfold deleteOne
  simp only []
  split
  · exact ⟨rfl, rfl⟩
  · rename_i c hc
    have : c ≠ e := by intro heq; subst heq; exact hne hc
    have h2 : (some e ≠ some c) := by intro h; injection h with h; exact this h.symm
    simp [h2, Out.isOk]

end Xandikos.Theorems.C03
