/-
  C04 — a crash during a write leaves the old or the new state, never anything else.

  For every prior state without dangling references, every operation and every number `k` of
  completed micro-steps (so: every crash point, the cuts inside plain writes included — they are
  the states between an `…Open` and the matching `…Write` step), what a newly started server
  reads is the old member set or the new one, and no ref or index entry names a missing object.
  `k ≥ length` is the acknowledged operation: it reads as the new state.
-/
import Xandikos.Store.CrashProofs

namespace Xandikos.Theorems.C04
open Xandikos.Store.Crash

/-! ### helpers -/

def closedHead (objs : List Obj) : Option Obj → Bool
  | none => true
  | some c => closed objs c

theorem noDangling_eq (d : Disk) : noDangling d = (hasBlobs d.objs d.index && closedHead d.objs d.head) := by
  unfold noDangling closedHead
  cases d.head <;> rfl

theorem hasBlobs_cons {objs : List Obj} {es : List (String × String)} (o : Obj)
    (he : hasBlobs objs es = true) : hasBlobs (o :: objs) es = true :=
  hasBlobs_mono (fun _ hx => List.mem_cons_of_mem _ hx) he

theorem closedHead_mono {objs objs' : List Obj} (hsub : ∀ o ∈ objs, o ∈ objs') (h : Option Obj)
    (hc : closedHead objs h = true) : closedHead objs' h = true := by
  cases h with
  | none => rfl
  | some c => exact closed_mono hsub c hc

theorem closedHead_cons {objs : List Obj} (o : Obj) (h : Option Obj) (hc : closedHead objs h = true) :
    closedHead (o :: objs) h = true :=
  closedHead_mono (fun _ hx => List.mem_cons_of_mem _ hx) h hc

theorem closedHead_new {objs objs' : List Obj} (t : List (String × String)) (head : Option Obj)
    (hself : mkCommit t head ∈ objs') (htree : Obj.tree t ∈ objs') (hb : hasBlobs objs' t = true)
    (hh : closedHead objs head = true) (hsub : ∀ o ∈ objs, o ∈ objs') :
    closedHead objs' (some (mkCommit t head)) = true := by
  unfold closedHead
  refine closed_mkCommit t head hself htree hb ?_
  intro c hc
  subst hc
  exact closed_mono hsub c hh

/-! ### tree store -/

/-- the index after a completed `_import_one` -/
def treeAfterPut (d : Disk) (n tok : String) : List (String × String) :=
  if d.index.lookup n = some tok then d.index else setKey d.index n tok

/-- **tree store, create/replace/property-set** (a property lives in the member `.xandikos`) -/
theorem tree_put_atomic (d : Disk) (n tok : String) (hd : noDangling d = true) (k : Nat) :
    (viewTree (crash d (treePut d n tok) k) = some d.index ∨
      viewTree (crash d (treePut d n tok) k) = some (treeAfterPut d n tok)) ∧
    noDangling (crash d (treePut d n tok) k) = true ∧
    ((treePut d n tok).length ≤ k → viewTree (crash d (treePut d n tok) k) = some (treeAfterPut d n tok)) := by
  rw [noDangling_eq, Bool.and_eq_true] at hd
  obtain ⟨hi, hh⟩ := hd
  unfold treePut treeAfterPut
  split
  · rcases k with _|_|_|_|k <;>
      simp [crash, run, apply, viewTree, hi, noDangling_eq, hh]
  · have h3 : hasBlobs (mkCommit (setKey d.index n tok) d.head :: Obj.tree (setKey d.index n tok) ::
        Obj.blob tok :: d.objs) (setKey d.index n tok) = true :=
      hasBlobs_setKey n tok (hasBlobs_mono (by intro o ho; simp [ho]) hi) (by simp)
    have hc : closedHead (mkCommit (setKey d.index n tok) d.head :: Obj.tree (setKey d.index n tok) ::
        Obj.blob tok :: d.objs) (some (mkCommit (setKey d.index n tok) d.head)) = true :=
      closedHead_new _ _ (by simp) (by simp) h3 hh (by intro o ho; simp [ho])
    have hi1 := hasBlobs_cons (Obj.blob tok) hi
    have hi2 := hasBlobs_cons (Obj.tree (setKey d.index n tok)) hi1
    have hi3 := hasBlobs_cons (mkCommit (setKey d.index n tok) d.head) hi2
    have hh1 := closedHead_cons (Obj.blob tok) _ hh
    have hh2 := closedHead_cons (Obj.tree (setKey d.index n tok)) _ hh1
    have hh3 := closedHead_cons (mkCommit (setKey d.index n tok) d.head) _ hh2
    rcases k with _|_|_|_|_|_|_|_|_|_|k <;>
      simp [crash, run, apply, viewTree, hi, noDangling_eq, hh, hi1, hi2, hi3, hh1, hh2, hh3, h3, hc]

/-- **tree store, delete** -/
theorem tree_delete_atomic (d : Disk) (n : String) (hd : noDangling d = true) (k : Nat) :
    (viewTree (crash d (treeDelete d n) k) = some d.index ∨
      viewTree (crash d (treeDelete d n) k) = some (delKey d.index n)) ∧
    noDangling (crash d (treeDelete d n) k) = true ∧
    ((treeDelete d n).length ≤ k → viewTree (crash d (treeDelete d n) k) = some (delKey d.index n)) := by
  rw [noDangling_eq, Bool.and_eq_true] at hd
  obtain ⟨hi, hh⟩ := hd
  unfold treeDelete
  have h2 : hasBlobs (mkCommit (delKey d.index n) d.head :: Obj.tree (delKey d.index n) :: d.objs)
      (delKey d.index n) = true :=
    hasBlobs_delKey n (hasBlobs_mono (by intro o ho; simp [ho]) hi)
  have hc : closedHead (mkCommit (delKey d.index n) d.head :: Obj.tree (delKey d.index n) :: d.objs)
      (some (mkCommit (delKey d.index n) d.head)) = true :=
    closedHead_new _ _ (by simp) (by simp) h2 hh (by intro o ho; simp [ho])
  have hi1 := hasBlobs_cons (Obj.tree (delKey d.index n)) hi
  have hi2 := hasBlobs_cons (mkCommit (delKey d.index n) d.head) hi1
  have hh1 := closedHead_cons (Obj.tree (delKey d.index n)) _ hh
  have hh2 := closedHead_cons (mkCommit (delKey d.index n) d.head) _ hh1
  rcases k with _|_|_|_|_|_|_|_|k <;>
    simp [crash, run, apply, viewTree, hi, noDangling_eq, hh, hi1, hi2, hh1, hh2, h2, hc]

/-! ### bare store -/

/-- the head is a commit (what `do_commit` writes) -/
def headIsCommit (d : Disk) : Bool :=
  match d.head with
  | none => true
  | some c => c.treeOf.isSome

theorem treeOf_closed {objs : List Obj} {c : Obj} {t : List (String × String)} (ht : c.treeOf = some t)
    (hc : closed objs c = true) : Obj.tree t ∈ objs ∧ hasBlobs objs t = true := by
  cases c with
  | blob _ => simp [Obj.treeOf] at ht
  | tree _ => simp [Obj.treeOf] at ht
  | root t' =>
    simp only [Obj.treeOf, Option.some.injEq] at ht
    subst ht
    simp only [closed, Bool.and_eq_true, List.contains_iff_mem] at hc
    exact ⟨hc.1.2, hc.2⟩
  | commit t' p =>
    simp only [Obj.treeOf, Option.some.injEq] at ht
    subst ht
    simp only [closed, Bool.and_eq_true, List.contains_iff_mem] at hc
    exact ⟨hc.1.1.2, hc.1.2⟩

/-- a disk whose head is the old head and whose store only grew reads as the old tree -/
theorem viewBare_old (d d' : Disk) (hhead : d'.head = d.head) (hsub : ∀ o ∈ d.objs, o ∈ d'.objs)
    (hh : closedHead d.objs d.head = true) (hcm : headIsCommit d = true) :
    viewBare d' = some (headTree d) := by
  unfold viewBare headTree
  rw [hhead]
  unfold headIsCommit at hcm
  cases hd : d.head with
  | none => rfl
  | some c =>
    rw [hd] at hh hcm
    simp only at hcm
    obtain ⟨t, ht⟩ := Option.isSome_iff_exists.mp hcm
    have := treeOf_closed ht (closed_mono hsub c hh)
    simp [ht, this.1, this.2]

/-- a disk whose head is the new commit, closed in its store, reads as the new tree -/
theorem viewBare_new (d' : Disk) (t : List (String × String)) (head : Option Obj)
    (hhead : d'.head = some (mkCommit t head))
    (hc : closedHead d'.objs (some (mkCommit t head)) = true) : viewBare d' = some t := by
  unfold viewBare
  rw [hhead]
  have := treeOf_closed (treeOf_mkCommit t head) hc
  simp [treeOf_mkCommit, this.1, this.2]

theorem noDangling_bare (d' : Disk) (hidx : d'.index = []) (hc : closedHead d'.objs d'.head = true) :
    noDangling d' = true := by
  rw [noDangling_eq, hidx, hc]
  simp [hasBlobs]

theorem hasBlobs_headTree (d : Disk) (hh : closedHead d.objs d.head = true) (hcm : headIsCommit d = true) :
    hasBlobs d.objs (headTree d) = true := by
  unfold headTree
  unfold headIsCommit at hcm
  cases hd : d.head with
  | none => simp [hasBlobs]
  | some c =>
    rw [hd] at hh hcm
    simp only at hcm
    obtain ⟨t, ht⟩ := Option.isSome_iff_exists.mp hcm
    simpa [ht] using (treeOf_closed ht hh).2

/-- the tree after a completed bare `_import_one` -/
def bareAfterPut (d : Disk) (n tok : String) : List (String × String) :=
  if (headTree d).lookup n = some tok then headTree d else setKey (headTree d) n tok

/-- **bare store, create/replace/property-set** -/
theorem bare_put_atomic (d : Disk) (n tok : String) (hd : noDangling d = true) (hcm : headIsCommit d = true)
    (hidx : d.index = []) (k : Nat) :
    (viewBare (crash d (barePut d n tok) k) = some (headTree d) ∨
      viewBare (crash d (barePut d n tok) k) = some (bareAfterPut d n tok)) ∧
    noDangling (crash d (barePut d n tok) k) = true ∧
    ((barePut d n tok).length ≤ k → viewBare (crash d (barePut d n tok) k) = some (bareAfterPut d n tok)) := by
  rw [noDangling_eq, Bool.and_eq_true] at hd
  obtain ⟨_, hh⟩ := hd
  have hold := viewBare_old d d rfl (fun _ h => h) hh hcm
  have hbl := hasBlobs_headTree d hh hcm
  unfold barePut bareAfterPut
  by_cases hsame : (headTree d).lookup n = some tok
  · simp only [hsame, ↓reduceIte]
    rcases k with _|_|k
    all_goals simp only [crash, run, apply, List.take_succ_cons, List.take_zero, List.take_nil, List.foldl_cons, List.foldl_nil]
    all_goals exact ⟨Or.inl (viewBare_old d _ rfl (by intro o ho; simp [ho]) hh hcm),
      noDangling_bare _ hidx (closedHead_mono (by intro o ho; simp [ho]) _ hh),
      fun _ => viewBare_old d _ rfl (by intro o ho; simp [ho]) hh hcm⟩
  · simp only [hsame, ↓reduceIte]
    have hsub : ∀ o ∈ d.objs, o ∈ mkCommit (setKey (headTree d) n tok) d.head ::
        ([Obj.tree (setKey (headTree d) n tok), Obj.blob tok] ++ d.objs) := by intro o ho; simp [ho]
    have h3 : hasBlobs (mkCommit (setKey (headTree d) n tok) d.head ::
        ([Obj.tree (setKey (headTree d) n tok), Obj.blob tok] ++ d.objs)) (setKey (headTree d) n tok) = true :=
      hasBlobs_setKey n tok (hasBlobs_mono hsub hbl) (by simp)
    have hc : closedHead (mkCommit (setKey (headTree d) n tok) d.head ::
        ([Obj.tree (setKey (headTree d) n tok), Obj.blob tok] ++ d.objs))
        (some (mkCommit (setKey (headTree d) n tok) d.head)) = true :=
      closedHead_new _ _ (by simp) (by simp) h3 hh hsub
    rcases k with _|_|_|_|_|_|k
    all_goals simp only [crash, run, apply, List.take_succ_cons, List.take_zero, List.take_nil, List.foldl_cons, List.foldl_nil]
    all_goals first
      | exact ⟨Or.inl (viewBare_old d _ rfl (by intro o ho; simp [ho]) hh hcm),
          noDangling_bare _ hidx (closedHead_mono (by intro o ho; simp [ho]) _ hh), by simp⟩
      | exact ⟨Or.inr (viewBare_new _ _ _ rfl hc), noDangling_bare _ hidx hc, fun _ => viewBare_new _ _ _ rfl hc⟩

/-- **bare store, delete** -/
theorem bare_delete_atomic (d : Disk) (n : String) (hd : noDangling d = true) (hcm : headIsCommit d = true)
    (hidx : d.index = []) (k : Nat) :
    (viewBare (crash d (bareDelete d n) k) = some (headTree d) ∨
      viewBare (crash d (bareDelete d n) k) = some (delKey (headTree d) n)) ∧
    noDangling (crash d (bareDelete d n) k) = true ∧
    ((bareDelete d n).length ≤ k → viewBare (crash d (bareDelete d n) k) = some (delKey (headTree d) n)) := by
  rw [noDangling_eq, Bool.and_eq_true] at hd
  obtain ⟨_, hh⟩ := hd
  have hbl := hasBlobs_headTree d hh hcm
  unfold bareDelete
  have hsub : ∀ o ∈ d.objs, o ∈ mkCommit (delKey (headTree d) n) d.head ::
      ([Obj.tree (delKey (headTree d) n)] ++ d.objs) := by intro o ho; simp [ho]
  have h3 : hasBlobs (mkCommit (delKey (headTree d) n) d.head ::
      ([Obj.tree (delKey (headTree d) n)] ++ d.objs)) (delKey (headTree d) n) = true :=
    hasBlobs_delKey n (hasBlobs_mono hsub hbl)
  have hc : closedHead (mkCommit (delKey (headTree d) n) d.head ::
      ([Obj.tree (delKey (headTree d) n)] ++ d.objs))
      (some (mkCommit (delKey (headTree d) n) d.head)) = true :=
    closedHead_new _ _ (by simp) (by simp) h3 hh hsub
  rcases k with _|_|_|_|_|_|k
  all_goals simp only [crash, run, apply, List.take_succ_cons, List.take_zero, List.take_nil, List.foldl_cons, List.foldl_nil]
  all_goals first
    | exact ⟨Or.inl (viewBare_old d _ rfl (by intro o ho; simp [ho]) hh hcm),
        noDangling_bare _ hidx (closedHead_mono (by intro o ho; simp [ho]) _ hh), by simp⟩
    | exact ⟨Or.inr (viewBare_new _ _ _ rfl hc), noDangling_bare _ hidx hc, fun _ => viewBare_new _ _ _ rfl hc⟩

/-! ### vdir -/

/-- the visible files of a directory -/
def vis (wt : List (Key × Plain)) : List (String × Plain) :=
  wt.filterMap fun e => match e.1 with
    | .file n => some (n, e.2)
    | .tmp _ => none

@[simp] theorem vis_nil : vis [] = [] := rfl
@[simp] theorem vis_cons_tmp (m : String) (q : Plain) (t : List (Key × Plain)) : vis ((.tmp m, q) :: t) = vis t := by
  simp [vis]
@[simp] theorem vis_cons_file (m : String) (q : Plain) (t : List (Key × Plain)) :
    vis ((.file m, q) :: t) = (m, q) :: vis t := by
  simp [vis]

/-- all visible files complete -/
def allComplete (l : List (String × Plain)) : Bool := l.all (·.2.complete)

/-- names and contents of a listing -/
def contents (l : List (String × Plain)) : List (String × String) := l.map fun e => (e.1, e.2.tok)

theorem viewVdir_eq (d : Disk) :
    viewVdir d = if allComplete (vis d.wt) then some (contents (vis d.wt)) else none := rfl

theorem vis_setKey_tmp (wt : List (Key × Plain)) (n : String) (p : Plain) :
    vis (setKey wt (.tmp n) p) = vis wt := by
  induction wt with
  | nil => simp [setKey]
  | cons e t ih =>
    obtain ⟨key, q⟩ := e
    cases key with
    | file m =>
      have hne : ((Key.file m, q).1 == Key.tmp n) = false := by simp
      unfold setKey
      simp [hne, ih]
    | tmp m =>
      by_cases hm : m = n
      · subst hm
        simp [setKey]
      · have hne : ((Key.tmp m, q).1 == Key.tmp n) = false := by simp [hm]
        unfold setKey
        simp [hne, ih]

theorem vis_delKey_tmp (wt : List (Key × Plain)) (n : String) : vis (delKey wt (.tmp n)) = vis wt := by
  induction wt with
  | nil => simp [delKey]
  | cons e t ih =>
    obtain ⟨key, q⟩ := e
    unfold delKey at ih ⊢
    cases key with
    | file m => simp [List.filter_cons, ih]
    | tmp m =>
      by_cases hm : m = n
      · subst hm; simp [List.filter_cons, ih]
      · simp [List.filter_cons, hm, ih]

theorem vis_setKey_file (wt : List (Key × Plain)) (n : String) (p : Plain) :
    vis (setKey wt (.file n) p) = setKey (vis wt) n p := by
  induction wt with
  | nil => simp [setKey]
  | cons e t ih =>
    obtain ⟨key, q⟩ := e
    cases key with
    | tmp m =>
      have hne : ((Key.tmp m, q).1 == Key.file n) = false := by simp
      have e : setKey ((Key.tmp m, q) :: t) (Key.file n) p = (Key.tmp m, q) :: setKey t (Key.file n) p := by
        rw [setKey]; simp [hne]
      rw [e, vis_cons_tmp, vis_cons_tmp]
      exact ih
    | file m =>
      by_cases hm : m = n
      · subst hm
        simp [setKey]
      · have hne : ((Key.file m, q).1 == Key.file n) = false := by simp [hm]
        have hne' : (((m, q) : String × Plain).1 == n) = false := by simp [hm]
        rw [setKey]
        simp only [hne, Bool.false_eq_true, ↓reduceIte, vis_cons_file, ih]
        rw [setKey]
        simp only [hne', Bool.false_eq_true, ↓reduceIte]

theorem vis_delKey_file (wt : List (Key × Plain)) (n : String) : vis (delKey wt (.file n)) = delKey (vis wt) n := by
  induction wt with
  | nil => simp [delKey]
  | cons e t ih =>
    obtain ⟨key, q⟩ := e
    unfold delKey at ih ⊢
    cases key with
    | tmp m => simp [List.filter_cons, ih]
    | file m =>
      by_cases hm : m = n
      · subst hm; simp [List.filter_cons, ih]
      · simp [List.filter_cons, hm, ih]

theorem lookup_setKey_self {κ α : Type} [BEq κ] [LawfulBEq κ] (l : List (κ × α)) (k : κ) (v : α) :
    (setKey l k v).lookup k = some v := by
  induction l with
  | nil => simp [setKey, List.lookup]
  | cons e t ih =>
    unfold setKey
    split
    · simp [List.lookup]
    · rename_i h
      have hne : (k == e.1) = false := by
        rw [Bool.eq_false_iff]; intro hk; exact h (by rw [beq_iff_eq] at hk ⊢; exact hk.symm)
      simp [List.lookup, hne, ih]

theorem allComplete_setKey (l : List (String × Plain)) (n tok : String) (h : allComplete l = true) :
    allComplete (setKey l n ⟨tok, true⟩) = true := by
  unfold allComplete at h ⊢
  rw [List.all_eq_true] at h ⊢
  intro e he
  rcases mem_setKey _ _ _ _ he with h' | rfl
  · exact h e h'
  · rfl

theorem allComplete_delKey (l : List (String × Plain)) (n : String) (h : allComplete l = true) :
    allComplete (delKey l n) = true := by
  unfold allComplete at h ⊢
  rw [List.all_eq_true] at h ⊢
  exact fun e he => h e (mem_delKey _ _ _ he)

theorem contents_setKey (l : List (String × Plain)) (n tok : String) :
    contents (setKey l n ⟨tok, true⟩) = setKey (contents l) n tok := by
  induction l with
  | nil => simp [setKey, contents]
  | cons e t ih =>
    unfold contents at ih ⊢
    by_cases h : e.1 == n
    · rw [setKey]; simp only [h, ↓reduceIte, List.map_cons]; rw [setKey]; simp [h]
    · rw [setKey]; simp only [h, Bool.false_eq_true, ↓reduceIte, List.map_cons, ih]; rw [setKey]; simp [h]

theorem contents_delKey (l : List (String × Plain)) (n : String) :
    contents (delKey l n) = delKey (contents l) n := by
  induction l with
  | nil => simp [delKey, contents]
  | cons e t ih =>
    unfold contents delKey at ih ⊢
    by_cases h : e.1 = n
    · simp [List.filter_cons, h, ih]
    · simp [List.filter_cons, h, ih]

/-- **vdir, create/replace and (since the repair) property-set**: the temporary file is never
    listed, the rename is the commit point -/
theorem vdir_put_atomic (d : Disk) (n tok : String) (hq : allComplete (vis d.wt) = true) (k : Nat) :
    (viewVdir (crash d (vdirPut n tok) k) = some (contents (vis d.wt)) ∨
      viewVdir (crash d (vdirPut n tok) k) = some (setKey (contents (vis d.wt)) n tok)) ∧
    ((vdirPut n tok).length ≤ k →
      viewVdir (crash d (vdirPut n tok) k) = some (setKey (contents (vis d.wt)) n tok)) := by
  unfold vdirPut
  rcases k with _|_|_|k
  · simp [crash, run, viewVdir_eq, hq]
  · simp [crash, run, apply, viewVdir_eq, vis_setKey_tmp, hq]
  · simp [crash, run, apply, viewVdir_eq, vis_setKey_tmp, hq]
  · have hl : (setKey (setKey d.wt (.tmp n) ⟨tok, false⟩) (.tmp n) ⟨tok, true⟩).lookup (.tmp n) = some ⟨tok, true⟩ :=
      lookup_setKey_self _ _ _
    have hc := allComplete_setKey (vis d.wt) n tok hq
    simp [crash, run, apply, hl, viewVdir_eq, vis_setKey_file, vis_delKey_tmp, vis_setKey_tmp, hc, contents_setKey]

/-- **vdir, delete** -/
theorem vdir_delete_atomic (d : Disk) (n : String) (hq : allComplete (vis d.wt) = true) (k : Nat) :
    (viewVdir (crash d (vdirDelete n) k) = some (contents (vis d.wt)) ∨
      viewVdir (crash d (vdirDelete n) k) = some (delKey (contents (vis d.wt)) n)) ∧
    ((vdirDelete n).length ≤ k → viewVdir (crash d (vdirDelete n) k) = some (delKey (contents (vis d.wt)) n)) := by
  unfold vdirDelete
  rcases k with _|k
  · simp [crash, run, viewVdir_eq, hq]
  · have hc := allComplete_delKey (vis d.wt) n hq
    simp [crash, run, apply, viewVdir_eq, vis_delKey_file, hc, contents_delKey]

/-- **what the repair removed**: writing a metadata file in place has a crash state that reads as
    neither the old nor the new value (the statement above is false for `vdirPutInPlace`) -/
theorem vdir_in_place_not_atomic :
    ∃ (d : Disk) (n tok : String) (k : Nat), allComplete (vis d.wt) = true ∧
      viewVdir (crash d (vdirPutInPlace n tok) k) ≠ some (contents (vis d.wt)) ∧
      viewVdir (crash d (vdirPutInPlace n tok) k) ≠ some (setKey (contents (vis d.wt)) n tok) :=
  ⟨{ wt := [(.file "displayname", ⟨"Old name", true⟩)] }, "displayname", "New name", 1, by decide, by decide, by decide⟩

/-! ### the other members -/

theorem lookup_setKey_ne {α : Type} (l : List (String × α)) (n m : String) (v : α) (h : m ≠ n) :
    (setKey l n v).lookup m = l.lookup m := by
  have hmn : (m == n) = false := by simp [h]
  induction l with
  | nil => simp [setKey, List.lookup, hmn]
  | cons e t ih =>
    unfold setKey
    split
    · rename_i he
      have : e.1 = n := by simpa using he
      have hm : (m == e.1) = false := by simp [this, h]
      have hm' : (m == n) = false := by simp [h]
      obtain ⟨a, b⟩ := e
      simp only at this hm
      simp [List.lookup, hm, hm']
    · obtain ⟨a, b⟩ := e
      simp only [List.lookup]
      split <;> simp_all

theorem lookup_delKey_ne {α : Type} (l : List (String × α)) (n m : String) (h : m ≠ n) :
    (delKey l n).lookup m = l.lookup m := by
  induction l with
  | nil => simp [delKey]
  | cons e t ih =>
    obtain ⟨a, b⟩ := e
    unfold delKey at ih ⊢
    simp only [List.filter_cons]
    by_cases ha : a = n
    · subst ha
      have hm : (m == a) = false := by simp [h]
      simp [List.lookup, hm, ih]
    · have : ((a, b).1 != n) = true := by simp [ha]
      simp only [this, ↓reduceIte, List.lookup]
      split <;> simp_all

/-- **every other member is untouched** in either outcome: old and new member set agree
    everywhere but at the target -/
theorem others_untouched (v : List (String × String)) (op : Op) (m : String)
    (hm : m ≠ (match op with | .put n _ => n | .delete n => n)) :
    (after v op).lookup m = v.lookup m := by
  cases op with
  | put n tok => exact lookup_setKey_ne v n m tok hm
  | delete n => exact lookup_delKey_ne v n m hm

-- the hypotheses are met by stores that have been written to (non-vacuity)
example : noDangling (run {} (treePut {} "a.ics" "b1")) = true := by decide
example : noDangling (run (run {} (treePut {} "a.ics" "b1")) (treePut (run {} (treePut {} "a.ics" "b1")) "b.ics" "b2")) = true := by
  decide
example : viewTree (crash (run {} (treePut {} "a.ics" "b1")) (treePut (run {} (treePut {} "a.ics" "b1")) "a.ics" "b2") 9) =
    some [("a.ics", "b1")] := by decide
example : viewTree (crash (run {} (treePut {} "a.ics" "b1")) (treePut (run {} (treePut {} "a.ics" "b1")) "a.ics" "b2") 10) =
    some [("a.ics", "b2")] := by decide
example : headIsCommit (run {} (barePut {} "a.ics" "b1")) = true ∧ noDangling (run {} (barePut {} "a.ics" "b1")) = true := by
  decide

end Xandikos.Theorems.C04
