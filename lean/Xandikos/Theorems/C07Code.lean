/-
  C07 — the code is the model: `GitStore.iter_changes`, as translated from /repo on this run
  (`Generated/IterChanges.lean`), yields exactly the model's `diffTrees` on the listings of any
  two trees, so `sync_exact`, `replay_yields_current`, … of `Theorems/C07.lean` are statements
  about what the code says now.
-/
import Xandikos.Theorems.C07
import Xandikos.Tie.IterChangesEq

namespace Xandikos.Theorems.C07
open Xandikos Xandikos.Store Xandikos.Generated Xandikos.Tie

/-- a listing as `iter_with_etag` yields it: the content type is a function of the name -/
def annot (ctOf : String → String) (l : List (String × String)) : List Entry :=
  l.map fun p => (p.1, ctOf p.1, p.2)

/-- a change of the model as the row the generator yields -/
def render (ctOf : String → String) : Change → ChangeRow
  | .changed n o e => (n, ctOf n, o, some e)
  | .removed n o => (n, ctOf n, some o, none)

theorem annot_fst (ctOf : String → String) (l : List (String × String)) :
    (annot ctOf l).map Prod.fst = l.map Prod.fst := by
  simp [annot]

theorem annot_lookup (ctOf : String → String) (l : List (String × String)) (n : String) :
    (annot ctOf l).lookup n = (l.lookup n).map fun e => (ctOf n, e) := by
  induction l with
  | nil => rfl
  | cons p rest ih =>
    obtain ⟨k, v⟩ := p
    simp only [annot, List.map_cons, List.lookup]
    cases h : (n == k) with
    | true =>
      have : n = k := by simpa using h
      simp [this]
    | false => simpa [annot] using ih

/-- for a listed name the listing's lookup is the tree's -/
theorem blobs_lookup_eq (files : Map String) (n : String) (h : listed .bare n = true) :
    (blobsOf .bare files).lookup n = files[n]? := by
  cases hf : files[n]? with
  | some e => exact (blobsOf_lookup ..).mpr ⟨hf, h⟩
  | none =>
    cases hl : (blobsOf .bare files).lookup n with
    | none => rfl
    | some e' =>
      have := ((blobsOf_lookup ..).mp hl).1
      rw [hf] at this
      cases this

theorem listed_of_mem (files : Map String) (p : String × String) (h : p ∈ blobsOf .bare files) :
    listed .bare p.1 = true := ((blobsOf_mem .bare files p.1 p.2).mp h).2

/-- **the code is the model**: on the listings of any two trees the translated
    `iter_changes` raises nothing and yields the rows of `diffTrees`, in its order -/
theorem code_is_model_iter_changes (ctOf : String → String) (old new : Map String) :
    iter_changes (annot ctOf (blobsOf .bare old)) (annot ctOf (blobsOf .bare new)) =
      .ok ((diffTrees old new).map (render ctOf)) := by
  have ho : ((annot ctOf (blobsOf .bare old)).map Prod.fst).Nodup := by
    rw [annot_fst]; exact blobsOf_nodup _ _
  have hn : ((annot ctOf (blobsOf .bare new)).map Prod.fst).Nodup := by
    rw [annot_fst]; exact blobsOf_nodup _ _
  have hct : ∀ n ct e, (n, ct, e) ∈ annot ctOf (blobsOf .bare new) → ∀ ct' e',
      (annot ctOf (blobsOf .bare old)).lookup n = some (ct', e') → ct' = ct := by
    intro n ct e hm ct' e' hl
    rw [annot_lookup] at hl
    simp only [annot, List.mem_map] at hm
    obtain ⟨p, _, hp⟩ := hm
    cases hq : (blobsOf .bare old).lookup n with
    | none => simp [hq] at hl
    | some v =>
      simp only [hq, Option.map_some, Option.some.injEq, Prod.mk.injEq] at hl
      have h1 : ctOf p.1 = ct := by have := congrArg (fun x => x.2.1) hp; simpa using this
      have h2 : p.1 = n := by have := congrArg (fun x => x.1) hp; simpa using this
      rw [← hl.1, ← h1, h2]
  rw [iter_changes_eq _ _ ho hn hct]
  congr 1
  unfold changeSpec diffTrees
  rw [List.map_append]
  congr 1
  · -- created / changed
    simp only [annot, List.filterMap_map, List.map_filterMap]
    apply filterMap_congr'
    intro p hp
    have hl := listed_of_mem new p hp
    have hlk := annot_lookup ctOf (blobsOf .bare old) p.1
    simp only [annot] at hlk
    simp only [Function.comp, rowOf, hlk, Option.map_map, blobs_lookup_eq old p.1 hl]
    cases hq : old[p.1]? with
    | none => simp [render]
    | some v =>
      by_cases hv : v = p.2
      · simp [hv]
      · simp [hv, render]
  · -- removed
    simp only [annot, List.map_filterMap]
    rw [List.filter_map, List.map_map, ← List.filterMap_eq_map, List.filterMap_filter]
    apply filterMap_congr'
    intro p hp
    have hl := listed_of_mem old p hp
    have hlk := annot_lookup ctOf (blobsOf .bare new) p.1
    simp only [annot] at hlk
    simp only [Function.comp, hlk, blobs_lookup_eq new p.1 hl]
    cases hq : new[p.1]? with
    | none => simp [render]
    | some v => simp

/-- on the translated code: nothing changed ⇒ empty report -/
theorem code_reports_nothing_when_unchanged (ctOf : String → String) (t : Map String) :
    iter_changes (annot ctOf (blobsOf .bare t)) (annot ctOf (blobsOf .bare t)) = .ok [] := by
  rw [code_is_model_iter_changes, diff_self]; rfl

/-- on the translated code: a member is reported as created/changed, with its current ETag, iff
    it is listed now with a different (or no) previous content -/
theorem code_reports_changed_iff (ctOf : String → String) (old new : Map String) (n : String)
    (o : Option String) (e : String) :
    (∃ rows, iter_changes (annot ctOf (blobsOf .bare old)) (annot ctOf (blobsOf .bare new)) = .ok rows ∧
        (n, ctOf n, o, some e) ∈ rows) ↔
      (new[n]? = some e ∧ listed .bare n = true ∧ old[n]? ≠ some e ∧ o = old[n]?) := by
  rw [← changed_iff]
  constructor
  · rintro ⟨rows, hr, hm⟩
    rw [code_is_model_iter_changes] at hr
    cases hr
    obtain ⟨c, hc, hrow⟩ := List.mem_map.mp hm
    cases c with
    | changed n' o' e' =>
      simp only [render, Prod.mk.injEq, Option.some.injEq] at hrow
      obtain ⟨rfl, _, rfl, rfl⟩ := hrow
      exact hc
    | removed n' o' => simp [render] at hrow
  · intro h
    exact ⟨_, code_is_model_iter_changes ctOf old new, List.mem_map.mpr ⟨_, h, rfl⟩⟩

/-- non-vacuity: one member changed, one removed, one created -/
example :
    iter_changes [("a.ics", "text/calendar", "e1"), ("b.ics", "text/calendar", "e2")]
        [("a.ics", "text/calendar", "e9"), ("c.ics", "text/calendar", "e3")] =
      .ok [("a.ics", "text/calendar", some "e1", some "e9"), ("c.ics", "text/calendar", none, some "e3"),
           ("b.ics", "text/calendar", some "e2", none)] := by
  rfl

end Xandikos.Theorems.C07
