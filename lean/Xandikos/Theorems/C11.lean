/-
  C11 — calendar-query returns exactly the resources that match the filter
  (RFC 4791 §9.7 filter semantics with the §9.9 time-range tables).
-/
import Xandikos.Tie.TimeRangeEq
import Xandikos.Ical.Rfc4791

namespace Xandikos.Theorems.C11
open Xandikos Xandikos.Py Xandikos.Ical Xandikos.Ical.Rfc

/-- Tie: the four §9.9 functions found in /repo on this run are the model. -/
theorem code_is_model :
    Generated.apply_time_range_vevent = Ical.vevent ∧
    Generated.apply_time_range_vjournal = Ical.vjournal ∧
    Generated.apply_time_range_vtodo = Ical.vtodo ∧
    Generated.apply_time_range_vfreebusy = Ical.vfreebusy :=
  ⟨Tie.vevent_eq, Tie.vjournal_eq, Tie.vtodo_eq, Tie.vfreebusy_eq⟩

/-- **VEVENT rows of §9.9**, for all instants and both value kinds (DATE / DATE-TIME). -/
theorem time_range_vevent_eq_rfc (start end_ : Int) (c : Comp) (tz : TVal → Int) (ds : TVal)
    (h : c.dtstart = some ds) :
    DecidesTR (Generated.apply_time_range_vevent start end_ c tz)
      (Rfc4791.vevent start end_ ds c.dtend c.duration tz) := by
  rw [code_is_model.1]; exact vevent_eq_rfc start end_ c tz ds h

/-- **VTODO rows of §9.9** (all eight), for all instants. -/
theorem time_range_vtodo_eq_rfc (start end_ : Int) (c : Comp) (tz : TVal → Int) :
    DecidesTR (Generated.apply_time_range_vtodo start end_ c tz) (Rfc4791.vtodo start end_ c tz) := by
  rw [code_is_model.2.2.1]; exact vtodo_eq_rfc start end_ c tz

/-- **VJOURNAL rows of §9.9.** -/
theorem time_range_vjournal_eq_rfc (start end_ : Int) (c : Comp) (tz : TVal → Int) :
    DecidesTR (Generated.apply_time_range_vjournal start end_ c tz)
      (Rfc4791.vjournal start end_ c.dtstart tz) := by
  rw [code_is_model.2.1]; exact vjournal_eq_rfc start end_ c tz

/-- **VFREEBUSY rows of §9.9.** -/
theorem time_range_vfreebusy_eq_rfc (start end_ : Int) (c : Comp) (tz : TVal → Int) :
    DecidesTR (Generated.apply_time_range_vfreebusy start end_ c tz)
      (Rfc4791.vfreebusy start end_ c tz) := by
  rw [code_is_model.2.2.2]; exact vfreebusy_eq_rfc start end_ c tz

/-- **The filter evaluator decides RFC 4791 §9.7** on every calendar object and every nested
    filter (comp-filter / prop-filter / param-filter / time-range / text-match / is-not-defined),
    with the text comparison as a parameter: `substring = true` is the RFC's substring match,
    `substring = false` what the code does. -/
theorem match_eq_rfc (substring : Bool) (tz : TVal → Int) (filters : List CalF) (c : Cal)
    (hok : ∀ f ∈ filters, FilterOk f c) :
    Decides (check substring tz filters c) (Matches substring tz filters c) :=
  check_decides substring tz filters c hok

/-- The recorded finding KF-C11-text-match-equality, as a theorem: on SUMMARY "Meeting with Bob"
    the pattern "Bob" matches under the RFC (substring) but not under the code's comparison. -/
theorem text_match_equality_differs_from_rfc :
    textMatch true { text := "Bob".toList } (.text "Meeting with Bob".toList) = true ∧
    textMatch false { text := "Bob".toList } (.text "Meeting with Bob".toList) = false := by
  decide

/-- non-vacuity of `match_eq_rfc`: a VEVENT with DTSTART under a VEVENT time-range filter meets
    the side conditions -/
example : FilterOk
    { name := "VCALENDAR".toList, comps := [{ name := "VEVENT".toList, timeRange := some (0, 10) }] }
    { name := "VCALENDAR".toList,
      subs := [{ name := "VEVENT".toList,
                 props := [("DTSTART".toList, { value := .time { isDateTime := true, key := 5 } })] }] } := by
  refine ⟨fun h => by simp at h, ?_⟩
  intro mf hmf m hm
  simp at hmf hm; subst hmf; subst hm
  refine ⟨fun _ => ⟨fun _ => by decide, by decide⟩, ?_⟩
  intro lf hlf; simp at hlf

end Xandikos.Theorems.C11
