/-
  C10 — query results do not depend on the query history (index transparency).

  Proved here, for every history of queries and writes and every threshold: the index *state
  machine* (counters, threshold, reset, per-etag cache, choice between the naive and the
  index-based iteration) is never observable — PROVIDED the index-side evaluator agrees with
  the direct one on the file at hand (`Agree`).  That proviso is exactly where the recorded
  findings live (KF-C10-*: several components of one type, repeated properties, TZID values):
  for such files `check_from_indexes` and `check` differ, which the harness demonstrates on
  the real code; the full statement is therefore kept as `index_transparent_partial`.

  `Theorems/C10Ical.lean` instantiates the parameters with the model of `icalendar.py` and
  discharges `AgreeOn` for simple calendar objects and well-formed filters.
-/
import Xandikos.Store.Index

namespace Xandikos.Theorems.C10
open Xandikos Xandikos.Store.Index

variable {F V : Type}

/-- every cached value list is what the file yields for the index's current key set -/
def CacheInv (P : Params F V) (idx : MemIndex V) : Prop :=
  ∀ e v, idx.vals[e]? = some v → v = P.getIdx e idx.keys

/-- a key set covers the filter: each AND-group has one of its OR-options in it -/
def Covers (P : Params F V) (f : F) (ks : List String) : Prop :=
  ∀ g ∈ P.keysOf f, ∃ k ∈ g, k ∈ ks

/-- the index-side evaluator agrees with the direct one on blob `e`, whichever covering key
    sets the index happens to hold (`avail`) and hands over (`sub ⊆ avail`, or all of them) -/
def AgreeOn (P : Params F V) (f : F) (e : String) : Prop :=
  ∀ avail, Covers P f avail →
    P.checkIdx f (P.getIdx e avail) = P.checkNaive f e ∧
    ∀ sub, (∀ k ∈ sub, k ∈ avail) → Covers P f sub →
      P.checkIdx f (restrict (P.getIdx e avail) sub) = P.checkNaive f e

theorem iterIndexes_keys (P : Params F V) (f : F) (keys : List String) (idx : MemIndex V)
    (files : List (String × String)) : (iterIndexes P f keys idx files).1.keys = idx.keys := by
  induction files generalizing idx with
  | nil => rfl
  | cons p rest ih =>
    obtain ⟨n, e⟩ := p
    unfold iterIndexes
    split
    · simp only []; exact ih idx
    · simp only []; rw [ih]

/-- the index-based iteration returns what the naive one returns, and keeps the cache exact -/
theorem iterIndexes_eq_naive (P : Params F V) (f : F) (keys : List String) (idx : MemIndex V)
    (files : List (String × String)) (hinv : CacheInv P idx)
    (hsub : ∀ k ∈ keys, k ∈ idx.keys) (hcov : Covers P f keys)
    (hag : ∀ p ∈ files, AgreeOn P f p.2) :
    (iterIndexes P f keys idx files).2 = iterNaive P f files ∧
    CacheInv P (iterIndexes P f keys idx files).1 := by
  have hcovAvail : Covers P f idx.keys := by
    intro g hg; obtain ⟨k, hk, hk'⟩ := hcov g hg; exact ⟨k, hk, hsub k hk'⟩
  induction files generalizing idx with
  | nil => exact ⟨rfl, hinv⟩
  | cons p rest ih =>
    obtain ⟨n, e⟩ := p
    have hage := hag (n, e) (List.mem_cons_self ..)
    have hrest : ∀ q ∈ rest, AgreeOn P f q.2 := fun q hq => hag q (List.mem_cons_of_mem _ hq)
    unfold iterIndexes
    cases hv : idx.vals[e]? with
    | some v =>
      simp only []
      obtain ⟨h1, h2⟩ := ih idx hinv hsub hrest hcovAvail
      have hval : v = P.getIdx e idx.keys := hinv e v hv
      have hchk : P.checkIdx f (restrict v keys) = P.checkNaive f e := by
        rw [hval]; exact (hage idx.keys hcovAvail).2 keys hsub hcov
      refine ⟨?_, h2⟩
      rw [h1, hchk]
      simp only [iterNaive, List.filter_cons]
      split <;> simp
    | none =>
      simp only []
      have hinv' : CacheInv P { idx with vals := idx.vals.insert e (P.getIdx e idx.keys) } := by
        intro e' v' hv'
        simp only [Map.get_insert] at hv'
        split at hv'
        · rename_i heq; subst heq; simp at hv'; exact hv'.symm
        · exact hinv e' v' hv'
      obtain ⟨h1, h2⟩ := ih { idx with vals := idx.vals.insert e (P.getIdx e idx.keys) } hinv' hsub hrest
        hcovAvail
      have hchk : P.checkIdx f (P.getIdx e idx.keys) = P.checkNaive f e := (hage idx.keys hcovAvail).1
      refine ⟨?_, h2⟩
      rw [h1, hchk]
      simp only [iterNaive, List.filter_cons]
      split <;> simp

/-! ### `find_present_keys` -/

/-- fold invariant: everything "needed" is available, and if nothing is missing so far every
    group seen so far has an available key among the needed ones -/
theorem groups_spec (avail : List String) (thr : Nat) (groups : List (List String))
    (hne : ∀ g ∈ groups, g ≠ [])
    (acc : List String × List String × List String × Map Nat)
    (hacc : ∀ k ∈ acc.1, k ∈ avail) :
    let r := groups.foldl (groupStep avail thr) acc
    (∀ k ∈ r.1, k ∈ avail) ∧ (∀ k ∈ acc.1, k ∈ r.1) ∧
    (r.2.1 = [] → acc.2.1 = [] ∧ ∀ g ∈ groups, ∃ k ∈ g, k ∈ r.1) := by
  induction groups generalizing acc with
  | nil => exact ⟨hacc, fun k h => h, fun h => ⟨h, by simp⟩⟩
  | cons g rest ih =>
    obtain ⟨needed, missing, newKeys, desired⟩ := acc
    simp only [List.foldl_cons]
    have hg : g ≠ [] := hne g (List.mem_cons_self ..)
    have hrest : ∀ g' ∈ rest, g' ≠ [] := fun g' h => hne g' (List.mem_cons_of_mem _ h)
    by_cases hfound : (g.filter fun k => avail.contains k).isEmpty = true
    · -- nothing available: the group goes to `missing`, which is non-empty from now on
      have hstep : ∃ nk d, groupStep avail thr (needed, missing, newKeys, desired) g
          = (needed, missing ++ g, nk, d) := by
        refine ⟨(g.foldl (bump thr) (newKeys, desired)).1, (g.foldl (bump thr) (newKeys, desired)).2, ?_⟩
        unfold groupStep
        simp only [hfound, Bool.not_true, Bool.false_eq_true, ↓reduceIte]
      obtain ⟨nk, d, hs⟩ := hstep
      rw [hs]
      obtain ⟨h1, h2, h3⟩ := ih hrest (needed, missing ++ g, nk, d) hacc
      refine ⟨h1, h2, ?_⟩
      intro hmis
      have := (h3 hmis).1
      simp only [List.append_eq_nil_iff] at this
      exact absurd this.2 hg
    · have hstep : groupStep avail thr (needed, missing, newKeys, desired) g
          = (needed ++ g.filter (fun k => avail.contains k), missing, newKeys, desired) := by
        unfold groupStep
        have : (!(g.filter fun k => avail.contains k).isEmpty) = true := by simpa using hfound
        simp only [this, ↓reduceIte]
      rw [hstep]
      have hacc' : ∀ k ∈ needed ++ g.filter (fun k => avail.contains k), k ∈ avail := by
        intro k hk
        rw [List.mem_append] at hk
        rcases hk with hk | hk
        · exact hacc k hk
        · have := (List.mem_filter.mp hk).2; simpa using this
      obtain ⟨h1, h2, h3⟩ := ih hrest (needed ++ g.filter (fun k => avail.contains k), missing, newKeys, desired) hacc'
      refine ⟨h1, fun k hk => h2 k (List.mem_append_left _ hk), ?_⟩
      intro hmis
      obtain ⟨hm, hall⟩ := h3 hmis
      refine ⟨hm, ?_⟩
      intro g' hg'
      rcases List.mem_cons.mp hg' with rfl | hg''
      · -- this group: one of its available keys was added to `needed`
        have hne' : g'.filter (fun k => avail.contains k) ≠ [] := by
          intro e; apply hfound; rw [e]; rfl
        obtain ⟨k, hk⟩ := List.exists_mem_of_ne_nil _ hne'
        exact ⟨k, (List.mem_filter.mp hk).1, h2 k (List.mem_append_right _ hk)⟩
      · exact hall g' hg''

/-- what `find_present_keys` guarantees when it chooses the index path, and what it does to
    the index otherwise -/
theorem findPresentKeys_spec (s : IState V) (necessary : List (List String))
    (hne : ∀ g ∈ necessary, g ≠ []) :
    (∀ ks, (findPresentKeys s necessary).2 = some ks →
        (findPresentKeys s necessary).1.idx = s.idx ∧ (∀ k ∈ ks, k ∈ s.idx.keys) ∧
        ∀ g ∈ necessary, ∃ k ∈ g, k ∈ ks) ∧
    ((findPresentKeys s necessary).2 = none →
        (findPresentKeys s necessary).1.idx = s.idx ∨ (findPresentKeys s necessary).1.idx.vals = ∅) := by
  have hs := groups_spec s.idx.keys s.mgr.threshold necessary hne ([], [], [], s.mgr.desired) (by simp)
  unfold findPresentKeys
  generalize necessary.foldl (groupStep s.idx.keys s.mgr.threshold) ([], [], [], s.mgr.desired) = r at hs
  simp only [] at hs ⊢
  obtain ⟨h1, _, h3⟩ := hs
  by_cases hm : r.2.1.isEmpty = true
  · simp only [hm, ↓reduceIte]
    constructor
    · intro ks hks
      simp at hks; subst hks
      exact ⟨by trivial, h1, (h3 (List.isEmpty_iff.mp hm)).2⟩
    · intro h; simp at h
  · simp only [hm, Bool.false_eq_true, ↓reduceIte]
    constructor
    · intro ks hks; split at hks <;> simp at hks
    · intro _
      split
      · right; rfl
      · left; rfl

/-- **Index transparency (partial).**  In any state the index machinery can be in — after any
    sequence of earlier queries and writes, with any threshold — a query returns exactly what
    evaluating the filter against the current contents of every resource gives, provided the
    two evaluators agree on those contents; and the machinery stays in such a state. -/
theorem index_transparent_partial (P : Params F V) (s : IState V) (f : F) (files : List (String × String))
    (hinv : CacheInv P s.idx) (hne : ∀ g ∈ P.keysOf f, g ≠ [])
    (hag : ∀ p ∈ files, AgreeOn P f p.2) :
    (iterWithFilter P s f files).2 = iterNaive P f files ∧
    CacheInv P (iterWithFilter P s f files).1.idx := by
  obtain ⟨hsome, hnone⟩ := findPresentKeys_spec s (P.keysOf f) hne
  unfold iterWithFilter
  generalize findPresentKeys s (P.keysOf f) = res at hsome hnone ⊢
  obtain ⟨s', r⟩ := res
  cases r with
  | some keys =>
    obtain ⟨hidx, hsub, hcov⟩ := hsome keys rfl
    have hidx : s'.idx = s.idx := hidx
    show (iterIndexes P f keys s'.idx files).2 = iterNaive P f files ∧
      CacheInv P (iterIndexes P f keys s'.idx files).1
    have hinv' : CacheInv P s'.idx := by rw [hidx]; exact hinv
    have hsub' : ∀ k ∈ keys, k ∈ s'.idx.keys := by rw [hidx]; exact hsub
    exact iterIndexes_eq_naive P f keys s'.idx files hinv' hsub' hcov hag
  | none =>
    show iterNaive P f files = iterNaive P f files ∧ CacheInv P s'.idx
    refine ⟨rfl, ?_⟩
    rcases hnone rfl with h | h
    · have h : s'.idx = s.idx := h
      rw [h]; exact hinv
    · have h : s'.idx.vals = ∅ := h
      intro e v hv; rw [h] at hv; simp at hv

/-- a history: queries (each with the listing it runs against — writes in between may have
    changed it arbitrarily) -/
def runQueries (P : Params F V) (s : IState V) : List (F × List (String × String)) → IState V × List (List String)
  | [] => (s, [])
  | (f, files) :: rest =>
    let (s₁, out) := iterWithFilter P s f files
    let (s₂, outs) := runQueries P s₁ rest
    (s₂, out :: outs)

/-- **No history is observable**: starting from a fresh store, after any sequence of queries
    interleaved with arbitrary writes, every answer is the naive answer for the contents at
    that moment. -/
theorem no_history_is_observable (P : Params F V) (thr : Nat) (qs : List (F × List (String × String)))
    (hne : ∀ q ∈ qs, ∀ g ∈ P.keysOf q.1, g ≠ [])
    (hag : ∀ q ∈ qs, ∀ p ∈ q.2, AgreeOn P q.1 p.2) :
    (runQueries P { idx := {}, mgr := { threshold := thr } } qs).2 = qs.map fun q => iterNaive P q.1 q.2 := by
  suffices ∀ s, CacheInv P s.idx → (runQueries P s qs).2 = qs.map fun q => iterNaive P q.1 q.2 from
    this _ (by intro e v h; simp at h)
  induction qs with
  | nil => intro s _; rfl
  | cons q rest ih =>
    intro s hinv
    obtain ⟨f, files⟩ := q
    have h := index_transparent_partial P s f files hinv (hne (f, files) (List.mem_cons_self ..))
      (hag (f, files) (List.mem_cons_self ..))
    simp only [runQueries, List.map_cons]
    rw [h.1]
    congr 1
    exact ih (fun q hq => hne q (List.mem_cons_of_mem _ hq)) (fun q hq => hag q (List.mem_cons_of_mem _ hq)) _ h.2

/-- Why the proviso cannot be dropped (the full statement is false): an index-side evaluator
    that only sees the first value of a key disagrees with the direct one on a file with two
    components — the shape of the recorded finding KF-C10-multi-component. -/
theorem full_statement_is_false :
    ∃ (P : Params Unit String) (files : List (String × String)),
      (iterWithFilter P { idx := { keys := ["C=VCALENDAR/C=VEVENT/P=DTSTART"] } } () files).2
        ≠ iterNaive P () files := by
  refine ⟨{ keysOf := fun _ => [["C=VCALENDAR/C=VEVENT/P=DTSTART"]],
            getIdx := fun _ ks => ks.map fun k => (k, ["early", "late"]),
            checkIdx := fun _ v => (v.lookup "C=VCALENDAR/C=VEVENT/P=DTSTART").bind List.head? == some "late",
            checkNaive := fun _ _ => true }, [("a.ics", "e1")], ?_⟩
  decide

end Xandikos.Theorems.C10
