/-
  C08 — the collection tag changes exactly when the collection changes (git back ends).
  The tag is the id of the tree; a tree id is modelled as the tree itself (content
  addressing, SHA-1 collision-freeness assumed and re-checked by the harness on every
  observation), so two tags are equal iff the versioned states are equal.
-/
import Xandikos.Theorems.C01
import Xandikos.Store.UidProofs

namespace Xandikos.Theorems.C08
open Xandikos Xandikos.Store

/-- the tag of a git-backed store -/
def tag (s : St) : Option (Map String) := (getCtag s).2

theorem tag_eq (s : St) (hk : s.kind ≠ .vdir) : tag s = some s.files := by
  unfold tag getCtag
  cases h : s.kind <;> simp_all

/-- **Equal tags iff equal versioned contents** (members, their bytes and the metadata file),
    for any two points of any two histories. -/
theorem tag_eq_iff_contents_eq (s s' : St) (hk : s.kind ≠ .vdir) (hk' : s'.kind ≠ .vdir) :
    tag s = tag s' ↔ s.files = s'.files := by
  rw [tag_eq s hk, tag_eq s' hk']; simp

/-- Different members or member contents ⇒ different tags. -/
theorem different_members_different_tag (s s' : St) (hk : s.kind ≠ .vdir) (hk' : s'.kind ≠ .vdir)
    (n : String) (h : s.files[n]? ≠ s'.files[n]?) : tag s ≠ tag s' := by
  intro heq
  rw [tag_eq_iff_contents_eq s s' hk hk'] at heq
  rw [heq] at h; exact h rfl

theorem step_kind (env : Env) (s : St) (op : Op) : (step env s op).1.kind = s.kind := by
  cases op with
  | put n ct t r => exact importOne_kind ..
  | del n e => exact deleteOne_kind ..
  | ctag => simp only [step, getCtag]; cases hk : s.kind <;> simp [hk]
  | restart => rfl

/-- **Not changed by reads, refused or failed requests, restarts**: any request that is not
    acknowledged leaves the tag as it was. -/
theorem tag_unchanged_unless_acknowledged (env : Env) (s : St) (op : Op) (hk : s.kind ≠ .vdir)
    (h : ∀ o, (step env s op).2 = some o → o.isOk = false) :
    tag (step env s op).1 = tag s := by
  rw [tag_eq _ (by rw [step_kind]; exact hk), tag_eq s hk, C01.non_ok_is_noop env s op h]

/-- Returning to an earlier state returns to the earlier tag. -/
theorem revert_returns_tag (env : Env) (s : St) (ops : List Op) (hk : s.kind ≠ .vdir)
    (h : (run env s ops).1.files = s.files) : tag (run env s ops).1 = tag s := by
  have hk' : (run env s ops).1.kind ≠ .vdir := by
    have : ∀ (ops : List Op) (s : St), (run env s ops).1.kind = s.kind := by
      intro ops; induction ops with
      | nil => intro s; rfl
      | cons op ops ih => intro s; simp only [run]; rw [ih, step_kind]
    rw [this]; exact hk
  rw [tag_eq_iff_contents_eq _ _ hk' hk]; exact h

/-- Reading the tag does not change it (the tree store writes the tree object, nothing else). -/
theorem reading_tag_is_pure (s : St) : (getCtag s).1.files = s.files ∧ tag (getCtag s).1 = tag s := by
  unfold tag getCtag
  cases h : s.kind <;> simp [h]

end Xandikos.Theorems.C08
