/-
  C06 — UIDs are unique within a collection, and only real conflicts are refused
  (store level, all three back ends, every history).
-/
import Xandikos.Store.UidProofs
import Xandikos.Tie.ExcTablesEq
import Xandikos.Tie.StoreGateEq

namespace Xandikos.Theorems.C06
open Xandikos Xandikos.Store

/-- **The cache is a function of the current contents only**: whatever was scanned before,
    after `_scan_uids` the cache is the exact image of the current listing. -/
theorem scan_is_exact (env : Env) (s : St) (h : UidInv env s) :
    Exact env s.blobs (scanUids env s.blobs s.cache) :=
  scan_exact env s.blobs (blobsOf_nodup _ _) ((uniqueL_iff ..).mpr h.unique) s.cache h.cache

/-- Two exact caches of the same listing answer every UID question identically. -/
theorem exact_unique (env : Env) (bs : List (String × String)) (c₁ c₂ : Cache)
    (h₁ : Exact env bs c₁) (h₂ : Exact env bs c₂) : c₁.u2f = c₂.u2f ∧ c₁.f2u = c₂.f2u := by
  constructor
  · apply Map.ext; intro u
    cases h : c₁.u2f[u]? with
    | some p =>
      obtain ⟨n, e⟩ := p
      obtain ⟨a, b⟩ := h₁.u2f_sound u n e h
      exact (h₂.u2f_complete n e u a b).symm
    | none =>
      cases h' : c₂.u2f[u]? with
      | none => rfl
      | some p =>
        obtain ⟨n, e⟩ := p
        obtain ⟨a, b⟩ := h₂.u2f_sound u n e h'
        rw [h₁.u2f_complete n e u a b] at h; simp at h
  · apply Map.ext; intro n; rw [h₁.f2u, h₂.f2u]

/-- A write is refused for a UID conflict only if another listed member holds that UID now. -/
theorem refused_only_if_held (env : Env) (s : St) (h : UidInv env s) (n : String)
    (ct : Option String) (t : String) (r : Option String) (ex : String)
    (hout : (importOne env s n ct t r).2 = .dupUid ex) :
    ∃ u, env.uid (handlerFor ct n) t = some u ∧ HeldByOther env s.kind s.files n u := by
  rcases importOne_cases env s n ct t r with ⟨_, h2⟩ | ⟨_, h2⟩
  · rw [hout] at h2; simp at h2
  · rcases h2 with ⟨ex', hd, _⟩ | ⟨_, h3⟩
    · cases hu : env.uid (handlerFor ct n) t with
      | none => rw [hu] at hd; simp [dupError] at hd
      | some u =>
        rw [hu] at hd
        exact ⟨u, rfl, dupError_sound env s h u n ex' hd⟩
    · rcases h3 with ⟨_, h4⟩ | ⟨_, ⟨_, h4⟩ | ⟨_, h4 | h4⟩⟩ <;> (rw [hout] at h4; simp at h4)

/-- A write that is acknowledged never creates a second holder of its UID. -/
theorem accepted_only_if_free (env : Env) (s : St) (h : UidInv env s) (n : String)
    (ct : Option String) (t : String) (r : Option String) (e u : String)
    (hout : (importOne env s n ct t r).2 = .ok e) (hu : env.uid (handlerFor ct n) t = some u) :
    ¬ HeldByOther env s.kind s.files n u := by
  rcases importOne_cases env s n ct t r with ⟨_, h2⟩ | ⟨_, h2⟩
  · rw [hout] at h2; simp at h2
  · rcases h2 with ⟨ex', _, h3⟩ | ⟨hd, _⟩
    · rw [hout] at h3; simp at h3
    · rw [hu] at hd
      exact dupError_complete env s h u n hd

/-- A UID whose holder was deleted or changed UID is reusable at once: if nobody else holds
    it, the write is not refused for a UID conflict. -/
theorem uid_reusable (env : Env) (s : St) (h : UidInv env s) (n : String)
    (ct : Option String) (t : String) (r : Option String)
    (hfree : ∀ u, env.uid (handlerFor ct n) t = some u → ¬ HeldByOther env s.kind s.files n u) :
    ∀ ex, (importOne env s n ct t r).2 ≠ .dupUid ex := by
  intro ex hout
  obtain ⟨u, hu, hh⟩ := refused_only_if_held env s h n ct t r ex hout
  exact hfree u hu hh

/-- A refused write changes nothing (contents, history). -/
theorem refused_changes_nothing (env : Env) (s : St) (n : String) (ct : Option String)
    (t : String) (r : Option String) (ex : String)
    (hout : (importOne env s n ct t r).2 = .dupUid ex) :
    (importOne env s n ct t r).1.files = s.files := by
  rw [importOne_spec, hout]; simp [Spec.apply]

theorem importOne_cache_ok (env : Env) (s : St) (h : UidInv env s) (n : String)
    (ct : Option String) (t : String) (r : Option String) :
    CacheOK env (importOne env s n ct t r).1.cache := by
  unfold importOne
  simp only []
  split
  · exact h.cache
  · have hc := refreshCache_ok env s h (env.uid (handlerFor ct n) t)
    rw [← checkDuplicate_fst env s _ n r] at hc
    split
    · exact hc
    · split
      · exact hc
      · rw [writeOne_cache]; exact hc

/-- The invariant (reachable cache, unique UIDs) is preserved by every request whose upload
    and read-back agree on the UID. -/
theorem inv_step (env : Env) (s : St) (h : UidInv env s) (op : Op) (hco : Coherent env op) :
    UidInv env (step env s op).1 := by
  cases op with
  | put n ct t r =>
    simp only [step]
    refine ⟨importOne_cache_ok env s h n ct t r, ?_⟩
    rw [importOne_kind, importOne_spec]
    cases hout : (importOne env s n ct t r).2 with
    | ok e =>
      simp only [Spec.apply]
      rcases importOne_cases env s n ct t r with ⟨_, h2⟩ | ⟨_, h2⟩
      · rw [hout] at h2; simp at h2
      · have he : e = env.norm (handlerFor ct n) t := by
          rcases h2 with ⟨_, _, h3⟩ | ⟨_, ⟨_, h4⟩ | ⟨_, ⟨_, h4⟩ | ⟨_, h4 | h4⟩⟩⟩ <;>
            (rw [hout] at *; simp_all)
        subst he
        apply unique_insert env s.kind s.files n _ h.unique
        intro u hu
        have hco' : uidOf env n (env.norm (handlerFor ct n) t) = env.uid (handlerFor ct n) t := hco
        rw [hco'] at hu
        exact accepted_only_if_free env s h n ct t r _ u hout hu
    | deleted => simpa [Spec.apply] using h.unique
    | invalid => simpa [Spec.apply] using h.unique
    | dupUid ex => simpa [Spec.apply] using h.unique
    | badEtag => simpa [Spec.apply] using h.unique
    | noSuchItem => simpa [Spec.apply] using h.unique
    | locked => simpa [Spec.apply] using h.unique
    | failed => simpa [Spec.apply] using h.unique
  | del n e =>
    simp only [step]
    refine ⟨by rw [deleteOne_cache]; exact h.cache, ?_⟩
    rw [deleteOne_kind, deleteOne_spec]
    cases (deleteOne s n e).2 <;> simp only [Spec.apply]
    all_goals first | exact h.unique | exact unique_erase env s.kind s.files n h.unique
  | ctag =>
    simp only [step, getCtag]
    cases hk : s.kind <;> simp only [] <;> exact ⟨h.cache, by simpa [hk] using h.unique⟩
  | restart =>
    simp only [step, restart]
    exact ⟨CacheOK.empty env, h.unique⟩

/-- **UID uniqueness at every moment**: after any history of coherent requests on a fresh
    store of any kind, no two listed members share a UID. -/
theorem inv_run (env : Env) (ops : List Op) :
    ∀ s, UidInv env s → (∀ op ∈ ops, Coherent env op) → UidInv env (run env s ops).1 := by
  induction ops with
  | nil => intro s hs _; simpa [run]
  | cons op ops ih =>
    intro s hs hco
    simp only [run]
    apply ih
    · exact inv_step env s hs op (hco op (List.mem_cons_self ..))
    · intro o ho; exact hco o (List.mem_cons_of_mem _ ho)

theorem uid_unique_invariant (env : Env) (k : Kind) (ops : List Op)
    (hco : ∀ op ∈ ops, Coherent env op) :
    UniqueUids env k (run env (init k) ops).1.files := by
  have h := (inv_run env ops (init k) (UidInv.init env k) hco).unique
  have hk : ∀ (ops : List Op) (s : St), (run env s ops).1.kind = s.kind := by
    intro ops
    induction ops with
    | nil => intro s; rfl
    | cons op ops ih =>
      intro s
      simp only [run]
      rw [ih]
      cases op with
      | put n ct t r => exact importOne_kind ..
      | del n e => exact deleteOne_kind ..
      | ctag => simp only [step, getCtag]; cases hk : s.kind <;> simp [hk]
      | restart => rfl
  rw [hk] at h
  exact h

/-- Restart transparency for the UID check: the answer to a write depends on the stored
    contents only, not on what the process had cached. -/
theorem outcome_independent_of_cache (env : Env) (s : St) (c' : Cache)
    (h : UidInv env s) (h' : CacheOK env c') (n : String) (ct : Option String) (t : String)
    (r : Option String) :
    (importOne env { s with cache := c' } n ct t r).2 = (importOne env s n ct t r).2 := by
  have hs' : UidInv env { s with cache := c' } := ⟨h', h.unique⟩
  have key : ∀ uid, dupError (refreshCache env { s with cache := c' } uid) uid n
      = dupError (refreshCache env s uid) uid n := by
    intro uid
    cases uid with
    | none => simp [dupError]
    | some u =>
      have e1 := scan_is_exact env s h
      have e2 := scan_is_exact env _ hs'
      have : (refreshCache env { s with cache := c' } (some u)).u2f
          = (refreshCache env s (some u)).u2f := by
        unfold refreshCache
        exact (exact_unique env s.blobs _ _ e2 e1).1
      unfold dupError
      simp only [this]
  rw [importOne_out, importOne_out, key]
  have hw : ∀ x, (writeOne { s with cache := c' } n x).2 = (writeOne s n x).2 :=
    fun x => writeOne_out_cache s c' n x
  simp only [hw]
  rfl

/-- Non-vacuity: uploads whose handler is chosen by extension and whose normal form is the
    body itself (vCards, plain files, already-normalised calendars) are coherent. -/
theorem coherent_by_extension (env : Env) (n t : String) (r : Option String)
    (hn : env.norm (hkOfName n) t = t) : Coherent env (.put n none t r) := by
  unfold Coherent handlerFor uidOf
  by_cases h : hkOfName n = .plain
  · simp [h] at hn ⊢; rw [hn]
  · simp [h, hn]

/-- **whatever content type the client declares**: for a name whose extension selects a specific
    type (`.ics`, `.vcf`) the upload is opened with the handler it is read back with
    (`store.open_for_import`), so the upload is coherent for *every* declared content type —
    before the repair (handler chosen by the declared type alone) an `.ics` member declared
    `application/octet-stream` escaped validation and the UID check. -/
theorem coherent_whatever_the_declared_type (env : Env) (n t : String) (ct r : Option String)
    (hext : hkOfName n ≠ .plain) (hn : env.norm (hkOfName n) t = t) : Coherent env (.put n ct t r) := by
  unfold Coherent handlerFor uidOf
  simp [hext, hn]

/-- the handler does not depend on the declared type for such a name -/
theorem handler_by_extension (n : String) (ct : Option String) (hext : hkOfName n ≠ .plain) :
    handlerFor ct n = hkOfName n := by
  unfold handlerFor; simp [hext]

example (env : Env) : UidInv env (init .tree) := UidInv.init env .tree

/-- **the code is the model (HTTP mapping)**: with the `except` tables of `set_body`,
    `create_member` and the PUT / POST handlers as translated from /repo on this run, a
    `DuplicateUidError` of the store is answered with the `no-uid-conflict` precondition on
    every path a write can take (update, creation by PUT, creation by POST) -/
theorem code_maps_uid_conflict :
    Tie.answerTo Generated.exception_bases Generated.set_body_raises Generated.put_update_answers "DuplicateUidError"
      = .refused "no-uid-conflict" ∧
    Tie.answerTo Generated.exception_bases Generated.create_member_raises Generated.put_create_answers "DuplicateUidError"
      = .refused "no-uid-conflict" ∧
    Tie.answerTo Generated.exception_bases Generated.create_member_raises Generated.post_answers "DuplicateUidError"
      = .refused "no-uid-conflict" := ⟨rfl, rfl, rfl⟩

/-- the three tables agree with `Http.ofStoreOut` on every refusal of the store model -/
theorem code_is_model_exception_tables (o : Out) (e : String) (h : Tie.excOf o = some e) :
    Tie.answerTo Generated.exception_bases Generated.set_body_raises Generated.put_update_answers e = Http.ofStoreOut false o ∧
    Tie.answerTo Generated.exception_bases Generated.create_member_raises Generated.put_create_answers e = Http.ofStoreOut true o ∧
    Tie.answerTo Generated.exception_bases Generated.create_member_raises Generated.post_answers e = Http.ofStoreOut true o :=
  ⟨Tie.put_update_table o e h, Tie.put_create_table o e h, Tie.post_table o e h⟩

/-- **the code is the model (the store's gate)**: `_check_duplicate` of the git stores and of the
    vdir store and `_forget_uid` of both, as translated from /repo on this run, are the model's
    `dupError` / `etagError` (in that order) and `forget` -/
theorem code_is_model_check_duplicate (c : Cache) (cur uid : Option String) (name : String) (replace : Option String) :
    Generated.git_check_duplicate true c.u2f cur uid name replace = Tie.gateOf c cur uid name replace ∧
    Generated.vdir_check_duplicate true c.u2f cur uid name replace = Tie.gateOf c cur uid name replace :=
  ⟨Tie.git_check_duplicate_eq c cur uid name replace, Tie.vdir_check_duplicate_eq c cur uid name replace⟩

theorem code_is_model_forget_uid (m : Map (String × String)) (n : String) (u : Option String) :
    Generated.git_forget_uid m n u = forget m n u ∧ Generated.vdir_forget_uid m n u = forget m n u :=
  ⟨Tie.git_forget_uid_eq m n u, Tie.vdir_forget_uid_eq m n u⟩

/-- **on the translated code: a write is refused for a UID conflict only if the (refreshed) map
    names another resource as the holder of that UID** -/
theorem code_refuses_only_for_another_holder (c : Cache) (cur uid : Option String) (name : String)
    (replace : Option String) (ex arg : String)
    (h : Generated.git_check_duplicate true c.u2f cur uid name replace = .error (.raised "DuplicateUidError" arg)) :
    ∃ u e, uid = some u ∧ c.u2f[u]? = some (arg, e) ∧ arg ≠ name := by
  rw [Tie.git_check_duplicate_eq] at h
  unfold Tie.gateOf dupError at h
  cases uid with
  | none =>
    simp only at h
    cases hr : etagError cur replace <;> simp [hr] at h
  | some u =>
    cases hl : c.u2f[u]? with
    | none =>
      simp only [hl] at h
      cases hr : etagError cur replace <;> simp [hr] at h
    | some v =>
      obtain ⟨ex', e⟩ := v
      simp only [hl] at h
      by_cases hn : ex' = name
      · simp only [hn, ↓reduceIte] at h
        cases hr : etagError cur replace <;> simp [hr] at h
      · simp only [hn, ↓reduceIte, Except.error.injEq, Py.PyErr.raised.injEq, true_and] at h
        subst h
        exact ⟨u, e, rfl, hl, hn⟩

end Xandikos.Theorems.C06
