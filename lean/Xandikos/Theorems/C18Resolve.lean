/-
  C18, resource level — after the first start with `--defaults` on an empty data directory the
  paths the discovery chain walks resolve (`resolve`, the model of `get_resource`) to resources
  of the right kind: the principal path to a principal, the home sets to collections, the default
  calendar / address book to collections of type calendar / addressbook.

  `C18.lean` proves that the start makes these paths directory paths (`first_start_creates`);
  this file computes what is there and pushes it through `resolve`.
-/
import Xandikos.Theorems.C18
import Xandikos.Theorems.C16Resolve

namespace Xandikos.Theorems.C18
open Xandikos Xandikos.Http Xandikos.Store Xandikos.Py
open Xandikos.Theorems.C16 (member_path_normalS collection_path_no_trailing_slash childPath_toList)

/-! ### strings -/

theorem ne_of_length {s t : String} (h : s.length ≠ t.length) : s ≠ t := fun e => h (e ▸ rfl)

theorem child_length (p n : String) : (p ++ "/" ++ n).length = p.length + 1 + n.length := by
  rw [String.length_append, String.length_append]; rfl

theorem all_of_dropWhile_nil {p : Char → Bool} {l : List Char} (h : l.dropWhile p = []) :
    ∀ x ∈ l, p x = true := by
  induction l with
  | nil => intro x hx; cases hx
  | cons a t ih =>
    rw [List.dropWhile_cons] at h
    split at h
    · rename_i ha
      intro x hx
      rcases List.mem_cons.mp hx with rfl | hx
      · exact ha
      · exact ih h x hx
    · cases h

/-- a normalised absolute path other than the root (what a configured principal path is after
    `posixpath.normpath`, and what every path below it is) -/
structure NormAbs (p : String) : Prop where
  abs : p.toList.head? = some '/'
  fix : Path.normpathS p = p
  nr : Path.lstripSlash p.toList ≠ []

theorem NormAbs.good {p : String} (h : NormAbs p) : GoodPath p := by
  refine ⟨?_, collection_path_no_trailing_slash h.abs h.fix h.nr⟩
  intro e
  have := h.abs
  rw [e] at this
  cases this

theorem NormAbs.ne_root {p : String} (h : NormAbs p) : (p == "/") = false := by
  rw [beq_eq_false_iff_ne]
  intro e
  exact h.nr (by rw [e]; decide)

theorem NormAbs.ne_root2 {p : String} (h : NormAbs p) : (p == "//") = false := by
  rw [beq_eq_false_iff_ne]
  intro e
  exact h.nr (by rw [e]; decide)

/-- a clean name below such a path gives such a path again, and `split` undoes it -/
theorem NormAbs.child {p : String} (h : NormAbs p) (n : String) (hn : Path.Clean n.toList) :
    NormAbs (p ++ "/" ++ n) := by
  refine ⟨?_, (member_path_normalS h.abs h.fix h.nr hn).1, ?_⟩
  · rw [childPath_toList]
    have := h.abs
    cases hp : p.toList with
    | nil => rw [hp] at this; cases this
    | cons a as => rw [hp] at this; simpa using this
  · rw [childPath_toList]
    unfold Path.lstripSlash
    intro e
    have e := all_of_dropWhile_nil e
    cases hn' : n.toList with
    | nil => exact hn.1 hn'
    | cons c cs =>
      have hc : c = '/' := by simpa using e c (by simp [hn'])
      exact hn.2.2.2 (by rw [hn', hc]; simp)

theorem NormAbs.split_child {p : String} (h : NormAbs p) (n : String) (hn : Path.Clean n.toList) :
    Path.splitS (p ++ "/" ++ n) = (p, n) :=
  (member_path_normalS h.abs h.fix h.nr hn).2

/-! ### `resolve` on a normalised path -/

theorem resolve_coll (w : World) (p : String) (hN : NormAbs p) (hg : hasGitSegment p = false)
    (hc : w.colls.contains p = true) : resolve w p = some (.coll p) := by
  unfold resolve
  simp only [hN.fix, hN.ne_root, hN.ne_root2, hg, hc, Bool.or_self, Bool.false_eq_true, if_false,
    if_true]

theorem resolve_principal (w : World) (p : String) (hN : NormAbs p) (hg : hasGitSegment p = false)
    (hc : w.colls.contains p = false) (hd : w.dirs.contains p = true)
    (hp : w.principals.contains p = true) : resolve w p = some (.principal p) := by
  unfold resolve
  simp only [hN.fix, hN.ne_root, hN.ne_root2, hg, hc, hd, hp, Bool.or_self, Bool.false_eq_true,
    if_false, if_true]

/-! ### what the steps of a start do to the three components of the world -/

theorem isDirPath_false (w : World) (p : String) (h1 : (p == "/") = false) (h2 : p ∉ w.dirs)
    (h3 : w.colls[p]? = none) : w.isDirPath p = false := by
  cases h : w.isDirPath p with
  | false => rfl
  | true =>
    rw [isDirPath_iff] at h
    rcases h with h | h | h
    · rw [h] at h1; cases h1
    · exact absurd h h2
    · rw [h3] at h; cases h

theorem addDir_colls (w : World) (q : String) : (w.addDir q).colls = w.colls := by
  unfold World.addDir
  split <;> rfl

theorem makedirs_colls (w : World) (p : String) : (w.makedirs p).colls = w.colls := by
  unfold World.makedirs
  rw [addDir_colls]
  generalize ancestors p = l
  induction l generalizing w with
  | nil => rfl
  | cons q t ih => rw [List.foldl_cons, ih, addDir_colls]

theorem addDir_dirs_mem (w : World) (q x : String) (h : x ∈ (w.addDir q).dirs) :
    x ∈ w.dirs ∨ x = q := by
  unfold World.addDir at h
  split at h
  · exact Or.inl h
  · simpa using h

theorem foldl_addDir_dirs_mem (l : List String) (w : World) (x : String)
    (h : x ∈ (l.foldl World.addDir w).dirs) : x ∈ w.dirs ∨ x ∈ l := by
  induction l generalizing w with
  | nil => exact Or.inl h
  | cons q t ih =>
    rcases ih _ h with h' | h'
    · rcases addDir_dirs_mem w q x h' with h'' | h''
      · exact Or.inl h''
      · exact Or.inr (by simp [h''])
    · exact Or.inr (by simp [h'])

/-- `os.makedirs p` creates nothing but ancestors of `p` and `p` itself -/
theorem makedirs_dirs_mem (w : World) (p x : String) (h : x ∈ (w.makedirs p).dirs) :
    x ∈ w.dirs ∨ x ∈ ancestors p ∨ x = p := by
  unfold World.makedirs at h
  rcases addDir_dirs_mem _ p x h with h' | h'
  · rcases foldl_addDir_dirs_mem _ w x h' with h'' | h''
    · exact Or.inl h''
    · exact Or.inr (Or.inl h'')
  · exact Or.inr (Or.inr h')

theorem createIfAbsent_dirs (w : World) (p : String) (ct : Option (CType × String)) :
    (w.createIfAbsent p ct).dirs = w.dirs := by
  unfold World.createIfAbsent
  split
  · rfl
  · split <;> rfl

theorem createIfAbsent_colls_ne (w : World) (p q : String) (ct : Option (CType × String))
    (h : p ≠ q) : (w.createIfAbsent p ct).colls[q]? = w.colls[q]? := by
  unfold World.createIfAbsent
  split
  · rfl
  · split
    · rfl
    · unfold World.setColl
      exact Map.get_insert_ne _ _ h

/-- where nothing is and the parent exists, a fresh repository is created -/
theorem createIfAbsent_new (w : World) (p : String) (ct : Option (CType × String))
    (h1 : w.isDirPath p = false) (h2 : w.isDirPath (Path.splitS p).1 = true) :
    (w.createIfAbsent p ct).colls[p]? = some (freshColl ct) := by
  unfold World.createIfAbsent
  simp only [h1, h2, Bool.false_eq_true, Bool.not_true, if_false]
  unfold World.setColl
  exact Map.get_insert_self _ _ _

theorem contains_of_get {m : Map Coll} {p : String} {c : Coll} (h : m[p]? = some c) :
    m.contains p = true := by
  rw [Std.ExtTreeMap.contains_eq_isSome_getElem?, h]; rfl

theorem not_contains_of_get {m : Map Coll} {p : String} (h : m[p]? = none) :
    m.contains p = false := by
  rw [Std.ExtTreeMap.contains_eq_isSome_getElem?, h]; rfl

/-! ### the five creations of `--defaults`, started where only the principal directory is -/

/-- From a world without repositories, in which the principal directory exists and is marked and
    no directory has a longer path than the principal, the five `create_collection` calls of
    `create_principal(…, create_defaults=True)` give a world in which the discovery chain
    resolves. -/
theorem defaults_chain_resolves (w1 : World) (P : String) (hN : NormAbs P)
    (hc : ∀ q : String, w1.colls[q]? = none) (hd : P ∈ w1.dirs)
    (hlen : ∀ q ∈ w1.dirs, q.length ≤ P.length) (hp : P ∈ w1.principals)
    (hgit : hasGitSegment (P ++ "/" ++ "calendars" ++ "/" ++ "calendar") = false ∧
            hasGitSegment (P ++ "/" ++ "contacts" ++ "/" ++ "addressbook") = false ∧
            hasGitSegment (P ++ "/" ++ "calendars") = false ∧
            hasGitSegment (P ++ "/" ++ "contacts") = false ∧ hasGitSegment P = false) :
    let w := ((((w1.createIfAbsent (P ++ "/" ++ "contacts") none).createIfAbsent
      (P ++ "/" ++ "calendars") none).createIfAbsent
      (P ++ "/" ++ "calendars" ++ "/" ++ "calendar") (some (.calendar, "calendar"))).createIfAbsent
      (P ++ "/" ++ "contacts" ++ "/" ++ "addressbook") (some (.addressbook, "addressbook"))).createIfAbsent
      (P ++ "/" ++ "inbox") (some (.inbox, "schedule-inbox"))
    resolve w P = some (.principal P) ∧
    resolve w (P ++ "/" ++ "calendars") = some (.coll (P ++ "/" ++ "calendars")) ∧
    resolve w (P ++ "/" ++ "contacts") = some (.coll (P ++ "/" ++ "contacts")) ∧
    resolve w (P ++ "/" ++ "calendars" ++ "/" ++ "calendar") =
      some (.coll (P ++ "/" ++ "calendars" ++ "/" ++ "calendar")) ∧
    resolve w (P ++ "/" ++ "contacts" ++ "/" ++ "addressbook") =
      some (.coll (P ++ "/" ++ "contacts" ++ "/" ++ "addressbook")) ∧
    ((w.colls[P ++ "/" ++ "calendars" ++ "/" ++ "calendar"]?).map (·.ctype) = some .calendar) ∧
    ((w.colls[P ++ "/" ++ "contacts" ++ "/" ++ "addressbook"]?).map (·.ctype) = some .addressbook) := by
  obtain ⟨gCC, gAA, gC, gA, gP⟩ := hgit
  -- the five paths: normalised, absolute, not the root; their parents; their lengths
  have clC : Path.Clean "calendars".toList := by decide
  have clA : Path.Clean "contacts".toList := by decide
  have clc : Path.Clean "calendar".toList := by decide
  have cla : Path.Clean "addressbook".toList := by decide
  have nC := hN.child "calendars" clC
  have nA := hN.child "contacts" clA
  have nCC := nC.child "calendar" clc
  have nAA := nA.child "addressbook" cla
  have sC := hN.split_child "calendars" clC
  have sA := hN.split_child "contacts" clA
  have sCC := nC.split_child "calendar" clc
  have sAA := nA.split_child "addressbook" cla
  have lC : (P ++ "/" ++ "calendars").length = P.length + 10 := child_length _ _
  have lA : (P ++ "/" ++ "contacts").length = P.length + 9 := child_length _ _
  have lI : (P ++ "/" ++ "inbox").length = P.length + 6 := child_length _ _
  have lCC : (P ++ "/" ++ "calendars" ++ "/" ++ "calendar").length = P.length + 19 := by
    rw [child_length, lC]; rfl
  have lAA : (P ++ "/" ++ "contacts" ++ "/" ++ "addressbook").length = P.length + 21 := by
    rw [child_length, lA]; rfl
  -- name them
  generalize P ++ "/" ++ "calendars" ++ "/" ++ "calendar" = CC at *
  generalize P ++ "/" ++ "contacts" ++ "/" ++ "addressbook" = AA at *
  generalize P ++ "/" ++ "calendars" = C at *
  generalize P ++ "/" ++ "contacts" = A at *
  generalize P ++ "/" ++ "inbox" = I at *
  -- none of them is a directory of the initial world
  have ndir : ∀ X : String, P.length < X.length → X ∉ w1.dirs := fun X hX hm => by
    have := hlen X hm; omega
  -- the successive worlds
  generalize h2 : w1.createIfAbsent A none = w2
  generalize h3 : w2.createIfAbsent C none = w3
  generalize h4 : w3.createIfAbsent CC (some (.calendar, "calendar")) = w4
  generalize h5 : w4.createIfAbsent AA (some (.addressbook, "addressbook")) = w5
  generalize h6 : w5.createIfAbsent I (some (.inbox, "schedule-inbox")) = w6
  intro w
  have e2 : Extends w1 w2 := h2 ▸ createIfAbsent_extends w1 A none
  have e3 : Extends w2 w3 := h3 ▸ createIfAbsent_extends w2 C none
  have e4 : Extends w3 w4 := h4 ▸ createIfAbsent_extends w3 CC _
  have e5 : Extends w4 w5 := h5 ▸ createIfAbsent_extends w4 AA _
  have e6 : Extends w5 w6 := h6 ▸ createIfAbsent_extends w5 I _
  have dd2 : w2.dirs = w1.dirs := h2 ▸ createIfAbsent_dirs w1 A none
  have dd3 : w3.dirs = w1.dirs := by rw [← h3, createIfAbsent_dirs, dd2]
  have dd4 : w4.dirs = w1.dirs := by rw [← h4, createIfAbsent_dirs, dd3]
  have dd5 : w5.dirs = w1.dirs := by rw [← h5, createIfAbsent_dirs, dd4]
  have dd6 : w6.dirs = w1.dirs := by rw [← h6, createIfAbsent_dirs, dd5]
  have pp6 : w6.principals = w1.principals := by
    rw [← h6, createIfAbsent_principals, ← h5, createIfAbsent_principals, ← h4,
      createIfAbsent_principals, ← h3, createIfAbsent_principals, ← h2, createIfAbsent_principals]
  have k2 : ∀ q : String, A ≠ q → w2.colls[q]? = w1.colls[q]? := fun q h =>
    h2 ▸ createIfAbsent_colls_ne w1 A q none h
  have k3 : ∀ q : String, C ≠ q → w3.colls[q]? = w2.colls[q]? := fun q h =>
    h3 ▸ createIfAbsent_colls_ne w2 C q none h
  have k4 : ∀ q : String, CC ≠ q → w4.colls[q]? = w3.colls[q]? := fun q h =>
    h4 ▸ createIfAbsent_colls_ne w3 CC q _ h
  have k5 : ∀ q : String, AA ≠ q → w5.colls[q]? = w4.colls[q]? := fun q h =>
    h5 ▸ createIfAbsent_colls_ne w4 AA q _ h
  have k6 : ∀ q : String, I ≠ q → w6.colls[q]? = w5.colls[q]? := fun q h =>
    h6 ▸ createIfAbsent_colls_ne w5 I q _ h
  -- the principal directory
  have d1 : w1.isDirPath P = true := (isDirPath_iff w1 P).mpr (Or.inr (Or.inl hd))
  -- contacts
  have a2 : w2.colls[A]? = some (freshColl none) := by
    rw [← h2]
    refine createIfAbsent_new w1 A none
      (isDirPath_false w1 A nA.ne_root (ndir A (by omega)) (hc A)) ?_
    rw [sA]; exact d1
  -- calendars
  have c3 : w3.colls[C]? = some (freshColl none) := by
    rw [← h3]
    refine createIfAbsent_new w2 C none
      (isDirPath_false w2 C nC.ne_root (by rw [dd2]; exact ndir C (by omega)) ?_) ?_
    · rw [k2 C (ne_of_length (by omega))]; exact hc C
    · rw [sC]; exact e2.isDirPath P d1
  -- calendars/calendar
  have cc4 : w4.colls[CC]? = some (freshColl (some (.calendar, "calendar"))) := by
    rw [← h4]
    refine createIfAbsent_new w3 CC _
      (isDirPath_false w3 CC nCC.ne_root (by rw [dd3]; exact ndir CC (by omega)) ?_) ?_
    · rw [k3 CC (ne_of_length (by omega)), k2 CC (ne_of_length (by omega))]; exact hc CC
    · rw [sCC, isDirPath_iff]; exact Or.inr (Or.inr (by rw [c3]; rfl))
  -- contacts/addressbook
  have aa5 : w5.colls[AA]? = some (freshColl (some (.addressbook, "addressbook"))) := by
    rw [← h5]
    refine createIfAbsent_new w4 AA _
      (isDirPath_false w4 AA nAA.ne_root (by rw [dd4]; exact ndir AA (by omega)) ?_) ?_
    · rw [k4 AA (ne_of_length (by omega)), k3 AA (ne_of_length (by omega)),
        k2 AA (ne_of_length (by omega))]
      exact hc AA
    · rw [sAA, isDirPath_iff]
      exact Or.inr (Or.inr (by rw [e4.colls A _ (e3.colls A _ a2)]; rfl))
  -- in the final world
  have fA := e6.colls A _ (e5.colls A _ (e4.colls A _ (e3.colls A _ a2)))
  have fC := e6.colls C _ (e5.colls C _ (e4.colls C _ c3))
  have fCC := e6.colls CC _ (e5.colls CC _ cc4)
  have fAA := e6.colls AA _ aa5
  have fP : w6.colls[P]? = none := by
    rw [k6 P (ne_of_length (by omega)), k5 P (ne_of_length (by omega)),
      k4 P (ne_of_length (by omega)), k3 P (ne_of_length (by omega)),
      k2 P (ne_of_length (by omega))]
    exact hc P
  refine ⟨?_, ?_, ?_, ?_, ?_, ?_, ?_⟩
  · refine resolve_principal w6 P hN gP (not_contains_of_get fP) ?_ ?_
    · rw [dd6]; exact List.contains_iff_mem.mpr hd
    · rw [pp6]; exact List.contains_iff_mem.mpr hp
  · exact resolve_coll w6 C nC gC (contains_of_get fC)
  · exact resolve_coll w6 A nA gA (contains_of_get fA)
  · exact resolve_coll w6 CC nCC gCC (contains_of_get fCC)
  · exact resolve_coll w6 AA nAA gAA (contains_of_get fAA)
  · show (w6.colls[CC]?).map (·.ctype) = some .calendar
    rw [fCC]; rfl
  · show (w6.colls[AA]?).map (·.ctype) = some .addressbook
    rw [fAA]; rfl

/-! ### the first start -/

/-- **After the first `--defaults` start on an empty data directory the discovery chain resolves**:
    the principal path is a principal, both home sets are collections, the default calendar is a
    collection of type calendar and the default address book one of type addressbook.

    `P` is the normalised principal path (`habs`, `hfix`, `hnr`: absolute, fixed by `normpath`, not
    the root).  `hanc` and `hgit` are the two facts about `P` that go through `String.splitOn`
    (whose worker is a well-founded recursion over byte positions the kernel does not evaluate):
    the directories `os.makedirs` creates on the way to `P` have paths no longer than `P`, and no
    path of the chain has a `.git` segment.  Both hold for every real principal path (`#eval`
    below for `/user` and `/users/joe`). -/
theorem first_start_resolves (P : String)
    (habs : P.toList.head? = some '/') (hfix : Path.normpathS P = P)
    (hnr : Path.lstripSlash P.toList ≠ [])
    (hanc : ∀ q ∈ ancestors P, q.length ≤ P.length)
    (hgit : hasGitSegment (P ++ "/calendars/calendar") = false ∧
            hasGitSegment (P ++ "/contacts/addressbook") = false ∧
            hasGitSegment (P ++ "/calendars") = false ∧ hasGitSegment (P ++ "/contacts") = false ∧
            hasGitSegment P = false) :
    let w := bootAt ({} : World) P true
    resolve w P = some (.principal P) ∧
    resolve w (P ++ "/calendars") = some (.coll (P ++ "/calendars")) ∧
    resolve w (P ++ "/contacts") = some (.coll (P ++ "/contacts")) ∧
    resolve w (P ++ "/calendars/calendar") = some (.coll (P ++ "/calendars/calendar")) ∧
    resolve w (P ++ "/contacts/addressbook") = some (.coll (P ++ "/contacts/addressbook")) ∧
    ((w.colls[P ++ "/calendars/calendar"]?).map (·.ctype) = some .calendar) ∧
    ((w.colls[P ++ "/contacts/addressbook"]?).map (·.ctype) = some .addressbook) := by
  have hN : NormAbs P := ⟨habs, hfix, hnr⟩
  have hP : GoodPath P := hN.good
  -- the same strings, written as the joins produce them
  have eC : P ++ "/calendars" = P ++ "/" ++ "calendars" := by rw [String.append_assoc]; rfl
  have eA : P ++ "/contacts" = P ++ "/" ++ "contacts" := by rw [String.append_assoc]; rfl
  have eCC : P ++ "/calendars/calendar" = P ++ "/" ++ "calendars" ++ "/" ++ "calendar" := by
    simp only [String.append_assoc]; rfl
  have eAA : P ++ "/contacts/addressbook" = P ++ "/" ++ "contacts" ++ "/" ++ "addressbook" := by
    simp only [String.append_assoc]; rfl
  rw [eC, eA, eCC, eAA] at hgit
  rw [eC, eA, eCC, eAA]
  -- the joins
  have gC : GoodPath (P ++ "/" ++ "calendars") := (hN.child "calendars" (by decide)).good
  have gA : GoodPath (P ++ "/" ++ "contacts") := (hN.child "contacts" (by decide)).good
  have jC : Path.joinS P calendarHomeSet = P ++ "/" ++ "calendars" := joinS_name P _ hP (by decide)
  have jA : Path.joinS P addressbookHomeSet = P ++ "/" ++ "contacts" := joinS_name P _ hP (by decide)
  have jI : Path.joinS P inboxName = P ++ "/" ++ "inbox" := joinS_name P _ hP (by decide)
  have jCC : Path.joinS (P ++ "/" ++ "calendars") "calendar" =
      P ++ "/" ++ "calendars" ++ "/" ++ "calendar" := joinS_name _ _ gC (by decide)
  have jAA : Path.joinS (P ++ "/" ++ "contacts") "addressbook" =
      P ++ "/" ++ "contacts" ++ "/" ++ "addressbook" := joinS_name _ _ gA (by decide)
  -- the world after `os.makedirs` (nothing is there before: the data directory is empty)
  generalize h0 : (if ({} : World).isDirPath P then ({} : World) else ({} : World).makedirs P) = w0
  have hboot : bootAt ({} : World) P true =
      (((((w0.markPrincipal P).createIfAbsent (P ++ "/" ++ "contacts") none).createIfAbsent
      (P ++ "/" ++ "calendars") none).createIfAbsent
      (P ++ "/" ++ "calendars" ++ "/" ++ "calendar") (some (.calendar, "calendar"))).createIfAbsent
      (P ++ "/" ++ "contacts" ++ "/" ++ "addressbook") (some (.addressbook, "addressbook"))).createIfAbsent
      (P ++ "/" ++ "inbox") (some (.inbox, "schedule-inbox")) := by
    rw [← jCC, ← jAA, ← jC, ← jA, ← jI, ← h0]
    rfl
  have c0 : ∀ q : String, w0.colls[q]? = none := by
    intro q
    rw [← h0]
    split
    · exact Map.get_empty q
    · rw [makedirs_colls]; exact Map.get_empty q
  have l0 : ∀ q ∈ w0.dirs, q.length ≤ P.length := by
    intro q hq
    rw [← h0] at hq
    split at hq
    · cases hq
    · rcases makedirs_dirs_mem _ P q hq with h | h | h
      · cases h
      · exact hanc q h
      · rw [h]; exact Nat.le_refl _
  have d0 : P ∈ w0.dirs := by
    have h : w0.isDirPath P = true := by
      rw [← h0]
      split
      · assumption
      · exact makedirs_isDirPath _ P
    rw [isDirPath_iff] at h
    rcases h with h | h | h
    · have := hN.ne_root; rw [h] at this; cases this
    · exact h
    · rw [c0 P] at h; cases h
  rw [hboot]
  exact defaults_chain_resolves (w0.markPrincipal P) P hN c0 d0 l0 (markPrincipal_mem w0 P) hgit

-- the `String.splitOn`-based hypotheses on two principal paths
/-- info: [["/user"], ["/users", "/users/joe"]] -/
#guard_msgs in
#eval [ancestors "/user", ancestors "/users/joe"]

/-- info: [false, false, false] -/
#guard_msgs in
#eval [hasGitSegment "/users/joe/calendars/calendar", hasGitSegment "/user/contacts/addressbook",
  hasGitSegment "/user"]

example : Path.normpathS "/users/joe" = "/users/joe" := by decide
example : Path.lstripSlash "/users/joe".toList ≠ [] := by decide

end Xandikos.Theorems.C18
