import Xandikos.Theorems.C01
import Xandikos.Http.World

/-! ## HTTP level (path resolution + handlers on top of the store model) -/

namespace Xandikos.Theorems.C01
open Xandikos Xandikos.Store Xandikos.Http

/-- content stored under member `n` of the collection at `cp` (none if either is missing) -/
def fileAt (w : World) (cp n : String) : Option String :=
  (w.colls[cp]?).bind fun c => c.st.files[n]?

theorem fileAt_setColl (w : World) (cp : String) (c : Coll) (cp' n : String) :
    fileAt (w.setColl cp c) cp' n = if cp = cp' then c.st.files[n]? else fileAt w cp' n := by
  unfold fileAt World.setColl
  simp only [Map.get_insert]
  split <;> simp

/-- a store write inside one collection changes at most the one member it names -/
theorem import_in_coll_local (env : Env) (w : World) (cp name : String) (c : Coll)
    (hc : w.colls[cp]? = some c) (ct : Option String) (t : String) (r : Option String)
    (cp' n : String) (hne : ¬ (cp' = cp ∧ n = name)) :
    fileAt (w.setColl cp { c with st := (importOne env c.st name ct t r).1 }) cp' n
      = fileAt w cp' n := by
  rw [fileAt_setColl]
  by_cases h : cp = cp'
  · subst h
    simp only [↓reduceIte]
    have hn : name ≠ n := by intro e; exact hne ⟨rfl, e.symm⟩
    have := write_is_local env c.st (.put name ct t r) n (by simp [target, hn])
    simp only [step] at this
    rw [this]; simp [fileAt, hc]
  · simp [h]

/-- **A PUT changes at most one member of one collection** — every other resource of every
    collection, and the directory layout, are untouched (whatever the path, headers, body). -/
theorem http_put_is_local (env : Env) (w : World) (r : Req) :
    (put env w r).1.dirs = w.dirs ∧
    ∃ cp₀ n₀, ∀ cp n, ¬ (cp = cp₀ ∧ n = n₀) → fileAt (put env w r).1 cp n = fileAt w cp n := by
  unfold put
  simp only []
  split
  · exact ⟨rfl, "", "", fun _ _ _ => rfl⟩
  · split
    · exact ⟨rfl, "", "", fun _ _ _ => rfl⟩
    · unfold putExec
      split
      · rename_i cp name e _
        split
        · rename_i c hc
          exact ⟨rfl, cp, name, fun cp' n hne =>
            import_in_coll_local env w cp name c hc _ _ _ cp' n hne⟩
        · exact ⟨rfl, "", "", fun _ _ _ => rfl⟩
      · exact ⟨rfl, "", "", fun _ _ _ => rfl⟩
      · simp only []
        split
        · exact ⟨rfl, "", "", fun _ _ _ => rfl⟩
        · rename_i cp _
          split
          · rename_i c hc
            exact ⟨rfl, cp, (Py.Path.splitS r.path).2, fun cp' n hne =>
              import_in_coll_local env w cp _ c hc _ _ _ cp' n hne⟩
          · exact ⟨rfl, "", "", fun _ _ _ => rfl⟩
        · exact ⟨rfl, "", "", fun _ _ _ => rfl⟩
        · exact ⟨rfl, "", "", fun _ _ _ => rfl⟩

theorem store_noop (env : Env) (c : Coll) (name : String) (ct : Option String) (t : String)
    (rep : Option String) (created : Bool)
    (hh : (ofStoreOut created (importOne env c.st name ct t rep).2).isOk = false) :
    (importOne env c.st name ct t rep).1.files = c.st.files := by
  rw [importOne_spec]
  cases ho : (importOne env c.st name ct t rep).2 with
  | ok e => rw [ho] at hh; cases created <;> simp [ofStoreOut, Outcome.isOk] at hh
  | _ => simp [Spec.apply]

theorem putExec_non_ok (env : Env) (w : World) (r : Req) (res : Option Res)
    (h : (putExec env w r res).2.isOk = false) (cp n : String) :
    fileAt (putExec env w r res).1 cp n = fileAt w cp n := by
  unfold putExec at h ⊢
  cases res with
  | some rr =>
    cases rr with
    | member cp' name e =>
      simp only [] at h ⊢
      cases hc : w.colls[cp']? with
      | none => simp [hc]
      | some c =>
        simp only [hc] at h ⊢
        rw [fileAt_setColl]
        split
        · rename_i heq; subst heq
          simp only []
          rw [store_noop env c name _ _ _ false h]; simp [fileAt, hc]
        · rfl
    | root => rfl
    | dir p => rfl
    | principal p => rfl
    | coll p => rfl
  | none =>
    simp only [] at h ⊢
    cases hres : resolve w (Py.Path.splitS r.path).1 with
    | none => simp [hres]
    | some rr =>
      simp only [hres] at h ⊢
      cases rr with
      | coll cp' =>
        simp only [] at h ⊢
        cases hc : w.colls[cp']? with
        | none => simp [hc]
        | some c =>
          simp only [hc] at h ⊢
          rw [fileAt_setColl]
          split
          · rename_i heq; subst heq
            simp only []
            rw [store_noop env c _ _ _ _ true h]; simp [fileAt, hc]
          · rfl
      | root => rfl
      | dir p => rfl
      | principal p => rfl
      | member a b c => rfl

/-- **A PUT that is not acknowledged changes no member of any collection.** -/
theorem http_put_non_ok_is_noop (env : Env) (w : World) (r : Req)
    (h : (put env w r).2.isOk = false) (cp n : String) :
    fileAt (put env w r).1 cp n = fileAt w cp n := by
  unfold put at h ⊢
  simp only [] at h ⊢
  by_cases h1 : etagRaises (resolve w r.path) = true
  · simp [h1]
  · by_cases h2 : condFails r ((resolve w r.path).bind (currentEtag w)) = true
    · simp [h1, h2]
    · simp only [h1, h2, Bool.false_eq_true, ↓reduceIte] at h ⊢
      exact putExec_non_ok env w r _ h cp n

end Xandikos.Theorems.C01
