/-
  C15 — collection properties read back as written, persist, and stay separate
  (versioned `.xandikos` back end; the git-config back end is tied by correspondence only).
-/
import Xandikos.Store.MetaProofs

namespace Xandikos.Theorems.C15
open Xandikos Xandikos.Store Xandikos.Py.Ini

/-- **Write → read round trip of the metadata file format** for every well-formed config with
    safe values (multi-line values included): `configparser` reads back exactly what it wrote. -/
theorem ini_roundtrip (universalNewlines : Bool) (cfg : Config) (hw : WellFormed cfg)
    (hs : SafeValues cfg) : iniRead universalNewlines (iniWrite cfg) = .ok cfg :=
  Xandikos.Py.Ini.ini_roundtrip universalNewlines cfg hw hs

/-- every single-line value without leading/trailing white space is safe — whatever
    metacharacters it contains -/
theorem single_line_values_are_safe (v : String) (hnl : '\n' ∉ v.toList) (hcr : '\r' ∉ v.toList)
    (hs : pyStrip v.toList = v.toList) : SafeValue v.toList :=
  safe_of_single_line v.toList hnl hcr hs

/-- **Set then get** (see `Store.set_then_get`): the property reads back exactly, every other
    property and every member is untouched, and the invariant that makes this repeatable
    holds again. -/
theorem proppatch_ok_then_propfind (s : Store.St) (hinv : CfgInv s) (k v : String) (hk : k ∈ defaultKeys)
    (hv : SafeValue v.toList) (hok : (setMeta s k (some v)).2 = .ok) :
    getMeta (setMeta s k (some v)).1 k = some v ∧
    (∀ k', k' ≠ k → getMeta (setMeta s k (some v)).1 k' = getMeta s k') ∧
    CfgInv (setMeta s k (some v)).1 ∧
    (∀ n, n ≠ configName → (setMeta s k (some v)).1.files[n]? = s.files[n]?) :=
  set_then_get s hinv k v hk hv hok

/-- a restart keeps every property: reads go to the stored file only -/
theorem restart_keeps_properties (s : Store.St) (k : String) : getMeta (restart s) k = getMeta s k := by
  unfold getMeta readConfig restart; rfl

/-- the name a store request writes to -/
def target : Op → Option String
  | .put n _ _ _ => some n
  | .del n _ => some n
  | _ => none

/-- member writes and deletes leave the properties alone (they never touch the metadata
    file, whose name is not a member name) -/
theorem member_write_keeps_properties (env : Env) (s : Store.St) (op : Op) (k : String)
    (hn : target op ≠ some configName) :
    getMeta (step env s op).1 k = getMeta s k := by
  unfold getMeta readConfig
  have : (step env s op).1.files[configName]? = s.files[configName]? := by
    rw [step_refines]
    cases op with
    | put n ct t r =>
      have hne : n ≠ configName := by intro e; apply hn; simp [target, e]
      cases (step env s (.put n ct t r)).2 with
      | none => simp [Spec.apply]
      | some o => cases o <;> simp [Spec.apply, Map.get_insert_ne _ _ hne]
    | del n e =>
      have hne : n ≠ configName := by intro e; apply hn; simp [target, e]
      cases (step env s (.del n e)).2 with
      | none => simp [Spec.apply]
      | some o => cases o <;> simp [Spec.apply, Map.get_erase_ne _ hne]
    | ctag => cases (step env s .ctag).2 <;> simp [Spec.apply]
    | restart => cases (step env s .restart).2 <;> simp [Spec.apply]
  rw [this]

/-- The hypotheses matter (recorded finding C15-multiline): a continuation line starting with
    `#` is dropped by `configparser`, an indented one loses its indentation. -/
theorem unsafe_values_do_not_round_trip :
    readBack false [("DEFAULT", [("comment", "a\n#b")])] "DEFAULT" "comment" = some (some "a") ∧
    readBack false [("DEFAULT", [("comment", "a\n b")])] "DEFAULT" "comment" = some (some "a\nb") :=
  ⟨cex_comment_line, cex_indented_line⟩

end Xandikos.Theorems.C15
