/-
  C13 — no request can touch the file system outside the data directory (lexical confinement;
  symlinks inside the root and the kernel's own path resolution are outside the model).
-/
import Xandikos.Tie.PathMapEq
import Xandikos.Py.PathProofs

namespace Xandikos.Theorems.C13
open Xandikos Xandikos.Http Xandikos.Py Xandikos.Py.Path

/-- Tie: the mapping found in /repo on this run is the model. -/
theorem code_is_model : Generated.map_to_file_path = Http.mapToFilePath := Tie.map_to_file_path_eq

/-- **Every URL path maps inside the root** — for *every* string a request can carry as its
    path (dot segments, doubled slashes, anything that survives percent-decoding), the
    file-system path computed by `_map_to_file_path` is the root itself or lies below it and
    contains no `..` component.  This is the single place where URL paths become file-system
    paths (lookup, MKCOL, MKCALENDAR, principal creation, directory listings). -/
theorem map_confined (root relpath : List Char) (hr : root ≠ []) (hl : root.getLast? ≠ some '/') :
    Confined root (Generated.map_to_file_path root relpath) := by
  rw [code_is_model]
  exact confined_join_normpath (p := '/' :: relpath) rfl hr hl

/-- The mapped path is the root joined with *clean* components only (non-empty, not `.`, not
    `..`, slash-free): the request is answered as if it addressed the normalised path. -/
theorem map_components_clean (root relpath : List Char) (hr : root ≠ [])
    (hl : root.getLast? ≠ some '/') :
    (mapToFilePath root relpath = root ++ ['/']) ∨
    (∃ comps, comps ≠ [] ∧ (∀ c ∈ comps, Clean c) ∧
      splitOnSlash (mapToFilePath root relpath) = splitOnSlash root ++ comps) := by
  have h := (join_lstrip_under_root (p := '/' :: relpath) (root := root) rfl hr hl).2
  rcases h with ⟨_, h2⟩ | ⟨comps, h1, h2, _, h4⟩
  · left; exact h2
  · right; exact ⟨comps, h1, h2, h4⟩

/-- A member file lives directly inside its collection's directory: joining a confined
    collection path with a clean member name (what `posixpath.split` of a normalised path
    yields) stays confined. -/
theorem member_confined (root coll name : List Char) (hc : Confined root coll)
    (hcl : coll.getLast? ≠ some '/') (hne : coll ≠ []) (hn : Clean name) :
    Confined root (memberPath coll name) := by
  unfold memberPath
  have h1 : name.head? ≠ some '/' := by
    intro h
    cases name with
    | nil => simp at h
    | cons c cs => simp at h; subst h; exact hn.2.2.2 (by simp)
  rw [join_rel hne hcl h1]
  have hsplit : splitOnSlash name = [name] := splitOnSlash_noSlash hn.2.2.2
  rcases hc with rfl | ⟨rest, rfl, hrest⟩
  · right
    refine ⟨name, rfl, ?_⟩
    intro c hc'
    rw [hsplit] at hc'
    simp at hc'; subst hc'; exact hn.2.2.1
  · right
    refine ⟨rest ++ '/' :: name, by simp, ?_⟩
    intro c hc'
    rw [splitOnSlash_append_slash, hsplit, List.mem_append] at hc'
    rcases hc' with hc' | hc'
    · exact hrest c hc'
    · simp at hc'; subst hc'; exact hn.2.2.1

/-- non-vacuity: an attack path maps inside the root, and the naive mapping would not -/
example : mapToFilePath "/srv/dav".toList "/../../etc/x".toList = "/srv/dav/etc/x".toList := by decide
example : ¬ Confined "/srv/dav".toList (join "/srv/dav".toList "../../etc/x".toList) := by decide

end Xandikos.Theorems.C13
