/-
  C01 — collection contents always equal the outcome of the acknowledged writes
  (store level: bare git, tree git and vdir models; every history, every name and body).
-/
import Xandikos.Store.Lemmas

namespace Xandikos.Theorems.C01
open Xandikos Xandikos.Store

/-- The model refines the abstract spec on every history: the stored contents after running
    `ops` are what the spec computes from the answers the requests received. -/
theorem run_refines_spec (env : Env) (s : St) (ops : List Op) :
    (run env s ops).1.files = Spec.run s.files ops (run env s ops).2 :=
  run_refines env s ops

/-- After any history on a fresh store of any kind, reading `n` gives the content of the last
    acknowledged write to `n`, or nothing if there was none or the last one was a delete. -/
theorem get_returns_last_ack_write (env : Env) (k : Kind) (ops : List Op) (n : String) :
    (run env (init k) ops).1.get n =
      match Spec.lastAck n ops (run env (init k) ops).2 with
      | some v => v
      | none => none := by
  unfold St.get
  rw [run_refines, Spec.run_lastAck]
  have h0 : (init k).files[n]? = none := by simp [init]
  rw [h0]
  cases Spec.lastAck n ops (run env (init k) ops).2 <;> rfl

/-- The listing shows exactly the live members of the abstract state. -/
theorem listing_is_live_members (env : Env) (s : St) (ops : List Op) :
    (run env s ops).1.blobs
      = blobsOf (run env s ops).1.kind (Spec.run s.files ops (run env s ops).2) := by
  unfold St.blobs
  rw [run_refines]

/-- A request that is not answered with an acknowledgement changes nothing. -/
theorem non_ok_is_noop (env : Env) (s : St) (op : Op)
    (h : ∀ o, (step env s op).2 = some o → o.isOk = false) :
    (step env s op).1.files = s.files := by
  rw [step_refines]
  cases hres : (step env s op).2 with
  | none => cases op <;> simp [Spec.apply]
  | some o =>
    have := h o hres
    cases op <;> cases o <;> simp_all [Spec.apply, Out.isOk]

/-- The name a request writes to, if any. -/
def target : Op → Option String
  | .put n _ _ _ => some n
  | .del n _ => some n
  | _ => none

/-- A write to one resource never alters another. -/
theorem write_is_local (env : Env) (s : St) (op : Op) (n : String) (h : target op ≠ some n) :
    (step env s op).1.files[n]? = s.files[n]? := by
  rw [step_refines]
  cases op with
  | put n' ct t r =>
    have hn : n' ≠ n := by intro e; apply h; simp [target, e]
    cases (step env s (.put n' ct t r)).2 with
    | none => simp [Spec.apply]
    | some o => cases o <;> simp [Spec.apply, Map.get_insert_ne _ _ hn]
  | del n' e =>
    have hn : n' ≠ n := by intro e; apply h; simp [target, e]
    cases (step env s (.del n' e)).2 with
    | none => simp [Spec.apply]
    | some o => cases o <;> simp [Spec.apply, Map.get_erase_ne _ hn]
  | ctag => cases (step env s .ctag).2 <;> simp [Spec.apply]
  | restart => cases (step env s .restart).2 <;> simp [Spec.apply]

/-- A restart loses nothing that is stored. -/
theorem restart_keeps_contents (s : St) :
    (restart s).files = s.files ∧ (restart s).commits = s.commits ∧
    (restart s).worktree = s.worktree := by
  simp [restart]

/-- All three back ends: the statements above are about `Kind`-generic definitions; this is the
    instantiation spelled out. -/
theorem all_backends (env : Env) (ops : List Op) (n : String) :
    ∀ k ∈ [Kind.bare, Kind.tree, Kind.vdir],
      (run env (init k) ops).1.get n =
        match Spec.lastAck n ops (run env (init k) ops).2 with
        | some v => v
        | none => none :=
  fun k _ => get_returns_last_ack_write env k ops n

end Xandikos.Theorems.C01

