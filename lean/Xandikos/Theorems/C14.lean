/-
  C14 — only well-formed data is stored; stored data is a fixed point of upload.
  What `validate()`, `normalized()` and the parsers say about a body is a parameter (`Env`);
  the two library facts used as hypotheses (normalisation is idempotent and yields valid,
  parseable data with the same UID) are tested by the harness, not proved.
-/
import Xandikos.Theorems.C06
import Xandikos.Theorems.C09

namespace Xandikos.Theorems.C14
open Xandikos Xandikos.Store

/-- **An invalid body is refused and nothing is stored**: no change to contents, history,
    cache — the whole state. -/
theorem invalid_refused_noop (env : Env) (s : St) (n : String) (ct : Option String) (t : String)
    (r : Option String) (h : env.valid (handlerFor ct n) t = false) :
    importOne env s n ct t r = (s, .invalid) := by
  unfold importOne; simp [h]

/-- What gets stored is the normal form of what was uploaded. -/
theorem stored_is_norm (env : Env) (s : St) (n : String) (ct : Option String) (t : String)
    (r : Option String) (e : String) (h : (importOne env s n ct t r).2 = .ok e) :
    e = env.norm (handlerFor ct n) t ∧
      (importOne env s n ct t r).1.files[n]? = some (env.norm (handlerFor ct n) t) := by
  have he : e = env.norm (handlerFor ct n) t := by
    rcases importOne_cases env s n ct t r with ⟨_, h2⟩ | ⟨_, h2⟩
    · rw [h] at h2; simp at h2
    · rcases h2 with ⟨_, _, h3⟩ | ⟨_, ⟨_, h4⟩ | ⟨_, ⟨_, h4⟩ | ⟨_, h4 | h4⟩⟩⟩ <;>
        (rw [h] at *; simp_all)
  refine ⟨he, ?_⟩
  rw [importOne_spec, h, ← he]; simp [Spec.apply]

/-- Every acknowledged write stored valid data: an `ok` answer implies the body validated. -/
theorem ok_implies_valid (env : Env) (s : St) (n : String) (ct : Option String) (t : String)
    (r : Option String) (e : String) (h : (importOne env s n ct t r).2 = .ok e) :
    env.valid (handlerFor ct n) t = true := by
  rcases importOne_cases env s n ct t r with ⟨_, h2⟩ | ⟨hv, _⟩
  · rw [h] at h2; simp at h2
  · exact hv

/-- **Re-uploading what the server serves is a no-op**: same ETag, same collection contents
    (hence same tag), no new commit — provided the served body is a fixed point of
    normalisation, validates, parses and carries the UID it is listed under (library facts). -/
theorem reupload_noop (env : Env) (s : St) (hu : UidInv env s) (n : String) (ct : Option String)
    (c : String) (hcur : s.files[n]? = some c) (hl : listed s.kind n = true)
    (hnorm : env.norm (handlerFor ct n) c = c)
    (hvalid : env.valid (handlerFor ct n) c = true)
    (hparse : env.parses .ical c = true)
    (huid : env.uid (handlerFor ct n) c = uidOf env n c)
    (hlock : s.locked = false) :
    (importOne env s n ct c none).2 = .ok c ∧
    (importOne env s n ct c none).1.files = s.files ∧
    (importOne env s n ct c none).1.commits = s.commits := by
  have hout : (importOne env s n ct c none).2 = .ok c := by
    rw [importOne_out]
    have hv : ¬ env.valid (handlerFor ct n) c = false := by simp [hvalid]
    simp only [hv, ↓reduceIte]
    have hdup : dupError (refreshCache env s (env.uid (handlerFor ct n) c))
        (env.uid (handlerFor ct n) c) n = none := by
      cases hcase : env.uid (handlerFor ct n) c with
      | none => simp [dupError]
      | some u =>
        rcases dupError_cases (refreshCache env s (some u)) (some u) n with h | ⟨ex, h⟩
        · exact h
        · exfalso
          obtain ⟨n', e', hne, hf, hl', hu'⟩ := dupError_sound env s hu u n ex h
          rw [huid] at hcase
          exact hne (hu.unique n' e' n c u hf hcur hl' hl hu' hcase)
    simp only [hdup, etagError]
    have hold : oldUnreadable env s (handlerFor ct n) n = false := by
      unfold oldUnreadable
      cases s.kind <;> simp [St.etag, hcur, hparse]
    simp only [hold, Bool.false_eq_true, ↓reduceIte, hnorm]
    unfold writeOne
    cases s.kind <;> simp [hlock]
  refine ⟨hout, ?_, ?_⟩
  · rw [importOne_spec, hout]; simp only [Spec.apply]; exact Map.insert_same hcur
  · -- no commit: the tree is unchanged
    apply importOne_commits_of_files_eq
    rw [importOne_spec, hout]; simp only [Spec.apply]; exact Map.insert_same hcur

/-- Invariant: every listed member validates (given that normal forms validate). -/
def MembersValid (env : Env) (s : St) : Prop :=
  ∀ (n e : String), s.files[n]? = some e → ∃ hk, env.valid hk e = true

theorem members_valid_step (env : Env) (hnv : ∀ hk t, env.valid hk t = true → env.valid hk (env.norm hk t) = true)
    (s : St) (op : Op) (h : MembersValid env s) : MembersValid env (step env s op).1 := by
  intro n e hf
  rw [step_refines] at hf
  cases op with
  | put n' ct t r =>
    cases hout : (step env s (.put n' ct t r)).2 with
    | none => rw [hout] at hf; exact h n e (by simpa [Spec.apply] using hf)
    | some o =>
      rw [hout] at hf
      cases o with
      | ok e' =>
        simp only [Spec.apply] at hf
        by_cases hn : n' = n
        · subst hn
          simp at hf; subst hf
          have hout' : (importOne env s n' ct t r).2 = .ok e' := by
            simpa [step] using hout
          obtain ⟨he, _⟩ := stored_is_norm env s n' ct t r e' hout'
          exact ⟨handlerFor ct n', by rw [he]; exact hnv _ _ (ok_implies_valid env s n' ct t r e' hout')⟩
        · rw [Map.get_insert_ne _ _ hn] at hf; exact h n e hf
      | _ => exact h n e (by simpa [Spec.apply] using hf)
  | del n' e' =>
    cases hout : (step env s (.del n' e')).2 with
    | none => rw [hout] at hf; exact h n e (by simpa [Spec.apply] using hf)
    | some o =>
      rw [hout] at hf
      cases o with
      | deleted =>
        simp only [Spec.apply] at hf
        rw [Map.get_erase] at hf
        split at hf
        · simp at hf
        · exact h n e hf
      | _ => exact h n e (by simpa [Spec.apply] using hf)
  | ctag => cases hout : (step env s .ctag).2 <;> rw [hout] at hf <;> exact h n e (by simpa [Spec.apply] using hf)
  | restart => cases hout : (step env s .restart).2 <;> rw [hout] at hf <;> exact h n e (by simpa [Spec.apply] using hf)

/-- **Every member can always be parsed and served**: after any history on a fresh store,
    every stored body validates under the handler it was uploaded with. -/
theorem members_always_valid (env : Env)
    (hnv : ∀ hk t, env.valid hk t = true → env.valid hk (env.norm hk t) = true)
    (k : Kind) (ops : List Op) : MembersValid env (run env (init k) ops).1 := by
  suffices ∀ s, MembersValid env s → MembersValid env (run env s ops).1 from
    this _ (by intro n e h; simp [init] at h)
  induction ops with
  | nil => intro s hs; simpa [run]
  | cons op ops ih => intro s hs; simp only [run]; exact ih _ (members_valid_step env hnv s op hs)

/-- **the code is the model (HTTP mapping)**: with the `except` tables as translated from /repo
    on this run, an `InvalidFileContents` of the store is answered with the
    `valid-calendar-data` precondition on every path a write can take -/
theorem code_maps_invalid_data :
    Tie.answerTo Generated.exception_bases Generated.set_body_raises Generated.put_update_answers "InvalidFileContents"
      = .refused "valid-calendar-data" ∧
    Tie.answerTo Generated.exception_bases Generated.create_member_raises Generated.put_create_answers "InvalidFileContents"
      = .refused "valid-calendar-data" ∧
    Tie.answerTo Generated.exception_bases Generated.create_member_raises Generated.post_answers "InvalidFileContents"
      = .refused "valid-calendar-data" := ⟨rfl, rfl, rfl⟩

end Xandikos.Theorems.C14
