/-
  C02 — ETags are strong validators and agree across every view of a resource.
  An ETag is modelled as the token of the stored bytes (content addressing; the harness
  re-hashes every served body), wrapped in quotes by `create_strong_etag`.
-/
import Xandikos.Theorems.C01Http
import Xandikos.Store.UidProofs
import Xandikos.Tie.StrongEtagEq

namespace Xandikos.Theorems.C02
open Xandikos Xandikos.Store Xandikos.Http Xandikos.Theorems.C01

/-- **the code is the model**: `web.create_strong_etag`, as translated from /repo on this run, is
    the `strong` every theorem below (and the HTTP spec monitor) is stated with -/
theorem code_is_model (e : String) :
    String.ofList (Generated.create_strong_etag e.toList) = strong e := Tie.create_strong_etag_eq e

/-- **the conditional-update path hands the store the tag it stored**: `web.py` passes
    `extract_strong_etag(etag)` of the strong ETag it has just read as `replace_etag` / `etag`;
    on the translated code, extracting what `create_strong_etag` produced gives the tag back,
    for every tag that does not begin or end with a quote (blob ids, md5 digests) -/
theorem extract_inverts_create (e : List Char) (hne : e ≠ []) (h1 : e.head? ≠ some '"')
    (h2 : e.getLast? ≠ some '"') :
    Generated.extract_strong_etag (some (Generated.create_strong_etag e)) = some e :=
  Tie.extract_create e hne h1 h2

/-- `create_strong_etag` is injective: equal strong tags ⇒ equal content tokens. -/
theorem strong_injective (a b : String) (h : strong a = strong b) : a = b := by
  unfold strong at h
  have h1 : ("\"" ++ a ++ "\"").toList = ("\"" ++ b ++ "\"").toList := by rw [h]
  simp only [String.toList_append] at h1
  rw [List.append_assoc, List.append_assoc] at h1
  have h2 := List.append_cancel_left h1
  have h3 : a.toList = b.toList := List.append_cancel_right h2
  exact String.toList_inj.mp h3

/-- **Two observations carry the same ETag iff the bytes served are identical.** -/
theorem etag_eq_iff_bytes_eq (a b : String) : strong a = strong b ↔ a = b :=
  ⟨strong_injective a b, fun h => h ▸ rfl⟩

/-- The tag a listing shows for a member is the token of the bytes stored under it. -/
theorem listed_tag_is_content (s : St) (n e : String) (h : s.blobs.lookup n = some e) :
    s.files[n]? = some e :=
  ((blobsOf_lookup ..).mp h).1

/-- **GET/HEAD and the listing agree**: when a path resolves to a member with listed tag `e`,
    GET serves the bytes whose token is `e` under the ETag `"e"`. -/
theorem get_agrees_with_listing (w : World) (r : Req) (cp name e : String) (c : Coll)
    (hc : w.colls[cp]? = some c) (hl : c.st.blobs.lookup name = some e)
    (hres : resolve w r.path = some (.member cp name e)) (hnc : r.ifNoneMatch = none) :
    Http.get w r = .body (some (strong e)) (some e) := by
  unfold Http.get
  simp [hres, hnc, hc, listed_tag_is_content c.st name e hl]

/-- **The ETag returned by PUT is the tag of the bytes now stored** (not of the bytes uploaded):
    after an acknowledged PUT some member holds exactly the content whose strong tag was
    returned. -/
theorem put_returns_stored_tag (env : Env) (w : World) (r : Req) (e : String)
    (h : (put env w r).2 = .created e ∨ (put env w r).2 = .updated e) :
    ∃ cp name t, e = strong t ∧ fileAt (put env w r).1 cp name = some t := by
  have key : ∀ (c : Coll) (cp name : String) (ct : Option String) (rep : Option String) (created : Bool),
      w.colls[cp]? = some c →
      (ofStoreOut created (importOne env c.st name ct r.body rep).2 = .created e ∨
       ofStoreOut created (importOne env c.st name ct r.body rep).2 = .updated e) →
      ∃ t, e = strong t ∧
        fileAt (w.setColl cp { c with st := (importOne env c.st name ct r.body rep).1 }) cp name = some t := by
    intro c cp name ct rep created hc ho
    cases hout : (importOne env c.st name ct r.body rep).2 with
    | ok t =>
      rw [hout] at ho
      refine ⟨t, ?_, ?_⟩
      · cases created <;> simp [ofStoreOut] at ho <;> exact ho.symm
      · rw [fileAt_setColl]; simp only [↓reduceIte]
        rw [importOne_spec, hout]; simp [Spec.apply]
    | _ => rw [hout] at ho; cases created <;> simp [ofStoreOut] at ho
  unfold put at h ⊢
  simp only [] at h ⊢
  by_cases h1 : etagRaises (resolve w r.path) = true
  · simp [h1] at h
  · by_cases h2 : condFails r ((resolve w r.path).bind (currentEtag w)) = true
    · simp [h1, h2] at h
    · simp only [h1, h2, Bool.false_eq_true, ↓reduceIte] at h ⊢
      unfold putExec at h ⊢
      cases hres : resolve w r.path with
      | some rr =>
        rw [hres] at h
        cases rr with
        | member cp name e' =>
          simp only [] at h ⊢
          cases hc : w.colls[cp]? with
          | none => simp [hc] at h
          | some c =>
            simp only [hc] at h ⊢
            obtain ⟨t, ht, hf⟩ := key c cp name _ _ false hc h
            exact ⟨cp, name, t, ht, hf⟩
        | root => simp at h
        | dir p => simp at h
        | principal p => simp at h
        | coll p => simp at h
      | none =>
        rw [hres] at h
        simp only [] at h ⊢
        cases hr2 : resolve w (Py.Path.splitS r.path).1 with
        | none => simp [hr2] at h
        | some rr =>
          simp only [hr2] at h ⊢
          cases rr with
          | coll cp =>
            simp only [] at h ⊢
            cases hc : w.colls[cp]? with
            | none => simp [hc] at h
            | some c =>
              simp only [hc] at h ⊢
              obtain ⟨t, ht, hf⟩ := key c cp _ _ _ true hc h
              exact ⟨cp, _, t, ht, hf⟩
          | root => simp at h
          | dir p => simp at h
          | principal p => simp at h
          | member a b c => simp at h

/-- **Nothing else changes an ETag**: a PUT leaves the stored content — hence the ETag — of
    every member other than the one it writes untouched (reads, refused requests and restarts
    change nothing at all, see C01). -/
theorem etag_changes_only_on_write (env : Env) (w : World) (r : Req) :
    ∃ cp₀ n₀, ∀ cp n, ¬ (cp = cp₀ ∧ n = n₀) →
      (fileAt (put env w r).1 cp n).map strong = (fileAt w cp n).map strong := by
  obtain ⟨_, cp₀, n₀, h⟩ := http_put_is_local env w r
  exact ⟨cp₀, n₀, fun cp n hne => by rw [h cp n hne]⟩

/-- A restart changes no ETag. -/
theorem restart_keeps_etags (w : World) (cp n : String) :
    fileAt w.restart cp n = fileAt w cp n := by
  unfold fileAt World.restart
  simp only [Std.ExtTreeMap.getElem?_map]
  cases w.colls[cp]? <;> simp [Store.restart]

end Xandikos.Theorems.C02
