/-
  C09 — the git repository is a faithful, append-only history (bare and tree stores).
-/
import Xandikos.Store.UidProofs

namespace Xandikos.Theorems.C09
open Xandikos Xandikos.Store

/-- Working tree = index, and HEAD's tree = index (or no commit yet and nothing stored). -/
structure GitInv (s : St) : Prop where
  worktree : s.kind = .tree → s.worktree = s.files
  head : s.kind ≠ .vdir → (s.commits.getLast? = some s.files ∨ (s.commits = [] ∧ s.files = ∅))

theorem GitInv.init (k : Kind) : GitInv (init k) := by
  constructor
  · intro _; rfl
  · intro _; right; exact ⟨rfl, rfl⟩

theorem GitInv.cache {s : St} (h : GitInv s) (c : Cache) : GitInv { s with cache := c } :=
  ⟨h.worktree, h.head⟩

theorem commit_inv (s : St) (f : Map String) (hw : s.kind = .tree → s.worktree = f) :
    GitInv (commit s f) := by
  constructor
  · simpa using hw
  · intro _; left; simp

theorem commitIfChanged_inv (s : St) (f : Map String) (hw : s.kind = .tree → s.worktree = f)
    (hh : s.kind ≠ .vdir → (s.commits.getLast? = some s.files ∨ (s.commits = [] ∧ s.files = ∅))) :
    GitInv (commitIfChanged s f) := by
  unfold commitIfChanged
  split
  · rename_i heq; subst heq; exact ⟨hw, hh⟩
  · exact commit_inv s f hw

theorem writeOne_inv (s : St) (n c : String) (h : GitInv s) : GitInv (writeOne s n c).1 := by
  unfold writeOne
  cases hkind : s.kind with
  | vdir => constructor <;> intro hk <;> simp_all
  | bare =>
    apply commitIfChanged_inv
    · intro hk; rw [hkind] at hk; cases hk
    · exact h.head
  | tree =>
    simp only []
    split
    · exact h
    · apply commitIfChanged_inv
      · intro _; simp [h.worktree hkind]
      · intro _; exact h.head (by simp [hkind])

theorem deleteOne_inv (s : St) (n : String) (e : Option String) (h : GitInv s) :
    GitInv (deleteOne s n e).1 := by
  unfold deleteOne
  simp only []
  split
  · exact h
  · split
    · exact h
    · cases hkind : s.kind with
      | vdir => constructor <;> intro hk <;> simp_all
      | bare => exact commit_inv _ _ (by intro hk; rw [hkind] at hk; cases hk)
      | tree =>
        simp only []
        split
        · exact h
        · exact commit_inv _ _ (by intro _; simp [h.worktree hkind])

theorem importOne_inv (env : Env) (s : St) (n : String) (ct : Option String) (t : String)
    (r : Option String) (h : GitInv s) : GitInv (importOne env s n ct t r).1 := by
  unfold importOne
  simp only []
  (repeat' split)
  all_goals first | exact h | exact h.cache _ | exact writeOne_inv _ n _ (h.cache _)

theorem step_inv (env : Env) (s : St) (op : Op) (h : GitInv s) : GitInv (step env s op).1 := by
  cases op with
  | put n ct t r => exact importOne_inv env s n ct t r h
  | del n e => exact deleteOne_inv s n e h
  | ctag =>
    simp only [step, getCtag]
    cases hk : s.kind <;> simp only []
    · exact h
    · exact ⟨by intro _; exact h.worktree hk, by intro _; exact h.head (by simp [hk])⟩
    · exact h
  | restart => exact ⟨h.worktree, h.head⟩

/-- **Working tree, index and HEAD agree after every request** (so `git status` is clean),
    and HEAD's tree lists exactly the current members with the served bytes. -/
theorem three_views_agree (env : Env) (k : Kind) (ops : List Op) :
    GitInv (run env (init k) ops).1 := by
  suffices ∀ s, GitInv s → GitInv (run env s ops).1 from this _ (GitInv.init k)
  induction ops with
  | nil => intro s hs; simpa [run]
  | cons op ops ih => intro s hs; simp only [run]; exact ih _ (step_inv env s op hs)

theorem commitIfChanged_append (s : St) (f : Map String) :
    ∃ l, (commitIfChanged s f).commits = s.commits ++ l ∧ l.length ≤ 1 := by
  rw [commitIfChanged_commits]
  split
  · exact ⟨[], by simp, by simp⟩
  · exact ⟨[f], rfl, by simp⟩

theorem writeOne_append (s : St) (n c : String) :
    ∃ l, (writeOne s n c).1.commits = s.commits ++ l ∧ l.length ≤ 1 := by
  unfold writeOne
  cases s.kind with
  | vdir => exact ⟨[], by simp, by simp⟩
  | bare => exact commitIfChanged_append s _
  | tree =>
    simp only []
    split
    · exact ⟨[], by simp, by simp⟩
    · exact commitIfChanged_append _ _

/-- **Append-only**: one request adds at most one commit and never rewrites or drops one. -/
theorem history_append_only (env : Env) (s : St) (op : Op) :
    ∃ l, (step env s op).1.commits = s.commits ++ l ∧ l.length ≤ 1 := by
  cases op with
  | put n ct t r =>
    simp only [step]
    unfold importOne
    simp only []
    split
    · exact ⟨[], by simp, by simp⟩
    · split
      · exact ⟨[], by simp, by simp⟩
      · split
        · exact ⟨[], by simp, by simp⟩
        · exact writeOne_append _ n _
  | del n e =>
    simp only [step]
    unfold deleteOne
    simp only []
    split
    · exact ⟨[], by simp, by simp⟩
    · split
      · exact ⟨[], by simp, by simp⟩
      · cases s.kind with
        | vdir => exact ⟨[], by simp, by simp⟩
        | bare => exact ⟨[_], rfl, by simp⟩
        | tree =>
          simp only []
          split
          · exact ⟨[], by simp, by simp⟩
          · exact ⟨[_], rfl, by simp⟩
  | ctag =>
    simp only [step, getCtag]
    cases s.kind <;> exact ⟨[], by simp, by simp⟩
  | restart => exact ⟨[], by simp [step, restart], by simp⟩

/-- Existing commits are never rewritten or dropped: the old log is a prefix of the new one,
    for every history. -/
theorem no_rewrite (env : Env) (s : St) (ops : List Op) :
    s.commits <+: (run env s ops).1.commits := by
  induction ops generalizing s with
  | nil => simp [run]
  | cons op ops ih =>
    simp only [run]
    obtain ⟨l, hl, _⟩ := history_append_only env s op
    have h1 : s.commits <+: (step env s op).1.commits := by rw [hl]; exact List.prefix_append _ _
    exact h1.trans (ih _)

theorem commitIfChanged_iff (s : St) (f : Map String) :
    ((commitIfChanged s f).files = s.files ∧ (commitIfChanged s f).commits = s.commits) ∨
    ((commitIfChanged s f).files ≠ s.files ∧
      (commitIfChanged s f).commits = s.commits ++ [(commitIfChanged s f).files]) := by
  rw [commitIfChanged_commits, commitIfChanged_files]
  by_cases h : f = s.files
  · left; simp [h]
  · right; simp [h]

/-- **Exactly one commit per change, none otherwise** (git back ends): a request adds a commit
    iff it changes the stored tree (members or the versioned metadata file), and that commit's
    tree is the new tree. -/
theorem one_commit_iff_change (env : Env) (s : St) (op : Op) (h : GitInv s)
    (hk : s.kind ≠ .vdir) :
    ((step env s op).1.files = s.files ∧ (step env s op).1.commits = s.commits) ∨
    ((step env s op).1.files ≠ s.files ∧
      (step env s op).1.commits = s.commits ++ [(step env s op).1.files]) := by
  cases op with
  | put n ct t r =>
    simp only [step]
    unfold importOne
    simp only []
    (repeat' split)
    all_goals first | (left; exact ⟨rfl, rfl⟩) | skip
    unfold writeOne
    cases hkind : s.kind with
    | vdir => exact absurd hkind hk
    | bare => exact commitIfChanged_iff _ _
    | tree =>
      simp only []
      split
      · left; exact ⟨rfl, rfl⟩
      · exact commitIfChanged_iff _ _
  | del n e =>
    simp only [step]
    unfold deleteOne
    simp only []
    split
    · left; exact ⟨rfl, rfl⟩
    · rename_i c hcur
      split
      · left; exact ⟨rfl, rfl⟩
      · have hfiles : s.files[n]? = some c := by
          cases hkind : s.kind with
          | vdir => exact absurd hkind hk
          | bare => simpa [hkind] using hcur
          | tree => rw [← h.worktree hkind]; simpa [hkind] using hcur
        have hne : s.files.erase n ≠ s.files := by
          intro heq
          have : (s.files.erase n)[n]? = s.files[n]? := by rw [heq]
          simp [hfiles] at this
        cases hkind : s.kind with
        | vdir => exact absurd hkind hk
        | bare => right; exact ⟨by simpa using hne, rfl⟩
        | tree =>
          simp only []
          split
          · left; exact ⟨rfl, rfl⟩
          · right; exact ⟨by simpa using hne, rfl⟩
  | ctag =>
    left
    simp only [step, getCtag]
    cases s.kind <;> exact ⟨rfl, rfl⟩
  | restart => left; exact ⟨rfl, rfl⟩

end Xandikos.Theorems.C09
