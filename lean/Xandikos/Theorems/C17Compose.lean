/-
  C16 ∘ C17 — a listing's hrefs, sent back in a multiget, give the members' data.

  `C16Resolve.listed_member_href_resolves`: the href emitted for a listed member resolves to
  that member.  `C17.multiget_is_spec` / `every_href_answered`: the report is `answerFor`, href
  by href.  This file chains them through the pieces in between — `read_href_element` of the
  emitted text, `href_to_path` under the mount point — so that the client-visible loop
  "PROPFIND Depth 1, then multiget on what it listed" is one theorem.
-/
import Xandikos.Theorems.C16Resolve
import Xandikos.Theorems.C17

namespace Xandikos.Theorems.C17
open Xandikos Xandikos.Store Xandikos.Http Xandikos.Py Xandikos.Theorems.C16

/-- `environ["SCRIPT_NAME"].rstrip("/")`: what the server puts in front of a path when it emits
    an href, and what `href_to_path` takes off again -/
def mount (script : String) : String := String.ofList (Path.rstripSlash script.toList)

/-- `href_to_path` undoes the mount point for every absolute path -/
theorem hrefToPath_mount (script p : String) (habs : p.toList.head? = some '/') :
    hrefToPath script (mount script ++ p) = some p := by
  unfold hrefToPath mount
  rw [String.toList_append, String.toList_ofList]
  cases hp : p.toList with
  | nil => simp [hp] at habs
  | cons a rest =>
    have ha : a = '/' := by simpa [hp] using habs
    subst ha
    rw [inside_mount_point, Option.map_some, ← hp, String.ofList_toList]

/-- the child href of an absolute collection path is absolute -/
theorem childHref_abs {cp : String} (habs : cp.toList.head? = some '/') (name : String) :
    (childHref cp name).toList.head? = some '/' := by
  unfold childHref ensureTrailingSlash
  split
  · rw [String.toList_append]
    cases h : cp.toList with
    | nil => simp [h] at habs
    | cons a as => simpa [h] using habs
  · rw [String.toList_append, String.toList_append]
    cases h : cp.toList with
    | nil => simp [h] at habs
    | cons a as => simpa [h] using habs

/-- **A listed member's href, sent back in a multiget, is answered with that member's ETag and
    data.**  `mount script ++ childHref cp name` is the path the response element of a Depth-1
    PROPFIND carries for the member (`SCRIPT_NAME + PATH_INFO + name`), `hrefText` of it the
    element text.  Read back by `read_href_element`, mapped by `href_to_path` and looked up,
    the answer is `found` with the strong form of the listed ETag and — for the reporter of the
    member's kind — the stored content. -/
theorem listed_member_multiget_answer (w : World) (want : HKind) (script cp name e : String)
    (c : Coll)
    (habs : cp.toList.head? = some '/') (hfix : Path.normpathS cp = cp)
    (hnr : Path.lstripSlash cp.toList ≠ []) (hname : Path.Clean name.toList)
    (hgit : hasGitSegment (cp ++ "/" ++ name) = false)
    (hcoll : w.colls[cp]? = some c) (hmem : c.st.blobs.lookup name = some e)
    (hfile : w.colls.contains (cp ++ "/" ++ name) = false ∧
      w.dirs.contains (cp ++ "/" ++ name) = false)
    (hds : Url.startsDoubleSlash (mount script ++ childHref cp name).toList = false) :
    answerFor w want script (readHrefEl (hrefText (mount script ++ childHref cp name))) =
      .found (some (strong e)) (if hkOfName name = want then c.st.files[name]? else none) := by
  have hres := listed_member_href_resolves w cp name e c habs hfix hnr hname hgit hcoll hmem hfile
  rw [href_decodes] at hres
  rw [emitted_href_reads_back _ hds]
  unfold answerFor
  rw [hrefToPath_mount script _ (childHref_abs habs name), Option.bind_some, hres]
  simp only [answerOf, hcoll, Option.bind_some]

/-- **PROPFIND, then multiget on what it listed.**  For every `(name, e)` a Depth-1 listing of
    the collection shows, a multiget that contains the emitted href among any others reports it
    exactly once with `found`, the strong ETag and the stored content; and that content and
    ETag are what `GET` on the same path serves. -/
theorem listing_then_multiget (w : World) (want : HKind) (script cp : String) (c : Coll)
    (habs : cp.toList.head? = some '/') (hfix : Path.normpathS cp = cp)
    (hnr : Path.lstripSlash cp.toList ≠ []) (hcoll : w.colls[cp]? = some c)
    (name e : String) (hm : (name, e) ∈ c.st.blobs) (hname : Path.Clean name.toList)
    (hgit : hasGitSegment (cp ++ "/" ++ name) = false)
    (hfile : w.colls.contains (cp ++ "/" ++ name) = false ∧
      w.dirs.contains (cp ++ "/" ++ name) = false)
    (hds : Url.startsDoubleSlash (mount script ++ childHref cp name).toList = false)
    (hk : hkOfName name = want)
    (others₁ others₂ : List String) :
    let h := readHrefEl (hrefText (mount script ++ childHref cp name))
    (h, MgAnswer.found (some (strong e)) (some e)) ∈ multiget w want script (others₁ ++ h :: others₂) ∧
    (∀ a, (h, a) ∈ multiget w want script (others₁ ++ h :: others₂) →
      a = MgAnswer.found (some (strong e)) (some e)) ∧
    Http.get w { path := childHref cp name } = .body (some (strong e)) (some e) := by
  intro h
  have hf := (listing_is_exact c.st name e).mp hm
  have hlk : c.st.blobs.lookup name = some e := (Store.blobsOf_lookup ..).mpr hf
  have hans := listed_member_multiget_answer w want script cp name e c habs hfix hnr hname hgit
    hcoll hlk hfile hds
  rw [if_pos hk, hf.1] at hans
  have hres := listed_member_href_resolves w cp name e c habs hfix hnr hname hgit hcoll hlk hfile
  rw [href_decodes] at hres
  refine ⟨?_, ?_, ?_⟩
  · have := every_href_answered w want script (others₁ ++ h :: others₂) h (by simp)
    rwa [hans] at this
  · intro a ha
    rw [(multiget_is_spec w want script _ h a ha).1, hans]
  · simp [Http.get, hres, hcoll, hf.1]

/-! ### non-vacuity: a concrete world, mounted below `/dav/`

  The address book of `C16Resolve`'s example; `hgit` stays a hypothesis for the reason given
  there (`String.splitOn` does not reduce in the kernel). -/

section Example

private def exSt : Store.St :=
  { kind := .tree
    files := ((∅ : Map String).insert "a:b c%#?.vcf" "e1").insert ".xandikos" "m" }
private def exColl : Coll := { st := exSt, ctype := .addressbook }
private def exWorld : World :=
  { dirs := ["/user"], colls := (∅ : Map Coll).insert "/user/contacts" exColl }

example (hgit : hasGitSegment ("/user/contacts" ++ "/" ++ "a:b c%#?.vcf") = false)
    (hk : hkOfName "a:b c%#?.vcf" = .vcard) :   -- `String.endsWith`: evaluates, does not reduce
    answerFor exWorld .vcard "/dav/"
        (readHrefEl (hrefText (mount "/dav/" ++ childHref "/user/contacts" "a:b c%#?.vcf"))) =
      .found (some (strong "e1")) (some "e1") := by
  have h := listed_member_multiget_answer exWorld .vcard "/dav/" "/user/contacts" "a:b c%#?.vcf" "e1"
    exColl (by decide) ?_ (by decide) (by decide) hgit ?_ ?_ ?_ (by decide)
  · rw [h, if_pos hk]
    show MgAnswer.found _ ((((∅ : Map String).insert "a:b c%#?.vcf" "e1").insert ".xandikos" "m")["a:b c%#?.vcf"]?) = _
    rw [Map.get_insert_ne _ _ (by decide), Map.get_insert_self]
  · show String.ofList (Path.normpath "/user/contacts".toList) = "/user/contacts"
    rw [show Path.normpath "/user/contacts".toList = "/user/contacts".toList by decide,
      String.ofList_toList]
  · simp [exWorld]
  · refine (Store.blobsOf_lookup ..).mpr ⟨?_, by decide⟩
    show (((∅ : Map String).insert "a:b c%#?.vcf" "e1").insert ".xandikos" "m")["a:b c%#?.vcf"]?
      = some "e1"
    rw [Map.get_insert_ne _ _ (by decide), Map.get_insert_self]
  · constructor
    · simp [exWorld]
    · simp [exWorld]

end Example

end Xandikos.Theorems.C17
