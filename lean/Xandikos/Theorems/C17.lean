/-
  C17 — multiget returns, for each requested href, the current resource or 404.
-/
import Xandikos.Http.Multiget
import Xandikos.Py.UrlProofs
import Xandikos.Tie.HrefEq
import Xandikos.Tie.MultigetEq

namespace Xandikos.Theorems.C17
open Xandikos Xandikos.Http Xandikos.Store Xandikos.Py

/-- **the code is the model**: `webdav.href_to_path`, as translated from /repo on this run, is
    the `hrefToPathChars` the multiget theorems below are about -/
theorem code_is_model_href_to_path (script href : List Char) :
    Generated.href_to_path script href = hrefToPathChars (Path.rstripSlash script) href :=
  Tie.href_to_path_eq script href

/-! ### `dict.fromkeys` -/

theorem mem_dedup (l : List String) (x : String) : x ∈ dedup l ↔ x ∈ l := by
  induction l with
  | nil => simp [dedup]
  | cons y ys ih =>
    simp only [dedup, List.mem_cons, List.mem_filter, ih]
    by_cases h : x = y <;> simp [h]

theorem nodup_dedup (l : List String) : (dedup l).Nodup := by
  induction l with
  | nil => simp [dedup]
  | cons y ys ih =>
    simp only [dedup, List.nodup_cons, List.mem_filter]
    exact ⟨by simp, ih.filter _⟩

/-! ### the path dictionary -/

def hrefsOf (d : List (String × List String)) : List String := d.flatMap (·.2)

theorem addPath_perm (d : List (String × List String)) (p h : String) :
    (hrefsOf (addPath d p h)).Perm (hrefsOf d ++ [h]) := by
  induction d with
  | nil => simp [addPath, hrefsOf]
  | cons e rest ih =>
    obtain ⟨q, hs⟩ := e
    unfold addPath
    split
    · simp only [hrefsOf, List.flatMap_cons, List.append_assoc]
      exact List.Perm.append_left hs List.perm_append_comm
    · simp only [hrefsOf, List.flatMap_cons, List.append_assoc] at ih ⊢
      exact List.Perm.append_left hs ih

theorem addPath_sound (f : String → Option String) (d : List (String × List String)) (p h : String)
    (hd : ∀ e ∈ d, ∀ x ∈ e.2, f x = some e.1) (hp : f h = some p) :
    ∀ e ∈ addPath d p h, ∀ x ∈ e.2, f x = some e.1 := by
  induction d with
  | nil =>
    intro e he x hx
    simp only [addPath, List.mem_singleton] at he
    subst he
    simp only [List.mem_singleton] at hx
    subst hx
    exact hp
  | cons e0 rest ih =>
    obtain ⟨q, hs⟩ := e0
    intro e he x hx
    unfold addPath at he
    split at he
    · rename_i hq
      rcases List.mem_cons.mp he with rfl | he'
      · rcases List.mem_append.mp hx with hx' | hx'
        · exact hd (q, hs) (by simp) x hx'
        · simp only [List.mem_singleton] at hx'
          subst hx'
          simpa [hq] using hp
      · exact hd e (List.mem_cons_of_mem _ he') x hx
    · rcases List.mem_cons.mp he with rfl | he'
      · exact hd (q, hs) (by simp) x hx
      · exact ih (fun e he => hd e (List.mem_cons_of_mem _ he)) e he' x hx

/-! ### the first loop: an invariant over the hrefs consumed so far -/

def keysOf (a : MgAcc) : List String := a.early ++ hrefsOf a.paths

structure AccInv (script : String) (a : MgAcc) : Prop where
  early : ∀ h ∈ a.early, hrefToPath script h = none
  paths : ∀ e ∈ a.paths, ∀ x ∈ e.2, hrefToPath script x = some e.1

theorem mgStep_keys (script : String) (a : MgAcc) (h : String) :
    (keysOf (mgStep script a h)).Perm (keysOf a ++ [h]) := by
  unfold mgStep keysOf
  split
  · simp only [List.append_assoc]
    exact List.Perm.append_left _ List.perm_append_comm
  · simp only [List.append_assoc]
    exact List.Perm.append_left _ (addPath_perm _ _ _)

theorem mgStep_inv (script : String) (a : MgAcc) (h : String) (ha : AccInv script a) :
    AccInv script (mgStep script a h) := by
  unfold mgStep
  split
  · rename_i hn
    refine ⟨?_, ha.paths⟩
    intro x hx
    rcases List.mem_append.mp hx with hx | hx
    · exact ha.early x hx
    · simp only [List.mem_singleton] at hx
      subst hx
      exact hn
  · rename_i p hp
    exact ⟨ha.early, addPath_sound (hrefToPath script) a.paths p h ha.paths hp⟩

theorem fold_keys (script : String) (l : List String) (a : MgAcc) :
    (keysOf (l.foldl (mgStep script) a)).Perm (keysOf a ++ l) := by
  induction l generalizing a with
  | nil => simp
  | cons h t ih =>
    simp only [List.foldl_cons]
    refine (ih (mgStep script a h)).trans ?_
    have := (mgStep_keys script a h).append_right t
    simpa [List.append_assoc] using this

theorem fold_inv (script : String) (l : List String) (a : MgAcc) (ha : AccInv script a) :
    AccInv script (l.foldl (mgStep script) a) := by
  induction l generalizing a with
  | nil => simpa
  | cons h t ih => exact ih _ (mgStep_inv script a h ha)

/-! ### the property -/

theorem keys_of_result {ρ : Type} (lookup : String → Option ρ) (a : MgAcc) :
    (a.early.map (fun h => (h, (none : Option ρ))) ++
      a.paths.flatMap fun (p, hs) => hs.map fun h => (h, lookup p)).map (·.1) = keysOf a := by
  simp only [List.map_append, List.map_map, keysOf, hrefsOf]
  congr 1
  · simp [Function.comp_def]
  · induction a.paths with
    | nil => simp
    | cons e rest ih =>
      obtain ⟨p, hs⟩ := e
      simp only [List.flatMap_cons, List.map_append, ih, List.map_map]
      congr 1
      simp [Function.comp_def]

/-- **Every distinct requested href is answered exactly once**: the hrefs of the response
    elements are a permutation of the distinct requested hrefs — whatever the hrefs are
    (existing, deleted, duplicated, outside the mount point, several spellings of one path). -/
theorem each_href_once {ρ : Type} (lookup : String → Option ρ) (script : String) (hrefs : List String) :
    ((resourcesByHrefs lookup script hrefs).map (·.1)).Perm (dedup hrefs) ∧
    ((resourcesByHrefs lookup script hrefs).map (·.1)).Nodup := by
  have hk : ((resourcesByHrefs lookup script hrefs).map (·.1)) =
      keysOf ((dedup hrefs).foldl (mgStep script) {}) := keys_of_result lookup _
  have hp := fold_keys script (dedup hrefs) {}
  simp only [keysOf, hrefsOf, List.flatMap_nil, List.append_nil, List.nil_append] at hp
  rw [hk]
  exact ⟨hp, (List.Perm.nodup_iff hp).mpr (nodup_dedup hrefs)⟩

/-- **the code is the model**: the two loops of `webdav._get_resources_by_hrefs`, as translated
    from /repo on this run, compute `resourcesByHrefs` (and `paths[relpath]` never raises) -/
theorem code_is_model_resources_by_hrefs {ρ : Type} (lookup : String → Option ρ) (script : String)
    (hrefs : List String) :
    Generated.resources_by_hrefs lookup script hrefs = .ok (resourcesByHrefs lookup script hrefs) :=
  Tie.resources_by_hrefs_eq lookup script hrefs

/-- **on the translated code: every distinct requested href is answered exactly once** -/
theorem code_each_href_once {ρ : Type} (lookup : String → Option ρ) (script : String) (hrefs : List String) :
    ∃ rows, Generated.resources_by_hrefs lookup script hrefs = .ok rows ∧
      (rows.map (·.1)).Perm (dedup hrefs) ∧ (rows.map (·.1)).Nodup :=
  ⟨_, code_is_model_resources_by_hrefs lookup script hrefs, each_href_once lookup script hrefs⟩

/-- **The answer for an href is a function of that href alone**: whatever else was requested,
    the resource reported for `h` is the one its own path resolves to (`none`: 404). -/
theorem answer_pointwise {ρ : Type} (lookup : String → Option ρ) (script : String) (hrefs : List String)
    (h : String) (r : Option ρ) (hm : (h, r) ∈ resourcesByHrefs lookup script hrefs) :
    r = (hrefToPath script h).bind lookup := by
  have inv := fold_inv script (dedup hrefs) {} ⟨by simp, by simp⟩
  unfold resourcesByHrefs at hm
  simp only [List.mem_append, List.mem_map, List.mem_flatMap] at hm
  rcases hm with ⟨x, hx, he⟩ | ⟨e, he, x, hx, hxe⟩
  · cases he
    simp [inv.early h hx]
  · cases hxe
    simp [inv.paths e he h hx]

/-- per-href independence, as the property words it: the same href gets the same answer in any
    two requests -/
theorem independent_of_other_hrefs (w : World) (want : HKind) (script : String) (l₁ l₂ : List String)
    (h : String) (a₁ a₂ : MgAnswer) (h₁ : (h, a₁) ∈ multiget w want script l₁)
    (h₂ : (h, a₂) ∈ multiget w want script l₂) : a₁ = a₂ := by
  unfold multiget at h₁ h₂
  simp only [List.mem_map] at h₁ h₂
  obtain ⟨⟨k₁, r₁⟩, m₁, e₁⟩ := h₁
  obtain ⟨⟨k₂, r₂⟩, m₂, e₂⟩ := h₂
  cases e₁
  cases e₂
  rw [answer_pointwise _ _ _ _ _ m₁, answer_pointwise _ _ _ _ _ m₂]

/-- the report is the specification, href by href -/
theorem multiget_is_spec (w : World) (want : HKind) (script : String) (hrefs : List String)
    (h : String) (a : MgAnswer) (hm : (h, a) ∈ multiget w want script hrefs) :
    a = answerFor w want script h ∧ h ∈ hrefs := by
  unfold multiget at hm
  simp only [List.mem_map] at hm
  obtain ⟨⟨k, r⟩, m, e⟩ := hm
  cases e
  refine ⟨by rw [answer_pointwise _ _ _ _ _ m]; rfl, ?_⟩
  have := (each_href_once (resolve w) script hrefs).1
  have hk : k ∈ (resourcesByHrefs (resolve w) script hrefs).map (·.1) := List.mem_map.mpr ⟨_, m, rfl⟩
  exact (mem_dedup hrefs k).mp ((List.Perm.mem_iff this).mp hk)

/-- and every requested href is in the report -/
theorem every_href_answered (w : World) (want : HKind) (script : String) (hrefs : List String)
    (h : String) (hh : h ∈ hrefs) : (h, answerFor w want script h) ∈ multiget w want script hrefs := by
  have hp := (each_href_once (resolve w) script hrefs).1
  have : h ∈ (resourcesByHrefs (resolve w) script hrefs).map (·.1) :=
    (List.Perm.mem_iff hp).mpr ((mem_dedup hrefs h).mpr hh)
  obtain ⟨⟨k, r⟩, m, e⟩ := List.mem_map.mp this
  have e' : k = h := e
  rw [← e']
  unfold multiget
  refine List.mem_map.mpr ⟨(k, r), m, ?_⟩
  simp only [answerFor, answer_pointwise _ _ _ _ _ m]

/-- **Not found, and never data**, for an href outside the mount point, an href whose path
    does not resolve (deleted, never existed, below `.git`), and — for the data property — a
    resource of another kind (a collection, a card in a calendar-multiget). -/
theorem no_data_unless_member_of_kind (w : World) (want : HKind) (script h : String) :
    (hrefToPath script h = none → answerFor w want script h = .notFound) ∧
    (∀ p, hrefToPath script h = some p → resolve w p = none → answerFor w want script h = .notFound) ∧
    (∀ e d, answerFor w want script h = .found e (some d) →
      ∃ p cp name t, hrefToPath script h = some p ∧ resolve w p = some (.member cp name t) ∧
        hkOfName name = want) := by
  refine ⟨fun hn => by simp [answerFor, hn, answerOf], fun p hp hr => by simp [answerFor, hp, hr, answerOf], ?_⟩
  intro e d ha
  unfold answerFor at ha
  cases hp : hrefToPath script h with
  | none => simp [hp, answerOf] at ha
  | some p =>
    simp only [hp, Option.bind_some] at ha
    cases hr : resolve w p with
    | none => simp [hr, answerOf] at ha
    | some r =>
      rw [hr] at ha
      cases r with
      | member cp name t =>
        simp only [answerOf, MgAnswer.found.injEq] at ha
        by_cases hk : hkOfName name = want
        · exact ⟨p, cp, name, t, rfl, hr, hk⟩
        · simp [hk] at ha
      | root => simp [answerOf] at ha
      | dir _ => simp [answerOf] at ha
      | principal _ => simp [answerOf] at ha
      | coll _ => simp [answerOf] at ha

/-- **ETag and data are those GET serves**: for a member of the right kind, the report carries
    exactly the ETag and the body of `GET` on the same path in the same state. -/
theorem data_is_what_get_serves (w : World) (want : HKind) (script h p : String)
    (hp : hrefToPath script h = some p) (cp name t : String)
    (hr : resolve w p = some (.member cp name t)) (hk : hkOfName name = want) :
    ∃ body, Http.get w { path := p } = .body (some (strong t)) body ∧
      answerFor w want script h = .found (some (strong t)) body := by
  refine ⟨(w.colls[cp]?).bind fun c => c.st.files[name]?, ?_, ?_⟩
  · simp [Http.get, hr]
  · simp [answerFor, hp, hr, answerOf, hk]

/-- **An href the server emitted is read back as the path it was emitted for** (what failed
    for `a%23b.ics` before the repair): `read_href_element` of `create_href(p)` is `p`. -/
theorem emitted_href_reads_back (p : String) (hp : Url.startsDoubleSlash p.toList = false) :
    readHrefEl (hrefText p) = p := by
  unfold readHrefEl hrefText
  rw [Url.urlsplit_path_quote p hp, Url.unquote_quote]

/-- non-vacuity of the hypothesis: every path below a mount point is of this form -/
example : Url.startsDoubleSlash "/dav/user/calendars/calendar/a#b.ics".toList = false := by decide

/-- the whole chain on a concrete request: duplicates, an href outside the mount point, a
    look-alike of the mount point, two spellings of the root -/
example : resourcesByHrefs (fun p => if p = "/a" then some 1 else none) "/dav/"
      ["/dav/a", "/x", "/dav/a", "/x", "/dav", "/davx/a", "/dav/"] =
    [("/x", none), ("/davx/a", none), ("/dav/a", some 1), ("/dav", none), ("/dav/", none)] := by
  decide +kernel

/-- the mount point is a boundary: an href that does not continue the script name with `/`
    maps to no path (what failed for `/davuser/…` under `/dav` before the repair) -/
theorem outside_mount_point (sn href : List Char) (hne : href ≠ sn)
    (hpre : (sn ++ ['/']).isPrefixOf href = false) : hrefToPathChars sn href = none := by
  unfold hrefToPathChars
  simp [hne, hpre]

/-- and inside the mount point the path is what follows the script name -/
theorem inside_mount_point (sn p : List Char) : hrefToPathChars sn (sn ++ '/' :: p) = some ('/' :: p) := by
  unfold hrefToPathChars
  have h1 : sn ++ '/' :: p ≠ [] := by simp
  have h2 : sn ++ '/' :: p ≠ sn := by
    intro h
    have := congrArg List.length h
    simp at this
  have h3 : (sn ++ ['/']).isPrefixOf (sn ++ '/' :: p) = true := by
    rw [List.isPrefixOf_iff_prefix]
    exact ⟨p, by simp⟩
  simp [h1, h2, h3]

end Xandikos.Theorems.C17
