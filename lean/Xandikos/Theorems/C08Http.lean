/-
  C08 at the HTTP level — "not changed by writes to other collections": a PUT (and a DELETE of a
  member) replaces at most one collection of the world; every other collection, and therefore
  its tag (`C08.tag`, the tree of its versioned contents), is the very same value afterwards.
-/
import Xandikos.Theorems.C08
import Xandikos.Theorems.C01Http

namespace Xandikos.Theorems.C08
open Xandikos Xandikos.Store Xandikos.Http

theorem colls_setColl_ne (w : World) (cp : String) (c : Coll) (cp' : String) (h : cp' ≠ cp) :
    (w.setColl cp c).colls[cp']? = w.colls[cp']? := by
  unfold World.setColl
  simp only [Map.get_insert]
  split
  · rename_i e; exact absurd e.symm h
  · rfl

/-- **A PUT replaces at most one collection**: there is one collection path such that every
    other collection of the world is unchanged — members, metadata file, everything the tag
    covers — whatever the request's path, headers and body. -/
theorem http_put_touches_one_collection (env : Env) (w : World) (r : Req) :
    ∃ cp₀ : String, ∀ cp : String, cp ≠ cp₀ → (put env w r).1.colls[cp]? = w.colls[cp]? := by
  unfold put
  simp only []
  split
  · exact ⟨"", fun _ _ => rfl⟩
  · split
    · exact ⟨"", fun _ _ => rfl⟩
    · unfold putExec
      split
      · rename_i cp name e _
        split
        · exact ⟨cp, fun cp' h => colls_setColl_ne w cp _ cp' h⟩
        · exact ⟨"", fun _ _ => rfl⟩
      · exact ⟨"", fun _ _ => rfl⟩
      · simp only []
        split
        · exact ⟨"", fun _ _ => rfl⟩
        · rename_i cp _
          split
          · exact ⟨cp, fun cp' h => colls_setColl_ne w cp _ cp' h⟩
          · exact ⟨"", fun _ _ => rfl⟩
        · exact ⟨"", fun _ _ => rfl⟩
        · exact ⟨"", fun _ _ => rfl⟩

/-- the tag of a collection of the world (none: no such collection, or a vdir) -/
def tagAt (w : World) (cp : String) : Option (Map String) := (w.colls[cp]?).bind fun c => tag c.st

/-- **The tag of every other collection is unchanged by a PUT.** -/
theorem tag_unchanged_by_put_elsewhere (env : Env) (w : World) (r : Req) :
    ∃ cp₀ : String, ∀ cp : String, cp ≠ cp₀ → tagAt (put env w r).1 cp = tagAt w cp := by
  obtain ⟨cp₀, h⟩ := http_put_touches_one_collection env w r
  exact ⟨cp₀, fun cp hne => by unfold tagAt; rw [h cp hne]⟩

end Xandikos.Theorems.C08
