/-
  C05 — concurrent writes behave as if executed one after another.

  Full statement (for the code as it is, it holds in `Mode.threads` and fails in
  `Mode.processes`):  for every prior state, operations and schedule, the final members and the
  result of every operation are those of some sequential execution of the operations that were
  not refused as locked.
-/
import Xandikos.Store.Conc

namespace Xandikos.Theorems.C05
open Xandikos.Store.Conc
open Xandikos.Store.Crash (setKey delKey)

/-! ### one server process: the store's lock makes an operation one step -/

theorem seqRun_append (uidOf : String → Option String) (m : Members) (a b : List Op) :
    seqRun uidOf m (a ++ b) =
      ((seqRun uidOf (seqRun uidOf m a).1 b).1, (seqRun uidOf m a).2 ++ (seqRun uidOf (seqRun uidOf m a).1 b).2) := by
  induction a generalizing m with
  | nil => simp [seqRun]
  | cons op rest ih =>
    simp only [List.cons_append, seqRun]
    rw [ih]

theorem seqRun_single (uidOf : String → Option String) (m : Members) (op : Op) :
    seqRun uidOf m [op] = ((atomic uidOf m op).1, [(atomic uidOf m op).2]) := by
  simp [seqRun]

/-- what the threads that have run look like: `order` lists them in execution order, and the
    shared members and their results are those of running their operations one after another -/
structure SerialWitness (uidOf : String → Option String) (m₀ : Members) (sh : Shared) (ts : List Thread)
    (order : List Nat) : Prop where
  nodup : order.Nodup
  done_iff : ∀ i t, ts[i]? = some t → ((∃ r, t.pc = .done r) ↔ i ∈ order)
  notStarted : ∀ i t, ts[i]? = some t → i ∉ order → t.pc = .start
  run : seqRun uidOf m₀ (order.filterMap fun i => (ts[i]?).map (·.op)) =
    (sh.members, order.filterMap fun i => (ts[i]?).bind fun t => match t.pc with | .done r => some r | _ => none)

theorem filterMap_congr_mem {α β : Type} (l : List α) (f g : α → Option β) (h : ∀ a ∈ l, f a = g a) :
    l.filterMap f = l.filterMap g := by
  induction l with
  | nil => rfl
  | cons x t ih =>
    simp only [List.filterMap_cons, h x (List.mem_cons_self ..)]
    rw [ih (fun a ha => h a (List.mem_cons_of_mem _ ha))]

theorem getElem?_setNth_self {α : Type} (l : List α) (i : Nat) (v x : α) (h : l[i]? = some x) :
    (setNth l i v)[i]? = some v := by
  induction l generalizing i with
  | nil => simp at h
  | cons y t ih =>
    cases i with
    | zero => simp [setNth]
    | succ j => simp only [setNth, List.getElem?_cons_succ] at h ⊢; exact ih j h

theorem getElem?_setNth_ne {α : Type} (l : List α) (i j : Nat) (v : α) (h : i ≠ j) :
    (setNth l i v)[j]? = l[j]? := by
  induction l generalizing i j with
  | nil => simp [setNth]
  | cons y t ih =>
    cases i with
    | zero =>
      cases j with
      | zero => exact absurd rfl h
      | succ j' => simp [setNth]
    | succ i' =>
      cases j with
      | zero => simp [setNth]
      | succ j' => simp only [setNth, List.getElem?_cons_succ]; exact ih i' j' (by omega)

/-- **One process: any interleaving is a sequential execution.**  Whatever the schedule, the
    threads that have run did so in some order, and members and results are exactly those of
    executing their operations in that order — for every prior state and any operations. -/
theorem threads_serialisable (uidOf : String → Option String) (k : Kind) (m₀ : Members) (sched : List Nat)
    (sh : Shared) (ts : List Thread) (order : List Nat) (w : SerialWitness uidOf m₀ sh ts order) :
    ∃ order', SerialWitness uidOf m₀ (runSched uidOf k .threads sh ts sched).1
      (runSched uidOf k .threads sh ts sched).2 order' := by
  induction sched generalizing sh ts order with
  | nil => exact ⟨order, w⟩
  | cons i rest ih =>
    unfold runSched
    cases hi : ts[i]? with
    | none => exact ih sh ts order w
    | some t =>
      simp only
      by_cases hd : ∃ r, t.pc = .done r
      · -- already done: the step changes nothing
        obtain ⟨r, hr⟩ := hd
        have hstep : stepThread uidOf k .threads i sh t = (sh, t) := by
          simp [stepThread, hr]
        rw [hstep]
        have hset : setNth ts i t = ts := by
          apply List.ext_getElem?
          intro j
          by_cases hj : i = j
          · subst hj; rw [getElem?_setNth_self ts i t t hi, hi]
          · rw [getElem?_setNth_ne ts i j t hj]
        rw [hset]
        exact ih sh ts order w
      · -- it runs now, after everything that ran before
        have hni : i ∉ order := fun hm => hd ((w.done_iff i t hi).mpr hm)
        have hstart : t.pc = .start := w.notStarted i t hi hni
        have hstep : stepThread uidOf k .threads i sh t =
            ({ sh with members := (atomic uidOf sh.members t.op).1, wt := (atomic uidOf sh.members t.op).1,
                       log := if (atomic uidOf sh.members t.op).2 = .ok then sh.log ++ [(i, t.op)] else sh.log },
             { t with pc := .done (atomic uidOf sh.members t.op).2 }) := by
          simp [stepThread, hstart]
        rw [hstep]
        refine ih _ _ (order ++ [i]) ?_
        have hself := getElem?_setNth_self ts i { t with pc := .done (atomic uidOf sh.members t.op).2 } t hi
        have hother : ∀ j, i ≠ j → (setNth ts i { t with pc := .done (atomic uidOf sh.members t.op).2 })[j]? = ts[j]? :=
          fun j hj => getElem?_setNth_ne ts i j _ hj
        refine ⟨?_, ?_, ?_, ?_⟩
        · rw [List.nodup_append]
          exact ⟨w.nodup, by simp, by intro a ha b hb; simp at hb; subst hb; intro e; subst e; exact hni ha⟩
        · intro j tj hj
          by_cases e : i = j
          · subst e
            rw [hself] at hj
            cases hj
            simp
          · rw [hother j e] at hj
            rw [w.done_iff j tj hj]
            simp [Ne.symm e]
        · intro j tj hj hnot
          have e : i ≠ j := by intro e; subst e; exact hnot (by simp)
          rw [hother j e] at hj
          exact w.notStarted j tj hj (fun hm => hnot (by simp [hm]))
        · -- the run
          have hops : (order.filterMap fun j => ((setNth ts i { t with pc := .done (atomic uidOf sh.members t.op).2 })[j]?).map (·.op)) =
              order.filterMap fun j => (ts[j]?).map (·.op) := by
            apply filterMap_congr_mem
            intro j hj
            have e : i ≠ j := by intro e; subst e; exact hni hj
            rw [hother j e]
          have hres : (order.filterMap fun j => ((setNth ts i { t with pc := .done (atomic uidOf sh.members t.op).2 })[j]?).bind
                fun t => match t.pc with | .done r => some r | _ => none) =
              order.filterMap fun j => (ts[j]?).bind fun t => match t.pc with | .done r => some r | _ => none := by
            apply filterMap_congr_mem
            intro j hj
            have e : i ≠ j := by intro e; subst e; exact hni hj
            rw [hother j e]
          rw [List.filterMap_append, List.filterMap_append, seqRun_append, hops, hres, w.run]
          simp only [List.filterMap_cons, List.filterMap_nil, hself, Option.map_some, Option.bind_some, seqRun_single]

/-- the initial state has a witness: nothing has run -/
theorem initial_witness (uidOf : String → Option String) (m₀ : Members) (ops : List Op) :
    SerialWitness uidOf m₀ { members := m₀ } (ops.map fun op => { op := op }) [] := by
  refine ⟨by simp, ?_, ?_, by simp [seqRun]⟩
  · intro i t ht
    simp only [List.getElem?_map, Option.map_eq_some_iff] at ht
    obtain ⟨op, _, rfl⟩ := ht
    simp
  · intro i t ht _
    simp only [List.getElem?_map, Option.map_eq_some_iff] at ht
    obtain ⟨op, _, rfl⟩ := ht
    rfl

/-! ### several processes on one directory: the statement is false -/

def ev (u : String) : String → Option String := fun t => if t = "dup1" ∨ t = "dup2" then some u else none

/-- two updates conditional on the same ETag both succeed (tree store): A checks, B runs
    completely, A writes -/
theorem processes_two_conditional_updates_both_succeed :
    let ops := [Op.put "a.ics" "A" none (some "e0"), Op.put "a.ics" "B" none (some "e0")]
    let out := runSched (fun _ => none) .tree .processes { members := [("a.ics", "e0")], wt := [("a.ics", "e0")] }
      (ops.map fun op => { op := op }) [0, 1, 1, 1, 1, 0, 0, 0]
    results out.2 = [some .ok, some .ok] ∧
      serialisable (fun _ => none) [("a.ics", "e0")] ops out.1.members [.ok, .ok] = false := by
  decide

/-- an acknowledged create is lost (bare store): A reads the tree, B creates c.ics, A commits
    its own tree -/
theorem processes_bare_lost_update :
    let ops := [Op.put "b.ics" "B" none none, Op.put "c.ics" "C" none none]
    let out := runSched (fun _ => none) .bare .processes { members := [("a.ics", "e0")] } (ops.map fun op => { op := op })
      [0, 0, 1, 1, 1, 0]
    results out.2 = [some .ok, some .ok] ∧ out.1.members.lookup "c.ics" = none ∧
      serialisable (fun _ => none) [("a.ics", "e0")] ops out.1.members [.ok, .ok] = false := by
  decide

/-- two members end up with the same UID (either store) -/
theorem processes_duplicate_uid :
    let ops := [Op.put "b.ics" "dup1" (some "U") none, Op.put "c.ics" "dup2" (some "U") none]
    let out := runSched (ev "U") .tree .processes { members := [] } (ops.map fun op => { op := op })
      [0, 1, 1, 1, 1, 0, 0, 0]
    results out.2 = [some .ok, some .ok] ∧
      out.1.members = [("c.ics", "dup2"), ("b.ics", "dup1")] ∧
      serialisable (ev "U") [] ops out.1.members [.ok, .ok] = false := by
  decide

/-- the same schedules in one process are serialisable (sanity of the definitions) -/
example :
    let ops := [Op.put "a.ics" "A" none (some "e0"), Op.put "a.ics" "B" none (some "e0")]
    let out := runSched (fun _ => none) .tree .threads { members := [("a.ics", "e0")] } (ops.map fun op => { op := op })
      [0, 1, 1, 1, 0, 0]
    results out.2 = [some .ok, some .invalidEtag] ∧
      serialisable (fun _ => none) [("a.ics", "e0")] ops out.1.members [.ok, .invalidEtag] = true := by
  decide

end Xandikos.Theorems.C05
