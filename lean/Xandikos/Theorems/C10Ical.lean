/-
  C10 for iCalendar, concretely: the parameters of the index state machine (`Store/Index.lean`)
  are instantiated with the model of `icalendar.py` — `index_keys()`, `get_indexes`,
  `check_from_indexes` (`Ical/Index.lean`) and `check` (`Ical/Filter.lean`) — and the proviso of
  `Theorems/C10.lean` (`AgreeOn`) is *discharged* for

    * calendar objects that are `Simple` (at every level no property name twice, no two
      sub-components of one name) and whose values survive the index round trip (`RoundTrips`;
      for TEXT and CATEGORIES that is a theorem, `roundTrips_rtText`, for instants, durations
      and periods the trusted library assumption made explicit) — together `CalOK`;
    * well-formed filters (`WF`: no `/` in names, no time range on VALARM, no "defined" child
      under an is-not-defined comp-filter).

  For stores whose members are all of that kind, `index_transparent_ical` and
  `no_history_is_observable_ical` hold whatever the index state, history and threshold.
  Outside the class the two evaluators do differ (`nonsimple_paths_differ`, the recorded finding
  KF-C10-multi-component).
-/
import Xandikos.Theorems.C10
import Xandikos.Ical.IndexProofs
import Xandikos.Ical.EscapeProofs
import Xandikos.Tie.UnescapeEq
import Xandikos.Tie.FindKeysEq

namespace Xandikos.Theorems.C10Ical
open Xandikos Xandikos.Py Xandikos.Store.Index Xandikos.Ical Xandikos.Theorems.C10

/-- **the code is the model**: `icalendar._unescape_text`, as translated from /repo on this run
    (an index-scan `while` loop over `text[i]`), computes `Ical.unescapeText` on every text —
    it raises no IndexError and terminates within `len(text) + 1` iterations -/
theorem code_is_model_unescape (text : List Char) (split : Bool) :
    Generated.unescape_text text split = .ok (unescapeText split text) :=
  Tie.unescape_text_eq text split

/-- **the code is the model (index manager)**: `AutoIndexManager.find_present_keys`, as translated
    from /repo on this run (nested loops, the flag, the counters, `index.reset`), gives the
    answer, the counters and the index key set of the model's `findPresentKeys` — the state
    machine `index_transparent_…` is proved about -/
theorem code_is_model_find_present_keys {V : Type} (st : IState V) (necessary : List (List String)) :
    let g := Generated.find_present_keys st.idx.keys st.mgr.threshold st.mgr.desired necessary
    let m := findPresentKeys st necessary
    m.2 = g.2.1 ∧ m.1.mgr.desired = g.1 ∧ m.1.mgr.threshold = st.mgr.threshold ∧
      m.1.idx.keys = (match g.2.2 with | some ks => ks | none => st.idx.keys) ∧
      (g.2.2.isSome → m.1.idx.vals = ∅) ∧ (g.2.2 = none → m.1.idx = st.idx) :=
  Tie.find_present_keys_eq st necessary

/-- **TEXT round trip on the code as it stands**: what the translated `_unescape_text` reads back
    from the index value the library writes for a clean text is that text -/
theorem code_unescapes_what_the_library_escapes (s : List Char) (h : Clean s) :
    Generated.unescape_text (escapeText s) false = .ok [s] := by
  rw [Tie.unescape_text_eq, unescape_escape s h]

/-- **CATEGORIES round trip on the code as it stands** -/
theorem code_unescapes_categories (cats : List (List Char)) (hne : cats ≠ [])
    (h : ∀ c ∈ cats, Clean c) :
    Generated.unescape_text (joinComma (cats.map escapeText)) true = .ok cats := by
  rw [Tie.unescape_text_eq, unescape_escape_cats cats hne h]

/-- a member is listed when the evaluation returns `True`; an exception (a 500 for the whole
    REPORT in the real server) does not occur on the class at hand (`Ical.check_total`) -/
def toBool : Except PyErr Bool → Bool
  | .ok b => b
  | .error _ => false

/-- the concrete parameters: a filter is the list of top-level comp-filters of a
    `CalendarFilter`; the blob with etag `e` parses to `calOf e`.  (`index_keys()` raising
    `NotImplementedError` — a time range on VALARM — sends the real store down the naive path;
    such filters are not `WF` and `keysOf` is irrelevant for them.) -/
def icalParams (rt : PVal → PVal) (tz : TVal → Int) (calOf : String → Cal) : Params (List CalF) IVal where
  keysOf f := match indexKeys f with
    | .ok k => k
    | .error _ => []
  getIdx e ks := getIndexes rt (calOf e) ks
  checkIdx f v := toBool (checkFromIndexes tz f v)
  checkNaive f e := toBool (check false tz f (calOf e))

theorem keysOf_wf (rt : PVal → PVal) (tz : TVal → Int) (calOf : String → Cal) (f : List CalF)
    (hw : ∀ x ∈ f, WF x) :
    (icalParams rt tz calOf).keysOf f = (f.flatMap calKeysFlat).map fun k => [String.ofList k] := by
  show (match indexKeys f with
    | .ok k => k
    | .error _ => []) = _
  rw [indexKeys_ok f hw]

/-- `AgreeOn` holds for every member whose calendar is in the class and every well-formed filter -/
theorem agreeOn_ical (rt : PVal → PVal) (tz : TVal → Int) (calOf : String → Cal) (f : List CalF)
    (e : String) (hw : ∀ x ∈ f, WF x) (hc : CalOK rt (calOf e)) :
    AgreeOn (icalParams rt tz calOf) f e := by
  intro avail hcov
  have hcov' : ∀ g ∈ (f.flatMap calKeysFlat).map (fun k => [String.ofList k]), ∃ k ∈ g, k ∈ avail := by
    intro g hg
    exact hcov g (by rw [keysOf_wf rt tz calOf f hw]; exact hg)
  constructor
  · show toBool (checkFromIndexes tz f (getIndexes rt (calOf e) avail)) = toBool (check false tz f (calOf e))
    rw [check_from_indexes_eq_check rt tz f (calOf e) hc hw _ (indexKeys_ok f hw) avail hcov']
  · intro sub hsub hcs
    have hcs' : ∀ g ∈ (f.flatMap calKeysFlat).map (fun k => [String.ofList k]), ∃ k ∈ g, k ∈ sub := by
      intro g hg
      exact hcs g (by rw [keysOf_wf rt tz calOf f hw]; exact hg)
    show toBool (checkFromIndexes tz f (restrict (getIndexes rt (calOf e) avail) sub)) =
      toBool (check false tz f (calOf e))
    rw [check_from_indexes_restrict_eq_check rt tz f (calOf e) hc hw _ (indexKeys_ok f hw)
      avail sub hsub hcs']

theorem keysOf_ne_nil (rt : PVal → PVal) (tz : TVal → Int) (calOf : String → Cal) (f : List CalF)
    (hw : ∀ x ∈ f, WF x) : ∀ g ∈ (icalParams rt tz calOf).keysOf f, g ≠ [] := by
  intro g hg
  rw [keysOf_wf rt tz calOf f hw, List.mem_map] at hg
  obtain ⟨k, _, rfl⟩ := hg
  simp

/-- **Index transparency for iCalendar, unconditionally on the class.**  In any state the index
    machinery can be in (any earlier queries and writes, any threshold), a calendar-query with
    well-formed filters over members that are all in the class returns exactly the members the
    direct evaluation `check` selects, and leaves the machinery in such a state. -/
theorem index_transparent_ical (rt : PVal → PVal) (tz : TVal → Int) (calOf : String → Cal)
    (s : IState IVal) (f : List CalF) (files : List (String × String))
    (hinv : CacheInv (icalParams rt tz calOf) s.idx) (hw : ∀ x ∈ f, WF x)
    (hfiles : ∀ p ∈ files, CalOK rt (calOf p.2)) :
    (iterWithFilter (icalParams rt tz calOf) s f files).2 = iterNaive (icalParams rt tz calOf) f files ∧
    CacheInv (icalParams rt tz calOf) (iterWithFilter (icalParams rt tz calOf) s f files).1.idx :=
  index_transparent_partial (icalParams rt tz calOf) s f files hinv (keysOf_ne_nil rt tz calOf f hw)
    (fun p hp => agreeOn_ical rt tz calOf f p.2 hw (hfiles p hp))

/-- **No history is observable, for iCalendar.**  From a fresh store, after any sequence of
    calendar-queries (well-formed filters) interleaved with arbitrary writes that keep every
    member in the class, each answer is the direct evaluation of the filter on the contents at
    that moment — whatever the threshold. -/
theorem no_history_is_observable_ical (rt : PVal → PVal) (tz : TVal → Int) (calOf : String → Cal)
    (thr : Nat) (qs : List (List CalF × List (String × String)))
    (hw : ∀ q ∈ qs, ∀ x ∈ q.1, WF x)
    (hfiles : ∀ q ∈ qs, ∀ p ∈ q.2, CalOK rt (calOf p.2)) :
    (runQueries (icalParams rt tz calOf) { idx := {}, mgr := { threshold := thr } } qs).2 =
      qs.map fun q => iterNaive (icalParams rt tz calOf) q.1 q.2 :=
  no_history_is_observable (icalParams rt tz calOf) thr qs
    (fun q hq => keysOf_ne_nil rt tz calOf q.1 (hw q hq))
    (fun q hq p hp => agreeOn_ical rt tz calOf q.1 p.2 (hw q hq) (hfiles q hq p hp))

/-- what `iterNaive` lists, in the terms of `check` itself: on the class `check` returns a
    Boolean (it never raises), and the member is listed iff that Boolean is `true`
    (`isT x` is `true` exactly when `x = .ok true`) -/
theorem iterNaive_spec (rt : PVal → PVal) (tz : TVal → Int) (calOf : String → Cal) (f : List CalF)
    (files : List (String × String)) (hw : ∀ x ∈ f, WF x) (hfiles : ∀ p ∈ files, CalOK rt (calOf p.2)) :
    iterNaive (icalParams rt tz calOf) f files =
      (files.filter fun p => isT (check false tz f (calOf p.2))).map (·.1) ∧
    ∀ p ∈ files, ∃ b, check false tz f (calOf p.2) = .ok b := by
  refine ⟨?_, fun p hp => check_total rt tz f (calOf p.2) (hfiles p hp) hw⟩
  unfold iterNaive
  congr 1
  apply List.filter_congr
  intro p hp
  obtain ⟨b, hb⟩ := check_total rt tz f (calOf p.2) (hfiles p hp) hw
  show toBool (check false tz f (calOf p.2)) = _
  rw [hb]
  cases b <;> rfl

/-! ### non-vacuity, and a calendar outside the class -/

namespace Example

def tz : TVal → Int := fun t => t.key

/-- a VEVENT with SUMMARY, DTSTART (with a TZID parameter), CATEGORIES and a VALARM -/
def event : Mid :=
  { name := "VEVENT".toList,
    props := [("SUMMARY".toList, { value := .text "Lunch".toList }),
              ("DTSTART".toList, { value := .time { isDateTime := true, key := 1000 },
                                   params := [("TZID".toList, "Europe/Berlin".toList)] }),
              ("CATEGORIES".toList, { value := .cats ["Work".toList, "Travel".toList] })],
    subs := [{ name := "VALARM".toList,
               props := [("ACTION".toList, { value := .text "DISPLAY".toList })], subs := [] }] }

def cal : Cal :=
  { name := "VCALENDAR".toList, props := [("VERSION".toList, { value := .text "2.0".toList })],
    subs := [event] }

/-- VCALENDAR > VEVENT with a time range, a text-match on SUMMARY and on CATEGORIES, a
    param-filter with a text-match on DTSTART's TZID, and a nested comp-filter VALARM -/
def filter : CalF :=
  { name := "VCALENDAR".toList,
    comps := [{ name := "VEVENT".toList, timeRange := some (500, 2000),
                props := [{ name := "SUMMARY".toList, tms := [{ text := "lunch".toList }] },
                          { name := "DTSTART".toList,
                            params := [{ name := "TZID".toList,
                                         tms := [{ text := "europe/berlin".toList }] }] },
                          { name := "CATEGORIES".toList, tms := [{ text := "travel".toList }] }],
                comps := [{ name := "VALARM".toList }] }] }

def keys : List String :=
  ["C=VCALENDAR/C=VEVENT/P=SUMMARY", "C=VCALENDAR/C=VEVENT/P=DTSTART/A=TZID",
   "C=VCALENDAR/C=VEVENT/P=DTSTART", "C=VCALENDAR/C=VEVENT/P=CATEGORIES",
   "C=VCALENDAR/C=VEVENT/C=VALARM", "C=VCALENDAR/C=VEVENT/P=DTSTART", "C=VCALENDAR/C=VEVENT/P=DTEND",
   "C=VCALENDAR/C=VEVENT/P=DURATION"]

theorem cal_ok : CalOK id cal := by
  refine ⟨⟨by decide, fun _ _ => rfl⟩, by decide, ?_⟩
  intro m hm
  rw [List.mem_singleton.mp hm]
  refine ⟨⟨by decide, fun _ _ => rfl⟩, by decide, ?_⟩
  intro l hl
  rw [List.mem_singleton.mp hl]
  exact ⟨⟨by decide, fun _ _ => rfl⟩, by decide, fun e => nomatch e⟩

theorem filter_wf : WF filter := by
  refine ⟨by decide, fun _ => by decide, fun h => (by cases h), fun pf hpf => (by cases hpf), ?_⟩
  intro mf hmf
  rw [List.mem_singleton.mp hmf]
  refine ⟨by decide, fun _ => by decide, fun h => (by cases h), ?_, ?_⟩
  · intro pf hpf
    simp only [List.mem_cons, List.not_mem_nil, or_false] at hpf
    rcases hpf with rfl | rfl | rfl
    · exact ⟨by decide, fun q hq => (by cases hq)⟩
    · refine ⟨by decide, fun q hq => ?_⟩
      rw [List.mem_singleton.mp hq]; decide
    · exact ⟨by decide, fun q hq => (by cases hq)⟩
  · intro lf hlf
    rw [List.mem_singleton.mp hlf]
    exact ⟨by decide, fun h => absurd rfl h, fun h => (by cases h), fun pf hpf => (by cases hpf),
      fun e => nomatch e⟩

/-- the class is inhabited by a calendar and a filter that exercise every kind of test, the
    filter matches, the listed keys are what the model's `index_keys()` asks for, and (as
    `check_from_indexes_eq_check` says) the index path gives the same answer -/
example :
    CalOK id cal ∧ WF filter ∧
    (indexKeys [filter]).toOption.map List.flatten = some keys ∧
    check false tz [filter] cal = .ok true ∧
    checkFromIndexes tz [filter] (getIndexes id cal keys) = .ok true :=
  ⟨cal_ok, filter_wf, by decide, by rfl, by rfl⟩

/-- the same calendar is in the class for the concrete round trip `rtText` (escape, then
    unescape): its texts contain no CR and no backslash-`N` -/
theorem cal_ok_rtText : CalOK rtText cal := by
  rw [calOK_iff]
  refine ⟨((calOK_iff id cal).mp cal_ok).1, roundTrips_rtText cal ?_⟩
  refine ⟨?_, ?_⟩
  · intro p hp
    rw [List.mem_singleton.mp hp]
    show Clean _
    decide +kernel
  · intro m hm
    rw [List.mem_singleton.mp hm]
    refine ⟨?_, ?_⟩
    · intro p hp
      simp only [event, List.mem_cons, List.not_mem_nil, or_false] at hp
      rcases hp with rfl | rfl | rfl
      · show Clean _; decide +kernel
      · trivial
      · exact ⟨by decide, by decide +kernel⟩
    · intro l hl p hp
      simp only [event, List.mem_cons, List.not_mem_nil, or_false] at hl
      rw [hl] at hp
      rw [List.mem_singleton.mp hp]
      show Clean _
      decide +kernel

/-- a VFREEBUSY that only carries a FREEBUSY period (no DTSTART / DTEND), and a VEVENT filter with
    a text-match on DTSTART: both used to be excluded (the index path raised `AttributeError`
    resp. `TypeError`); after the repair both lie in the class -/
def fbCal : Cal :=
  { name := "VCALENDAR".toList,
    subs := [{ name := "VFREEBUSY".toList,
               props := [("FREEBUSY".toList, { value := .period 1000 2000 })] }] }

def fbFilter : CalF :=
  { name := "VCALENDAR".toList, comps := [{ name := "VFREEBUSY".toList, timeRange := some (500, 1500) }] }

def dtFilter : CalF :=
  { name := "VCALENDAR".toList,
    comps := [{ name := "VEVENT".toList,
                props := [{ name := "DTSTART".toList, tms := [{ text := "x".toList, negate := true }] }] }] }

example :
    checkFromIndexes tz [fbFilter] (getIndexes id fbCal
      ["C=VCALENDAR/C=VFREEBUSY/P=DTSTART", "C=VCALENDAR/C=VFREEBUSY/P=DTEND",
       "C=VCALENDAR/C=VFREEBUSY/P=FREEBUSY", "C=VCALENDAR/C=VFREEBUSY"]) = .ok true ∧
    check false tz [fbFilter] fbCal = .ok true ∧
    checkFromIndexes tz [dtFilter] (getIndexes id cal ["C=VCALENDAR/C=VEVENT/P=DTSTART"]) = .ok false ∧
    check false tz [dtFilter] cal = .ok false :=
  ⟨by rfl, by rfl, by rfl, by rfl⟩

/-- two VEVENTs in one object: the first lies in the time range, the second has the summary -/
def ev1 : Mid :=
  { name := "VEVENT".toList,
    props := [("SUMMARY".toList, { value := .text "Lunch".toList }),
              ("DTSTART".toList, { value := .time { isDateTime := true, key := 1000 } })] }
def ev2 : Mid :=
  { name := "VEVENT".toList,
    props := [("SUMMARY".toList, { value := .text "Dinner".toList }),
              ("DTSTART".toList, { value := .time { isDateTime := true, key := 5000 } })] }
def twoCal : Cal := { name := "VCALENDAR".toList, subs := [ev1, ev2] }

def twoFilter : CalF :=
  { name := "VCALENDAR".toList,
    comps := [{ name := "VEVENT".toList, timeRange := some (500, 2000),
                props := [{ name := "SUMMARY".toList, tms := [{ text := "dinner".toList }] }] }] }

def twoKeys : List String :=
  ["C=VCALENDAR/C=VEVENT/P=SUMMARY", "C=VCALENDAR/C=VEVENT/P=DTSTART",
   "C=VCALENDAR/C=VEVENT/P=DTEND", "C=VCALENDAR/C=VEVENT/P=DURATION"]

/-- **Outside the class the two paths differ** (KF-C10-multi-component): on a calendar with two
    VEVENTs — not `Simple` — the index flattens the values per key, so the text-match is
    satisfied by one event and the time range by the other: `check_from_indexes` says `True`,
    `check` says `False`. -/
theorem nonsimple_paths_differ :
    ¬ Simple twoCal ∧
    (indexKeys [twoFilter]).toOption.map List.flatten = some twoKeys ∧
    checkFromIndexes tz [twoFilter] (getIndexes id twoCal twoKeys) = .ok true ∧
    check false tz [twoFilter] twoCal = .ok false := by
  refine ⟨fun h => ?_, by decide, by rfl, by rfl⟩
  have := h.2.1
  revert this
  decide

end Example

end Xandikos.Theorems.C10Ical
