/-
  C18 — service discovery leads to the user's collections in every deployment layout.

  Two parts: (1) the hrefs of the discovery chain decode to the paths they are meant for, for
  every route prefix and every principal path made of directory-entry names; (2) a start of the
  server creates what is missing and never touches what exists, so restarts are harmless.
-/
import Xandikos.Http.Discovery
import Xandikos.Http.Multiget
import Xandikos.Py.UrlQuoteJoin
import Xandikos.Py.PathProofs2
import Xandikos.Tie.WellknownEq

namespace Xandikos.Theorems.C18
open Xandikos Xandikos.Http Xandikos.Store Xandikos.Py

/-! ## Part 0 — the `.well-known` entry point -/

/-- **the code is the model**: the redirect condition of `WellknownRedirector.__call__` and the
    set `WELLKNOWN_DAV_PATHS`, as translated from /repo on this run -/
theorem code_is_model_wellknown (script pathInfo : List Char) :
    Generated.wellknown_redirects script pathInfo = wellknownRedirects script pathInfo :=
  Tie.wellknown_redirects_eq script pathInfo

/-- **both well-known URLs are redirected however the container mounts the redirector**: for
    every way of dividing `/.well-known/caldav` (or `…/carddav`) into `SCRIPT_NAME` and
    `PATH_INFO` — redirector at the server root, at an alias for `/.well-known`, at the exact
    URL — the translated code answers with the redirect -/
theorem wellknown_redirects_any_mount (wk script pathInfo : List Char)
    (hwk : wk ∈ wellknownPaths) (hsplit : script ++ pathInfo = wk) :
    Generated.wellknown_redirects script pathInfo = true := by
  rw [code_is_model_wellknown]
  unfold wellknownRedirects
  rw [hsplit]
  simp only [wellknownPaths, List.mem_cons, List.not_mem_nil, or_false] at hwk
  rcases hwk with h | h <;> subst h <;> decide +kernel

/-- …and nothing else is: a request is intercepted only if its normalised path *is* one of the
    two well-known paths, so no path under the DAV root is ever redirected away -/
theorem wellknown_redirects_only (script pathInfo : List Char)
    (h : Generated.wellknown_redirects script pathInfo = true) :
    Path.normpath (script ++ pathInfo) ∈ wellknownPaths := by
  rw [code_is_model_wellknown] at h
  unfold wellknownRedirects at h
  exact List.contains_iff_mem.mp h

/-- non-vacuity: the alias mount -/
example : Generated.wellknown_redirects "/.well-known".toList "/caldav".toList = true := by decide +kernel
/-- a DAV path is passed through -/
example : Generated.wellknown_redirects "/dav".toList "/user/calendars/".toList = false := by decide +kernel

/-! ## Part 1 — hrefs -/

/-- **`create_href` with a base appends**: the emitted text decodes to `base/ ++ href` for a
    clean directory base and a relative path of directory-entry names — whatever characters the
    names are made of (blanks, `#`, `?`, `;`, non-ASCII), provided `urlparse` sees no scheme in
    the reference. -/
theorem create_href_decodes (B : String) (segs : List (List Char)) (trail : Bool)
    (hB : Url.isCleanDir (ensureTrailingSlash B).toList = true) (hs : segs ≠ [])
    (hseg : ∀ s ∈ segs, Url.nameSeg s = true)
    (hsch : Url.has_scheme (String.ofList (Url.relRef segs trail)) = false) :
    decodeTarget (createHref (String.ofList (Url.relRef segs trail)) (some B)) =
      ensureTrailingSlash B ++ String.ofList (Url.relRef segs trail) := by
  unfold createHref decodeTarget
  simp only [hsch, Bool.false_eq_true, ↓reduceIte]
  rw [Url.unquote_urljoin_quote _ _ _ hB hs hseg, Url.unquote_quote]

/-- a clean directory ends in `/`, so `ensure_trailing_slash` leaves it alone -/
theorem ensureTrailingSlash_cleanDir (B : String) (hB : Url.isCleanDir B.toList = true) :
    ensureTrailingSlash B = B := by
  obtain ⟨mid, hsplit, _⟩ := Url.isCleanDir_split hB
  have hlast : B.toList.getLast? = some '/' := by
    have hj : B.toList = Url.joinWith '/' (([] :: mid) ++ [[]]) := by
      rw [List.cons_append, ← hsplit, Url.joinWith_splitOn]
    rw [hj, Url.joinWith_concat _ _ _ (by simp)]
    simp
  unfold ensureTrailingSlash
  simp [hlast]

/-- appending a relative directory of names to a clean directory gives a clean directory
    (any characters but `/` in the names) -/
theorem isCleanDir_append_names (B : List Char) (segs : List (List Char))
    (hB : Url.isCleanDir B = true) (hseg : ∀ s ∈ segs, Url.nameSeg s = true) :
    Url.isCleanDir (B ++ Url.relRef segs true) = true := by
  obtain ⟨mid, hsplit, hmid⟩ := Url.isCleanDir_split hB
  have hB' : B = Url.joinWith '/' ([] :: mid) ++ ['/'] := by
    have : B = Url.joinWith '/' (([] :: mid) ++ [[]]) := by
      rw [List.cons_append, ← hsplit, Url.joinWith_splitOn]
    rw [this]; exact Url.joinWith_concat _ _ _ (by simp)
  have hB0 : Url.splitOn '/' (Url.joinWith '/' ([] :: mid)) = [] :: mid := by
    have h := hsplit
    rw [hB', Url.splitOn_append_sep] at h
    have h2 : Url.splitOn '/' (Url.joinWith '/' ([] :: mid)) ++ [[]] = ([] :: mid) ++ [[]] := by
      simpa [Url.splitOn] using h
    exact List.append_cancel_right h2
  have hR : Url.splitOn '/' (Url.relRef segs true) = segs ++ [[]] := by
    rw [Url.relRef]
    refine Url.splitOn_joinWith _ _ (by simp) ?_
    intro p hp hc
    simp only [if_true, List.mem_append, List.mem_singleton] at hp
    rcases hp with hp | rfl
    · exact (Url.nameSeg_spec (hseg p hp)).2 hc
    · cases hc
  have hsp : Url.splitOn '/' (B ++ Url.relRef segs true) = [] :: (mid ++ segs ++ [[]]) := by
    rw [hB', List.append_assoc, List.singleton_append, Url.splitOn_append_sep, hB0, hR]
    simp
  unfold Url.isCleanDir
  rw [hsp]
  simp only [Bool.and_eq_true, decide_eq_true_eq, beq_iff_eq, List.all_eq_true]
  refine ⟨⟨by simp, List.getLast?_concat ..⟩, ?_⟩
  rw [List.dropLast_concat]
  intro s h
  rcases List.mem_append.mp h with h | h
  · exact hmid s h
  · exact (Url.nameSeg_spec (hseg s h)).1

/-- **current-user-principal leads to the principal**, for every mount point `S` (as
    `SCRIPT_NAME` holds it: with or without the trailing slash) and every principal path whose
    segments are directory-entry names: the href decodes to `S/ ++ p₁/…/pₙ/`, which is again a
    clean directory. `hp` says how the configured text relates to the segments — it holds for
    `/p₁/…/pₙ`, `/p₁/…/pₙ/` alike (examples below). -/
theorem current_user_principal_decodes (S principal : String) (psegs : List (List Char))
    (hS : Url.isCleanDir (ensureTrailingSlash S).toList = true) (hs : psegs ≠ [])
    (hseg : ∀ s ∈ psegs, Url.nameSeg s = true)
    (hp : ensureTrailingSlash (Path.lstripS principal) = String.ofList (Url.relRef psegs true))
    (hsch : Url.has_scheme (String.ofList (Url.relRef psegs true)) = false) :
    decodeTarget (cupHref S principal) = ensureTrailingSlash S ++ String.ofList (Url.relRef psegs true) ∧
    Url.isCleanDir (ensureTrailingSlash S ++ String.ofList (Url.relRef psegs true)).toList = true := by
  refine ⟨?_, ?_⟩
  · unfold cupHref
    rw [hp]
    exact create_href_decodes S psegs true hS hs hseg hsch
  · rw [String.toList_append, String.toList_ofList]
    exact isCleanDir_append_names _ psegs hS hseg

/-- **a home set leads below the principal**: for the principal served at the (decoded) href
    `H` — a clean directory, as the previous theorem provides — the home-set href decodes to
    `H ++ name/`, again a clean directory, so the Depth 1 listing's member hrefs (C16) apply. -/
theorem home_set_decodes (H name : String) (hH : Url.isCleanDir H.toList = true)
    (hn : Url.nameSeg name.toList = true) (hsch : Url.has_scheme (ensureTrailingSlash name) = false)
    (hnl : name.toList.getLast? ≠ some '/') :
    decodeTarget (homeSetHref H name) = H ++ name ++ "/" ∧
    Url.isCleanDir (H ++ name ++ "/").toList = true := by
  have hrel : ensureTrailingSlash name = String.ofList (Url.relRef [name.toList] true) := by
    unfold ensureTrailingSlash
    simp only [hnl, ↓reduceIte, Url.relRef, List.singleton_append, Url.joinWith]
    rw [String.ofList_append]
    simp
  have hseg : ∀ s ∈ [name.toList], Url.nameSeg s = true := by simpa using hn
  refine ⟨?_, ?_⟩
  · unfold homeSetHref
    rw [hrel] at hsch ⊢
    have h := create_href_decodes H [name.toList] true
      (by rw [ensureTrailingSlash_cleanDir H hH]; exact hH) (by simp) hseg hsch
    rw [h, ensureTrailingSlash_cleanDir H hH, ← hrel]
    unfold ensureTrailingSlash
    simp [hnl, String.append_assoc]
  · have := isCleanDir_append_names H.toList [name.toList] hH hseg
    have e : (H ++ name ++ "/").toList = H.toList ++ Url.relRef [name.toList] true := by
      simp [Url.relRef, Url.joinWith, String.toList_append]
    rw [e]; exact this

-- the hypotheses are met by the deployments the property quantifies over
example : Url.isCleanDir (ensureTrailingSlash "").toList = true := by decide
example : Url.isCleanDir (ensureTrailingSlash "/dav").toList = true := by decide
example : Url.isCleanDir (ensureTrailingSlash "/a/b/").toList = true := by decide
example : ensureTrailingSlash (Path.lstripS "/users/joe") =
    String.ofList (Url.relRef ["users".toList, "joe".toList] true) := by decide
example : ensureTrailingSlash (Path.lstripS "/users/joe/") =
    String.ofList (Url.relRef ["users".toList, "joe".toList] true) := by decide
example : Url.nameSeg "a b#?;é".toList = true := by decide
example : Url.has_scheme (ensureTrailingSlash calendarHomeSet) = false := by decide
example : Url.has_scheme (ensureTrailingSlash addressbookHomeSet) = false := by decide
-- … and the boundary the hypothesis `hsch` marks: a first segment that reads as a URL scheme
example : Url.has_scheme "x:y/z/" = true := by decide
example : decodeTarget (cupHref "/dav" "/x:y/z/") = "x:y/z/" := by decide +kernel

/-! ## Part 2 — starts -/

theorem isDirPath_iff (w : World) (p : String) :
    w.isDirPath p = true ↔ p = "/" ∨ p ∈ w.dirs ∨ (w.colls[p]?).isSome = true := by
  unfold World.isDirPath
  simp only [Bool.or_eq_true, beq_iff_eq, List.contains_eq_mem, decide_eq_true_eq,
    Std.ExtTreeMap.contains_eq_isSome_getElem?, or_assoc]

/-- what a step may do: repositories that exist keep their state, directories stay, and the
    only new repositories are fresh ones at paths where nothing was -/
structure Extends (w w' : World) : Prop where
  colls : ∀ (p : String) (c : Coll), w.colls[p]? = some c → w'.colls[p]? = some c
  dirs : ∀ q ∈ w.dirs, q ∈ w'.dirs
  fresh : ∀ (p : String) (c : Coll), w'.colls[p]? = some c →
    w.colls[p]? = some c ∨ (w.isDirPath p = false ∧ ∃ ct, c = freshColl ct)

theorem Extends.refl (w : World) : Extends w w :=
  ⟨fun _ _ h => h, fun _ h => h, fun _ _ h => Or.inl h⟩

theorem Extends.isDirPath {w w' : World} (h : Extends w w') (p : String) (hp : w.isDirPath p = true) :
    w'.isDirPath p = true := by
  rw [isDirPath_iff] at hp ⊢
  rcases hp with hp | hp | hp
  · exact Or.inl hp
  · exact Or.inr (Or.inl (h.dirs p hp))
  · obtain ⟨c, hc⟩ := Option.isSome_iff_exists.mp hp
    exact Or.inr (Or.inr (by rw [h.colls p c hc]; rfl))

theorem Extends.trans {a b c : World} (h₁ : Extends a b) (h₂ : Extends b c) : Extends a c := by
  refine ⟨fun p x h => h₂.colls p x (h₁.colls p x h), fun q h => h₂.dirs q (h₁.dirs q h), ?_⟩
  intro p x hx
  rcases h₂.fresh p x hx with hb | ⟨hnd, hf⟩
  · exact h₁.fresh p x hb
  · refine Or.inr ⟨?_, hf⟩
    cases hd : a.isDirPath p with
    | false => rfl
    | true => rw [h₁.isDirPath p hd] at hnd; cases hnd

theorem addDir_extends (w : World) (q : String) : Extends w (w.addDir q) := by
  unfold World.addDir
  split
  · exact Extends.refl w
  · exact ⟨fun _ _ h => h, fun x hx => by simp [hx], fun _ _ h => Or.inl h⟩

theorem addDir_isDirPath (w : World) (q : String) : (w.addDir q).isDirPath q = true := by
  unfold World.addDir
  split
  · assumption
  · rw [isDirPath_iff]; exact Or.inr (Or.inl (by simp))

theorem foldl_addDir_extends (l : List String) (w : World) : Extends w (l.foldl World.addDir w) := by
  induction l generalizing w with
  | nil => exact Extends.refl w
  | cons q t ih => exact (addDir_extends w q).trans (ih _)

theorem makedirs_extends (w : World) (p : String) : Extends w (w.makedirs p) :=
  (foldl_addDir_extends _ w).trans (addDir_extends _ p)

theorem makedirs_isDirPath (w : World) (p : String) : (w.makedirs p).isDirPath p = true :=
  addDir_isDirPath _ p

theorem markPrincipal_extends (w : World) (P : String) : Extends w (w.markPrincipal P) :=
  ⟨fun _ _ h => h, fun _ h => h, fun _ _ h => Or.inl h⟩

theorem createIfAbsent_extends (w : World) (p : String) (ct : Option (CType × String)) :
    Extends w (w.createIfAbsent p ct) := by
  unfold World.createIfAbsent
  split
  · exact Extends.refl w
  · rename_i hnd
    split
    · exact Extends.refl w
    · have hnone : w.colls[p]? = none := by
        cases h : w.colls[p]? with
        | none => rfl
        | some c =>
          exfalso; apply hnd
          rw [isDirPath_iff]; exact Or.inr (Or.inr (by rw [h]; rfl))
      refine ⟨?_, fun _ h => h, ?_⟩
      · intro q c hq
        unfold World.setColl
        by_cases e : p = q
        · subst e; rw [hnone] at hq; cases hq
        · simp only; rw [Map.get_insert_ne _ _ e]; exact hq
      · intro q c hq
        unfold World.setColl at hq
        by_cases e : p = q
        · subst e
          simp only [Map.get_insert_self, Option.some.injEq] at hq
          exact Or.inr ⟨by simpa using hnd, ct, hq.symm⟩
        · simp only at hq
          rw [Map.get_insert_ne _ _ e] at hq
          exact Or.inl hq

/-- `createIfAbsent` leaves `p` a directory path whenever its parent is one -/
theorem createIfAbsent_isDirPath (w : World) (p : String) (ct : Option (CType × String))
    (hpar : w.isDirPath (Path.splitS p).1 = true) : (w.createIfAbsent p ct).isDirPath p = true := by
  unfold World.createIfAbsent
  split
  · assumption
  · simp only [hpar, Bool.not_true, Bool.false_eq_true, ↓reduceIte]
    rw [isDirPath_iff]
    exact Or.inr (Or.inr (by simp [World.setColl]))

/-- **A start never touches what exists**: every repository present before a start — with its
    members, its history, its metadata — is there unchanged afterwards, every directory stays,
    and whatever is new is a freshly initialised repository at a path where nothing was. Holds
    for `--defaults`, for `--autocreate`, in any order, for any principal path. -/
theorem start_preserves (w : World) (P : String) (defaults : Bool) : Extends w (bootAt w P defaults) := by
  have h0 : Extends w (if w.isDirPath P then w else w.makedirs P) := by
    split
    · exact Extends.refl w
    · exact makedirs_extends w P
  cases defaults with
  | false =>
    show Extends w ((((if w.isDirPath P then w else w.makedirs P).markPrincipal P).createIfAbsent
      (Path.joinS P addressbookHomeSet) none).createIfAbsent (Path.joinS P calendarHomeSet) none)
    exact h0.trans ((markPrincipal_extends _ P).trans
      ((createIfAbsent_extends _ _ _).trans (createIfAbsent_extends _ _ _)))
  | true =>
    show Extends w (((((((if w.isDirPath P then w else w.makedirs P).markPrincipal P).createIfAbsent
      (Path.joinS P addressbookHomeSet) none).createIfAbsent (Path.joinS P calendarHomeSet) none).createIfAbsent
      (Path.joinS (Path.joinS P calendarHomeSet) "calendar") (some (.calendar, "calendar"))).createIfAbsent
      (Path.joinS (Path.joinS P addressbookHomeSet) "addressbook") (some (.addressbook, "addressbook"))).createIfAbsent
      (Path.joinS P inboxName) (some (.inbox, "schedule-inbox")))
    exact h0.trans ((markPrincipal_extends _ P).trans
      ((createIfAbsent_extends _ _ _).trans ((createIfAbsent_extends _ _ _).trans
        ((createIfAbsent_extends _ _ _).trans
          ((createIfAbsent_extends _ _ _).trans (createIfAbsent_extends _ _ _))))))

theorem markPrincipal_isDirPath (w : World) (P p : String) :
    (w.markPrincipal P).isDirPath p = w.isDirPath p := rfl

/-- the start-up of `xandikos/wsgi.py` preserves everything as well -/
theorem module_start_preserves (w : World) (principal : String) (a d : Bool) :
    Extends w (bootModule w principal a d) := by
  unfold bootModule
  by_cases h : (resolve w (principalPath principal)).isSome = true
  · rw [if_pos h]; exact markPrincipal_extends _ _
  · rw [if_neg h]
    cases a with
    | true => rw [if_pos rfl]; exact start_preserves w _ d
    | false => rw [if_neg (by simp)]; exact markPrincipal_extends _ _

/-- … and so does a start without `--autocreate`/`--defaults` -/
theorem simple_start_preserves (w : World) (principal : String) (a d : Bool) :
    Extends w (bootSimple w principal a d) := by
  unfold bootSimple
  split
  · exact start_preserves w _ d
  · exact markPrincipal_extends _ _

theorem createIfAbsent_principals (w : World) (p : String) (ct : Option (CType × String)) :
    (w.createIfAbsent p ct).principals = w.principals := by
  unfold World.createIfAbsent
  split
  · rfl
  · split <;> rfl

theorem addDir_principals (w : World) (q : String) : (w.addDir q).principals = w.principals := by
  unfold World.addDir
  split <;> rfl

theorem makedirs_principals (w : World) (p : String) : (w.makedirs p).principals = w.principals := by
  unfold World.makedirs
  rw [addDir_principals]
  generalize ancestors p = l
  induction l generalizing w with
  | nil => rfl
  | cons q t ih => rw [List.foldl_cons, ih, addDir_principals]

theorem markPrincipal_mem (w : World) (P : String) : P ∈ (w.markPrincipal P).principals := by
  unfold World.markPrincipal
  by_cases h : w.principals.contains P = true
  · simp only [h, ↓reduceIte]
    exact List.contains_iff_mem.mp h
  · simp only [h, Bool.false_eq_true, ↓reduceIte]
    exact List.mem_cons_self ..

theorem bootAt_marks (w : World) (P : String) (d : Bool) : P ∈ (bootAt w P d).principals := by
  cases d with
  | false =>
    show P ∈ ((((if w.isDirPath P then w else w.makedirs P).markPrincipal P).createIfAbsent
      (Path.joinS P addressbookHomeSet) none).createIfAbsent (Path.joinS P calendarHomeSet) none).principals
    rw [createIfAbsent_principals, createIfAbsent_principals]
    exact markPrincipal_mem _ P
  | true =>
    show P ∈ (((((((if w.isDirPath P then w else w.makedirs P).markPrincipal P).createIfAbsent
      (Path.joinS P addressbookHomeSet) none).createIfAbsent (Path.joinS P calendarHomeSet) none).createIfAbsent
      (Path.joinS (Path.joinS P calendarHomeSet) "calendar") (some (.calendar, "calendar"))).createIfAbsent
      (Path.joinS (Path.joinS P addressbookHomeSet) "addressbook") (some (.addressbook, "addressbook"))).createIfAbsent
      (Path.joinS P inboxName) (some (.inbox, "schedule-inbox"))).principals
    rw [createIfAbsent_principals, createIfAbsent_principals, createIfAbsent_principals,
      createIfAbsent_principals, createIfAbsent_principals]
    exact markPrincipal_mem _ P

/-- a start always leaves the configured principal marked as principal — also one without any
    creation flag (what discovery after such a restart depends on) -/
theorem start_marks_principal (w : World) (principal : String) (a d : Bool) :
    principalPath principal ∈ (bootSimple w principal a d).principals := by
  unfold bootSimple
  split
  · exact bootAt_marks w _ d
  · exact markPrincipal_mem w _

/-- a new server process forgets caches only: members and history of every repository stay -/
theorem restart_keeps_contents (w : World) (p : String) (c : Coll) (h : w.colls[p]? = some c) :
    ∃ c', (w.restart).colls[p]? = some c' ∧ c'.st.files = c.st.files ∧ c'.st.commits = c.st.commits ∧
      c'.ctype = c.ctype := by
  unfold World.restart
  simp only [Std.ExtTreeMap.getElem?_map, h, Option.map_some]
  exact ⟨_, rfl, rfl, rfl, rfl⟩

/-- **Any number of restarts, in any mix of modes, keeps the user's data**: what a repository
    holds after a sequence of (restart, start) steps is what it held before. -/
theorem restarts_preserve (modes : List Bool) (P : String) (w : World) (p : String) (c : Coll)
    (h : w.colls[p]? = some c) :
    ∃ c', ((modes.foldl (fun w d => bootAt w.restart P d) w).colls[p]?) = some c' ∧
      c'.st.files = c.st.files ∧ c'.st.commits = c.st.commits ∧ c'.ctype = c.ctype := by
  induction modes generalizing w c with
  | nil => exact ⟨c, h, rfl, rfl, rfl⟩
  | cons d t ih =>
    obtain ⟨c₁, h₁, hf, hc, ht⟩ := restart_keeps_contents w p c h
    have h₂ := (start_preserves w.restart P d).colls p c₁ h₁
    obtain ⟨c', hc', hf', hcm', ht'⟩ := ih (bootAt w.restart P d) c₁ h₂
    exact ⟨c', hc', hf'.trans hf, hcm'.trans hc, ht'.trans ht⟩

/-! ### what the first start creates -/

/-- shape of a normalised principal path: non-empty, does not end in `/` -/
def GoodPath (P : String) : Prop := P.toList ≠ [] ∧ P.toList.getLast? ≠ some '/'

theorem joinS_name (P n : String) (hP : GoodPath P) (hn : n.toList.head? ≠ some '/') :
    Path.joinS P n = P ++ "/" ++ n := by
  unfold Path.joinS
  rw [Path.join_rel hP.1 hP.2 hn]
  simp [String.ofList_append, String.append_assoc]

theorem splitS_joinS (P n : String) (hP : GoodPath P) (hn : '/' ∉ n.toList) :
    Path.splitS (Path.joinS P n) = (P, n) := by
  have hh : n.toList.head? ≠ some '/' := Path.head?_ne_slash_of_noSlash hn
  unfold Path.splitS Path.joinS
  rw [Path.join_rel hP.1 hP.2 hh, String.toList_ofList]
  have := Path.split_join_of_getLast_ne (q := P.toList) (t := n.toList) hP.1 hP.2 hn
  rw [this.1] at this
  simp [this.2]

theorem goodPath_joinS (P n : String) (hP : GoodPath P) (hn : '/' ∉ n.toList) (hne : n.toList ≠ []) :
    GoodPath (Path.joinS P n) := by
  have hh : n.toList.head? ≠ some '/' := Path.head?_ne_slash_of_noSlash hn
  unfold GoodPath Path.joinS
  rw [Path.join_rel hP.1 hP.2 hh, String.toList_ofList]
  refine ⟨by simp, ?_⟩
  rw [show P.toList ++ '/' :: n.toList = (P.toList ++ ['/']) ++ n.toList by simp,
    Path.getLast?_append_of_ne_nil _ hne]
  intro h
  exact hn (List.mem_of_getLast? h)

/-- **The first start with `--defaults` creates the layout discovery walks**: afterwards the
    principal, both home sets, the default calendar, the default address book and the inbox
    are all directory paths — and on an empty data directory the defaults are fresh
    repositories of the right type. -/
theorem first_start_creates (w : World) (P : String) (hP : GoodPath P) :
    let w' := bootAt w P true
    w'.isDirPath P = true ∧
    w'.isDirPath (Path.joinS P calendarHomeSet) = true ∧
    w'.isDirPath (Path.joinS P addressbookHomeSet) = true ∧
    w'.isDirPath (Path.joinS (Path.joinS P calendarHomeSet) "calendar") = true ∧
    w'.isDirPath (Path.joinS (Path.joinS P addressbookHomeSet) "addressbook") = true ∧
    w'.isDirPath (Path.joinS P inboxName) = true := by
  intro w'
  -- the successive worlds
  let w0 := if w.isDirPath P then w else w.makedirs P
  let w1 := w0.markPrincipal P
  let w2 := w1.createIfAbsent (Path.joinS P addressbookHomeSet) none
  let w3 := w2.createIfAbsent (Path.joinS P calendarHomeSet) none
  let w4 := w3.createIfAbsent (Path.joinS (Path.joinS P calendarHomeSet) "calendar") (some (.calendar, "calendar"))
  let w5 := w4.createIfAbsent (Path.joinS (Path.joinS P addressbookHomeSet) "addressbook")
    (some (.addressbook, "addressbook"))
  let w6 := w5.createIfAbsent (Path.joinS P inboxName) (some (.inbox, "schedule-inbox"))
  have hw' : w' = w6 := rfl
  have nsC : '/' ∉ calendarHomeSet.toList := by decide
  have nsA : '/' ∉ addressbookHomeSet.toList := by decide
  have nsI : '/' ∉ inboxName.toList := by decide
  have nsc : '/' ∉ "calendar".toList := by decide
  have nsa : '/' ∉ "addressbook".toList := by decide
  have gC := goodPath_joinS P calendarHomeSet hP nsC (by decide)
  have gA := goodPath_joinS P addressbookHomeSet hP nsA (by decide)
  have d0 : w0.isDirPath P = true := by
    show (if w.isDirPath P then w else w.makedirs P).isDirPath P = true
    split
    · assumption
    · exact makedirs_isDirPath w P
  have d1 : w1.isDirPath P = true := d0
  have e2 := createIfAbsent_extends w1 (Path.joinS P addressbookHomeSet) none
  have e3 := createIfAbsent_extends w2 (Path.joinS P calendarHomeSet) none
  have e4 := createIfAbsent_extends w3 (Path.joinS (Path.joinS P calendarHomeSet) "calendar") (some (.calendar, "calendar"))
  have e5 := createIfAbsent_extends w4 (Path.joinS (Path.joinS P addressbookHomeSet) "addressbook")
    (some (.addressbook, "addressbook"))
  have e6 := createIfAbsent_extends w5 (Path.joinS P inboxName) (some (.inbox, "schedule-inbox"))
  have a2 : w2.isDirPath (Path.joinS P addressbookHomeSet) = true :=
    createIfAbsent_isDirPath w1 _ _ (by rw [splitS_joinS P _ hP nsA]; exact d1)
  have c3 : w3.isDirPath (Path.joinS P calendarHomeSet) = true :=
    createIfAbsent_isDirPath w2 _ _ (by rw [splitS_joinS P _ hP nsC]; exact e2.isDirPath P d1)
  have c4 : w4.isDirPath (Path.joinS (Path.joinS P calendarHomeSet) "calendar") = true :=
    createIfAbsent_isDirPath w3 _ _ (by rw [splitS_joinS _ _ gC nsc]; exact c3)
  have a5 : w5.isDirPath (Path.joinS (Path.joinS P addressbookHomeSet) "addressbook") = true :=
    createIfAbsent_isDirPath w4 _ _ (by
      rw [splitS_joinS _ _ gA nsa]
      exact e4.isDirPath _ (e3.isDirPath _ a2))
  have i6 : w6.isDirPath (Path.joinS P inboxName) = true :=
    createIfAbsent_isDirPath w5 _ _ (by
      rw [splitS_joinS P _ hP nsI]
      exact e5.isDirPath _ (e4.isDirPath _ (e3.isDirPath _ (e2.isDirPath _ d1))))
  rw [hw']
  refine ⟨?_, ?_, ?_, ?_, ?_, i6⟩
  · exact e6.isDirPath _ (e5.isDirPath _ (e4.isDirPath _ (e3.isDirPath _ (e2.isDirPath _ d1))))
  · exact e6.isDirPath _ (e5.isDirPath _ (e4.isDirPath _ c3))
  · exact e6.isDirPath _ (e5.isDirPath _ (e4.isDirPath _ (e3.isDirPath _ a2)))
  · exact e6.isDirPath _ (e5.isDirPath _ c4)
  · exact e6.isDirPath _ a5

example : GoodPath "/users/joe" := ⟨by decide, by decide⟩

end Xandikos.Theorems.C18
