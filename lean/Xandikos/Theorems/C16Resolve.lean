/-
  C16, resource level — the href the server emits for a member listed in a collection,
  dereferenced as sent, resolves (in the world model of `Http/World.lean`) to exactly that
  member.  `C16.lean` proves the path-level half (`unquote ∘ quote = id`, `split` of the child
  href); this file pushes it through `get_resource` (`resolve`).
-/
import Xandikos.Theorems.C16

namespace Xandikos.Theorems.C16
open Xandikos Xandikos.Http Xandikos.Py

/-! ### `String` ↔ `List Char` plumbing -/

/-- `normpathS s = s` read on character lists -/
theorem normpath_toList_of_fixed {s : String} (h : Path.normpathS s = s) :
    Path.normpath s.toList = s.toList := by
  have := congrArg String.toList h
  simpa [Path.normpathS] using this

/-- the child href of a collection path that does not end in a slash, as a character list -/
theorem childPath_toList (cp name : String) :
    (cp ++ "/" ++ name).toList = cp.toList ++ '/' :: name.toList := by
  have e : "/".toList = ['/'] := rfl
  rw [String.toList_append, String.toList_append, e, List.append_assoc]
  rfl

/-- **A normalised absolute path other than the root does not end in a slash.** -/
theorem getLast?_ne_slash_of_fixed {q : List Char} (habs : q.head? = some '/')
    (hfix : Path.normpath q = q) (hnr : Path.lstripSlash q ≠ []) :
    q.getLast? ≠ some '/' := by
  have hne : Path.lstripSlash (Path.normpath q) ≠ [] := by rwa [hfix]
  have hrs : Path.rstripSlash (Path.normpath q) = Path.normpath q :=
    (Path.split_normpath_abs habs hne).1
  rw [hfix] at hrs
  obtain ⟨_, _, hgl⟩ := Path.rstripSlash_decomp q
  rwa [hrs] at hgl

/-- with the hypotheses on strings -/
theorem collection_path_no_trailing_slash {cp : String} (habs : cp.toList.head? = some '/')
    (hfix : Path.normpathS cp = cp) (hnr : Path.lstripSlash cp.toList ≠ []) :
    cp.toList.getLast? ≠ some '/' :=
  getLast?_ne_slash_of_fixed habs (normpath_toList_of_fixed hfix) hnr

/-- the child href of such a collection is `cp ++ "/" ++ name` -/
theorem childHref_eq {cp : String} (hl : cp.toList.getLast? ≠ some '/') (name : String) :
    childHref cp name = cp ++ "/" ++ name := by
  unfold childHref ensureTrailingSlash
  rw [if_neg hl]

/-! ### the member path is normalised and splits into (collection, name) -/

/-- **The path of a member of a normalised collection is itself normalised, and `split` gives
    back the collection and the name** (list level). -/
theorem member_path_normal {cp name : List Char} (habs : cp.head? = some '/')
    (hfix : Path.normpath cp = cp) (hnr : Path.lstripSlash cp ≠ []) (hname : Path.Clean name) :
    Path.normpath (cp ++ '/' :: name) = cp ++ '/' :: name ∧
    Path.split (cp ++ '/' :: name) = (cp, name) := by
  have hc : cp ≠ [] := by intro e; simp [e] at habs
  have hl := getLast?_ne_slash_of_fixed habs hfix hnr
  have hsp := member_href_resolves cp name hc hl hname
  have habs' : (cp ++ '/' :: name).head? = some '/' := by
    cases cp with
    | nil => exact absurd rfl hc
    | cons a as => simpa using habs
  have hcl : Path.Clean (Path.split (cp ++ '/' :: name)).2 := by rw [hsp]; exact hname
  have h := Path.normpath_split_clean habs' hcl
  simp only [hsp, hfix] at h
  exact ⟨h.2.2.2 hnr, hsp⟩

/-- the same on strings: `normpathS` fixes the member path and `splitS` splits it -/
theorem member_path_normalS {cp name : String} (habs : cp.toList.head? = some '/')
    (hfix : Path.normpathS cp = cp) (hnr : Path.lstripSlash cp.toList ≠ [])
    (hname : Path.Clean name.toList) :
    Path.normpathS (cp ++ "/" ++ name) = cp ++ "/" ++ name ∧
    Path.splitS (cp ++ "/" ++ name) = (cp, name) := by
  obtain ⟨h1, h2⟩ := member_path_normal habs (normpath_toList_of_fixed hfix) hnr hname
  constructor
  · unfold Path.normpathS
    rw [childPath_toList, h1, ← childPath_toList, String.ofList_toList]
  · unfold Path.splitS
    rw [childPath_toList, h2]
    simp [String.ofList_toList]

/-- a member path is neither `/` nor `//` -/
theorem member_path_not_root {cp name : String} (habs : cp.toList.head? = some '/')
    (hname : Path.Clean name.toList) :
    ((cp ++ "/" ++ name) == "/") = false ∧ ((cp ++ "/" ++ name) == "//") = false := by
  have hlen : 3 ≤ (cp ++ "/" ++ name).toList.length := by
    rw [childPath_toList]
    have h1 : 1 ≤ cp.toList.length := by
      cases h : cp.toList with
      | nil => rw [h] at habs; simp at habs
      | cons a as => simp
    have h2 : 1 ≤ name.toList.length := by
      cases h : name.toList with
      | nil => exact absurd h hname.1
      | cons a as => simp
    simp only [List.length_append, List.length_cons]
    omega
  constructor
  · rw [beq_eq_false_iff_ne]
    intro e
    rw [e] at hlen
    exact absurd hlen (by decide)
  · rw [beq_eq_false_iff_ne]
    intro e
    rw [e] at hlen
    exact absurd hlen (by decide)

/-! ### the theorem -/

/-- **Every listed member's href resolves to that member.**  For a collection at the normalised
    absolute path `cp` (not the root) that lists `name` with ETag `e`, the href emitted for it —
    `create_href(childHref cp name)` — decoded by the front end and looked up by
    `get_resource`, is the member `name` of `cp` with that ETag. -/
theorem listed_member_href_resolves (w : World) (cp name e : String) (c : Coll)
    (habs : cp.toList.head? = some '/')                      -- absolute
    (hfix : Path.normpathS cp = cp)                          -- normalised
    (hnr : Path.lstripSlash cp.toList ≠ [])                  -- not the root
    (hname : Path.Clean name.toList)                         -- a directory-entry name
    (hgit : hasGitSegment (cp ++ "/" ++ name) = false)       -- not below a .git directory
    (hcoll : w.colls[cp]? = some c)
    (hmem : c.st.blobs.lookup name = some e)
    (hfile : w.colls.contains (cp ++ "/" ++ name) = false ∧
      w.dirs.contains (cp ++ "/" ++ name) = false) :
    resolve w (decodeTarget (hrefText (childHref cp name))) = some (.member cp name e) := by
  have hl := collection_path_no_trailing_slash habs hfix hnr
  obtain ⟨hnorm, hsplit⟩ := member_path_normalS habs hfix hnr hname
  obtain ⟨hr1, hr2⟩ := member_path_not_root (cp := cp) habs hname
  rw [href_decodes, childHref_eq hl]
  unfold resolve
  simp only [hnorm, hr1, hr2, hgit, hfile.1, hfile.2, hsplit, hcoll, hmem, Bool.or_self,
    Bool.false_eq_true, if_false]

/-- **Every member a Depth-1 listing shows can be fetched through its href.**  The listing of
    the collection is `c.st.blobs` (`listing_is_exact`: exactly the stored files other than the
    hidden metadata file; `listing_names_distinct`: each once).  For every pair `(name, e)` in
    it, the emitted href resolves to the member `name` with ETag `e`. -/
theorem every_listed_member_href_resolves (w : World) (cp : String) (c : Coll)
    (habs : cp.toList.head? = some '/') (hfix : Path.normpathS cp = cp)
    (hnr : Path.lstripSlash cp.toList ≠ []) (hcoll : w.colls[cp]? = some c)
    (name e : String) (hm : (name, e) ∈ c.st.blobs)
    (hname : Path.Clean name.toList)
    (hgit : hasGitSegment (cp ++ "/" ++ name) = false)
    (hfile : w.colls.contains (cp ++ "/" ++ name) = false ∧
      w.dirs.contains (cp ++ "/" ++ name) = false) :
    resolve w (decodeTarget (hrefText (childHref cp name))) = some (.member cp name e) ∧
    c.st.files[name]? = some e := by
  have hf := (listing_is_exact c.st name e).mp hm
  have hlk : c.st.blobs.lookup name = some e := (Store.blobsOf_lookup ..).mpr hf
  exact ⟨listed_member_href_resolves w cp name e c habs hfix hnr hname hgit hcoll hlk hfile, hf.1⟩

/-! ### non-vacuity: a concrete world

  An address book at `/user/contacts` below the plain directory `/user`, holding one card with
  an awkward name and the hidden metadata file.  Every hypothesis of the theorem is discharged
  for it except `hgit`: `hasGitSegment` is `String.splitOn`, whose worker `String.splitOnAux` is
  an irreducible well-founded recursion over byte positions that neither `decide` nor the kernel
  evaluates (`#eval hasGitSegment "/user/contacts/a:b c%#?.vcf"` prints `false`), so it stays a
  hypothesis of the example. -/

section Example

private def exSt : Store.St :=
  { kind := .tree
    files := ((∅ : Map String).insert "a:b c%#?.vcf" "e1").insert ".xandikos" "m" }
private def exColl : Coll := { st := exSt, ctype := .addressbook }
private def exWorld : World :=
  { dirs := ["/user"], colls := (∅ : Map Coll).insert "/user/contacts" exColl }

example (hgit : hasGitSegment ("/user/contacts" ++ "/" ++ "a:b c%#?.vcf") = false) :
    resolve exWorld (decodeTarget (hrefText (childHref "/user/contacts" "a:b c%#?.vcf")))
      = some (.member "/user/contacts" "a:b c%#?.vcf" "e1") := by
  refine listed_member_href_resolves exWorld _ _ _ exColl (by decide) ?_ (by decide) (by decide)
    hgit ?_ ?_ ?_
  · show String.ofList (Path.normpath "/user/contacts".toList) = "/user/contacts"
    rw [show Path.normpath "/user/contacts".toList = "/user/contacts".toList by decide,
      String.ofList_toList]
  · simp [exWorld]
  · refine (Store.blobsOf_lookup ..).mpr ⟨?_, by decide⟩
    show (((∅ : Map String).insert "a:b c%#?.vcf" "e1").insert ".xandikos" "m")["a:b c%#?.vcf"]?
      = some "e1"
    rw [Map.get_insert_ne _ _ (by decide), Map.get_insert_self]
  · constructor
    · simp [exWorld]
    · simp [exWorld]

/-- the hidden metadata file is not listed, so the theorem's `hmem` cannot be met for it -/
example : exColl.st.blobs.lookup ".xandikos" = none := by
  cases h : exColl.st.blobs.lookup ".xandikos" with
  | none => rfl
  | some e => exact absurd ((Store.blobsOf_lookup ..).mp h).2 (by decide)

end Example

end Xandikos.Theorems.C16
