/-
  C12 — addressbook-query returns exactly the contacts that match the filter (RFC 6352 §10.5).
-/
import Xandikos.Card.Proofs
import Xandikos.Tie.CollationEq

namespace Xandikos.Theorems.C12
open Xandikos Xandikos.Py Xandikos.Card Xandikos.Card.Rfc

/-- Tie: the collation code found in /repo on this run is the model. -/
theorem code_is_model :
    Generated.match_ = Card.match_ ∧ Generated.collations = Card.collations :=
  ⟨Tie.match_eq, Tie.collations_eq⟩

/-- **Every match type × every supported collation is decided as RFC 6352/4790 say**, for all
    strings (ASCII or not), and never raises. -/
theorem collation_match_spec (c a b k : List Char) (hc : SupportedCollation c) (hk : SupportedType k) :
    Decides (collate Generated.collations c a b k) (cmp k (fold c a) (fold c b)) := by
  rw [code_is_model.2]; exact collate_decides c a b k hc hk

/-- every text-match of a filter uses a supported collation and match type -/
def SupportedChild : Child → Prop
  | .text tm => SupportedTM tm
  | .param _ _ tms => ∀ tm ∈ tms, SupportedTM tm

def SupportedFilter (f : Filter) : Prop :=
  ∀ pf ∈ f.props, ∀ c ∈ pf.children, SupportedChild c

theorem param_decides (name : List Char) (nd : Bool) (tms : List TextMatch) (l : Line)
    (h : ∀ tm ∈ tms, SupportedTM tm) :
    Decides (applyParamFilter name nd tms l) (paramMatches name nd tms l) := by
  unfold applyParamFilter paramMatches
  cases hf : l.params.find? (fun p => p.1 == name) with
  | none =>
    have hnone : ∀ p ∈ l.params, p.1 ≠ name := by
      intro p hp he
      have := List.find?_eq_none.mp hf p hp
      simp [he] at this
    cases nd with
    | true => exact ⟨true, rfl, by simpa using hnone⟩
    | false =>
      refine ⟨false, rfl, ?_⟩
      simp only [Bool.false_eq_true, ↓reduceIte, false_iff]
      rintro ⟨p, hp, he, _⟩
      exact hnone p hp he
  | some pv =>
    obtain ⟨pn, values⟩ := pv
    have hmem := List.mem_of_find?_eq_some hf
    have hname : pn = name := by
      have := List.find?_some hf
      simpa using this
    cases nd with
    | true =>
      refine ⟨false, rfl, ?_⟩
      simp only [↓reduceIte, Bool.false_eq_true, false_iff]
      intro hall
      exact hall _ hmem hname
    | false =>
      simp only [Bool.false_eq_true, ↓reduceIte]
      have hd := allM_decides (fun tm => anyM (applyTextMatch tm) values)
        (fun tm => ∃ v ∈ values, textMatches tm v) tms
        (fun tm htm => anyM_decides _ _ values (fun v _ => textMatch_decides tm v (h tm htm)))
      obtain ⟨b, hb, hiff⟩ := hd
      refine ⟨b, hb, ?_⟩
      rw [hiff]
      constructor
      · intro hall
        exact ⟨(pn, values), hmem, hname, rfl, hall⟩
      · rintro ⟨p, _, _, hfind, hall⟩
        injection hfind with hfind
        subst hfind
        exact hall

theorem child_decides (l : Line) (c : Child) (h : SupportedChild c) :
    Decides (applyChild l c) (childMatches l c) := by
  cases c with
  | text tm => exact textMatch_decides tm l.value h
  | param n nd tms => exact param_decides n nd tms l h

theorem propFilter_decides (pf : PropFilter) (card : Card)
    (h : ∀ c ∈ pf.children, SupportedChild c) :
    Decides (applyPropFilter pf card) (propFilterMatches pf card) := by
  unfold applyPropFilter propFilterMatches
  simp only []
  cases hnd : pf.isNotDefined with
  | true =>
    refine ⟨(card.filter fun l => l.name == pf.name).isEmpty, rfl, ?_⟩
    simp only [List.isEmpty_iff, List.filter_eq_nil_iff, beq_iff_eq, ↓reduceIte]
  | false =>
    simp only [Bool.false_eq_true, ↓reduceIte]
    cases hemp : (card.filter fun l => l.name == pf.name).isEmpty with
    | true =>
      refine ⟨false, rfl, ?_⟩
      simp only [Bool.false_eq_true, false_iff]
      rintro ⟨l, hl, hn, _⟩
      rw [List.isEmpty_iff, List.filter_eq_nil_iff] at hemp
      exact hemp l hl (by simpa using hn)
    | false =>
      simp only [Bool.false_eq_true, ↓reduceIte]
      have hd := anyM_decides
        (fun l => if pf.children.isEmpty then pure true
                  else if pf.allof then allM (applyChild l) pf.children
                  else anyM (applyChild l) pf.children)
        (fun l => pf.children = [] ∨
          (if pf.allof then ∀ c ∈ pf.children, childMatches l c
           else ∃ c ∈ pf.children, childMatches l c))
        (card.filter fun l => l.name == pf.name)
        (by
          intro l _
          cases hce : pf.children.isEmpty with
          | true =>
            refine ⟨true, rfl, ?_⟩
            simp [List.isEmpty_iff.mp hce]
          | false =>
            have hne : pf.children ≠ [] := by
              intro e; rw [e] at hce; simp at hce
            simp only [Bool.false_eq_true, ↓reduceIte]
            cases hall : pf.allof with
            | true =>
              obtain ⟨b, hb, hiff⟩ := allM_decides (applyChild l) (childMatches l) pf.children
                (fun c hc => child_decides l c (h c hc))
              exact ⟨b, hb, by simp [hiff, hne]⟩
            | false =>
              obtain ⟨b, hb, hiff⟩ := anyM_decides (applyChild l) (childMatches l) pf.children
                (fun c hc => child_decides l c (h c hc))
              exact ⟨b, hb, by simp [hiff, hne]⟩)
      obtain ⟨b, hb, hiff⟩ := hd
      refine ⟨b, hb, ?_⟩
      rw [hiff]
      constructor
      · rintro ⟨l, hl, hp⟩
        rw [List.mem_filter] at hl
        exact ⟨l, hl.1, by simpa using hl.2, hp⟩
      · rintro ⟨l, hl, hn, hp⟩
        exact ⟨l, List.mem_filter.mpr ⟨hl, by simpa using hn⟩, hp⟩

/-- **The filter evaluation is RFC 6352 §10.5** for every vCard and every filter over the
    supported collations and match types — and it never fails, whatever characters the card
    contains ("non-ASCII card contents never make a query fail"). -/
theorem apply_filter_eq_rfc (f : Filter) (card : Card) (h : SupportedFilter f) :
    Decides (applyFilter f card) (filterMatches f card) := by
  unfold applyFilter filterMatches
  cases hemp : f.props.isEmpty with
  | true => exact ⟨true, rfl, by simp [List.isEmpty_iff.mp hemp]⟩
  | false =>
    have hne : f.props ≠ [] := by intro e; rw [e] at hemp; simp at hemp
    simp only [Bool.false_eq_true, ↓reduceIte]
    cases hall : f.allof with
    | true =>
      obtain ⟨b, hb, hiff⟩ := allM_decides (fun pf => applyPropFilter pf card)
        (fun pf => propFilterMatches pf card) f.props
        (fun pf hpf => propFilter_decides pf card (h pf hpf))
      exact ⟨b, hb, by simp [hiff, hne]⟩
    | false =>
      obtain ⟨b, hb, hiff⟩ := anyM_decides (fun pf => applyPropFilter pf card)
        (fun pf => propFilterMatches pf card) f.props
        (fun pf hpf => propFilter_decides pf card (h pf hpf))
      exact ⟨b, hb, by simp [hiff, hne]⟩

/-- total: no supported query raises -/
theorem query_total (f : Filter) (card : Card) (h : SupportedFilter f) :
    ∃ b, applyFilter f card = .ok b :=
  let ⟨b, hb, _⟩ := apply_filter_eq_rfc f card h; ⟨b, hb⟩

/-- **The report lists the matching members in order and stops after `nresults`**: without a
    limit it is exactly the members that match; with a limit `k` it is the first `k` of them. -/
theorem report_is_matching_prefix (f : Filter) (h : SupportedFilter f)
    (members : List (String × Card)) (limit : Option Nat) :
    ∃ sel : List String,
      (∀ g : String × Card → Bool, (∀ m ∈ members, (g m = true ↔ filterMatches f m.2)) →
        sel = (members.filter g).map (·.1)) ∧
      query f limit members = .ok (match limit with | some k => sel.take k | none => sel) := by
  classical
  let g : String × Card → Bool := fun m => decide (filterMatches f m.2)
  refine ⟨(members.filter g).map (·.1), ?_, ?_⟩
  · intro g' hg'
    congr 1
    apply List.filter_congr
    intro m hm
    have := hg' m hm
    by_cases hp : filterMatches f m.2
    · simp [g, hp, this.mpr hp]
    · have : g' m = false := by
        cases hg : g' m
        · rfl
        · exact absurd (this.mp hg) hp
      simp [g, hp, this]
  · unfold query
    suffices ∀ (ms : List (String × Card)) (i : Nat),
        queryGo f limit i ms = .ok
          (match limit with
           | some k => ((ms.filter g).map (·.1)).take (k - i)
           | none => (ms.filter g).map (·.1)) by
      have := this members 0
      simpa using this
    intro ms
    induction ms with
    | nil => intro i; cases limit <;> simp [queryGo] <;> rfl
    | cons m ms ih =>
      intro i
      obtain ⟨n, c⟩ := m
      obtain ⟨b, hb, hiff⟩ := apply_filter_eq_rfc f c h
      unfold queryGo
      rw [hb]
      cases b with
      | false =>
        have hg : g (n, c) = false := by
          simp only [g, decide_eq_false_iff_not]; intro hp; simpa using hiff.mpr hp
        have := ih i
        simp only [List.filter_cons, hg, Bool.false_eq_true, ↓reduceIte]
        exact this
      | true =>
        have hg : g (n, c) = true := by simp only [g, decide_eq_true_eq]; exact hiff.mp rfl
        simp only [List.filter_cons, hg, ↓reduceIte, List.map_cons]
        cases limit with
        | none =>
          have := ih (i + 1)
          simp only [] at this ⊢
          show (do let r ← queryGo f none (i + 1) ms; pure (n :: r)) = _
          rw [this]; rfl
        | some k =>
          by_cases hik : i ≥ k
          · have h0 : k - i = 0 := by omega
            simp [hik, h0]; rfl
          · have := ih (i + 1)
            simp only [] at this
            have hdec : decide (i ≥ k) = false := by simp [hik]
            simp only [hdec, Bool.false_eq_true, ↓reduceIte]
            show (do let r ← queryGo f (some k) (i + 1) ms; pure (n :: r)) = _
            rw [this]
            have hk : k - i = (k - (i + 1)) + 1 := by omega
            rw [hk, List.take_succ_cons]; rfl

end Xandikos.Theorems.C12
