/-
  C07 — sync-collection reports exactly the changes since the given token (store level:
  `iter_changes` and the token checks; the HTTP rendering is tied by correspondence).
-/
import Xandikos.Store.UidProofs

namespace Xandikos.Theorems.C07
open Xandikos Xandikos.Store

theorem listed_bare (n : String) : listed .bare n = (n != configName) := rfl

/-- A member is reported as created/changed iff it is listed now with a different (or no)
    previous content — and the report carries its current ETag. -/
theorem changed_iff (old new : Map String) (n : String) (o : Option String) (e : String) :
    Change.changed n o e ∈ diffTrees old new ↔
      (new[n]? = some e ∧ listed .bare n = true ∧ old[n]? ≠ some e ∧ o = old[n]?) := by
  unfold diffTrees
  simp only [List.mem_append, List.mem_filterMap]
  constructor
  · rintro (⟨⟨n', e'⟩, hm, hx⟩ | ⟨⟨n', e'⟩, _, hx⟩)
    · obtain ⟨hf, hl⟩ := (blobsOf_mem ..).mp hm
      split at hx
      · simp at hx
      · rename_i hne
        simp at hx
        obtain ⟨rfl, rfl, rfl⟩ := hx
        exact ⟨hf, hl, hne, rfl⟩
    · split at hx <;> simp at hx
  · rintro ⟨hf, hl, hne, rfl⟩
    left
    exact ⟨(n, e), (blobsOf_mem ..).mpr ⟨hf, hl⟩, by simp [hne]⟩

/-- A member is reported as removed iff it was listed in the old state and is gone now. -/
theorem removed_iff (old new : Map String) (n e : String) :
    Change.removed n e ∈ diffTrees old new ↔
      (old[n]? = some e ∧ listed .bare n = true ∧ new[n]? = none) := by
  unfold diffTrees
  simp only [List.mem_append, List.mem_filterMap]
  constructor
  · rintro (⟨⟨n', e'⟩, _, hx⟩ | ⟨⟨n', e'⟩, hm, hx⟩)
    · split at hx <;> simp at hx
    · obtain ⟨hf, hl⟩ := (blobsOf_mem ..).mp hm
      split at hx
      · simp at hx
      · rename_i hne
        simp at hx
        obtain ⟨rfl, rfl⟩ := hx
        refine ⟨hf, hl, ?_⟩
        cases h : new[n']? with
        | none => rfl
        | some v => simp [h] at hne
  · rintro ⟨hf, hl, hn⟩
    right
    exact ⟨(n, e), (blobsOf_mem ..).mpr ⟨hf, hl⟩, by simp [hn]⟩

/-- Nothing changed ⇒ empty report (a write that was reverted is invisible). -/
theorem diff_self (t : Map String) : diffTrees t t = [] := by
  unfold diffTrees
  simp only [List.append_eq_nil_iff, List.filterMap_eq_nil_iff]
  constructor
  · rintro ⟨n, e⟩ hm
    have := ((blobsOf_mem ..).mp hm).1
    simp [this]
  · rintro ⟨n, e⟩ hm
    have := ((blobsOf_mem ..).mp hm).1
    simp [this]

/-- Replaying a report on a replica: apply each change to a map. -/
def applyChange (m : Map String) : Change → Map String
  | .changed n _ e => m.insert n e
  | .removed n _ => m.erase n

/-- **Applying the report to a replica of the old state yields the current state**
    (member by member, for every listed name). -/
theorem replay_yields_current (old new : Map String) (n : String) (hl : listed .bare n = true) :
    ((diffTrees old new).foldl applyChange old)[n]? = new[n]? := by
  -- the fold touches `n` only through changes that mention `n`; characterise by membership
  have key : ∀ (cs : List Change) (m : Map String),
      (∀ c ∈ cs, match c with
        | .changed n' _ e => new[n']? = some e
        | .removed n' _ => new[n']? = none) →
      (m[n]? = new[n]? ∨ ∃ c ∈ cs, match c with
        | .changed n' _ _ => n' = n
        | .removed n' _ => n' = n) →
      (cs.foldl applyChange m)[n]? = new[n]? := by
    intro cs
    induction cs with
    | nil =>
      intro m _ h
      rcases h with h | ⟨c, hc, _⟩
      · simpa using h
      · simp at hc
    | cons c cs ih =>
      intro m hall h
      simp only [List.foldl_cons]
      apply ih
      · intro c' hc'; exact hall c' (List.mem_cons_of_mem _ hc')
      · have hc := hall c (List.mem_cons_self ..)
        cases c with
        | changed n' o e =>
          simp only [applyChange]
          by_cases hn : n' = n
          · subst hn; left; simp [hc]
          · rcases h with h | ⟨c', hc', hm⟩
            · left; rw [Map.get_insert_ne _ _ hn]; exact h
            · rcases List.mem_cons.mp hc' with rfl | hc''
              · exact absurd hm hn
              · right; exact ⟨c', hc'', hm⟩
        | removed n' e =>
          simp only [applyChange]
          by_cases hn : n' = n
          · subst hn; left; simp [hc]
          · rcases h with h | ⟨c', hc', hm⟩
            · left; rw [Map.get_erase_ne _ hn]; exact h
            · rcases List.mem_cons.mp hc' with rfl | hc''
              · exact absurd hm hn
              · right; exact ⟨c', hc'', hm⟩
  apply key
  · intro c hc
    cases c with
    | changed n' o e => exact ((changed_iff ..).mp hc).1
    | removed n' e => exact ((removed_iff ..).mp hc).2.2
  · by_cases heq : old[n]? = new[n]?
    · left; exact heq
    · right
      cases hnew : new[n]? with
      | some e =>
        refine ⟨.changed n old[n]? e, (changed_iff ..).mpr ⟨hnew, hl, ?_, rfl⟩, rfl⟩
        rw [← hnew]; exact heq
      | none =>
        cases hold : old[n]? with
        | none => rw [hold, hnew] at heq; exact absurd rfl heq
        | some e => exact ⟨.removed n e, (removed_iff ..).mpr ⟨hold, hl, hnew⟩, rfl⟩

/-- An empty token yields the full membership. -/
theorem empty_token_is_full (new : Map String) (n e : String) :
    Change.changed n none e ∈ diffTrees ∅ new ↔ (new[n]? = some e ∧ listed .bare n = true) := by
  rw [changed_iff]; simp

/-- **A token the collection never issued is answered with an error**, never with a change
    list: `iter_changes` fails unless both tokens name tree objects of the store. -/
theorem foreign_token_is_error (s : St) (old new : Map String) (h : old ∉ s.objs) :
    (iterChanges s (some old) new).2 = none := by
  unfold iterChanges
  cases s.kind <;> simp [h]

theorem addObj_mem (objs : List (Map String)) (t x : Map String) (h : x ∈ objs) :
    x ∈ addObj objs t := by
  unfold addObj; split
  · exact h
  · exact List.mem_append_left _ h

theorem addObj_self (objs : List (Map String)) (t : Map String) : t ∈ addObj objs t := by
  unfold addObj; split
  · rename_i h; simpa using h
  · simp

/-- Every token issued by a tree store names a tree object of that store … -/
theorem issued_token_is_valid (s : St) (hk : s.kind = .tree) (t : Map String)
    (h : (getCtag s).2 = some t) : t ∈ (getCtag s).1.objs := by
  unfold getCtag at *
  simp only [hk] at *
  simp at h; subst h
  exact addObj_self _ _

/-- … and stays valid for ever: the object store only grows. -/
theorem objs_monotone (env : Env) (s : St) (op : Op) (t : Map String) (h : t ∈ s.objs) :
    t ∈ (step env s op).1.objs := by
  have hcommit : ∀ (s : St) f, t ∈ s.objs → t ∈ (commit s f).objs :=
    fun s f h => addObj_mem _ _ _ h
  have hcic : ∀ (s : St) f, t ∈ s.objs → t ∈ (commitIfChanged s f).objs := by
    intro s f h; unfold commitIfChanged; split
    · exact h
    · exact hcommit s f h
  cases op with
  | put n ct tk r =>
    simp only [step]
    unfold importOne
    simp only []
    (repeat' split)
    all_goals first | exact h | skip
    unfold writeOne
    cases s.kind <;> simp only []
    · exact hcic _ _ h
    · split
      · exact h
      · exact hcic _ _ h
    · exact h
  | del n e =>
    simp only [step]
    unfold deleteOne
    simp only []
    (repeat' split)
    all_goals first | exact h | exact hcommit _ _ h
  | ctag =>
    simp only [step, getCtag]
    cases s.kind <;> simp only [] <;> first | exact h | exact addObj_mem _ _ _ h
  | restart => exact h

/-- A successful report for a known token is exactly the difference of the two states. -/
theorem sync_exact (s : St) (old new : Map String) (hk : s.kind ≠ .vdir)
    (ho : old ∈ s.objs) (hn : new ∈ s.objs) :
    (iterChanges s (some old) new).2 = some (diffTrees old new) := by
  unfold iterChanges
  cases hkind : s.kind with
  | vdir => exact absurd hkind hk
  | bare => simp [ho, hn]
  | tree => simp [ho, hn]

end Xandikos.Theorems.C07
