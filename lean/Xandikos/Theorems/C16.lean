/-
  C16 — listings are complete and every href the server emits resolves.
-/
import Xandikos.Http.Href
import Xandikos.Py.UrlProofs
import Xandikos.Py.PathProofs2
import Xandikos.Store.UidProofs
import Xandikos.Http.World
import Xandikos.Tie.HrefEq
import Xandikos.Tie.TraverseEq

namespace Xandikos.Theorems.C16
open Xandikos Xandikos.Http Xandikos.Py

/-- **the code is the model**: `webdav.ensure_trailing_slash`, as translated from /repo on this
    run, is the function the child-href and Location rules of the model are built with -/
theorem code_is_model_ensure_trailing_slash (h : String) :
    String.ofList (Generated.ensure_trailing_slash h.toList) = ensureTrailingSlash h :=
  Tie.ensure_trailing_slash_eq h

/-- on the translated code: the result always ends in `/` and only ever appends -/
theorem ensure_trailing_slash_ends_in_slash (h : List Char) :
    (Generated.ensure_trailing_slash h).getLast? = some '/' ∧
      (Generated.ensure_trailing_slash h = h ∨ Generated.ensure_trailing_slash h = h ++ ['/']) := by
  unfold Generated.ensure_trailing_slash
  rw [Tie.endsWith_slash]
  by_cases hl : h.getLast? = some '/'
  · simp [hl]
  · simp [hl]

/-- **Depth 0 describes exactly the addressed resource** — on `webdav.traverse_resource` as
    translated from /repo on this run (`hrefOf`: a collection's href gets its trailing slash) -/
theorem code_depth0_exactly_the_resource (fuel : Nat) (r : Py.ResTree) (h : String) :
    Generated.traverse_resource (fuel + 1) r h "0" = .ok [(Tie.hrefOf r h, r)] :=
  Tie.traverse_depth0 fuel r h

/-- **Depth 1 describes the resource and exactly its direct members, each once**, in the order
    `members()` yields them, under the href `childHref` gives (the collection's href with its
    trailing slash, then the name; a member that is a collection ends in `/`); a resource that
    is not a collection has no members to report -/
theorem code_depth1_exactly_the_members (fuel : Nat) (r : Py.ResTree) (h : String)
    (hf : r.members.length ≤ fuel) :
    Generated.traverse_resource (fuel + 1) r h "1" =
      .ok ((Tie.hrefOf r h, r) ::
        (if r.isCollection then r.members.map fun x => (Tie.hrefOf x.2 (childHref h x.1), x.2) else [])) :=
  Tie.traverse_depth1 fuel r h hf

/-- an unknown Depth is an error, never a (partial) listing -/
theorem code_unknown_depth_is_an_error (fuel : Nat) (r : Py.ResTree) (h d : String)
    (h0 : d ≠ "0") (h1 : d ≠ "1") (hi : d ≠ "infinity") :
    Generated.traverse_resource (fuel + 1) r h d = .error (.raised "AssertionError" d) :=
  Tie.traverse_bad_depth fuel r h d h0 h1 hi

/-- non-vacuity: a calendar with a member and a sub-collection -/
example :
    Generated.traverse_resource 5 (.node true [("a b.ics", .node false []), ("sub", .node true [("x.ics", .node false [])])])
        "/user/cal" "1" =
      .ok [("/user/cal/", .node true [("a b.ics", .node false []), ("sub", .node true [("x.ics", .node false [])])]),
           ("/user/cal/a b.ics", .node false []), ("/user/cal/sub/", .node true [("x.ics", .node false [])])] := by
  rfl

/-- **Every emitted href decodes to the path it was built from** — for every string, hence for
    member names with spaces, `%`, `#`, `?`, `;`, `+`, `&`, `:` and non-ASCII characters, under
    any route prefix: `unquote(quote(p)) = p`. -/
theorem href_decodes (p : String) : decodeTarget (hrefText p) = p :=
  Url.unquote_quote p

/-- the emitted text is a plain absolute-path reference: no scheme is ever detected in it and
    nothing of it is cut off as query or fragment, so "dereferencing it as sent" addresses the
    path above (this is what failed for `a:b.vcf` before the repair).  The hypothesis excludes
    paths that start with `//`: such a text is a network-path reference (RFC 3986 §4.2) whatever
    the encoding; the server emits one only in answer to a request-target that itself starts
    with `//` (see DESIGN.md, observations). -/
theorem href_is_path_only (p : String) (hp : Url.startsDoubleSlash p.toList = false) :
    Url.has_scheme (hrefText p) = false ∧ Url.urlsplit_path (hrefText p) = hrefText p ∧
    '?' ∉ (hrefText p).toList ∧ '#' ∉ (hrefText p).toList ∧ ' ' ∉ (hrefText p).toList :=
  ⟨Url.has_scheme_quote p, Url.urlsplit_path_quote p hp, (Url.quote_no_special p).1,
    (Url.quote_no_special p).2.1, (Url.quote_no_special p).2.2⟩

/-- collection hrefs end in a slash -/
theorem collection_href_ends_in_slash (h : String) :
    (ensureTrailingSlash h).toList.getLast? = some '/' := by
  unfold ensureTrailingSlash
  split
  · assumption
  · simp [String.toList_append]

/-- **A member href addresses the member**: decoding `childHref coll name` and splitting it
    the way `get_resource` does gives back the collection path and the member name — for every
    clean name (non-empty, no `/`, not `.` or `..`). -/
theorem member_href_resolves (coll name : List Char) (hc : coll ≠ []) (hl : coll.getLast? ≠ some '/')
    (hn : Path.Clean name) :
    Path.split (coll ++ '/' :: name) = (coll, name) := by
  have := (Path.split_join_of_getLast_ne (q := coll) (t := name) hc hl hn.2.2.2).2
  rwa [(Path.split_join_of_getLast_ne (q := coll) (t := name) hc hl hn.2.2.2).1] at this

/-- the same, with the percent-encoding round trip in front: what the client sends back is the
    emitted text, the front end decodes it, the path is split into (collection, name) -/
theorem emitted_member_href_resolves (coll name : String) (hc : coll.toList ≠ [])
    (hl : coll.toList.getLast? ≠ some '/') (hn : Path.Clean name.toList) :
    Path.split (decodeTarget (hrefText (childHref coll name))).toList = (coll.toList, name.toList) := by
  rw [href_decodes]
  unfold childHref ensureTrailingSlash
  have : ¬ (coll.toList.getLast? = some '/') := hl
  simp only [this, ↓reduceIte, String.toList_append]
  have e : "/".toList = ['/'] := rfl
  rw [e, List.append_assoc]
  exact member_href_resolves coll.toList name.toList hc hl hn

/-- **Depth 1 lists each member once**: the file names a collection lists are pairwise
    distinct (they are the keys of the tree). -/
theorem listing_names_distinct (s : Store.St) : (s.blobs.map (·.1)).Nodup :=
  Store.blobsOf_nodup s.kind s.files

/-- **Depth 1 lists exactly the direct members**: a name is listed iff a file of that name is
    stored (and is not the hidden metadata file). -/
theorem listing_is_exact (s : Store.St) (n e : String) :
    (n, e) ∈ s.blobs ↔ s.files[n]? = some e ∧ Store.listed s.kind n = true :=
  Store.blobsOf_mem s.kind s.files n e

/-- non-vacuity: awkward names are clean, so the theorems apply to them -/
example : Path.Clean "a:b c%#?;+&é.vcf".toList := by decide

/-- **The Location of POST add-member resolves to the new member**: below the route prefix it is
    a plain path reference (no raw space, no query/fragment cut) that decodes to
    `collection/ ++ name` (before the repair the collection part was emitted undecorated). -/
theorem post_location_resolves (path name : String) :
    decodeTarget (postLocationPath path name) = ensureTrailingSlash path ++ name ∧
    ' ' ∉ (postLocationPath path name).toList ∧ '?' ∉ (postLocationPath path name).toList ∧
    '#' ∉ (postLocationPath path name).toList :=
  ⟨Url.unquote_quote _, (Url.quote_no_special _).2.2, (Url.quote_no_special _).1, (Url.quote_no_special _).2.1⟩

end Xandikos.Theorems.C16
