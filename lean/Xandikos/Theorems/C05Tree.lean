/-
  C05, tree store, several processes — the part of the statement that DOES hold there.

  Writers of a tree store exclude each other from the write section with `index.lock`; a second
  writer is refused as locked, it does not wait.  The preconditions (UID, ETag) are evaluated
  BEFORE the lock is taken, which is what breaks serialisability in general (see the
  counterexamples in `C05.lean`).  For operations WITHOUT preconditions — `put name tok` with no
  UID and no replace ETag — nothing is evaluated outside the lock, and every schedule is
  serialisable: the final members are the logged writes applied one after another, every thread
  that answered ok is in the log exactly once, and a thread refused as locked changed nothing.
-/
import Xandikos.Theorems.C05

namespace Xandikos.Theorems.C05
open Xandikos.Store.Conc
open Xandikos.Store.Crash (setKey delKey)

/-- no UID and no ETag precondition -/
def _root_.Xandikos.Store.Conc.Op.unconditional : Op → Bool
  | .put _ _ none none => true
  | _ => false

theorem unconditional_eq (op : Op) (h : op.unconditional = true) :
    ∃ n tok, op = .put n tok none none := by
  cases op with
  | put n tok uid rep =>
    cases uid <;> cases rep <;> simp_all [Op.unconditional]
  | del n e => simp [Op.unconditional] at h

/-- an unconditional put has no precondition to fail -/
theorem check_unconditional (uidOf : String → Option String) (m : Members) (op : Op)
    (h : op.unconditional = true) : check uidOf m op = none := by
  obtain ⟨n, tok, rfl⟩ := unconditional_eq op h
  simp [check]

/-- … so executed in one step it writes and answers ok -/
theorem atomic_unconditional (uidOf : String → Option String) (m : Members) (op : Op)
    (h : op.unconditional = true) : atomic uidOf m op = (effect m op, .ok) := by
  simp [atomic, check_unconditional uidOf m op h]

/-- a sequential execution of unconditional puts applies them in order, each answering ok -/
theorem seqRun_unconditional (uidOf : String → Option String) (m : Members) (ops : List Op)
    (h : ∀ op ∈ ops, op.unconditional = true) :
    seqRun uidOf m ops = (ops.foldl effect m, ops.map fun _ => Res.ok) := by
  induction ops generalizing m with
  | nil => simp [seqRun]
  | cons op rest ih =>
    simp only [seqRun, atomic_unconditional uidOf m op (h op (List.mem_cons_self ..)),
      ih (effect m op) (fun o ho => h o (List.mem_cons_of_mem _ ho)), List.foldl_cons, List.map_cons]

theorem getElem?_setNth {α : Type} (l : List α) (i j : Nat) (v x : α) (h : l[i]? = some x) :
    (setNth l i v)[j]? = if i = j then some v else l[j]? := by
  by_cases e : i = j
  · subst e; simp [getElem?_setNth_self l i v x h]
  · simp [e, getElem?_setNth_ne l i j v e]

theorem setNth_same {α : Type} (l : List α) (i : Nat) (x : α) (h : l[i]? = some x) :
    setNth l i x = l := by
  apply List.ext_getElem?
  intro j
  rw [getElem?_setNth l i j x x h]
  split
  · next e => subst e; exact h.symm
  · rfl

/-- invariant of tree-store schedules of unconditional puts, started from members `m₀` -/
structure TreeInv (m₀ : Members) (sh : Shared) (ts : List Thread) : Prop where
  uncond : ∀ (i : Nat) (t : Thread), ts[i]? = some t → t.op.unconditional = true
  /-- the members are the logged writes applied in order -/
  members : sh.members = (sh.log.map (·.2)).foldl effect m₀
  /-- whoever holds `index.lock` — before or after writing its working-tree file — read the index
      when taking it and nobody has committed since -/
  holder : ∀ (i : Nat) (t : Thread) (seen : Members), ts[i]? = some t →
    (t.pc = .holding seen ∨ t.pc = .written seen) → sh.lock = some i ∧ seen = sh.members
  /-- the lock is held by a thread that is in its write section -/
  lockHeld : ∀ (i : Nat), sh.lock = some i →
    ∃ (t : Thread) (seen : Members), ts[i]? = some t ∧ (t.pc = .holding seen ∨ t.pc = .written seen)
  /-- the log lists exactly the threads that finished ok, each once, with their operation -/
  logNodup : (sh.log.map (·.1)).Nodup
  logged : ∀ (i : Nat) (t : Thread), ts[i]? = some t → (t.pc = .done .ok ↔ (i, t.op) ∈ sh.log)
  logOps : ∀ e ∈ sh.log, ∃ (t : Thread), ts[e.1]? = some t ∧ t.op = e.2
  /-- the only other way to finish is to be refused as locked -/
  finished : ∀ (i : Nat) (t : Thread) (r : Res), ts[i]? = some t → t.pc = .done r → r = .ok ∨ r = .locked

/-- every step of every thread preserves the invariant -/
theorem tree_processes_step (uidOf : String → Option String) (m₀ : Members) (sh : Shared) (ts : List Thread)
    (i : Nat) (t : Thread) (hi : ts[i]? = some t) (inv : TreeInv m₀ sh ts) :
    TreeInv m₀ (stepThread uidOf .tree .processes i sh t).1
      (setNth ts i (stepThread uidOf .tree .processes i sh t).2) := by
  obtain ⟨op, pc⟩ := t
  have hu := inv.uncond i _ hi
  obtain ⟨n, tok, rfl⟩ := unconditional_eq op hu
  have hget := fun j v => getElem?_setNth ts i j v _ hi
  obtain ⟨h1, h2, h3, h4, h5, h6, h7, h8⟩ := inv
  cases pc with
  | start =>
    have hstep : stepThread uidOf .tree .processes i sh ⟨.put n tok none none, .start⟩ =
        (sh, ⟨.put n tok none none, .checked⟩) := by
      simp [stepThread, check]
    rw [hstep]
    refine ⟨?_, ?_, ?_, ?_, ?_, ?_, ?_, ?_⟩ <;> grind
  | checked =>
    cases hl : sh.lock with
    | some j =>
      have hstep : stepThread uidOf .tree .processes i sh ⟨.put n tok none none, .checked⟩ =
          (sh, ⟨.put n tok none none, .done .locked⟩) := by
        simp [stepThread, hl]
      rw [hstep]
      refine ⟨?_, ?_, ?_, ?_, ?_, ?_, ?_, ?_⟩ <;> grind
    | none =>
      have hstep : stepThread uidOf .tree .processes i sh ⟨.put n tok none none, .checked⟩ =
          ({ sh with lock := some i }, ⟨.put n tok none none, .holding sh.members⟩) := by
        simp [stepThread, hl]
      rw [hstep]
      refine ⟨?_, ?_, ?_, ?_, ?_, ?_, ?_, ?_⟩
      · grind
      · grind
      · grind
      · intro j hj
        have e : i = j := by simpa using hj
        subst e
        exact ⟨⟨.put n tok none none, .holding sh.members⟩, sh.members, by simp [hget], Or.inl rfl⟩
      · grind
      · grind
      · grind
      · grind
  | holding seen =>
    have hstep : stepThread uidOf .tree .processes i sh ⟨.put n tok none none, .holding seen⟩ =
        ({ sh with wt := effect sh.wt (.put n tok none none) },
         ⟨.put n tok none none, .written seen⟩) := by
      simp [stepThread]
    rw [hstep]
    obtain ⟨hlock, hseen⟩ := h3 i _ seen hi (Or.inl rfl)
    refine ⟨?_, ?_, ?_, ?_, ?_, ?_, ?_, ?_⟩
    · grind
    · grind
    · grind
    · intro j hj
      have e : i = j := by
        have : sh.lock = some j := hj
        rw [hlock] at this
        simpa using this
      subst e
      exact ⟨⟨.put n tok none none, .written seen⟩, seen, by simp [hget], Or.inr rfl⟩
    · grind
    · grind
    · grind
    · grind
  | written seen =>
    have hstep : stepThread uidOf .tree .processes i sh ⟨.put n tok none none, .written seen⟩ =
        ({ sh with members := effect seen (.put n tok none none), lock := none,
                   log := sh.log ++ [(i, .put n tok none none)] },
         ⟨.put n tok none none, .done .ok⟩) := by
      simp [stepThread]
    rw [hstep]
    obtain ⟨hlock, hseen⟩ := h3 i _ seen hi (Or.inr rfl)
    have hnot : ∀ o, (i, o) ∉ sh.log := by
      intro o ho
      obtain ⟨t', ht', hop⟩ := h7 _ ho
      grind
    refine ⟨?_, ?_, ?_, ?_, ?_, ?_, ?_, ?_⟩
    · grind
    · simp [List.foldl_append, ← h2, hseen]
    · grind
    · grind
    · simp only [List.map_append, List.map_cons, List.map_nil]
      rw [List.nodup_append]
      refine ⟨h5, by simp, ?_⟩
      intro a ha b hb
      simp at hb
      subst hb
      intro e
      subst e
      simp only [List.mem_map] at ha
      obtain ⟨e, he, rfl⟩ := ha
      exact hnot e.2 he
    · grind
    · grind
    · grind
  | done r =>
    have hstep : stepThread uidOf .tree .processes i sh ⟨.put n tok none none, .done r⟩ =
        (sh, ⟨.put n tok none none, .done r⟩) := by
      simp [stepThread]
    rw [hstep, setNth_same ts i _ hi]
    exact ⟨h1, h2, h3, h4, h5, h6, h7, h8⟩

/-- the invariant holds before anything has run -/
theorem tree_initial (m₀ : Members) (ops : List Op) (hu : ∀ op ∈ ops, op.unconditional = true) :
    TreeInv m₀ { members := m₀ } (ops.map fun op => { op := op }) := by
  have hth : ∀ (i : Nat) (t : Thread), (ops.map fun op => ({ op := op } : Thread))[i]? = some t →
      t.pc = .start ∧ t.op ∈ ops := by
    intro i t ht
    simp only [List.getElem?_map, Option.map_eq_some_iff] at ht
    obtain ⟨op, hop, rfl⟩ := ht
    exact ⟨rfl, List.mem_of_getElem? hop⟩
  refine ⟨?_, by simp, ?_, by simp, by simp, ?_, by simp, ?_⟩
  · intro i t ht
    exact hu _ (hth i t ht).2
  · intro i t seen ht hpc
    rw [(hth i t ht).1] at hpc
    rcases hpc with hpc | hpc <;> cases hpc
  · intro i t ht
    rw [(hth i t ht).1]
    simp
  · intro i t r ht hpc
    rw [(hth i t ht).1] at hpc
    cases hpc

/-- the invariant is preserved along any schedule -/
theorem tree_processes_run (uidOf : String → Option String) (m₀ : Members) (sched : List Nat)
    (sh : Shared) (ts : List Thread) (inv : TreeInv m₀ sh ts) :
    TreeInv m₀ (runSched uidOf .tree .processes sh ts sched).1
      (runSched uidOf .tree .processes sh ts sched).2 := by
  induction sched generalizing sh ts with
  | nil => exact inv
  | cons i rest ih =>
    unfold runSched
    cases hi : ts[i]? with
    | none => exact ih sh ts inv
    | some t => exact ih _ _ (tree_processes_step uidOf m₀ sh ts i t hi inv)

/-- **tree store, several processes, unconditional puts**: for every schedule the invariant
    holds at the end -/
theorem tree_processes_unconditional (uidOf : String → Option String) (m₀ : Members) (ops : List Op)
    (hu : ∀ op ∈ ops, op.unconditional = true) (sched : List Nat) :
    TreeInv m₀ (runSched uidOf .tree .processes { members := m₀ } (ops.map fun op => { op := op }) sched).1
      (runSched uidOf .tree .processes { members := m₀ } (ops.map fun op => { op := op }) sched).2 :=
  tree_processes_run uidOf m₀ sched _ _ (tree_initial m₀ ops hu)

/-- what the invariant says about a state, in terms of a sequential execution -/
theorem TreeInv.serial (uidOf : String → Option String) {m₀ : Members} {sh : Shared} {ts : List Thread}
    (inv : TreeInv m₀ sh ts) :
    seqRun uidOf m₀ (sh.log.map (·.2)) = (sh.members, sh.log.map fun _ => Res.ok) := by
  rw [seqRun_unconditional, inv.members]
  · simp
  · intro op hop
    simp only [List.mem_map] at hop
    obtain ⟨e, he, rfl⟩ := hop
    obtain ⟨t, ht, hop⟩ := inv.logOps e he
    rw [← hop]
    exact inv.uncond _ t ht

/-- … hence the outcome is that of executing the logged operations sequentially, each answering ok -/
theorem tree_processes_unconditional_serial (uidOf : String → Option String) (m₀ : Members) (ops : List Op)
    (hu : ∀ op ∈ ops, op.unconditional = true) (sched : List Nat) :
    let out := runSched uidOf .tree .processes { members := m₀ } (ops.map fun op => { op := op }) sched
    seqRun uidOf m₀ (out.1.log.map (·.2)) = (out.1.members, out.1.log.map fun _ => Res.ok) :=
  (tree_processes_unconditional uidOf m₀ ops hu sched).serial uidOf

/-- a thread that was refused as locked (or has not finished) wrote nothing: it is not in the log -/
theorem TreeInv.not_ok_not_logged {m₀ : Members} {sh : Shared} {ts : List Thread} (inv : TreeInv m₀ sh ts)
    (i : Nat) (t : Thread) (hi : ts[i]? = some t) (hpc : t.pc ≠ .done .ok) : i ∉ sh.log.map (·.1) := by
  intro hm
  simp only [List.mem_map] at hm
  obtain ⟨e, he, rfl⟩ := hm
  obtain ⟨t', ht', hop⟩ := inv.logOps e he
  rw [hi] at ht'
  cases ht'
  exact hpc ((inv.logged e.1 t hi).mpr (by rw [hop]; exact he))

/-- a thread that answered ok is in the log exactly once -/
theorem TreeInv.ok_logged_once {m₀ : Members} {sh : Shared} {ts : List Thread} (inv : TreeInv m₀ sh ts)
    (i : Nat) (t : Thread) (hi : ts[i]? = some t) (hpc : t.pc = .done .ok) :
    (sh.log.map (·.1)).count i = 1 := by
  have hm : i ∈ sh.log.map (·.1) := List.mem_map.mpr ⟨(i, t.op), (inv.logged i t hi).mp hpc, rfl⟩
  have h1 := List.nodup_iff_count.mp inv.logNodup i
  have h2 := List.count_pos_iff.mpr hm
  omega

/-- the statement is not vacuous: A takes the lock, B is refused, A writes its
    working-tree file and commits, C does the same -/
example :
    let ops := [Op.put "a.ics" "A" none none, Op.put "a.ics" "B" none none, Op.put "c.ics" "C" none none]
    let out := runSched (fun _ => none) .tree .processes { members := [("a.ics", "e0")] } (ops.map fun op => { op := op })
      [0, 1, 0, 1, 2, 0, 0, 2, 2, 2]
    results out.2 = [some .ok, some .locked, some .ok] ∧
      out.1.log.map (·.1) = [0, 2] ∧
      out.1.members = (effect (effect [("a.ics", "e0")] (.put "a.ics" "A" none none)) (.put "c.ics" "C" none none)) := by
  decide

end Xandikos.Theorems.C05
