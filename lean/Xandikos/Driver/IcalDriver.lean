/-
  calendar-query driver (JSON lines): component trees and filters in, the members the model
  selects out — once with the code's text comparison (equality) and once with the RFC's
  (substring), plus whether the "cannot raise" side conditions of `check_decides` hold.

  op "idx": one calendar and a filter list in; the model's `index_keys()`, `get_indexes(keys)`,
  `check_from_indexes` and `check` out (C10, index path against naive path).  `"rt"` selects the
  round-trip function of the model: `"id"` (default; what the harness passes), `"text"`
  (`rtText`: escape then unescape), `"73"` (the pre-repair behaviour).
  ops "esc" / "unesc": the models of `_escape_char` and `_unescape_text` (`Ical/Escape.lean`).
-/
import Lean.Data.Json
import Xandikos.Ical.Filter
import Xandikos.Ical.Index

namespace Xandikos.IcalDriver
open Lean Xandikos.Ical Xandikos.Py

def str (j : Json) (k : String) : String := (j.getObjValAs? String k).toOption.getD ""
def chars (j : Json) (k : String) : List Char := (str j k).toList
def bool (j : Json) (k : String) : Bool := (j.getObjValAs? Bool k).toOption.getD false
def arr (j : Json) (k : String) : List Json :=
  match j.getObjVal? k with
  | .ok (.arr a) => a.toList
  | _ => []

def parsePVal (j : Json) : PVal :=
  match j.getObjVal? "text" with
  | .ok (.str s) => .text s.toList
  | _ =>
    match j.getObjVal? "cats" with
    | .ok (.arr a) => .cats (a.toList.map fun x => (x.getStr?.toOption.getD "").toList)
    | _ =>
      match j.getObjVal? "time" with
      | .ok t => .time { isDateTime := bool t "dt", key := (t.getObjValAs? Int "key").toOption.getD 0 }
      | _ =>
        match j.getObjValAs? Int "dur" with
        | .ok d => .dur d
        | _ =>
          match j.getObjVal? "period" with
          | .ok (.arr #[a, b]) =>
            (match a.getInt?, b.getInt? with
             | .ok x, .ok y => .period x y
             | _, _ => .other)
          | _ => .other

def parseProp (j : Json) : Option (List Char × PropI) :=
  match j with
  | .arr #[.str n, v] =>
    some (n.toList, { value := parsePVal v,
                      params := (arr v "params").filterMap fun p =>
                        match p with
                        | .arr #[.str k, .str x] => some (k.toList, x.toList)
                        | _ => none })
  | _ => none

def parseLeaf (j : Json) : Leaf :=
  { name := chars j "name", props := (arr j "props").filterMap parseProp, subs := [] }
def parseMid (j : Json) : Mid :=
  { name := chars j "name", props := (arr j "props").filterMap parseProp, subs := (arr j "subs").map parseLeaf }
def parseCal (j : Json) : Cal :=
  { name := chars j "name", props := (arr j "props").filterMap parseProp, subs := (arr j "subs").map parseMid }

def parseTR (j : Json) : Option (Int × Int) :=
  match j.getObjVal? "tr" with
  | .ok (.arr #[a, b]) =>
    (match a.getInt?, b.getInt? with
     | .ok x, .ok y => some (x, y)
     | _, _ => none)
  | _ => none

def parseTM (j : Json) : TextMatch :=
  { text := chars j "text", collation := chars j "coll", negate := bool j "neg" }

def parsePropF (j : Json) : PropF :=
  { name := chars j "name", isNotDefined := bool j "nd", timeRange := parseTR j,
    tms := (arr j "tms").map parseTM,
    params := (arr j "params").map fun p =>
      { name := chars p "name", isNotDefined := bool p "nd", tms := (arr p "tms").map parseTM } }

def parseLeafF (j : Json) : LeafF :=
  { name := chars j "name", isNotDefined := bool j "nd", timeRange := parseTR j,
    props := (arr j "props").map parsePropF, comps := [] }
def parseMidF (j : Json) : MidF :=
  { name := chars j "name", isNotDefined := bool j "nd", timeRange := parseTR j,
    props := (arr j "props").map parsePropF, comps := (arr j "comps").map parseLeafF }
def parseCalF (j : Json) : CalF :=
  { name := chars j "name", isNotDefined := bool j "nd", timeRange := parseTR j,
    props := (arr j "props").map parsePropF, comps := (arr j "comps").map parseMidF }

/-- the side conditions of `Rfc.check_decides`, as a Bool -/
def levelOk {β : Type} (f : FNode β) (name : List Char) (props : List (List Char × PropI)) : Bool :=
  !f.timeRange.isSome ||
    ((name != "VEVENT".toList || (section99 props).dtstart.isSome) && name != "VALARM".toList)

def filterOk (f : CalF) (c : Cal) : Bool :=
  levelOk f c.name c.props &&
  f.comps.all fun mf => c.subs.all fun m => levelOk mf m.name m.props &&
    mf.comps.all fun lf => m.subs.all fun l => levelOk lf l.name l.props


/-! ### op "idx": the index path -/

/-- the `to_ical` → `from_ical` round trip of icalendar 7.3 as `TextMatcher.match_indexes` used it
    BEFORE the repair (`_from_index`): texts come back escaped, a category list is re-split at
    every comma.  Kept for replaying the old behaviour; the harness passes `"rt":"id"`. -/
def rt73 : PVal → PVal
  | .text s => .text (escapeText s)
  | .cats l => .cats (Str.splitOn ',' (Str.joinWith ',' (l.map escapeText)))
  | v => v

def showPVal : PVal → Json
  | .text s => Json.mkObj [("text", Json.str (String.ofList s))]
  | .cats l => Json.mkObj [("cats", Json.arr (l.map fun c => Json.str (String.ofList c)).toArray)]
  | .time t => Json.mkObj [("time", Json.mkObj [("dt", Json.bool t.isDateTime), ("key", Json.num (JsonNumber.fromInt t.key))])]
  | .dur d => Json.mkObj [("dur", Json.num (JsonNumber.fromInt d))]
  | .period a b => Json.mkObj [("period", Json.arr #[Json.num (JsonNumber.fromInt a), Json.num (JsonNumber.fromInt b)])]
  | .other => Json.mkObj [("other", Json.bool true)]

def showIVal : IVal → Json
  | .present => Json.str "T"
  | .val v => Json.str (showPVal v).compress
  | .param s => Json.str (Json.mkObj [("param", Json.str (String.ofList s))]).compress

def showRes (r : Except PyErr Bool) : Json :=
  match r with
  | .ok b => Json.bool b
  | .error (.raised cls _) => Json.mkObj [("error", Json.str cls)]

def idxOp (j : Json) : Json :=
  let c := parseCal (j.getObjValD "cal")
  let filters := (arr j "filters").map parseCalF
  let rt : PVal → PVal :=
    if str j "rt" == "73" then rt73 else if str j "rt" == "text" then rtText else id
  let tz : TVal → Int := fun t => t.key
  let ks := indexKeys filters
  let keysJ : Json := match ks with
    | .ok l => Json.arr (l.map fun g => Json.arr (g.map Json.str).toArray).toArray
    | .error (.raised cls _) => Json.mkObj [("error", Json.str cls)]
  let keys : List String := match j.getObjVal? "keys" with
    | .ok (.arr a) => a.toList.map fun x => x.getStr?.toOption.getD ""
    | _ => (match ks with
            | .ok l => l.flatten
            | .error _ => [])
  let vals := getIndexesE rt c keys
  let valsJ : Json := match vals with
    | .ok l => Json.mkObj (l.map fun e => (e.1, Json.arr (e.2.map showIVal).toArray))
    | .error (.raised cls _) => Json.mkObj [("error", Json.str cls)]
  let idxJ : Json := match vals with
    | .ok l => showRes (checkFromIndexes tz filters l)
    | .error (.raised cls _) => Json.mkObj [("error", Json.str cls)]
  Json.mkObj [("keys", keysJ), ("values", valsJ), ("idx", idxJ),
              ("total", showRes (checkFromIndexes tz filters (getIndexes rt c keys))),
              ("naive", showRes (check false tz filters c))]

def strs (l : List (List Char)) : Json := Json.arr (l.map fun p => Json.str (String.ofList p)).toArray

/-- `{"op":"esc","text":s}`: the model's escape of `s`, and the model's unescape of that, without
    and with splitting -/
def escOp (j : Json) : Json :=
  let e := escapeText (chars j "text")
  Json.mkObj [("escaped", Json.str (String.ofList e)), ("unescaped", strs (unescapeText false e)),
              ("split", strs (unescapeText true e))]

/-- `{"op":"unesc","text":s,"split":b}`: the model's `_unescape_text(s, split=b)` -/
def unescOp (j : Json) : Json :=
  Json.mkObj [("parts", strs (unescapeText (bool j "split") (chars j "text")))]

structure IState where
  members : List (String × Cal) := []

def select (substring : Bool) (filters : List CalF) (ms : List (String × Cal)) : Except String (List String) :=
  ms.foldlM (init := []) fun acc (n, c) =>
    match check substring (fun t => t.key) filters c with
    | .ok true => .ok (acc ++ [n])
    | .ok false => .ok acc
    | .error (.raised cls _) => .error cls

def showSel (r : Except String (List String)) : Json :=
  match r with
  | .ok l => Json.arr (l.map Json.str).toArray
  | .error e => Json.mkObj [("error", Json.str e)]

def step (st : IState) (line : String) : IState × String :=
  match Json.parse line with
  | .error e => (st, "{\"bad\":\"" ++ e ++ "\"}")
  | .ok j =>
    match str j "op" with
    | "reset" => ({ members := [] }, "{}")
    | "cal" => ({ st with members := st.members ++ [(str j "name", parseCal (j.getObjValD "cal"))] }, "{}")
    | "query" =>
      let filters := (arr j "filters").map parseCalF
      let ok := st.members.all fun (_, c) => filters.all fun f => filterOk f c
      (st, (Json.mkObj [("code", showSel (select false filters st.members)),
                        ("rfc", showSel (select true filters st.members)),
                        ("sidecond", Json.bool ok)]).compress)
    | "idx" => (st, (idxOp j).compress)
    | "esc" => (st, (escOp j).compress)
    | "unesc" => (st, (unescOp j).compress)
    | _ => (st, "{\"bad\":\"op\"}")

end Xandikos.IcalDriver
