/-
  calendar-query driver (JSON lines): component trees and filters in, the members the model
  selects out — once with the code's text comparison (equality) and once with the RFC's
  (substring), plus whether the "cannot raise" side conditions of `check_decides` hold.
-/
import Lean.Data.Json
import Xandikos.Ical.Filter

namespace Xandikos.IcalDriver
open Lean Xandikos.Ical Xandikos.Py

def str (j : Json) (k : String) : String := (j.getObjValAs? String k).toOption.getD ""
def chars (j : Json) (k : String) : List Char := (str j k).toList
def bool (j : Json) (k : String) : Bool := (j.getObjValAs? Bool k).toOption.getD false
def arr (j : Json) (k : String) : List Json :=
  match j.getObjVal? k with
  | .ok (.arr a) => a.toList
  | _ => []

def parsePVal (j : Json) : PVal :=
  match j.getObjVal? "text" with
  | .ok (.str s) => .text s.toList
  | _ =>
    match j.getObjVal? "cats" with
    | .ok (.arr a) => .cats (a.toList.map fun x => (x.getStr?.toOption.getD "").toList)
    | _ =>
      match j.getObjVal? "time" with
      | .ok t => .time { isDateTime := bool t "dt", key := (t.getObjValAs? Int "key").toOption.getD 0 }
      | _ =>
        match j.getObjValAs? Int "dur" with
        | .ok d => .dur d
        | _ =>
          match j.getObjVal? "period" with
          | .ok (.arr #[a, b]) =>
            (match a.getInt?, b.getInt? with
             | .ok x, .ok y => .period x y
             | _, _ => .other)
          | _ => .other

def parseProp (j : Json) : Option (List Char × PropI) :=
  match j with
  | .arr #[.str n, v] =>
    some (n.toList, { value := parsePVal v,
                      params := (arr v "params").filterMap fun p =>
                        match p with
                        | .arr #[.str k, .str x] => some (k.toList, x.toList)
                        | _ => none })
  | _ => none

def parseLeaf (j : Json) : Leaf :=
  { name := chars j "name", props := (arr j "props").filterMap parseProp, subs := [] }
def parseMid (j : Json) : Mid :=
  { name := chars j "name", props := (arr j "props").filterMap parseProp, subs := (arr j "subs").map parseLeaf }
def parseCal (j : Json) : Cal :=
  { name := chars j "name", props := (arr j "props").filterMap parseProp, subs := (arr j "subs").map parseMid }

def parseTR (j : Json) : Option (Int × Int) :=
  match j.getObjVal? "tr" with
  | .ok (.arr #[a, b]) =>
    (match a.getInt?, b.getInt? with
     | .ok x, .ok y => some (x, y)
     | _, _ => none)
  | _ => none

def parseTM (j : Json) : TextMatch :=
  { text := chars j "text", collation := chars j "coll", negate := bool j "neg" }

def parsePropF (j : Json) : PropF :=
  { name := chars j "name", isNotDefined := bool j "nd", timeRange := parseTR j,
    tms := (arr j "tms").map parseTM,
    params := (arr j "params").map fun p =>
      { name := chars p "name", isNotDefined := bool p "nd", tms := (arr p "tms").map parseTM } }

def parseLeafF (j : Json) : LeafF :=
  { name := chars j "name", isNotDefined := bool j "nd", timeRange := parseTR j,
    props := (arr j "props").map parsePropF, comps := [] }
def parseMidF (j : Json) : MidF :=
  { name := chars j "name", isNotDefined := bool j "nd", timeRange := parseTR j,
    props := (arr j "props").map parsePropF, comps := (arr j "comps").map parseLeafF }
def parseCalF (j : Json) : CalF :=
  { name := chars j "name", isNotDefined := bool j "nd", timeRange := parseTR j,
    props := (arr j "props").map parsePropF, comps := (arr j "comps").map parseMidF }

/-- the side conditions of `Rfc.check_decides`, as a Bool -/
def levelOk {β : Type} (f : FNode β) (name : List Char) (props : List (List Char × PropI)) : Bool :=
  !f.timeRange.isSome ||
    ((name != "VEVENT".toList || (section99 props).dtstart.isSome) && name != "VALARM".toList)

def filterOk (f : CalF) (c : Cal) : Bool :=
  levelOk f c.name c.props &&
  f.comps.all fun mf => c.subs.all fun m => levelOk mf m.name m.props &&
    mf.comps.all fun lf => m.subs.all fun l => levelOk lf l.name l.props

structure IState where
  members : List (String × Cal) := []

def select (substring : Bool) (filters : List CalF) (ms : List (String × Cal)) : Except String (List String) :=
  ms.foldlM (init := []) fun acc (n, c) =>
    match check substring (fun t => t.key) filters c with
    | .ok true => .ok (acc ++ [n])
    | .ok false => .ok acc
    | .error (.raised cls _) => .error cls

def showSel (r : Except String (List String)) : Json :=
  match r with
  | .ok l => Json.arr (l.map Json.str).toArray
  | .error e => Json.mkObj [("error", Json.str e)]

def step (st : IState) (line : String) : IState × String :=
  match Json.parse line with
  | .error e => (st, "{\"bad\":\"" ++ e ++ "\"}")
  | .ok j =>
    match str j "op" with
    | "reset" => ({ members := [] }, "{}")
    | "cal" => ({ st with members := st.members ++ [(str j "name", parseCal (j.getObjValD "cal"))] }, "{}")
    | "query" =>
      let filters := (arr j "filters").map parseCalF
      let ok := st.members.all fun (_, c) => filters.all fun f => filterOk f c
      (st, (Json.mkObj [("code", showSel (select false filters st.members)),
                        ("rfc", showSel (select true filters st.members)),
                        ("sidecond", Json.bool ok)]).compress)
    | _ => (st, "{\"bad\":\"op\"}")

end Xandikos.IcalDriver
