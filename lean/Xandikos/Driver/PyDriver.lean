/-
  Driver for the Lean re-implementations of CPython library functions (posixpath, urllib,
  configparser) — used by `harness/pylib/*.py` to validate them against CPython.
-/
import Xandikos.Py.Path
import Xandikos.Py.Url
import Xandikos.Py.Ini
import Xandikos.Driver.Codec

namespace Xandikos.PyDriver
open Xandikos.Codec Xandikos.Py.Path

def pathRespond (line : String) : String :=
  match words line with
  | ["normpath", p] =>
    (match field p with
     | some p => enc (normpathS p)
     | none => "!bad-field")
  | ["split", p] =>
    (match field p with
     | some p => let (h, t) := splitS p; enc h ++ " " ++ enc t
     | none => "!bad-field")
  | ["join", a, b] =>
    (match field a, field b with
     | some a, some b => enc (joinS a b)
     | _, _ => "!bad-field")
  | ["lstrip", p] =>
    (match field p with
     | some p => enc (lstripS p)
     | none => "!bad-field")
  | ["rstrip", p] =>
    (match field p with
     | some p => enc (rstripS p)
     | none => "!bad-field")
  | _ => "!bad-request"

def pathStep (u : Unit) (line : String) : Unit × String := (u, pathRespond line)

namespace UrlD
open Xandikos.Py.Url
def handle (line : String) : String :=
  match words line with
  | ["quote", s] => enc (quote (fieldS s))
  | ["quoteseg", s] => enc (quoteSegment (fieldS s))
  | ["unquote", s] => enc (unquote (fieldS s))
  | ["unquotewhole", s] => enc (unquoteWhole (fieldS s))
  | ["path", s] => enc (urlsplit_path (fieldS s))
  | ["scheme", s] => if has_scheme (fieldS s) then "1" else "0"
  | ["urljoin", b, r] => enc (urljoin_simple (fieldS b) (fieldS r))
  | _ => "!error bad request"


end UrlD

def urlStep (u : Unit) (line : String) : Unit × String := (u, UrlD.handle line)

namespace IniD
open Xandikos.Py.Ini



/-- `sec.key` (bare, or as an `=` field) → (sec, key); split at the first '.' -/
def parseKey (w : String) : String × String :=
  let s := if w.startsWith "=" then fieldS w else w
  match s.splitOn "." with
  | sec :: rest => (sec, ".".intercalate rest)
  | [] => (s, "")

def pairs : List String → List (String × String × String)
  | k :: v :: rest => let (s, key) := parseKey k; (s, key, fieldS v) :: pairs rest
  | _ => []

/-- Insert like `cp[sec][key] = val` (DEFAULT kept first; a repeated key is overwritten in place). -/
def setKey (cfg : Config) (sec key val : String) : Config :=
  let setItems (items : List (String × String)) : List (String × String) :=
    if items.any (·.1 == key) then items.map fun kv => if kv.1 == key then (key, val) else kv
    else items ++ [(key, val)]
  if cfg.any (·.1 == sec) then cfg.map fun s => if s.1 == sec then (s.1, setItems s.2) else s
  else cfg ++ [(sec, setItems [])]

def build (ps : List (String × String × String)) : Config :=
  ps.foldl (fun cfg (s, k, v) => setKey cfg s k v) [("DEFAULT", [])]

def isTrue (w : String) : Bool := w == "1" || w == "true" || w == "=1"

def handle (line : String) : String :=
  match words line with
  | "roundtrip" :: u :: rest =>
    let ps := pairs rest
    let cfg := build ps
    match iniRead (isTrue u) (iniWrite cfg) with
    | .error _ => "error"
    | .ok cfg' =>
      " ".intercalate ("ok" :: ps.flatMap fun (s, k, _) =>
        [s ++ "." ++ k, encO (iniGet cfg' s k)])
  | "write" :: rest => enc (iniWriteS (build (pairs rest)))
  | ["read", u, text] =>
    match iniReadS (isTrue u) (fieldS text) with
    | .error _ => "error"
    | .ok cfg' =>
      " ".intercalate ("ok" :: cfg'.flatMap fun (s, items) =>
        if items.isEmpty then (if s == "DEFAULT" then [] else [pctEncode s ++ "."])
        else items.map fun (k, v) => pctEncode s ++ "." ++ pctEncode k ++ "=" ++ pctEncode v)
  | ["spaces"] =>
    " ".intercalate ("ok" :: ((List.range 0x110000).filter fun n =>
      isPySpace (Char.ofNat n) && (Char.ofNat n).toNat == n).map toString)
  | _ => "badcommand"


end IniD

def iniStep (u : Unit) (line : String) : Unit × String := (u, IniD.handle line)

end Xandikos.PyDriver
