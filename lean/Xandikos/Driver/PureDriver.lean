/-
  Driver for the small pure decision functions (model + independent spec side by side).
-/
import Xandikos.Http.Spec
import Xandikos.Http.FsMap
import Xandikos.Http.Href
import Xandikos.Http.Discovery
import Xandikos.Py.PathProofs
import Xandikos.Driver.Codec

namespace Xandikos.PureDriver
open Xandikos.Codec Xandikos.Http Xandikos.Py

def b (x : Bool) : String := if x then "1" else "0"

def step (u : Unit) (line : String) : Unit × String :=
  match words line with
  | ["etag", h, cur] =>
    let hdr := fieldS h
    let c := field cur
    let model := etagMatches hdr.toList (c.map String.toList)
    -- spec: only for headers of the RFC grammar (items non-empty, no inner padding problems)
    let items := headerItems hdr
    let wf := items.all fun i => decide (WellFormedItem i)
    let spec := if wf then b (rfcMatches hdr c) else "-"
    (u, b model ++ " " ++ spec)
  | ["mapfs", root, rel] =>
    let r := mapToFilePath (fieldS root).toList (fieldS rel).toList
    (u, enc (String.ofList r) ++ " " ++ b (decide (Path.Confined (fieldS root).toList r)))
  | ["confined", root, f] =>
    -- the OS resolves `a/..` itself: judge the lexically normalised path
    (u, b (decide (Path.Confined (fieldS root).toList (Path.normpath (fieldS f).toList))))
  | ["href", script, coll, name] =>
    -- href emitted for member `name` of the collection at `coll` (name `~`: the collection itself)
    let base := Path.rstripS (fieldS script) ++ fieldS coll
    let h := match field name with
      | some n => childHref base n
      | none => ensureTrailingSlash base
    (u, enc (hrefText h) ++ " " ++ enc (decodeTarget (hrefText h)))
  | ["location", script, coll, name] =>
    (u, enc (postLocation (fieldS script) (fieldS coll) (fieldS name)))
  | ["createhref", href, base] =>
    (u, enc (createHref (fieldS href) (field base)))
  | ["cup", script, principal] =>
    (u, enc (cupHref (fieldS script) (fieldS principal)))
  | ["homeset", base, name] =>
    (u, enc (homeSetHref (fieldS base) (fieldS name)))
  | _ => (u, "bad-op")

end Xandikos.PureDriver
