/-
  Driver for the small pure decision functions (model + independent spec side by side).
-/
import Xandikos.Http.Spec
import Xandikos.Driver.Codec

namespace Xandikos.PureDriver
open Xandikos.Codec Xandikos.Http Xandikos.Py

def b (x : Bool) : String := if x then "1" else "0"

def step (u : Unit) (line : String) : Unit × String :=
  match words line with
  | ["etag", h, cur] =>
    let hdr := fieldS h
    let c := field cur
    let model := etagMatches hdr.toList (c.map String.toList)
    -- spec: only for headers of the RFC grammar (items non-empty, no inner padding problems)
    let items := headerItems hdr
    let wf := items.all fun i => decide (WellFormedItem i)
    let spec := if wf then b (rfcMatches hdr c) else "-"
    (u, b model ++ " " ++ spec)
  | _ => (u, "bad-op")

end Xandikos.PureDriver
