/-
  Store-level driver: runs the model (`Store.step`) and the spec monitor on one line of the
  protocol and prints `<model output> | <monitor verdict>`.
-/
import Xandikos.Store.Spec
import Xandikos.Store.Meta
import Xandikos.Driver.Codec

namespace Xandikos.StoreDriver
open Xandikos.Store Xandikos.Codec

structure AttrRow where
  hk : HKind
  tok : String
  valid : Bool
  parses : Bool
  uid : Option String
  norm : String

def envOf (rows : List AttrRow) : Env :=
  let find (hk : HKind) (t : String) : Option AttrRow := rows.find? fun r => r.hk == hk && r.tok == t
  { valid := fun hk t => match find hk t with | some r => r.valid | none => false
    parses := fun hk t => match find hk t with | some r => r.parses | none => false
    uid := fun hk t => match find hk t with | some r => r.uid | none => none
    norm := fun hk t => match find hk t with | some r => r.norm | none => t }

structure DState where
  rows : List AttrRow := []
  model : St := init .bare
  /-- spec state driven by the *observed* outcomes -/
  spec : Map String := ∅
  /-- (observed tag, abstract visible state incl. config) pairs seen so far -/
  tags : List (String × Map String × List (String × String)) := []
  /-- number of acknowledged requests that changed the abstract contents -/
  specCommits : Nat := 0
  /-- abstract metadata: property ↦ value, driven by the observed acknowledgements -/
  specMeta : List (String × String) := []

def parseHk : String → HKind
  | "ical" => .ical
  | "vcard" => .vcard
  | _ => .plain

def parseKind : String → Kind
  | "tree" => .tree
  | "vdir" => .vdir
  | _ => .bare

def showOut : Out → String
  | .ok e => s!"ok {enc e}"
  | .deleted => "deleted"
  | .invalid => "invalid"
  | .dupUid _ => "dup"
  | .badEtag => "badetag"
  | .noSuchItem => "nosuch"
  | .locked => "locked"
  | .failed => "raise"

def parseOut : List String → Option Out
  | ["ok", e] => some (.ok (fieldS e))
  | ["deleted"] => some .deleted
  | ["invalid"] => some .invalid
  | ["dup"] => some (.dupUid "")
  | ["badetag"] => some .badEtag
  | ["nosuch"] => some .noSuchItem
  | ["locked"] => some .locked
  | "raise" :: _ => some .failed
  | _ => none

def showTree (t : Map String) : String := encPairs t.toList

def treeOf (l : List (String × String)) : Map String :=
  l.foldl (fun m (a, b) => m.insert a b) ∅

def showChanges (cs : List Change) : String :=
  let items := cs.map fun
    | .changed n _ e => "+" ++ pctEncode n ++ ":" ++ pctEncode e
    | .removed n _ => "-" ++ pctEncode n
  "changes =" ++ ",".intercalate items

/-- split a line at " | " into the operation and the observation -/
def splitObs (line : String) : String × String :=
  match line.splitOn " | " with
  | [a] => (a, "")
  | a :: rest => (a, " | ".intercalate rest)
  | [] => ("", "")

def verdict (v : Option String) : String :=
  match v with
  | none => "ok"
  | some w => "VIOLATION " ++ w

def step (d : DState) (line : String) : DState × String :=
  let (opS, obsS) := splitObs line
  let env := envOf d.rows
  let obs := words obsS
  match words opS with
  | ["new", k] =>
    ({ d with model := init (parseKind k), spec := ∅, tags := [], specCommits := 0, specMeta := [] }, "new | ok")
  | ["attr", hk, tok, v, p, uid, norm] =>
    let row : AttrRow := { hk := parseHk hk, tok := fieldS tok, valid := v == "1",
                           parses := p == "1", uid := field uid, norm := fieldS norm }
    ({ d with rows := row :: d.rows }, "attr | ok")
  | ["put", n, ct, tok, rep] =>
    let op := Op.put (fieldS n) (field ct) (fieldS tok) (field rep)
    let (m', o) := importOne env d.model (fieldS n) (field ct) (fieldS tok) (field rep)
    let oObs := parseOut obs
    let v := match oObs with
      | some oo => Spec.allowed env d.model.kind d.spec op (some oo)
      | none => some "unparsed-observation"
    let spec' := Spec.apply d.spec op oObs
    let sc := if spec' == d.spec then d.specCommits else d.specCommits + 1
    ({ d with model := m', spec := spec', specCommits := sc }, showOut o ++ " | " ++ verdict v)
  | ["del", n, e] =>
    let op := Op.del (fieldS n) (field e)
    let (m', o) := deleteOne d.model (fieldS n) (field e)
    let oObs := parseOut obs
    let v := match oObs with
      | some oo => Spec.allowed env d.model.kind d.spec op (some oo)
      | none => some "unparsed-observation"
    let spec' := Spec.apply d.spec op oObs
    let sc := if spec' == d.spec then d.specCommits else d.specCommits + 1
    ({ d with model := m', spec := spec', specCommits := sc }, showOut o ++ " | " ++ verdict v)
  | ["list"] =>
    let out := "list " ++ encPairs d.model.blobs
    -- monitor: the observed listing must be exactly the live members of the spec state
    let want := blobsOf d.model.kind d.spec
    let expect := "list " ++ encPairs want
    let got := match obs with
      | ["list", l] => decPairs l
      | _ => []
    let v := if obsS.trimAscii.toString == expect then none
      else if got.map (·.1) == want.map (·.1) then
        some ("C02:listed-etag-is-not-the-hash-of-the-acknowledged-content expected " ++ expect)
      else some ("C01:listing-differs expected " ++ expect)
    (d, out ++ " | " ++ verdict v)
  | ["get", n] =>
    let show' : Option String → String := fun
      | some t => "tok " ++ enc t
      | none => "none"
    let out := show' (d.model.get (fieldS n))
    let expect := show' (d.spec[fieldS n]?)
    let v := if obsS.trimAscii.toString == expect then none else some ("C01:content-differs expected " ++ expect)
    (d, out ++ " | " ++ verdict v)
  | ["ctag"] =>
    let (m', t) := getCtag d.model
    let out := match t with
      | some t => "ctag " ++ showTree t
      | none => "unsupported"
    -- monitor C08: the observed tag is a function of the abstract state and injective on it
    -- The harness has verified that the observed tag is the git tree hash of the entries it
    -- names (content addressing: equal tags iff equal entries).  What remains to be judged is
    -- that those entries are the current members (the metadata file is part of the versioned
    -- state and is carried by the tag itself).
    let (tags', v) : List (String × Map String × List (String × String)) × Option String :=
      match obs with
      | ["ctag", t] =>
        if t.startsWith "=?" then (d.tags, some "C08:tag-is-not-the-tree-hash-of-the-listed-entries")
        else if encPairs ((decPairs t).filter fun p => p.1 != configName) != showTree d.spec then
          (d.tags, some ("C08:tag-does-not-name-the-current-members expected " ++ showTree d.spec))
        else (d.tags, none)
      | _ => (d.tags, none)
    ({ d with model := m', tags := tags' }, out ++ " | " ++ verdict v)
  | ["changes", o, n] =>
    -- the protocol names a tree by its members; find the tree object (with its metadata file)
    let old := if o == "~" then none else some (treeOf (decPairs o))
    let new := treeOf (decPairs n)
    let (m', r) := iterChanges d.model old new
    let out := match r with
      | some cs => showChanges cs
      | none => "invalidtoken"
    -- monitor C07: a successful report must be exactly the difference of the two states
    let expect := showChanges (diffTrees (old.getD ∅) new)
    let v := match obs with
      | ["changes", _] =>
        if obsS.trimAscii.toString == expect then none else some ("C07:wrong-change-list expected " ++ expect)
      | _ => none
    ({ d with model := m' }, out ++ " | " ++ verdict v)
  | ["commits"] =>
    let head := match d.model.commits.getLast? with
      | some t => showTree t
      | none => "~"
    -- monitor C09: one commit per acknowledged change, none otherwise; HEAD's tree = contents
    let v := match obs with
      | ["commits", n, t] =>
        if n != toString d.specCommits then
          some s!"C09:commit-count {n} but {d.specCommits} acknowledged changes"
        else if d.specCommits > 0 &&
            encPairs ((decPairs t).filter fun p => p.1 != configName) != showTree d.spec then
          some ("C09:head-tree-differs expected " ++ showTree d.spec)
        else none
      | _ => none
    (d, s!"commits {d.model.commits.length} {head} | " ++ verdict v)
  | ["setmeta", k, v] =>
    let key := fieldS k
    let value := field v
    let (m', o) := setMeta d.model key value
    let out := match o with | .ok => "ok" | .failed => "raise"
    -- monitor: an acknowledged set changes exactly this property of the abstract metadata
    let acked := obs == ["ok"]
    let old := d.specMeta.lookup key
    let meta' := if acked then
        (match value with
         | some x => (key, x) :: d.specMeta.filter (·.1 != key)
         | none => d.specMeta.filter (·.1 != key))
      else d.specMeta
    let sc := if acked && old != value then d.specCommits + 1 else d.specCommits
    ({ d with model := m', specMeta := meta', specCommits := sc }, out ++ " | ok")
  | ["getmeta", k] =>
    let key := fieldS k
    let show' : Option String → String := fun
      | some x => "val " ++ enc x
      | none => "none"
    let out := show' (getMeta d.model key)
    let expect := show' (d.specMeta.lookup key)
    let v := if obsS.trimAscii.toString == expect then none
      else some ("C15:property-read-differs-from-last-acknowledged-set expected " ++ expect)
    (d, out ++ " | " ++ verdict v)
  | ["wt"] =>
    -- working-tree files of a tree store (names and tokens); monitor C09: worktree = contents
    let out := "wt " ++ showTree d.model.worktree
    let expect := showTree d.spec
    let got := match obs with
      | ["wt", t] => encPairs ((decPairs t).filter fun p => p.1 != configName)
      | _ => "?"
    let v := if got == expect then none
      else some ("C09:working-tree-differs-from-index expected wt " ++ expect)
    (d, out ++ " | " ++ verdict v)
  | ["restart"] =>
    ({ d with model := restart d.model }, "restart | ok")
  | [] => (d, "")
  | _ => (d, "bad-op | ok")

end Xandikos.StoreDriver
