/-
  Driver for the crash model (C04): the harness builds the prior state with complete operations,
  asks for the plan of the operation under test and, for every crash state it produced on a real
  directory, for the model's verdict.
    cnew <tree|bare|vdir>
    cput <name> <tok> | cdel <name>            complete operation
    cplan put <name> <tok> | cplan del <name>  -> step names, comma separated
    ccrash put <name> <tok> <j> | ccrash del <name> <j>
                                               -> old | new | same | other   nd=<0|1>
-/
import Xandikos.Store.Crash
import Xandikos.Driver.Codec

namespace Xandikos.CrashDriver
open Xandikos.Store.Crash Xandikos.Codec

structure CState where
  kind : Kind := .tree
  disk : Disk := {}

def parseKind : String → Kind
  | "bare" => .bare
  | "vdir" => .vdir
  | _ => .tree

/-- the steps of a plan that touch the disk, in order -/
def effectiveNames : Disk → List Step → List String
  | _, [] => []
  | d, s :: rest => (if effective d s then [s.name] else []) ++ effectiveNames (apply d s) rest

/-- length of the plan prefix that holds `j` effective steps -/
def prefixLen : Disk → List Step → Nat → Nat
  | _, [], _ => 0
  | d, s :: rest, j =>
    if effective d s then
      (match j with
       | 0 => 0
       | j + 1 => 1 + prefixLen (apply d s) rest j)
    else 1 + prefixLen (apply d s) rest j

def verdict (k : Kind) (d : Disk) (op : Op) (j : Nat) : String :=
  let steps := plan k d op
  let j := prefixLen d steps j
  let old := view k d
  let new := view k (run d steps)
  let got := view k (crash d steps j)
  let v := if got.isNone then "other"
    else if got == old && got == new then "same"
    else if got == old then "old"
    else if got == new then "new"
    else "other"
  v ++ " nd=" ++ (if noDangling (crash d steps j) then "1" else "0")

def step (s : CState) (line : String) : CState × String :=
  match words line with
  | ["cnew", k] => ({ kind := parseKind k, disk := {} }, "ok")
  | ["cput", n, t] => ({ s with disk := run s.disk (plan s.kind s.disk (.put (fieldS n) (fieldS t))) }, "ok")
  | ["cdel", n] => ({ s with disk := run s.disk (plan s.kind s.disk (.delete (fieldS n))) }, "ok")
  | ["cplan", "put", n, t] =>
    (s, ",".intercalate (effectiveNames s.disk (plan s.kind s.disk (.put (fieldS n) (fieldS t)))))
  | ["cplan", "del", n] => (s, ",".intercalate (effectiveNames s.disk (plan s.kind s.disk (.delete (fieldS n)))))
  | ["ccrash", "put", n, t, j] => (s, verdict s.kind s.disk (.put (fieldS n) (fieldS t)) j.toNat!)
  | ["ccrash", "del", n, j] => (s, verdict s.kind s.disk (.delete (fieldS n)) j.toNat!)
  | _ => (s, "bad-op")

end Xandikos.CrashDriver
