/-
  Driver for the crash model (C04): the harness builds the prior state with complete operations,
  asks for the plan of the operation under test and, for every crash state it produced on a real
  directory, for the model's verdict.
    cnew <tree|bare|vdir>
    cput <name> <tok> | cdel <name>            complete operation
    cstate <name:tok,…>                        the store as it is: these files, one commit
    cobj tree <name:tok,…>                     a tree object that exists in the object store
    cskip <0|1>                                1: `add_objects` found its pack present already (no pack written)
    cplan put <name> <tok> | cplan del <name>  -> names of the steps that touch the disk, comma separated
    ccrash put <name> <tok> <j> | ccrash del <name> <j>
                                               -> old | new | same | other   nd=<0|1>   (j counts those steps)
-/
import Xandikos.Store.Crash
import Xandikos.Driver.Codec

namespace Xandikos.CrashDriver
open Xandikos.Store.Crash Xandikos.Codec

structure CState where
  kind : Kind := .tree
  disk : Disk := {}
  skipPack : Bool := false

def isPack : Step → Bool
  | .addPack _ => true
  | .addPackIdx => true
  | _ => false

def parseKind : String → Kind
  | "bare" => .bare
  | "vdir" => .vdir
  | _ => .tree

/-- the steps of a plan that touch the disk, in order -/
def eff (skipPack : Bool) (d : Disk) (s : Step) : Bool := effective d s && !(skipPack && isPack s)

def effectiveNames (sp : Bool) : Disk → List Step → List String
  | _, [] => []
  | d, s :: rest => (if eff sp d s then [s.name] else []) ++ effectiveNames sp (apply d s) rest

/-- length of the plan prefix that holds `j` effective steps -/
def prefixLen (sp : Bool) : Disk → List Step → Nat → Nat
  | _, [], _ => 0
  | d, s :: rest, j =>
    if eff sp d s then
      (match j with
       | 0 => 0
       | j + 1 => 1 + prefixLen sp (apply d s) rest j)
    else 1 + prefixLen sp (apply d s) rest j

def verdict (sp : Bool) (k : Kind) (d : Disk) (op : Op) (j : Nat) : String :=
  let steps := plan k d op
  let j := prefixLen sp d steps j
  let old := view k d
  let new := view k (run d steps)
  let got := view k (crash d steps j)
  let v := if got.isNone then "other"
    else if got == old && got == new then "same"
    else if got == old then "old"
    else if got == new then "new"
    else "other"
  v ++ " nd=" ++ (if noDangling (crash d steps j) then "1" else "0")

def step (s : CState) (line : String) : CState × String :=
  match words line with
  | ["cnew", k] => ({ kind := parseKind k, disk := {} }, "ok")
  | ["cstate", fs] =>
    let files := decPairs fs
    let d : Disk := match s.kind with
      | .vdir => { wt := files.map fun (n, t) => (Key.file n, ⟨t, true⟩) }
      | .tree => { objs := mkCommit files none :: Obj.tree files :: files.map (fun (_, t) => Obj.blob t),
                   head := some (mkCommit files none), index := files,
                   wt := files.map fun (n, t) => (Key.file n, ⟨t, true⟩) }
      | .bare => { objs := mkCommit files none :: Obj.tree files :: files.map (fun (_, t) => Obj.blob t),
                   head := if files.isEmpty then none else some (mkCommit files none) }
    ({ s with disk := d }, "ok")
  | ["cobj", "tree", es] => ({ s with disk := { s.disk with objs := Obj.tree (decPairs es) :: s.disk.objs } }, "ok")
  | ["cskip", f] => ({ s with skipPack := f == "1" }, "ok")
  | ["cput", n, t] => ({ s with disk := run s.disk (plan s.kind s.disk (.put (fieldS n) (fieldS t))) }, "ok")
  | ["cdel", n] => ({ s with disk := run s.disk (plan s.kind s.disk (.delete (fieldS n))) }, "ok")
  | ["cplan", "put", n, t] =>
    (s, ",".intercalate (effectiveNames s.skipPack s.disk (plan s.kind s.disk (.put (fieldS n) (fieldS t)))))
  | ["cplan", "del", n] => (s, ",".intercalate (effectiveNames s.skipPack s.disk (plan s.kind s.disk (.delete (fieldS n)))))
  | ["ccrash", "put", n, t, j] => (s, verdict s.skipPack s.kind s.disk (.put (fieldS n) (fieldS t)) j.toNat!)
  | ["ccrash", "del", n, j] => (s, verdict s.skipPack s.kind s.disk (.delete (fieldS n)) j.toNat!)
  | _ => (s, "bad-op")

end Xandikos.CrashDriver
