/-
  Driver for the concurrency model (C05).
    qnew                                   reset
    qmember <name> <tok> <uid|~>           prior member
    quid <tok> <uid|~>                     UID carried by a content token
    qop put <name> <tok> <uid|~> <replace|~> | qop del <name> <etag|~>
    qrun <threads|processes> <tree|bare> <i,j,k,…>
         -> res=<r0>;<r1>… final=<name:tok,…> ser=<0|1>
-/
import Xandikos.Store.Conc
import Xandikos.Driver.Codec

namespace Xandikos.ConcDriver
open Xandikos.Store.Conc Xandikos.Codec

structure QState where
  members : Members := []
  uids : List (String × Option String) := []
  ops : List Op := []

def showRes : Option Res → String
  | some .ok => "ok" | some .invalidEtag => "invalidEtag" | some .dupUid => "dupUid"
  | some .noSuchItem => "noSuchItem" | some .locked => "locked" | some .failed => "failed" | none => "running"

def step (s : QState) (line : String) : QState × String :=
  match words line with
  | ["qnew"] => ({}, "ok")
  | ["qmember", n, t, u] =>
    ({ s with members := s.members ++ [(fieldS n, fieldS t)], uids := (fieldS t, field u) :: s.uids }, "ok")
  | ["quid", t, u] => ({ s with uids := (fieldS t, field u) :: s.uids }, "ok")
  | ["qop", "put", n, t, u, r] =>
    ({ s with ops := s.ops ++ [.put (fieldS n) (fieldS t) (field u) (field r)],
              uids := (fieldS t, field u) :: s.uids }, "ok")
  | ["qop", "del", n, e] => ({ s with ops := s.ops ++ [.del (fieldS n) (field e)] }, "ok")
  | ["qrun", mode, kind, sched] =>
    let uidOf : String → Option String := fun t => (s.uids.lookup t).getD none
    let m := if mode == "threads" then Mode.threads else Mode.processes
    let k := if kind == "bare" then Kind.bare else Kind.tree
    let sch := (sched.splitOn ",").filterMap (·.toNat?)
    let out := runSched uidOf k m { members := s.members, wt := s.members } (s.ops.map fun op => { op := op }) sch
    let res := results out.2
    let fin := out.1.members.toArray.qsort (fun a b => a.1 < b.1) |>.toList
    let ser := serialisable uidOf s.members s.ops out.1.members (res.map fun r => r.getD .failed)
    (s, "res=" ++ ";".intercalate (res.map showRes) ++ " final=" ++ encPairs fin ++ " ser=" ++ (if ser then "1" else "0"))
  | _ => (s, "bad-op")

end Xandikos.ConcDriver
