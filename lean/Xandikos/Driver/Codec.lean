/-
  Line-protocol codec shared by all drivers.  A line is fields separated by one space.
  A field is `~` (None) or `=` followed by a percent-encoded UTF-8 string (all bytes outside
  [A-Za-z0-9._-] escaped as %XX).
-/
namespace Xandikos.Codec

def hexVal (c : Char) : Option UInt8 :=
  if '0' ≤ c ∧ c ≤ '9' then some (c.toNat - '0'.toNat).toUInt8
  else if 'a' ≤ c ∧ c ≤ 'f' then some (c.toNat - 'a'.toNat + 10).toUInt8
  else if 'A' ≤ c ∧ c ≤ 'F' then some (c.toNat - 'A'.toNat + 10).toUInt8
  else none

def pctDecodeBytes : List Char → ByteArray → ByteArray
  | '%' :: a :: b :: rest, acc =>
    match hexVal a, hexVal b with
    | some x, some y => pctDecodeBytes rest (acc.push (x * 16 + y))
    | _, _ => pctDecodeBytes (a :: b :: rest) (acc.push 37)
  | c :: rest, acc => pctDecodeBytes rest (acc ++ (String.singleton c).toUTF8)
  | [], acc => acc

def pctDecode (s : String) : String :=
  match String.fromUTF8? (pctDecodeBytes s.toList ByteArray.empty) with
  | some r => r
  | none => s

def hexDigit (n : Nat) : Char :=
  if n < 10 then Char.ofNat (48 + n) else Char.ofNat (55 + n)

def safeChar (c : Char) : Bool :=
  c.isAlphanum || c == '.' || c == '_' || c == '-'

def pctEncode (s : String) : String :=
  s.toUTF8.foldl (init := "") fun acc b =>
    let c := Char.ofNat b.toNat
    if b < 128 && safeChar c then acc.push c
    else (acc.push '%').push (hexDigit (b.toNat / 16)) |>.push (hexDigit (b.toNat % 16))

/-- decode a field: `~` is None, `=xyz` is a string -/
def field (s : String) : Option String :=
  if s.startsWith "=" then some (pctDecode (s.drop 1).toString) else none

def fieldS (s : String) : String := (field s).getD ""

def enc (s : String) : String := "=" ++ pctEncode s

def encO : Option String → String
  | some s => enc s
  | none => "~"

/-- `n=e,n=e,…` (each side percent-encoded) -/
def encPairs (l : List (String × String)) : String :=
  "=" ++ ",".intercalate (l.map fun (a, b) => pctEncode a ++ ":" ++ pctEncode b)

def decPairs (s : String) : List (String × String) :=
  let body := (s.drop 1).toString
  if body.isEmpty then []
  else (body.splitOn ",").filterMap fun item =>
    match item.splitOn ":" with
    | [a, b] => some (pctDecode a, pctDecode b)
    | _ => none

def words (line : String) : List String :=
  (line.trimAscii.toString.splitOn " ").filter (· ≠ "")

end Xandikos.Codec
