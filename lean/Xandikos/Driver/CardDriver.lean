/-
  addressbook-query driver: cards and filters arrive in a compact text encoding, the model
  evaluates the query (`Card.query`), the monitor evaluates the RFC 6352 spec
  (Bool mirror of `Card.Rfc`, proved equivalent for supported filters).
-/
import Xandikos.Card.Filter
import Xandikos.Driver.Codec

namespace Xandikos.CardDriver
open Xandikos.Codec Xandikos.Card Xandikos.Py

/-- `name|value|PARAM=v1,v2;PARAM2=v` per line, lines separated by `\n` (all percent-encoded) -/
def parseLine (s : String) : Option Line :=
  match s.splitOn "|" with
  | [n, v, ps] =>
    let params := if ps == "" then [] else (ps.splitOn ";").filterMap fun p =>
      match p.splitOn "=" with
      | [k, vs] => some ((pctDecode k).toList, (vs.splitOn ",").map fun x => (pctDecode x).toList)
      | _ => none
    some { name := (pctDecode n).toList, value := (pctDecode v).toList, params := params }
  | _ => none

def parseCard (s : String) : Card :=
  (s.splitOn "/").filterMap parseLine

/-- text-match: `coll~negate01~mtype~text` -/
def parseTM (s : String) : Option TextMatch :=
  match s.splitOn "~" with
  | [c, n, k, t] => some { collation := (pctDecode c).toList, negate := n == "1",
                            mtype := (pctDecode k).toList, text := (pctDecode t).toList }
  | _ => none

/-- child: `T:<tm>` or `P:name:nd01:<tm>+<tm>` -/
def parseChild (s : String) : Option Child :=
  if s.startsWith "T:" then (parseTM (s.drop 2).toString).map Child.text
  else if s.startsWith "P:" then
    match (s.drop 2).toString.splitOn ":" with
    | [n, nd, tms] =>
      some (.param (pctDecode n).toList (nd == "1")
        (if tms == "" then [] else (tms.splitOn "+").filterMap parseTM))
    | _ => none
  else none

/-- prop-filter: `name;allof01;nd01;child&child&…` -/
def parsePF (s : String) : Option PropFilter :=
  match s.splitOn ";" with
  | [n, a, nd, cs] =>
    some { name := (pctDecode n).toList, allof := a == "1", isNotDefined := nd == "1",
           children := if cs == "" then [] else (cs.splitOn "&").filterMap parseChild }
  | _ => none

/-- filter: `allof01 pf pf …` already split into words -/
def parseFilter (a : String) (pfs : List String) : Filter :=
  { allof := a == "1", props := pfs.filterMap parsePF }

structure CState where
  members : List (String × Card) := []

def showRes (r : Except PyErr (List String)) : String :=
  match r with
  | .ok l => "ok =" ++ ",".intercalate (l.map pctEncode)
  | .error (.raised c _) => "error " ++ c

def step (st : CState) (line : String) : CState × String :=
  match words line with
  | ["cnew"] => ({ members := [] }, "ok")
  | ["card", n, c] => ({ st with members := st.members ++ [(fieldS n, parseCard (c.drop 1).toString)] }, "ok")
  | "cquery" :: limit :: a :: pfs =>
    let lim := if limit == "~" then none else limit.toNat?
    let f := parseFilter a pfs
    (st, showRes (query f lim st.members))
  | _ => (st, "bad-op")

end Xandikos.CardDriver
