/-
  HTTP-level driver: model (`Http.put` …) + monitor (`Http.monitor…`) on protocol lines
  `<op> | <observation>`; prints `<model outcome> | <verdict>`.
-/
import Xandikos.Http.Spec
import Xandikos.Http.Multiget
import Xandikos.Http.Discovery
import Xandikos.Driver.StoreDriver

namespace Xandikos.HttpDriver
open Xandikos.Store Xandikos.Http Xandikos.Codec Xandikos.StoreDriver Xandikos.Py

structure HState where
  rows : List AttrRow := []
  world : World := {}
  abs : AbsWorld := {}

def showOutcome : Outcome → String
  | .created e => "created " ++ enc e
  | .updated e => "updated " ++ enc e
  | .createdAt n => "createdat " ++ enc n
  | .deleted => "deleted"
  | .mkcol => "mkcol"
  | .precondition => "precondition"
  | .refused w => "refused " ++ enc w
  | .notFound => "notfound"
  | .notAllowed => "notallowed"
  | .conflict => "conflict"
  | .locked => "locked"
  | .notModified => "notmodified"
  | .body e c => "body " ++ encO e ++ " " ++ encO c
  | .error => "error"

def parseOutcome : List String → Option Outcome
  | ["created", e] => some (.created (fieldS e))
  | ["updated", e] => some (.updated (fieldS e))
  | ["createdat", n] => some (.createdAt (fieldS n))
  | ["deleted"] => some .deleted
  | ["mkcol"] => some .mkcol
  | ["precondition"] => some .precondition
  | ["refused", w] => some (.refused (fieldS w))
  | ["notfound"] => some .notFound
  | ["notallowed"] => some .notAllowed
  | ["conflict"] => some .conflict
  | ["locked"] => some .locked
  | ["notmodified"] => some .notModified
  | ["body", e, c] => some (.body (field e) (field c))
  | ["error"] => some .error
  | _ => none

def parseCType : String → CType
  | "calendar" => .calendar
  | "addressbook" => .addressbook
  | "principal" => .principal
  | "inbox" => .inbox
  | _ => .other

def finish (h : HState) (w' : World) (o : Outcome) (v : Verdict) : HState × String :=
  ({ h with world := w', abs := v.world }, showOutcome o ++ " | " ++ verdict v.broken)

def step (h : HState) (line : String) : HState × String :=
  let (opS, obsS) := splitObs line
  let env := envOf h.rows
  let obs := parseOutcome (words obsS)
  match words opS with
  | ["hnew"] => ({ h with world := {}, abs := {} }, "hnew | ok")
  | ["attr", hk, tok, v, p, uid, norm] =>
    let row : AttrRow := { hk := parseHk hk, tok := fieldS tok, valid := v == "1",
                           parses := p == "1", uid := field uid, norm := fieldS norm }
    ({ h with rows := row :: h.rows }, "attr | ok")
  | ["hdir", p] =>
    ({ h with world := { h.world with dirs := fieldS p :: h.world.dirs } }, "hdir | ok")
  | ["hprincipal", p] =>
    ({ h with world := { h.world with principals := fieldS p :: h.world.principals } }, "hprincipal | ok")
  | ["hcoll", p, ct] =>
    ({ h with world := h.world.setColl (fieldS p) { st := Store.init .tree, ctype := parseCType ct }
              abs := { h.abs with colls := fieldS p :: h.abs.colls } }, "hcoll | ok")
  | ["hcfg", p, tok] =>
    -- the collection already holds a metadata file (created when its type was set)
    (match h.world.colls[fieldS p]? with
     | some c =>
       let st' := { c.st with files := c.st.files.insert configName (fieldS tok)
                              worktree := c.st.worktree.insert configName (fieldS tok) }
       ({ h with world := h.world.setColl (fieldS p) { c with st := st' } }, "hcfg | ok")
     | none => (h, "hcfg | ok"))
  | ["PUT", p, im, inm, ct, tok] =>
    let r : Req := { path := fieldS p, ifMatch := field im, ifNoneMatch := field inm,
                     ctype := fieldS ct, body := fieldS tok }
    let (w', o) := put env h.world r
    let v : Verdict := match obs with
      | some (.created e) | some (.updated e) => monitorPutOk env h.abs r e
      | some .precondition => monitorPutPrecondition h.abs r
      | some (.refused why) => monitorPutRefused env h.abs r why
      | some _ => { world := h.abs }
      | none => { world := h.abs, broken := some "unparsed-observation" }
    finish h w' o v
  | ["POST", p, ct, tok, hint] =>
    let r : Req := { path := fieldS p, ctype := fieldS ct, body := fieldS tok, hint := fieldS hint }
    let (w', o) := post env h.world r
    let v : Verdict := match obs with
      | some (.createdAt n) =>
        -- judged like an unconditional PUT of the new name; the ETag is observed by later reads
        let target := Path.joinS (Path.normpathS r.path) n
        let hk := hkOfCtype r.ctype
        let a' := { h.abs with files := h.abs.files.insert target (env.norm hk r.body) }
        if (h.abs.files[target]?).isSome then
          { world := a', broken := some "C01:add-member-overwrote-an-existing-member" }
        else if !(env.valid hk r.body) then { world := a', broken := some "C14:invalid-body-stored" }
        else if hk != .plain && hkOfName n != hk then
          -- the server picks the name: a calendar object (card) filed under a name that is not
          -- recognised as one is invisible to the UID check, to queries and to its own content type
          { world := a', broken := some "C06:add-member-name-hides-the-object-from-the-uid-check" }
        else if (match env.uid hk r.body with
                 | some u => (h.abs.members (Path.normpathS r.path)).any fun (m, t) =>
                     m != n && hkOfName m == hk && env.uid hk t == some u
                 | none => false) = true then
          { world := a', broken := some "C06:duplicate-uid-accepted" }
        else { world := a' }
      | some (.refused why) => monitorPutRefused env h.abs { r with path := Path.joinS r.path "new" } why
      | _ => { world := h.abs }
    finish h w' o v
  | ["DELETE", p, im] =>
    let r : Req := { path := fieldS p, ifMatch := field im }
    let (w', o) := delete h.world r
    let v := match obs with
      | some oo => monitorDelete h.abs r oo
      | none => { world := h.abs, broken := some "unparsed-observation" }
    finish h w' o v
  | ["MKCOL", p] =>
    let r : Req := { path := fieldS p }
    let (w', o) := mkcol h.world r
    let v : Verdict := match obs with
      | some .mkcol => { world := { h.abs with colls := Path.normpathS r.path :: h.abs.colls } }
      | _ => { world := h.abs }
    finish h w' o v
  | ["MKCALENDAR", p] =>
    let r : Req := { path := fieldS p }
    let (w', o) := mkcalendar h.world r
    let v : Verdict := match obs with
      | some .mkcol => { world := { h.abs with colls := Path.normpathS r.path :: h.abs.colls } }
      | _ => { world := h.abs }
    finish h w' o v
  | ["GET", p, inm] =>
    let r : Req := { path := fieldS p, ifNoneMatch := field inm }
    let o := get h.world r
    let v := match obs with
      | some oo => monitorGet h.abs r oo
      | none => { world := h.abs, broken := some "unparsed-observation" }
    finish h h.world o v
  | ["HEAD", p, inm] =>
    -- HEAD is GET without the body: the observation is `body <etag> ~` (200 with an ETag),
    -- `notmodified`, `notfound`, …; the served bytes cannot be seen, so the monitor judges the
    -- ETag against the acknowledged content and the condition
    let r : Req := { path := fieldS p, ifNoneMatch := field inm }
    let o := match get h.world r with
      | .body e _ => Outcome.body e none
      | x => x
    let cur := h.abs.files[Path.normpathS r.path]?
    let v := match obs with
      | some (.body (some e) none) =>
        (match cur with
         | some t => monitorGet h.abs r (.body (some e) (some t))
         | none => { world := h.abs, broken := some "C01:head-of-missing-member-answers-200" })
      | some oo => monitorGet h.abs r oo
      | none => { world := h.abs, broken := some "unparsed-observation" }
    finish h h.world o v
  | ["LIST", p] =>
    -- observation: `list =n:e,n:e,…` members (files) of the collection with their ETags
    let cp := Path.normpathS (fieldS p)
    let model := match h.world.colls[cp]? with
      | some c => "list " ++ encPairs (c.st.blobs.map fun (n, e) => (n, strong e))
      | none => "nolist"
    let want := "list " ++ encPairs ((h.abs.members cp).map fun (n, t) => (n, strong t))
    let v : Option String :=
      if !(h.abs.colls.contains cp) then none
      else if obsS.trimAscii.toString == want then none
      else
        let got := match words obsS with
          | ["list", l] => decPairs l
          | _ => []
        if got.map (·.1) == (h.abs.members cp).map (·.1) then
          some ("C02:listed-etag-differs-from-acknowledged-content expected " ++ want)
        else some ("C01:listing-differs expected " ++ want)
    (h, model ++ " | " ++ verdict v)
  | ["TAGS", p] =>
    -- observation: `tags <symbolic tree>` (the harness checked that getctag (both namespaces),
    -- sync-token and getetag agree and that the value is the git tree hash of the entries)
    let cp := Path.normpathS (fieldS p)
    (match h.world.colls[cp]? with
     | some c =>
       let (st', t) := getCtag c.st
       let out := match t with
         | some t => "tags " ++ encPairs (t.toList.filter fun p => p.1 != configName)
         | none => "notags"
       -- the tag covers the metadata file too; members are what the abstract world tracks
       let want := encPairs (h.abs.members cp)
       let got := match words obsS with
         | ["tags", t] =>
           if t.startsWith "=?" then "?not-the-tree-hash-of-the-listed-entries"
           else encPairs ((decPairs t).filter fun p => p.1 != configName)
         | _ => "?"
       let v : Option String :=
         if !(h.abs.colls.contains cp) then none
         else if got == want then none
         else some ("C08:collection-tag-is-not-the-tag-of-the-current-contents expected members " ++ want)
       ({ h with world := h.world.setColl cp { c with st := st' } }, out ++ " | " ++ verdict v)
     | none => (h, "notags | ok"))
  | ["SYNC", p, tok] =>
    -- tok: `~` (empty token), `=<symbolic tree>` (a token issued earlier) or `!<text>` (foreign)
    let cp := Path.normpathS (fieldS p)
    (match h.world.colls[cp]? with
     | some c =>
       let newT := c.st.files
       let (st1, _) := getCtag c.st
       let foreign := tok.startsWith "!"
       -- the protocol names a token by its members; find the tree object (with its metadata file)
       let stripCfg (t : Map String) : List (String × String) := t.toList.filter fun p => p.1 != configName
       let tokMembers := (treeOf (decPairs tok)).toList
       let old : Option (Map String) :=
         if tok == "~" then none
         else some ((st1.objs.find? fun t => stripCfg t == tokMembers).getD (treeOf (decPairs tok)))
       let (st2, r) : St × Option (List Change) :=
         if foreign then (st1, none) else iterChanges st1 old newT
       let out := match r with
         | some cs => showChanges cs ++ " " ++ encPairs (newT.toList.filter fun p => p.1 != configName)
         | none => "rejected"
       let cur := treeOf (h.abs.members cp)
       let want := showChanges (diffTrees (old.getD ∅) cur)
       let v : Option String :=
         if !(h.abs.colls.contains cp) then none
         else match words obsS with
           | ["changes", cs, nt] =>
             if foreign then some "C07:foreign-token-answered-with-a-change-list"
             else if "changes " ++ cs != want then some ("C07:wrong-change-list expected " ++ want)
             else if encPairs ((decPairs nt).filter fun p => p.1 != configName) != encPairs (h.abs.members cp) then
               some "C07:returned-token-is-not-the-token-of-the-current-state"
             else none
           | _ => none
       ({ h with world := h.world.setColl cp { c with st := st2 } }, out ++ " | " ++ verdict v)
     | none => (h, "nosync | ok"))
  | "MULTIGET" :: script :: kind :: hs =>
    -- `hs`: the text of each DAV:href element as sent (`~`: an empty element, which Python reads
    -- as None and prints as "None").  Observation: `mg =href:answer,…` sorted by href, where the
    -- answer is `404` or `200;<etag|~>;<data token|~>`.
    let want := if kind == "calendar" then HKind.ical else HKind.vcard
    let hrefs := hs.map fun x => match field x with
      | some t => readHrefEl t
      | none => "None"
    let showAns : MgAnswer → String
      | .notFound => "404"
      | .found e d => "200;" ++ (match e with | some e => pctEncode e | none => "~") ++ ";" ++
          (match d with | some d => pctEncode d | none => "~")
    let model := (multiget h.world want (fieldS script) hrefs).map fun (k, a) => (k, showAns a)
    let sorted := model.toArray.qsort (fun a b => a.1 < b.1) |>.toList
    let out := "mg =" ++ ",".intercalate (sorted.map fun (k, a) => pctEncode k ++ ":" ++ a)
    -- monitor on the observation: every distinct href once; data only for an acknowledged member
    -- of the right kind at that path, and then the acknowledged content with its strong ETag
    let obsItems : List (String × String) := match words obsS with
      | ["mg", l] => (((l.drop 1).toString.splitOn ",").filter (· ≠ "")).filterMap fun item =>
          match item.splitOn ":" with
          | [a, b] => some (pctDecode a, b)
          | _ => none
      | _ => []
    let distinct := dedup hrefs
    let keys := obsItems.map (·.1)
    let v : Option String :=
      if keys.any (fun k => (keys.filter (· == k)).length > 1) then some "C17:href-answered-more-than-once"
      else if distinct.any (fun k => !keys.contains k) then some "C17:requested-href-not-answered"
      else if keys.any (fun k => !distinct.contains k) then some "C17:answer-for-an-href-that-was-not-requested"
      else
        obsItems.findSome? fun (k, a) =>
          let cur : Option String := (hrefToPath (fieldS script) k).bind fun p =>
            let np := Path.normpathS p
            if hasGitSegment np then none else
            match h.abs.files[np]? with
            | some t => if hkOfName (Path.splitS np).2 == want then some t else none
            | none => none
          match a.splitOn ";" with
          | ["200", e, d] =>
            if d == "~" then
              (if cur.isSome then some ("C17:no-data-for-an-existing-member " ++ pctEncode k) else none)
            else
              (match cur with
               | none => some ("C17:data-for-an-href-that-addresses-no-member-of-that-kind " ++ pctEncode k)
               | some t =>
                 if pctDecode d != t then some ("C17:data-is-not-the-current-content " ++ pctEncode k)
                 else if pctDecode e != strong t then some ("C17:etag-is-not-the-current-etag " ++ pctEncode k)
                 else none)
          | ["404"] => if cur.isSome then some ("C17:existing-member-answered-404 " ++ pctEncode k) else none
          | _ => some "C17:unparsed-answer"
    (h, out ++ " | " ++ verdict v)
  | ["hboot", principal, d, how] =>
    -- a start of the server: `--autocreate` (d = 0) or `--defaults` (d = 1); `how` = module for
    -- the xandikos/wsgi.py start-up, anything else for run_simple_server
    -- d: 1 = --defaults, 0 = --autocreate, n = neither
    let w' := if how == "module" then bootModule h.world (fieldS principal) (d != "n") (d == "1")
              else bootSimple h.world (fieldS principal) (d != "n") (d == "1")
    let newColls := w'.colls.keys.filter fun p => !h.abs.colls.contains p
    ({ h with world := w', abs := { h.abs with colls := h.abs.colls ++ newColls } }, "hboot | ok")
  | ["COLLS"] =>
    -- observation: every repository below the root with its type and metadata text, the plain
    -- directories, the principals: `colls =path:type;cfg,… dirs =p:,… `
    let ctName : CType → String
      | .calendar => "calendar" | .addressbook => "addressbook" | .principal => "principal"
      | .inbox => "schedule-inbox" | .outbox => "schedule-outbox" | .subscription => "subscription"
      | .other => "other"
    let cs := h.world.colls.toList.map fun (p, c) =>
      (p, ctName c.ctype ++ ";" ++ (match c.st.files[configName]? with
                                     | some t => pctEncode (cfgText t)
                                     | none => "~"))
    let ds := (h.world.dirs.toArray.qsort (· < ·)).toList.map fun d => (d, "")
    (h, "colls " ++ encPairs cs ++ " dirs " ++ encPairs ds ++ " | ok")
  | ["SETPROP", p, key, value] =>
    -- PROPPATCH of a property kept in the collection's metadata file; `~` removes it
    let cp := Path.normpathS (fieldS p)
    (match h.world.colls[cp]? with
     | some c =>
       let (st', o) := setMeta c.st (fieldS key) (field value)
       ({ h with world := h.world.setColl cp { c with st := st' } },
        (match o with | .ok => "set" | .failed => "failed") ++ " | ok")
     | none => (h, "nocoll | ok"))
  | ["restart"] => ({ h with world := h.world.restart }, "restart | ok")
  | [] => (h, "")
  | _ => (h, "bad-op | ok")

end Xandikos.HttpDriver
