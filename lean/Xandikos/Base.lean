/-
  Base: finite maps with string keys (extensional ordered maps from Std) and the
  handful of lookup lemmas every model file uses.  No Mathlib.
-/
import Std.Data.ExtTreeMap

namespace Xandikos

/-- Finite map keyed by strings.  Extensional: two maps with the same lookups are equal,
    which is how content-addressed git trees ("same entries ⇒ same id") are modelled. -/
abbrev Map (α : Type) := Std.ExtTreeMap String α compare

namespace Map
variable {α : Type}

@[simp] theorem get_empty (a : String) : ((∅ : Map α))[a]? = none := by
  simp

theorem get_insert (m : Map α) (k a : String) (v : α) :
    (m.insert k v)[a]? = if k = a then some v else m[a]? := by
  rw [Std.ExtTreeMap.getElem?_insert]
  simp [Std.LawfulEqCmp.compare_eq_iff_eq]

@[simp] theorem get_insert_self (m : Map α) (k : String) (v : α) :
    (m.insert k v)[k]? = some v := by
  simp

theorem get_insert_ne (m : Map α) {k a : String} (v : α) (h : k ≠ a) :
    (m.insert k v)[a]? = m[a]? := by
  simp [get_insert, h]

theorem get_erase (m : Map α) (k a : String) :
    (m.erase k)[a]? = if k = a then none else m[a]? := by
  rw [Std.ExtTreeMap.getElem?_erase]
  simp [Std.LawfulEqCmp.compare_eq_iff_eq]

@[simp] theorem get_erase_self (m : Map α) (k : String) : (m.erase k)[k]? = none := by
  simp

theorem get_erase_ne (m : Map α) {k a : String} (h : k ≠ a) :
    (m.erase k)[a]? = m[a]? := by
  simp [get_erase, h]

theorem ext {m₁ m₂ : Map α} (h : ∀ k : String, m₁[k]? = m₂[k]?) : m₁ = m₂ :=
  Std.ExtTreeMap.ext_getElem? h

theorem eq_iff {m₁ m₂ : Map α} : m₁ = m₂ ↔ ∀ k : String, m₁[k]? = m₂[k]? :=
  ⟨fun h _ => h ▸ rfl, ext⟩

theorem mem_toList {m : Map α} {k : String} {v : α} :
    (k, v) ∈ m.toList ↔ m[k]? = some v :=
  Std.ExtTreeMap.mem_toList_iff_getElem?_eq_some

theorem insert_same {m : Map α} {k : String} {v : α} (h : m[k]? = some v) :
    m.insert k v = m := by
  apply Map.ext; intro a
  by_cases hk : k = a
  · subst hk; simp [h]
  · simp [get_insert_ne _ _ hk]

theorem erase_absent {m : Map α} {k : String} (h : m[k]? = none) : m.erase k = m := by
  apply Map.ext; intro a
  by_cases hk : k = a
  · subst hk; simp [h]
  · simp [get_erase_ne _ hk]

end Map
end Xandikos
