/-
  Executable model of the CPython 3.12 `urllib.parse` functions a WebDAV server uses to build and
  parse hrefs:  `quote` (safe='/'), `quote` (safe=''), `unquote` (utf-8, errors='replace'),
  `urlsplit(..).path`, scheme detection of `urlsplit`, and `urljoin` on the path-only domain.

  Import-free (Lean core only).  Byte level first (`List UInt8`), then `List Char`, then `String`.
  Theorems live in `Xurl/UrlProofs.lean`; the line-protocol driver in `Xurl/UrlDriver.lean`.
-/
namespace Xandikos.Py.Url

/-! ## Bytes of a string -/

/-- UTF-8 bytes of a string, as a list. -/
def strBytes (s : String) : List UInt8 := s.toUTF8.data.toList

/-- The character with the same code as the byte (Latin-1 view; used only for bytes < 128). -/
def byteChar (b : UInt8) : Char := Char.ofNat b.toNat

/-! ## `quote` -/

/-- `_ALWAYS_SAFE`: ASCII letters, digits and `_.-~`. -/
def isUnreserved (b : UInt8) : Bool :=
  (65 ≤ b && b ≤ 90) || (97 ≤ b && b ≤ 122) || (48 ≤ b && b ≤ 57) ||
  b == 95 || b == 46 || b == 45 || b == 126

/-- uppercase hex digit of a nibble -/
def hexUpper (n : UInt8) : UInt8 := if n < 10 then 48 + n else 55 + n

/-- `quote_from_bytes` on one byte; `slash` says whether `'/'` is in `safe`. -/
def quoteByte (slash : Bool) (b : UInt8) : List UInt8 :=
  if isUnreserved b || (slash && b == 47) then [b]
  else [37, hexUpper (b / 16), hexUpper (b % 16)]

def quoteBytesWith (slash : Bool) (bs : List UInt8) : List UInt8 := bs.flatMap (quoteByte slash)

/-- `urllib.parse.quote_from_bytes(bs)` (safe='/'), as bytes. -/
def quoteBytes (bs : List UInt8) : List UInt8 := quoteBytesWith true bs

/-- `urllib.parse.quote_from_bytes(bs, safe='')`, as bytes. -/
def quoteSegmentBytes (bs : List UInt8) : List UInt8 := quoteBytesWith false bs

def quoteWith (slash : Bool) (s : String) : String :=
  String.ofList ((quoteBytesWith slash (strBytes s)).map byteChar)

/-- `urllib.parse.quote(s)` with the default `safe='/'`. -/
def quote (s : String) : String := quoteWith true s

/-- `urllib.parse.quote(s, safe='')`: also escapes `'/'`; for a single path segment. -/
def quoteSegment (s : String) : String := quoteWith false s

/-! ## `unquote` -/

/-- value of a hex digit of either case (`_hexdig`) -/
def hexVal (b : UInt8) : Option UInt8 :=
  if 48 ≤ b && b ≤ 57 then some (b - 48)
  else if 65 ≤ b && b ≤ 70 then some (b - 55)
  else if 97 ≤ b && b ≤ 102 then some (b - 87)
  else none

/-- `urllib.parse.unquote_to_bytes`: `%XY` (hex digits of either case) becomes one byte, any other
`%` stays literally. -/
def unquoteBytes : List UInt8 → List UInt8
  | c :: a :: b :: rest =>
    if c = 37 then
      match hexVal a, hexVal b with
      | some x, some y => (x * 16 + y) :: unquoteBytes rest
      | _, _ => c :: unquoteBytes (a :: b :: rest)
    else c :: unquoteBytes (a :: b :: rest)
  | l => l  -- fewer than three bytes left: no escape fits
termination_by l => l.length
decreasing_by all_goals (simp only [List.length_cons]; omega)

/-- U+FFFD -/
def replacementChar : Char := Char.ofNat 0xFFFD

def isCont (b : UInt8) : Bool := 0x80 ≤ b && b ≤ 0xBF

/-- Allowed range of the second byte after lead byte `b0` (excludes overlong forms, surrogates and
code points above U+10FFFF), as in CPython's `utf8_decode`. -/
def second_ok (b0 b1 : UInt8) : Bool :=
  if b0 = 0xE0 then 0xA0 ≤ b1 && b1 ≤ 0xBF
  else if b0 = 0xED then 0x80 ≤ b1 && b1 ≤ 0x9F
  else if b0 = 0xF0 then 0x90 ≤ b1 && b1 ≤ 0xBF
  else if b0 = 0xF4 then 0x80 ≤ b1 && b1 ≤ 0x8F
  else isCont b1

/-- One step of CPython's UTF-8 decoder with `errors='replace'`: given the first byte and the bytes
after it, the decoded character (U+FFFD for a maximal invalid prefix) and how many of the following
bytes were consumed. -/
def decodeStep (b0 : UInt8) (rest : List UInt8) : Char × Nat :=
  if b0 < 0x80 then (Char.ofNat b0.toNat, 0)
  else if b0 < 0xC2 then (replacementChar, 0)
  else if b0 < 0xE0 then
    match rest with
    | b1 :: _ =>
      if isCont b1 then (Char.ofNat ((b0.toNat - 0xC0) * 64 + (b1.toNat - 0x80)), 1)
      else (replacementChar, 0)
    | [] => (replacementChar, 0)
  else if b0 < 0xF0 then
    match rest with
    | b1 :: r1 =>
      if second_ok b0 b1 then
        match r1 with
        | b2 :: _ =>
          if isCont b2 then
            (Char.ofNat ((b0.toNat - 0xE0) * 4096 + (b1.toNat - 0x80) * 64 + (b2.toNat - 0x80)), 2)
          else (replacementChar, 1)
        | [] => (replacementChar, 1)
      else (replacementChar, 0)
    | [] => (replacementChar, 0)
  else if b0 < 0xF5 then
    match rest with
    | b1 :: r1 =>
      if second_ok b0 b1 then
        match r1 with
        | b2 :: r2 =>
          if isCont b2 then
            match r2 with
            | b3 :: _ =>
              if isCont b3 then
                (Char.ofNat ((b0.toNat - 0xF0) * 262144 + (b1.toNat - 0x80) * 4096
                  + (b2.toNat - 0x80) * 64 + (b3.toNat - 0x80)), 3)
              else (replacementChar, 2)
            | [] => (replacementChar, 2)
          else (replacementChar, 1)
        | [] => (replacementChar, 1)
      else (replacementChar, 0)
    | [] => (replacementChar, 0)
  else (replacementChar, 0)

/-- `bytes.decode('utf-8', 'replace')`. -/
def utf8DecodeReplace : List UInt8 → List Char
  | [] => []
  | b0 :: rest =>
    let r := decodeStep b0 rest
    r.1 :: utf8DecodeReplace (rest.drop r.2)
termination_by l => l.length
decreasing_by
  simp only [List.length_drop, List.length_cons]
  omega

/-- `_unquote_impl(chunk).decode('utf-8','replace')` for an ASCII chunk given as reversed bytes. -/
def unquoteFlush (acc : List UInt8) : List Char :=
  utf8DecodeReplace (unquoteBytes acc.reverse)

/-- `_generate_unquoted_parts`: maximal ASCII runs are percent-decoded and UTF-8-decoded with
replacement as one chunk; non-ASCII characters pass through unchanged.  `acc` is the current ASCII
run, reversed. -/
def unquoteGo : List Char → List UInt8 → List Char
  | [], acc => unquoteFlush acc
  | c :: cs, acc =>
    if c.toNat < 128 then unquoteGo cs (c.toNat.toUInt8 :: acc)
    else unquoteFlush acc ++ c :: unquoteGo cs []

def unquoteChars (cs : List Char) : List Char := unquoteGo cs []

/-- `urllib.parse.unquote(s)` (encoding='utf-8', errors='replace'). -/
def unquote (s : String) : String := String.ofList (unquoteChars s.toList)

/-- Alternative one-chunk reading: percent-decode the UTF-8 bytes of the whole string and decode
with replacement.  Observably equal to `unquote` (checked differentially, not proved). -/
def unquoteWhole (s : String) : String :=
  String.ofList (utf8DecodeReplace (unquoteBytes (strBytes s)))

/-! ## `urlsplit`: cleaning, scheme detection, path -/

/-- `url.lstrip(_WHATWG_C0_CONTROL_OR_SPACE)` followed by removal of `\t`, `\r`, `\n`. -/
def cleanUrl (cs : List Char) : List Char :=
  (cs.dropWhile (fun c => c.toNat ≤ 32)).filter (fun c => !(c == '\t' || c == '\r' || c == '\n'))

def isAsciiAlpha (c : Char) : Bool :=
  (65 ≤ c.toNat && c.toNat ≤ 90) || (97 ≤ c.toNat && c.toNat ≤ 122)

/-- `scheme_chars`: ASCII letters, digits, `+-.` -/
def isSchemeChar (c : Char) : Bool :=
  isAsciiAlpha c || (48 ≤ c.toNat && c.toNat ≤ 57) || c == '+' || c == '-' || c == '.'

/-- On a cleaned url: the text before the first `':'` if `urlsplit` takes it as a scheme. -/
def schemePrefix (cs : List Char) : Option (List Char) :=
  let pre := cs.takeWhile (· != ':')
  if cs.contains ':' then
    match pre with
    | c :: _ => if isAsciiAlpha c && pre.all isSchemeChar then some pre else none
    | [] => none
  else none

def hasSchemeChars (cs : List Char) : Bool := (schemePrefix (cleanUrl cs)).isSome

/-- whether `urlsplit(s).scheme` is non-empty -/
def has_scheme (s : String) : Bool := hasSchemeChars s.toList

/-- cut at the first `'?'` or `'#'` -/
def cutQueryFragment (cs : List Char) : List Char := cs.takeWhile (fun c => !(c == '?' || c == '#'))

/-- `_splitnetloc(url, 2)` when the url (scheme removed) starts with `//`: the authority runs up
to the first `/`, `?` or `#`.  (A netloc with `[`/`]` or non-ASCII characters can make CPython
raise `ValueError`; such inputs are outside the model's domain.) -/
def dropNetloc : List Char → List Char
  | '/' :: '/' :: rest => rest.dropWhile (fun c => !(c == '/' || c == '?' || c == '#'))
  | u => u

/-- `urlsplit(s).path` -/
def urlsplitPathChars (cs : List Char) : List Char :=
  let u := cleanUrl cs
  let u := match schemePrefix u with
    | some pre => u.drop (pre.length + 1)
    | none => u
  cutQueryFragment (dropNetloc u)

def urlsplit_path (s : String) : String := String.ofList (urlsplitPathChars s.toList)

/-! ## `urljoin` on paths -/

/-- `str.split(sep)` -/
def splitOn (sep : Char) : List Char → List (List Char)
  | [] => [[]]
  | c :: cs =>
    if c = sep then [] :: splitOn sep cs
    else match splitOn sep cs with
      | [] => [[c]]
      | h :: t => (c :: h) :: t

/-- `sep.join(parts)` -/
def joinWith (sep : Char) : List (List Char) → List Char
  | [] => []
  | [p] => p
  | p :: ps => p ++ sep :: joinWith sep ps

/-- `_splitparams` (only called when `';'` occurs): split off `;params` of the last segment. -/
def splitParams (cs : List Char) : List Char × List Char :=
  if cs.contains ';' then
    let parts := splitOn '/' cs
    let last := parts.getLast?.getD []
    if last.contains ';' then
      let seg := last.takeWhile (· != ';')
      let params := last.drop (seg.length + 1)
      (joinWith '/' (parts.dropLast ++ [seg]), params)
    else (cs, [])
  else (cs, [])

def dot : List Char := ['.']
def dotdot : List Char := ['.', '.']

/-- the `resolved_path` loop of `urljoin`; the stack is kept reversed -/
def resolveStep (st : List (List Char)) (seg : List Char) : List (List Char) :=
  if seg = dotdot then st.tail
  else if seg = dot then st
  else seg :: st

/-- `segments[1:-1] = filter(None, segments[1:-1])` -/
def filterMiddle : List (List Char) → List (List Char)
  | [] => []
  | [h] => [h]
  | h :: t => h :: (t.dropLast.filter (· ≠ [])) ++ [t.getLast?.getD []]

/-- CPython's variant of RFC 3986 `remove_dot_segments`, on the split segments. -/
def removeDotSegments (segments : List (List Char)) : List Char :=
  let resolved := (segments.foldl resolveStep []).reverse
  let last := segments.getLast?.getD []
  let resolved := if last = dot || last = dotdot then resolved ++ [[]] else resolved
  let r := joinWith '/' resolved
  if r.isEmpty then ['/'] else r

/-- `urljoin(base, ref)` for `base` an absolute path (starts with one `/`, no scheme/netloc, no
`?#`, no `;` in the last segment, no TAB/CR/LF) and `ref` without netloc, `?`, `#`. -/
def urljoinChars (base ref : List Char) : List Char :=
  if base.isEmpty then ref
  else if ref.isEmpty then base
  else
    let u := cleanUrl ref
    if (schemePrefix u).isSome then ref
    else
      let (path, params) := splitParams u
      if path.isEmpty && params.isEmpty then base
      else
        let baseParts := splitOn '/' base
        let baseParts := if baseParts.getLast?.getD [] ≠ [] then baseParts.dropLast else baseParts
        let segments :=
          if path.head? = some '/' then splitOn '/' path
          else filterMiddle (baseParts ++ splitOn '/' path)
        let r := removeDotSegments segments
        if params.isEmpty then r else r ++ ';' :: params

def urljoin_simple (base ref : String) : String :=
  String.ofList (urljoinChars base.toList ref.toList)

end Xandikos.Py.Url
