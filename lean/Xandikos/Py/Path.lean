/-
  Executable model of CPython 3.12 `posixpath.normpath`, `posixpath.split`,
  `posixpath.join` (two arguments), `str.lstrip('/')`, `str.rstrip('/')`.

  Everything is defined over `List Char` (one element per Unicode scalar value, which is what
  a Python `str` without lone surrogates is); thin `String` wrappers at the bottom are what
  the driver calls.  No imports outside Lean core.
-/
namespace Xandikos.Py.Path

/-- `"."` -/
def dot : List Char := ['.']
/-- `".."` -/
def dotdot : List Char := ['.', '.']

/-! ### `str.split('/')` and `'/'.join` -/

/-- push a character onto the first component -/
def consHead (c : Char) : List (List Char) → List (List Char)
  | [] => [[c]]
  | h :: t => (c :: h) :: t

/-- Python `s.split('/')`: `"" ↦ [""]`, `"a//b" ↦ ["a","","b"]`; never returns `[]`. -/
def splitOnSlash : List Char → List (List Char)
  | [] => [[]]
  | c :: cs => if c = '/' then [] :: splitOnSlash cs else consHead c (splitOnSlash cs)

/-- Python `'/'.join(comps)` -/
def joinSlash : List (List Char) → List Char
  | [] => []
  | [x] => x
  | x :: y :: rest => x ++ '/' :: joinSlash (y :: rest)

/-! ### `lstrip('/')`, `rstrip('/')` -/

def lstripSlash (p : List Char) : List Char := p.dropWhile (· = '/')

def rstripSlash (p : List Char) : List Char := (p.reverse.dropWhile (· = '/')).reverse

/-! ### `posixpath.normpath` -/

/-- the `initial_slashes` variable of `normpath`: 0, 1 or 2 (POSIX: exactly two leading
    slashes are preserved, three or more collapse to one) -/
def initialSlashes : List Char → Nat
  | [] => 0
  | a :: r1 =>
    if a = '/' then
      match r1 with
      | [] => 1
      | b :: r2 =>
        if b = '/' then
          match r2 with
          | [] => 2
          | c :: _ => if c = '/' then 1 else 2
        else 1
    else 0

/-- One iteration of the `for comp in comps` loop.  `stk` is `new_comps` REVERSED (head of the
    list is `new_comps[-1]`); `abs` is `bool(initial_slashes)`. -/
def step (abs : Bool) (stk : List (List Char)) (comp : List Char) : List (List Char) :=
  if comp = [] ∨ comp = dot then stk
  else if comp ≠ dotdot ∨ (abs = false ∧ stk = []) ∨ stk.head? = some dotdot then comp :: stk
  else stk.tail

/-- `new_comps` (reversed) after the loop -/
def normStack (p : List Char) : List (List Char) :=
  (splitOnSlash p).foldl (step (initialSlashes p != 0)) []

def normpath (p : List Char) : List Char :=
  if p = [] then dot
  else
    let r := List.replicate (initialSlashes p) '/' ++ joinSlash (normStack p).reverse
    if r = [] then dot else r

/-! ### `posixpath.split`, `posixpath.join` -/

def allSlash (p : List Char) : Bool := p.all (· = '/')

/-- `posixpath.split`: head is everything up to and including the last `/` (trailing slashes
    stripped unless it consists only of slashes), tail is everything after it. -/
def split (p : List Char) : List Char × List Char :=
  let r := p.reverse
  let tail := (r.takeWhile (· ≠ '/')).reverse
  let head := (r.dropWhile (· ≠ '/')).reverse
  (if allSlash head then head else rstripSlash head, tail)

/-- `posixpath.join(a, b)` -/
def join (a b : List Char) : List Char :=
  if b.head? = some '/' then b
  else if a = [] ∨ a.getLast? = some '/' then a ++ b
  else a ++ '/' :: b

/-! ### String wrappers (driver only) -/

def normpathS (s : String) : String := String.ofList (normpath s.toList)
def splitS (s : String) : String × String :=
  let (h, t) := split s.toList
  (String.ofList h, String.ofList t)
def joinS (a b : String) : String := String.ofList (join a.toList b.toList)
def lstripS (s : String) : String := String.ofList (lstripSlash s.toList)
def rstripS (s : String) : String := String.ofList (rstripSlash s.toList)

end Xandikos.Py.Path
