/-
  Prelude for the translated functions (harness/translate.py): Python exceptions as a value,
  short-circuit boolean operators in the `Except` monad, and the shapes of the third-party
  values the functions receive (calendar property values, components, byte encodings).
-/
import Xandikos.Py.Str

namespace Xandikos.Py

/-- a raised Python exception: class name and first argument -/
inductive PyErr
  | raised (cls : String) (arg : String)
  deriving DecidableEq, Repr

/-- `s[i]` on a `str`: IndexError when `i` is out of range (non-negative indices only) -/
def idx (s : List Char) (i : Nat) : Except PyErr Char :=
  match s[i]? with
  | some c => pure c
  | none => throw (.raised "IndexError" "string index out of range")

/-- a resource as `traverse_resource` sees it: whether `COLLECTION_RESOURCE_TYPE` is among its
    resource types, and what `members()` yields -/
inductive ResTree
  | node (isCollection : Bool) (members : List (String × ResTree))

def ResTree.isCollection : ResTree → Bool
  | .node c _ => c

def ResTree.members : ResTree → List (String × ResTree)
  | .node _ m => m

/-- truthiness of an `Optional[str]` (a request header): `None` and `""` are false -/
def otruthy (x : Option (List Char)) : Bool :=
  match x with
  | some s => Str.truthy s
  | none => false

/-- a value passed where a `str` method is called on it: `None` raises AttributeError -/
def strArg (x : Option (List Char)) : Except PyErr (List Char) :=
  match x with
  | some s => pure s
  | none => throw (.raised "AttributeError" "'NoneType' object has no attribute")

/-- `A and B` with Python's evaluation order -/
def andM (a b : Except PyErr Bool) : Except PyErr Bool :=
  a >>= fun x => if x then b else pure false

/-- `A or B` with Python's evaluation order -/
def orM (a b : Except PyErr Bool) : Except PyErr Bool :=
  a >>= fun x => if x then pure true else b

def notM (a : Except PyErr Bool) : Except PyErr Bool := a >>= fun x => pure (!x)

/-- A DATE / DATE-TIME property value as the `icalendar` library hands it over
    (`prop.dt`): which of the two it is, plus an opaque identity (`key`) that the
    time-zone resolution function `tzify` maps to an instant. -/
structure TVal where
  isDateTime : Bool
  key : Int
  deriving DecidableEq, Repr

/-- seconds in `timedelta(1)` -/
def oneDay : Int := 86400

/-- `getattr(v, "time", None)`: a `datetime` has a `time` attribute, a `date` has none. -/
def timeAttr (v : TVal) : Option Unit := if v.isDateTime then some () else none

/-- `x.dt` where `x = comp.get(…)` may be `None`: `None.dt` raises AttributeError. -/
def dt (x : Option TVal) : Except PyErr TVal :=
  match x with
  | some v => pure v
  | none => throw (.raised "AttributeError" "dt")

/-- `x.dt` for a DURATION property (a `timedelta`, here in seconds). -/
def dtDur (x : Option Int) : Except PyErr Int :=
  match x with
  | some v => pure v
  | none => throw (.raised "AttributeError" "dt")

/-- The properties of a component that the RFC 4791 section 9.9 rules look at, as returned by
    `comp.get(NAME)` (`none` = property absent). -/
structure Comp where
  dtstart : Option TVal := none
  dtend : Option TVal := none
  due : Option TVal := none
  completed : Option TVal := none
  created : Option TVal := none
  duration : Option Int := none
  /-- FREEBUSY periods, already resolved to (start, end) instants -/
  freebusy : List (Int × Int) := []
  deriving Repr

/-- transformations a collation applies before comparing (`collation.py`) -/
inductive Enc
  | identity
  /-- `.encode("ascii").upper()`: raises UnicodeEncodeError on non-ASCII input -/
  | asciiUpper
  /-- `.encode("utf-8", …).upper()`: bytes.upper() changes only ASCII a–z -/
  | utf8Upper
  deriving DecidableEq, Repr

def Enc.apply : Enc → List Char → Except PyErr (List Char)
  | .identity, s => pure s
  | .asciiUpper, s =>
    if s.all (fun c => c.toNat < 128) then pure (Str.upperAscii s)
    else throw (.raised "UnicodeEncodeError" "ascii")
  | .utf8Upper, s => pure (Str.upperAscii s)

/-! ### normalisation lemmas (used by the tie proofs) -/

theorem pure_eq_ok {α : Type} (x : α) : (pure x : Except PyErr α) = Except.ok x := rfl
theorem ok_bind {α β : Type} (x : α) (f : α → Except PyErr β) : (Except.ok x >>= f) = f x := rfl
theorem error_bind {α β : Type} (e : PyErr) (f : α → Except PyErr β) :
    ((Except.error e : Except PyErr α) >>= f) = Except.error e := rfl
theorem orM_ok (a b : Bool) : orM (.ok a) (.ok b) = .ok (a || b) := by cases a <;> rfl
theorem andM_ok (a b : Bool) : andM (.ok a) (.ok b) = .ok (a && b) := by cases a <;> rfl
theorem notM_ok (a : Bool) : notM (.ok a) = .ok (!a) := rfl
theorem idx_lt (s : List Char) (i : Nat) (h : i < s.length) : idx s i = .ok s[i] := by
  unfold idx; simp [h]; rfl
theorem dt_some (v : TVal) : dt (some v) = .ok v := rfl
theorem dtDur_some (v : Int) : dtDur (some v) = .ok v := rfl

end Xandikos.Py
