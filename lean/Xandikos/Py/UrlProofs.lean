/-
  Machine-checked facts about the `urllib.parse` model in `Xurl/Url.lean`.
  Everything here is fully proved (see Audit.lean for the axiom audit).
-/
import Xandikos.Py.Url

namespace Xandikos.Py.Url

/-! ## Byte level: `unquoteBytes ∘ quoteBytes = id` -/

theorem hexVal_hexUpper_fin : ∀ n : Fin 16, hexVal (hexUpper (UInt8.ofNat n.val)) = some (UInt8.ofNat n.val) := by decide

theorem hexVal_hexUpper (n : UInt8) (h : n < 16) : hexVal (hexUpper n) = some n := by
  have := hexVal_hexUpper_fin ⟨n.toNat, by simpa [UInt8.lt_iff_toNat_lt] using h⟩
  simpa using this

theorem div_mul_add_mod (b : UInt8) : (b / 16) * 16 + b % 16 = b := by
  apply UInt8.toNat_inj.mp
  simp only [UInt8.toNat_add, UInt8.toNat_mul, UInt8.toNat_div, UInt8.toNat_mod]
  have := b.toNat_lt
  simp
  omega

theorem unquoteBytes_cons_ne (c : UInt8) (rest : List UInt8) (h : c ≠ 37) :
    unquoteBytes (c :: rest) = c :: unquoteBytes rest := by
  match rest with
  | [] => simp [unquoteBytes]
  | [a] => simp [unquoteBytes]
  | a :: b :: r => rw [unquoteBytes]; simp [h]

theorem unquoteBytes_escape (h1 h2 x y : UInt8) (rest : List UInt8)
    (hx : hexVal h1 = some x) (hy : hexVal h2 = some y) :
    unquoteBytes (37 :: h1 :: h2 :: rest) = (x * 16 + y) :: unquoteBytes rest := by
  rw [unquoteBytes]; simp [hx, hy]

theorem isUnreserved_ne_pct (b : UInt8) (h : isUnreserved b = true) : b ≠ 37 := by
  intro hb; subst hb; revert h; decide

theorem unquoteBytes_quoteByte (slash : Bool) (b : UInt8) (rest : List UInt8) :
    unquoteBytes (quoteByte slash b ++ rest) = b :: unquoteBytes rest := by
  unfold quoteByte
  split
  · rename_i h
    apply unquoteBytes_cons_ne
    intro hb; subst hb; revert h; cases slash <;> decide
  · have h1 : b / 16 < 16 := by
      simp only [UInt8.lt_iff_toNat_lt, UInt8.toNat_div]; have := b.toNat_lt; simp; omega
    have h2 : b % 16 < 16 := by
      simp only [UInt8.lt_iff_toNat_lt, UInt8.toNat_mod]; simp; omega
    simp only [List.cons_append, List.nil_append]
    rw [unquoteBytes_escape _ _ _ _ _ (hexVal_hexUpper _ h1) (hexVal_hexUpper _ h2), div_mul_add_mod]

theorem unquoteBytes_quoteBytesWith (slash : Bool) (bs : List UInt8) :
    unquoteBytes (quoteBytesWith slash bs) = bs := by
  induction bs with
  | nil => simp [quoteBytesWith, unquoteBytes]
  | cons b bs ih =>
    simp only [quoteBytesWith, List.flatMap_cons] at ih ⊢
    rw [unquoteBytes_quoteByte, ih]

theorem unquoteBytes_quoteBytes (bs : List UInt8) : unquoteBytes (quoteBytes bs) = bs :=
  unquoteBytes_quoteBytesWith true bs

/-! ## UTF-8: the replacing decoder inverts the encoder -/

theorem char_valid_nat (c : Char) : c.toNat < 0xD800 ∨ (0xDFFF < c.toNat ∧ c.toNat < 0x110000) := by
  have := c.valid
  simp [UInt32.isValidChar, Nat.isValidChar] at this
  omega

theorem isCont_iff (b : UInt8) : isCont b = true ↔ 0x80 ≤ b.toNat ∧ b.toNat ≤ 0xBF := by
  simp [isCont, UInt8.le_iff_toNat_le]

theorem second_ok_iff (b0 b1 : UInt8) : second_ok b0 b1 = true ↔
    (if b0.toNat = 0xE0 then 0xA0 ≤ b1.toNat ∧ b1.toNat ≤ 0xBF
     else if b0.toNat = 0xED then 0x80 ≤ b1.toNat ∧ b1.toNat ≤ 0x9F
     else if b0.toNat = 0xF0 then 0x90 ≤ b1.toNat ∧ b1.toNat ≤ 0xBF
     else if b0.toNat = 0xF4 then 0x80 ≤ b1.toNat ∧ b1.toNat ≤ 0x8F
     else 0x80 ≤ b1.toNat ∧ b1.toNat ≤ 0xBF) := by
  simp only [second_ok, ← UInt8.toNat_inj, isCont]
  simp [UInt8.le_iff_toNat_le]

theorem step1 (b0 : UInt8) (rest : List UInt8) (h : b0.toNat < 0x80) :
    decodeStep b0 rest = (Char.ofNat b0.toNat, 0) := by
  unfold decodeStep
  simp [UInt8.lt_iff_toNat_lt, h]

theorem step2 (b0 b1 : UInt8) (rest : List UInt8) (h0 : 0xC2 ≤ b0.toNat ∧ b0.toNat < 0xE0)
    (h1 : isCont b1 = true) :
    decodeStep b0 (b1 :: rest) = (Char.ofNat ((b0.toNat - 0xC0) * 64 + (b1.toNat - 0x80)), 1) := by
  unfold decodeStep
  have a1 : ¬ b0.toNat < 0x80 := by omega
  have a2 : ¬ b0.toNat < 0xC2 := by omega
  simp [UInt8.lt_iff_toNat_lt, h0, h1, a1, a2]


theorem step3 (b0 b1 b2 : UInt8) (rest : List UInt8) (h0 : 0xE0 ≤ b0.toNat ∧ b0.toNat < 0xF0)
    (h1 : second_ok b0 b1 = true) (h2 : isCont b2 = true) :
    decodeStep b0 (b1 :: b2 :: rest) =
      (Char.ofNat ((b0.toNat - 0xE0) * 4096 + (b1.toNat - 0x80) * 64 + (b2.toNat - 0x80)), 2) := by
  unfold decodeStep
  have a1 : ¬ b0.toNat < 0x80 := by omega
  have a2 : ¬ b0.toNat < 0xC2 := by omega
  have a3 : ¬ b0.toNat < 0xE0 := by omega
  simp [UInt8.lt_iff_toNat_lt, h0, h1, h2, a1, a2, a3]

theorem step4 (b0 b1 b2 b3 : UInt8) (rest : List UInt8) (h0 : 0xF0 ≤ b0.toNat ∧ b0.toNat < 0xF5)
    (h1 : second_ok b0 b1 = true) (h2 : isCont b2 = true) (h3 : isCont b3 = true) :
    decodeStep b0 (b1 :: b2 :: b3 :: rest) =
      (Char.ofNat ((b0.toNat - 0xF0) * 262144 + (b1.toNat - 0x80) * 4096 + (b2.toNat - 0x80) * 64
        + (b3.toNat - 0x80)), 3) := by
  unfold decodeStep
  have a1 : ¬ b0.toNat < 0x80 := by omega
  have a2 : ¬ b0.toNat < 0xC2 := by omega
  have a3 : ¬ b0.toNat < 0xE0 := by omega
  have a4 : ¬ b0.toNat < 0xF0 := by omega
  simp [UInt8.lt_iff_toNat_lt, h0, h1, h2, h3, a1, a2, a3, a4]

theorem pair_ofNat_eq {x v n : Nat} {c : Char} (hc : Char.ofNat v = c) (hx : x = v) :
    (Char.ofNat x, n) = (c, n) := by subst hx; rw [hc]

theorem toNat_ofNat256 (v : Nat) : (UInt8.ofNat v).toNat = v % 256 := by simp

theorem decodeStep_encode (c : Char) (rest : List UInt8) :
    ∃ b tl, String.utf8EncodeChar c = b :: tl ∧ decodeStep b (tl ++ rest) = (c, tl.length) := by
  have hv := char_valid_nat c
  have hc : Char.ofNat c.toNat = c := Char.ofNat_toNat c
  have e : c.val.toNat = c.toNat := rfl
  unfold String.utf8EncodeChar
  simp only [e]
  generalize c.toNat = v at *
  split
  · refine ⟨_, _, rfl, ?_⟩
    rw [List.nil_append, step1 _ _ (by rw [toNat_ofNat256]; omega)]
    rw [toNat_ofNat256, show v % 256 = v by omega, hc]; rfl
  · split
    · refine ⟨_, _, rfl, ?_⟩
      rw [List.cons_append, List.nil_append,
        step2 _ _ _ (by rw [toNat_ofNat256]; omega) (by rw [isCont_iff, toNat_ofNat256]; omega)]
      simp only [toNat_ofNat256, List.length_cons, List.length_nil]
      exact pair_ofNat_eq hc (by omega)
    · split
      · refine ⟨_, _, rfl, ?_⟩
        simp only [List.cons_append, List.nil_append]
        rw [step3 _ _ _ _ (by rw [toNat_ofNat256]; omega)
          (by rw [second_ok_iff]; simp only [toNat_ofNat256]; (repeat' split) <;> omega)
          (by rw [isCont_iff, toNat_ofNat256]; omega)]
        simp only [toNat_ofNat256, List.length_cons, List.length_nil]
        exact pair_ofNat_eq hc (by omega)
      · refine ⟨_, _, rfl, ?_⟩
        simp only [List.cons_append, List.nil_append]
        rw [step4 _ _ _ _ _ (by rw [toNat_ofNat256]; omega)
          (by rw [second_ok_iff]; simp only [toNat_ofNat256]; (repeat' split) <;> omega)
          (by rw [isCont_iff, toNat_ofNat256]; omega)
          (by rw [isCont_iff, toNat_ofNat256]; omega)]
        simp only [toNat_ofNat256, List.length_cons, List.length_nil]
        exact pair_ofNat_eq hc (by omega)

theorem utf8DecodeReplace_flatMap (cs : List Char) :
    utf8DecodeReplace (cs.flatMap String.utf8EncodeChar) = cs := by
  induction cs with
  | nil => simp [utf8DecodeReplace]
  | cons c cs ih =>
    obtain ⟨b, tl, he, hs⟩ := decodeStep_encode c (cs.flatMap String.utf8EncodeChar)
    rw [List.flatMap_cons, he, List.cons_append, utf8DecodeReplace]
    simp only [hs, List.drop_left, ih]

theorem strBytes_eq (s : String) : strBytes s = s.toList.flatMap String.utf8EncodeChar := by
  unfold strBytes
  rw [String.toUTF8_eq_toByteArray, ← String.utf8Encode_toList, List.utf8Encode,
    List.toList_data_toByteArray]

/-- decoding the UTF-8 bytes of a string (with replacement) gives the string back -/
theorem utf8DecodeReplace_strBytes (s : String) : utf8DecodeReplace (strBytes s) = s.toList := by
  rw [strBytes_eq, utf8DecodeReplace_flatMap]

/-! ## String level: `unquote ∘ quote = id` -/

theorem toNat_ofNat_fin : ∀ n : Fin 128, (Char.ofNat n.val).toNat = n.val := by decide

theorem byteChar_toNat (b : UInt8) (h : b.toNat < 128) : (byteChar b).toNat = b.toNat :=
  toNat_ofNat_fin ⟨b.toNat, h⟩

/-- the output alphabet of `quote`, as bytes -/
def isQuoteOut (b : UInt8) : Bool := isUnreserved b || b == 47 || b == 37

theorem hexUpper_unreserved_fin : ∀ n : Fin 16, isUnreserved (hexUpper (UInt8.ofNat n.val)) = true := by
  decide

theorem hexUpper_unreserved (n : UInt8) (h : n < 16) : isUnreserved (hexUpper n) = true := by
  have := hexUpper_unreserved_fin ⟨n.toNat, by simpa [UInt8.lt_iff_toNat_lt] using h⟩
  simpa using this

theorem div16_lt (b : UInt8) : b / 16 < 16 := by
  simp only [UInt8.lt_iff_toNat_lt, UInt8.toNat_div]; have := b.toNat_lt; simp; omega

theorem mod16_lt (b : UInt8) : b % 16 < 16 := by
  simp only [UInt8.lt_iff_toNat_lt, UInt8.toNat_mod]; simp; omega

/-- every byte `quoteByte` emits is unreserved, `%`, or (only if `slash`) `/` -/
theorem quoteByte_out (slash : Bool) (b x : UInt8) (hx : x ∈ quoteByte slash b) :
    isUnreserved x = true ∨ x = 37 ∨ (slash = true ∧ x = 47) := by
  unfold quoteByte at hx
  split at hx
  · rename_i h
    simp only [List.mem_singleton] at hx
    subst hx
    simp only [Bool.or_eq_true, Bool.and_eq_true, beq_iff_eq] at h
    rcases h with h | h
    · exact Or.inl h
    · exact Or.inr (Or.inr h)
  · simp only [List.mem_cons, List.not_mem_nil, or_false] at hx
    rcases hx with rfl | rfl | rfl
    · exact Or.inr (Or.inl rfl)
    · exact Or.inl (hexUpper_unreserved _ (div16_lt b))
    · exact Or.inl (hexUpper_unreserved _ (mod16_lt b))

theorem quoteBytesWith_out (slash : Bool) (bs : List UInt8) (x : UInt8)
    (hx : x ∈ quoteBytesWith slash bs) :
    isUnreserved x = true ∨ x = 37 ∨ (slash = true ∧ x = 47) := by
  simp only [quoteBytesWith, List.mem_flatMap] at hx
  obtain ⟨b, _, hb⟩ := hx
  exact quoteByte_out slash b x hb

theorem isUnreserved_lt (x : UInt8) (h : isUnreserved x = true) : x.toNat < 128 := by
  simp only [isUnreserved, Bool.or_eq_true, Bool.and_eq_true, decide_eq_true_eq, beq_iff_eq,
    UInt8.le_iff_toNat_le, ← UInt8.toNat_inj] at h
  simp at h
  omega

theorem quoteBytesWith_ascii (slash : Bool) (bs : List UInt8) :
    ∀ x ∈ quoteBytesWith slash bs, x.toNat < 128 := by
  intro x hx
  rcases quoteBytesWith_out slash bs x hx with h | rfl | ⟨_, rfl⟩
  · exact isUnreserved_lt x h
  · decide
  · decide

theorem unquoteGo_ascii (bs : List UInt8) (h : ∀ x ∈ bs, x.toNat < 128) (acc : List UInt8) :
    unquoteGo (bs.map byteChar) acc = unquoteFlush (bs.reverse ++ acc) := by
  induction bs generalizing acc with
  | nil => simp [unquoteGo]
  | cons b bs ih =>
    have hb := h b (List.mem_cons_self ..)
    simp only [List.map_cons, unquoteGo, byteChar_toNat b hb, hb, if_true, Nat.toUInt8_eq,
      UInt8.ofNat_toNat]
    rw [ih (fun x hx => h x (List.mem_cons_of_mem _ hx))]
    simp

theorem unquoteChars_ascii (bs : List UInt8) (h : ∀ x ∈ bs, x.toNat < 128) :
    unquoteChars (bs.map byteChar) = utf8DecodeReplace (unquoteBytes bs) := by
  rw [unquoteChars, unquoteGo_ascii bs h]
  simp [unquoteFlush]

theorem unquote_quoteWith (slash : Bool) (s : String) : unquote (quoteWith slash s) = s := by
  unfold unquote quoteWith
  rw [String.toList_ofList, unquoteChars_ascii _ (quoteBytesWith_ascii _ _),
    unquoteBytes_quoteBytesWith, utf8DecodeReplace_strBytes, String.ofList_toList]

/-- `urllib.parse.unquote(urllib.parse.quote(s)) == s` -/
theorem unquote_quote (s : String) : unquote (quote s) = s := unquote_quoteWith true s

theorem unquote_quoteSegment (s : String) : unquote (quoteSegment s) = s := unquote_quoteWith false s

/-! ## The alphabet of `quote` -/

/-- the output alphabet of `quote`: ASCII letters, digits, `_.-~`, `/` and `%` -/
def isQuoteChar (c : Char) : Bool :=
  isAsciiAlpha c || (48 ≤ c.toNat && c.toNat ≤ 57) ||
  c.toNat == 95 || c.toNat == 46 || c.toNat == 45 || c.toNat == 126 || c.toNat == 47 || c.toNat == 37

/-- the output alphabet of `quote(·, safe='')`: as `isQuoteChar` but without `/` -/
def isSegChar (c : Char) : Bool := isQuoteChar c && c.toNat != 47

theorem isQuoteChar_fin : ∀ n : Fin 128,
    (isUnreserved (UInt8.ofNat n.val) = true ∨ UInt8.ofNat n.val = 37 ∨ UInt8.ofNat n.val = 47) →
    isQuoteChar (Char.ofNat n.val) = true := by decide

theorem isSegChar_fin : ∀ n : Fin 128,
    (isUnreserved (UInt8.ofNat n.val) = true ∨ UInt8.ofNat n.val = 37) →
    isSegChar (Char.ofNat n.val) = true := by decide

theorem isQuoteChar_byteChar (x : UInt8)
    (h : isUnreserved x = true ∨ x = 37 ∨ x = 47) : isQuoteChar (byteChar x) = true := by
  have hlt : x.toNat < 128 := by
    rcases h with h | rfl | rfl
    · exact isUnreserved_lt x h
    · decide
    · decide
  have := isQuoteChar_fin ⟨x.toNat, hlt⟩
  simp only [UInt8.ofNat_toNat] at this
  exact this h

theorem isSegChar_byteChar (x : UInt8)
    (h : isUnreserved x = true ∨ x = 37) : isSegChar (byteChar x) = true := by
  have hlt : x.toNat < 128 := by
    rcases h with h | rfl
    · exact isUnreserved_lt x h
    · decide
  have := isSegChar_fin ⟨x.toNat, hlt⟩
  simp only [UInt8.ofNat_toNat] at this
  exact this h

theorem toList_quoteWith (slash : Bool) (s : String) :
    (quoteWith slash s).toList = (quoteBytesWith slash (strBytes s)).map byteChar := by
  rw [quoteWith, String.toList_ofList]

theorem quoteWith_chars (slash : Bool) (s : String) :
    ∀ c ∈ (quoteWith slash s).toList, isQuoteChar c = true := by
  intro c hc
  rw [toList_quoteWith, List.mem_map] at hc
  obtain ⟨x, hx, rfl⟩ := hc
  refine isQuoteChar_byteChar x ?_
  rcases quoteBytesWith_out slash _ x hx with h | h | ⟨_, h⟩
  · exact Or.inl h
  · exact Or.inr (Or.inl h)
  · exact Or.inr (Or.inr h)

theorem quoteSegment_chars (s : String) : ∀ c ∈ (quoteSegment s).toList, isSegChar c = true := by
  intro c hc
  rw [quoteSegment, toList_quoteWith, List.mem_map] at hc
  obtain ⟨x, hx, rfl⟩ := hc
  refine isSegChar_byteChar x ?_
  rcases quoteBytesWith_out false _ x hx with h | h | ⟨h, _⟩
  · exact Or.inl h
  · exact Or.inr h
  · cases h

/-- Every character of `quote s` is an ASCII letter, a digit, or one of `_.-~/%`. -/
theorem quote_safe_chars (s : String) : ∀ c ∈ (quote s).toList, isQuoteChar c = true :=
  quoteWith_chars true s

theorem char_eq_of_toNat {c : Char} {n : Nat} (h : c.toNat = n) : c = Char.ofNat n := by
  rw [← h, Char.ofNat_toNat]

/-- `isQuoteChar` spelled out -/
theorem isQuoteChar_iff (c : Char) : isQuoteChar c = true ↔
    (('A' ≤ c ∧ c ≤ 'Z') ∨ ('a' ≤ c ∧ c ≤ 'z') ∨ ('0' ≤ c ∧ c ≤ '9') ∨
      c = '_' ∨ c = '.' ∨ c = '-' ∨ c = '~' ∨ c = '/' ∨ c = '%') := by
  simp only [isQuoteChar, isAsciiAlpha, Bool.or_eq_true, Bool.and_eq_true, decide_eq_true_eq,
    beq_iff_eq, Char.le_def, UInt32.le_iff_toNat_le, Char.toNat_val, ← Char.toNat_inj]
  simp only [Char.reduceToNat]
  omega

/-! ## Quoted strings vs `urlsplit` -/

theorem isQuoteChar_toNat {c : Char} (h : isQuoteChar c = true) :
    32 < c.toNat ∧ c.toNat ≠ 63 ∧ c.toNat ≠ 35 ∧ c.toNat ≠ 58 ∧ c.toNat ≠ 59 := by
  simp only [isQuoteChar, isAsciiAlpha, Bool.or_eq_true, Bool.and_eq_true, decide_eq_true_eq,
    beq_iff_eq] at h
  omega

theorem isQuoteChar_ne {c : Char} (h : isQuoteChar c = true) :
    c ≠ '?' ∧ c ≠ '#' ∧ c ≠ ' ' ∧ c ≠ ':' ∧ c ≠ ';' ∧ c ≠ '\t' ∧ c ≠ '\r' ∧ c ≠ '\n' := by
  have := isQuoteChar_toNat h
  simp only [ne_eq, ← Char.toNat_inj, Char.reduceToNat]
  omega

/-- `quote` never emits `?`, `#` or a space. -/
theorem quote_no_special (s : String) :
    '?' ∉ (quote s).toList ∧ '#' ∉ (quote s).toList ∧ ' ' ∉ (quote s).toList := by
  refine ⟨fun h => ?_, fun h => ?_, fun h => ?_⟩
  · exact (isQuoteChar_ne (quote_safe_chars s _ h)).1 rfl
  · exact (isQuoteChar_ne (quote_safe_chars s _ h)).2.1 rfl
  · exact (isQuoteChar_ne (quote_safe_chars s _ h)).2.2.1 rfl

/-- `':'` is always escaped. -/
theorem quote_no_colon (s : String) : ':' ∉ (quote s).toList :=
  fun h => (isQuoteChar_ne (quote_safe_chars s _ h)).2.2.2.1 rfl

theorem cleanUrl_of_quoteChars (cs : List Char) (h : ∀ c ∈ cs, isQuoteChar c = true) :
    cleanUrl cs = cs := by
  unfold cleanUrl
  have h1 : cs.dropWhile (fun c => decide (c.toNat ≤ 32)) = cs := by
    cases cs with
    | nil => rfl
    | cons c cs =>
      have := (isQuoteChar_toNat (h c (List.mem_cons_self ..))).1
      rw [List.dropWhile_cons_of_neg]
      simp; omega
  rw [h1, List.filter_eq_self]
  intro c hc
  have := isQuoteChar_ne (h c hc)
  simp [this]

theorem schemePrefix_of_no_colon (cs : List Char) (h : ':' ∉ cs) : schemePrefix cs = none := by
  simp [schemePrefix, h]

theorem hasSchemeChars_of_quoteChars (cs : List Char) (h : ∀ c ∈ cs, isQuoteChar c = true) :
    hasSchemeChars cs = false := by
  rw [hasSchemeChars, cleanUrl_of_quoteChars cs h, schemePrefix_of_no_colon]
  · rfl
  · exact fun hc => (isQuoteChar_ne (h _ hc)).2.2.2.1 rfl

/-- A quoted string is never mistaken by `urlsplit` for having a scheme. -/
theorem has_scheme_quote (s : String) : has_scheme (quote s) = false :=
  hasSchemeChars_of_quoteChars _ (quote_safe_chars s)

theorem has_scheme_quoteSegment (s : String) : has_scheme (quoteSegment s) = false :=
  hasSchemeChars_of_quoteChars _ (quoteWith_chars false s)

theorem takeWhile_eq_self {α} (p : α → Bool) (l : List α) (h : ∀ a ∈ l, p a = true) :
    l.takeWhile p = l := by
  induction l with
  | nil => rfl
  | cons a l ih =>
    rw [List.takeWhile_cons_of_pos (h a (List.mem_cons_self ..)),
      ih (fun x hx => h x (List.mem_cons_of_mem _ hx))]

/-- the text starts with `//` (what `urlsplit` reads as the start of an authority) -/
def startsDoubleSlash : List Char → Bool
  | '/' :: '/' :: _ => true
  | _ => false

theorem dropNetloc_of_not_double (cs : List Char) (h : startsDoubleSlash cs = false) : dropNetloc cs = cs := by
  unfold dropNetloc
  split
  · simp [startsDoubleSlash] at h
  · rfl

theorem urlsplitPathChars_of_quoteChars (cs : List Char) (h : ∀ c ∈ cs, isQuoteChar c = true)
    (h2 : startsDoubleSlash cs = false) :
    urlsplitPathChars cs = cs := by
  unfold urlsplitPathChars
  simp only [cleanUrl_of_quoteChars cs h]
  rw [schemePrefix_of_no_colon _ (fun hc => (isQuoteChar_ne (h _ hc)).2.2.2.1 rfl)]
  simp only [cutQueryFragment, dropNetloc_of_not_double cs h2]
  apply takeWhile_eq_self
  intro c hc
  have := isQuoteChar_ne (h c hc)
  simp [this]

/-! ## `urljoin` of a clean collection path and a quoted name -/

/-! split / join -/

theorem splitOn_ne_nil (sep : Char) (cs : List Char) : splitOn sep cs ≠ [] := by
  induction cs with
  | nil => simp [splitOn]
  | cons c cs ih =>
    unfold splitOn
    split
    · simp
    · split <;> simp

theorem splitOn_of_not_mem (sep : Char) (cs : List Char) (h : sep ∉ cs) : splitOn sep cs = [cs] := by
  induction cs with
  | nil => rfl
  | cons c cs ih =>
    have hc : c ≠ sep := fun e => h (e ▸ List.mem_cons_self ..)
    have ih := ih (fun hm => h (List.mem_cons_of_mem _ hm))
    simp [splitOn, hc, ih]

theorem joinWith_cons_cons (sep : Char) (p q : List Char) (ps : List (List Char)) :
    joinWith sep (p :: q :: ps) = p ++ sep :: joinWith sep (q :: ps) := rfl

theorem joinWith_splitOn (sep : Char) (cs : List Char) : joinWith sep (splitOn sep cs) = cs := by
  induction cs with
  | nil => rfl
  | cons c cs ih =>
    unfold splitOn
    split
    · rename_i h
      subst h
      cases hs : splitOn c cs with
      | nil => exact absurd hs (splitOn_ne_nil _ _)
      | cons q qs => rw [joinWith_cons_cons, ← hs, ih]; rfl
    · cases hs : splitOn sep cs with
      | nil => exact absurd hs (splitOn_ne_nil _ _)
      | cons q qs =>
        rw [hs] at ih
        cases qs with
        | nil => simp only [joinWith] at ih ⊢; rw [ih]
        | cons r rs => simp only [joinWith_cons_cons] at ih ⊢; rw [← ih]; rfl

theorem joinWith_concat (sep : Char) (l : List (List Char)) (x : List Char) (hl : l ≠ []) :
    joinWith sep (l ++ [x]) = joinWith sep l ++ sep :: x := by
  induction l with
  | nil => exact absurd rfl hl
  | cons p ps ih =>
    cases ps with
    | nil => rfl
    | cons q qs =>
      rw [List.cons_append, List.cons_append, joinWith_cons_cons, joinWith_cons_cons,
        ← List.cons_append, ih (by simp)]
      simp


/-! dot segments -/

/-- neither `.` nor `..` -/
def notDot (seg : List Char) : Bool := decide (seg ≠ dot) && decide (seg ≠ dotdot)

/-- a proper directory name: non-empty and neither `.` nor `..` -/
def okSeg (seg : List Char) : Bool := decide (seg ≠ []) && notDot seg

/-- `cs` is an absolute directory path `/s₁/…/sₙ/` (n ≥ 0) all of whose segments are proper names:
it starts and ends with `/`, has no empty segment (`//`) and no `.` / `..` segment. -/
def isCleanDir (cs : List Char) : Bool :=
  match splitOn '/' cs with
  | [] :: rest => decide (rest ≠ []) && rest.getLast? == some [] && rest.dropLast.all okSeg
  | _ => false

theorem foldl_resolveStep_notDot (segs st : List (List Char)) (h : ∀ s ∈ segs, notDot s = true) :
    segs.foldl resolveStep st = segs.reverse ++ st := by
  induction segs generalizing st with
  | nil => rfl
  | cons s segs ih =>
    have hs := h s (List.mem_cons_self ..)
    simp only [notDot, Bool.and_eq_true, decide_eq_true_eq] at hs
    rw [List.foldl_cons, ih _ (fun x hx => h x (List.mem_cons_of_mem _ hx))]
    simp [resolveStep, hs.1, hs.2]

theorem removeDotSegments_notDot (segs : List (List Char))
    (h : ∀ s ∈ segs, notDot s = true) (hne : joinWith '/' segs ≠ []) :
    removeDotSegments segs = joinWith '/' segs := by
  have hlast : notDot (segs.getLast?.getD []) = true := by
    cases hl : segs.getLast? with
    | none => decide
    | some l => exact h l (List.mem_of_getLast? hl)
  simp only [notDot, Bool.and_eq_true, decide_eq_true_eq] at hlast
  unfold removeDotSegments
  simp only [foldl_resolveStep_notDot _ _ h, List.append_nil, List.reverse_reverse, hlast.1,
    hlast.2, decide_false, Bool.or_false, Bool.false_eq_true, if_false, List.isEmpty_iff, hne]

theorem filterMiddle_concat (h : List Char) (mid : List (List Char)) (x : List Char) :
    filterMiddle (h :: (mid ++ [x])) = h :: mid.filter (· ≠ []) ++ [x] := by
  cases hm : mid ++ [x] with
  | nil => simp at hm
  | cons a t =>
    rw [filterMiddle, ← hm]
    · simp
    · intro h'; cases h'

theorem isSegChar_isQuoteChar {c : Char} (h : isSegChar c = true) : isQuoteChar c = true := by
  simp only [isSegChar, Bool.and_eq_true] at h; exact h.1

theorem isSegChar_ne_slash {c : Char} (h : isSegChar c = true) : c ≠ '/' := by
  simp only [isSegChar, Bool.and_eq_true, bne_iff_ne, ne_eq] at h
  intro e; subst e; exact h.2 rfl

theorem isCleanDir_split {B : List Char} (hB : isCleanDir B = true) :
    ∃ mid : List (List Char), splitOn '/' B = [] :: (mid ++ [[]]) ∧ ∀ s ∈ mid, okSeg s = true := by
  unfold isCleanDir at hB
  split at hB
  · rename_i rest hs
    simp only [Bool.and_eq_true, decide_eq_true_eq, beq_iff_eq, List.all_eq_true] at hB
    obtain ⟨⟨_, hlast⟩, hall⟩ := hB
    obtain ⟨ys, rfl⟩ := List.getLast?_eq_some_iff.mp hlast
    rw [List.dropLast_concat] at hall
    exact ⟨ys, hs, hall⟩
  · cases hB

/-- List-level core of `urljoin_quote_segment`. -/
theorem urljoinChars_clean (B R : List Char) (hB : isCleanDir B = true)
    (hR : ∀ c ∈ R, isSegChar c = true) (hdot : R ≠ dot ∧ R ≠ dotdot) :
    urljoinChars B R = B ++ R := by
  obtain ⟨mid, hsplit, hmid⟩ := isCleanDir_split hB
  have hBne : B ≠ [] := by
    intro e; subst e
    simp [splitOn] at hsplit
  have hBjoin : B = joinWith '/' (([] :: mid) ++ [[]]) := by
    rw [List.cons_append, ← hsplit, joinWith_splitOn]
  cases hRe : R with
  | nil => simp [urljoinChars, hBne]
  | cons r rs =>
    rw [← hRe]
    have hRne : R ≠ [] := by rw [hRe]; simp
    have hq : ∀ c ∈ R, isQuoteChar c = true := fun c hc => isSegChar_isQuoteChar (hR c hc)
    have hslash : '/' ∉ R := fun hc => isSegChar_ne_slash (hR _ hc) rfl
    have hsemi : ';' ∉ R := fun hc => (isQuoteChar_ne (hq _ hc)).2.2.2.2.1 rfl
    have hcolon : ':' ∉ R := fun hc => (isQuoteChar_ne (hq _ hc)).2.2.2.1 rfl
    have hhead : R.head? ≠ some '/' := by
      intro e; exact hslash (List.mem_of_mem_head? e)
    have hparams : splitParams R = (R, []) := by simp [splitParams, hsemi]
    have hsegs : ∀ s ∈ ([] :: mid) ++ [R], notDot s = true := by
      intro s hs
      simp only [List.mem_cons, List.mem_append, List.not_mem_nil, or_false] at hs
      rcases hs with (rfl | hs) | rfl
      · decide
      · have := hmid s hs
        simp only [okSeg, Bool.and_eq_true] at this
        exact this.2
      · simp [notDot, hdot.1, hdot.2]
    have hRemp : R.isEmpty = false := by simp [hRne]
    have hgl : ([] :: (mid ++ [[]])).getLast? = some [] := by
      rw [← List.cons_append, List.getLast?_concat]
    have hfilter : (mid ++ [[]]).filter (· ≠ []) = mid := by
      rw [List.filter_append, List.filter_eq_self.mpr]
      · simp
      · intro s hs
        have := hmid s hs
        simp only [okSeg, Bool.and_eq_true, decide_eq_true_eq] at this
        simp [this.1]
    have hP : joinWith '/' (([] :: mid) ++ [R]) = joinWith '/' ([] :: mid) ++ '/' :: R :=
      joinWith_concat _ _ _ (by simp)
    have hB' : B = joinWith '/' ([] :: mid) ++ ['/'] := by
      rw [hBjoin]; exact joinWith_concat _ _ _ (by simp)
    unfold urljoinChars
    simp only [cleanUrl_of_quoteChars R hq, schemePrefix_of_no_colon R hcolon, hparams,
      splitOn_of_not_mem '/' R hslash, hsplit]
    simp only [List.isEmpty_iff, hBne, if_false, Option.isSome_none, Bool.false_eq_true,
      hhead, List.isEmpty_nil, if_true, hRemp, Bool.false_and, hgl, Option.getD_some, ne_eq,
      not_true_eq_false]
    rw [List.cons_append, filterMiddle_concat, hfilter, removeDotSegments_notDot _ hsegs]
    · rw [hP, hB']; simp
    · rw [hP]; simp

theorem unquoteChars_dot : unquoteChars dot = dot := by
  simp [unquoteChars, unquoteGo, unquoteFlush, unquoteBytes, utf8DecodeReplace, decodeStep, dot]

theorem unquoteChars_dotdot : unquoteChars dotdot = dotdot := by
  simp [unquoteChars, unquoteGo, unquoteFlush, unquoteBytes, utf8DecodeReplace, decodeStep, dotdot]

theorem quoteSegment_toList_ne_dots (n : String) (hn : n ≠ "." ∧ n ≠ "..") :
    (quoteSegment n).toList ≠ dot ∧ (quoteSegment n).toList ≠ dotdot := by
  constructor
  · intro h
    apply hn.1
    have := unquote_quoteSegment n
    rw [unquote, h, unquoteChars_dot] at this
    rw [← this]; rfl
  · intro h
    apply hn.2
    have := unquote_quoteSegment n
    rw [unquote, h, unquoteChars_dotdot] at this
    rw [← this]; rfl

/-- Joining a clean collection href with a quoted member name just appends it:
`urljoin(base, quote(n, safe='')) == base + quote(n, safe='')`, provided `n` is not `.` or `..`. -/
theorem urljoin_quote_segment (base n : String) (hbase : isCleanDir base.toList = true)
    (hn : n ≠ "." ∧ n ≠ "..") :
    urljoin_simple base (quoteSegment n) = base ++ quoteSegment n := by
  rw [urljoin_simple, urljoinChars_clean _ _ hbase (quoteSegment_chars n)
    (quoteSegment_toList_ne_dots n hn), String.ofList_append, String.ofList_toList,
    String.ofList_toList]

-- non-vacuity
example : isCleanDir "/a/b/".toList = true := by decide
example : isCleanDir "/".toList = true := by decide
example : isCleanDir "/a//b/".toList = false := by decide
example : isCleanDir "/a/../b/".toList = false := by decide
example : isCleanDir "/a/b".toList = false := by decide
-- The hypothesis `n ≠ "." ∧ n ≠ ".."` of `urljoin_quote_segment` is needed: quoting does not
-- protect dot segments (`.` is unreserved), and `urljoin` resolves them.
example : quoteSegment ".." = ".." := by decide
example : urljoin_simple "/a/" (quoteSegment "..") = "/" := by decide
example : urljoin_simple "/a/" (quoteSegment "..") ≠ "/a/" ++ quoteSegment ".." := by decide
example : urljoin_simple "/a/" (quoteSegment ".") = "/a/" := by decide
example : urljoin_simple "/a/" (quoteSegment ".") ≠ "/a/" ++ quoteSegment "." := by decide
-- ... and so is the cleanliness of the base (CPython collapses `//`, resolves `..`):
example : urljoin_simple "/a//b/" (quoteSegment "x") = "/a/b/x" := by decide
example : urljoin_simple "/a/../b/" (quoteSegment "x") = "/b/x" := by decide
-- instances of the theorem
example : urljoin_simple "/a/b/" (quoteSegment "x y/z:1.ics") = "/a/b/x%20y%2Fz%3A1.ics" := by decide
example : urljoin_simple "/" (quoteSegment "...") = "/..." := by decide

/-- A reference that `urlsplit` sees a scheme in is returned unchanged by `urljoin` (whatever the
path-only base). -/
theorem urljoin_has_scheme (base ref : String) (h : has_scheme ref = true) :
    urljoin_simple base ref = ref := by
  have hne : ref.toList ≠ [] := by
    intro e
    rw [has_scheme, e] at h
    revert h; decide
  rw [has_scheme, hasSchemeChars] at h
  rw [urljoin_simple, urljoinChars]
  split
  · exact String.ofList_toList
  · simp only [List.isEmpty_iff, hne, if_false, h, if_true]
    exact String.ofList_toList

-- why member names must be quoted before joining: an unquoted `a:b.vcf` is taken for a URL with
-- scheme `a` and is not joined at all; the quoted form is.
example : has_scheme "a:b.vcf" = true := by decide
example : urljoin_simple "/c/" "a:b.vcf" = "a:b.vcf" := by decide
example : urljoin_simple "/c/" (quote "a:b.vcf") = "/c/a%3Ab.vcf" := by decide
example : has_scheme "1:b" = false := by decide

theorem slash_of_mem_utf8EncodeChar (c : Char) (h : 47 ∈ String.utf8EncodeChar c) : c = '/' := by
  have e : c.val.toNat = c.toNat := rfl
  unfold String.utf8EncodeChar at h
  simp only [e] at h
  have hc := Char.ofNat_toNat c
  generalize c.toNat = v at *
  have key : ∀ n : Nat, (47 : UInt8) = UInt8.ofNat n → n % 256 = 47 := by
    intro n hn
    have := congrArg UInt8.toNat hn
    rw [toNat_ofNat256] at this
    exact this.symm
  split at h
  · simp only [List.mem_singleton] at h
    have := key _ h
    have hv : v = 47 := by omega
    subst hv
    exact hc.symm
  · exfalso
    split at h
    · simp only [List.mem_cons, List.not_mem_nil, or_false] at h
      rcases h with h | h <;> (have := key _ h; omega)
    · split at h
      · simp only [List.mem_cons, List.not_mem_nil, or_false] at h
        rcases h with h | h | h <;> (have := key _ h; omega)
      · simp only [List.mem_cons, List.not_mem_nil, or_false] at h
        rcases h with h | h | h | h <;> (have := key _ h; omega)

theorem strBytes_no_slash (n : String) (h : '/' ∉ n.toList) : ∀ b ∈ strBytes n, b ≠ 47 := by
  intro b hb e
  subst e
  rw [strBytes_eq, List.mem_flatMap] at hb
  obtain ⟨c, hc, hm⟩ := hb
  exact h (slash_of_mem_utf8EncodeChar c hm ▸ hc)

theorem quoteByte_slash_irrelevant (b : UInt8) (h : b ≠ 47) : quoteByte true b = quoteByte false b := by
  simp [quoteByte, h]

theorem flatMap_congr' {α β} {f g : α → List β} (l : List α) (h : ∀ a ∈ l, f a = g a) :
    l.flatMap f = l.flatMap g := by
  induction l with
  | nil => rfl
  | cons a l ih =>
    rw [List.flatMap_cons, List.flatMap_cons, h a (List.mem_cons_self ..),
      ih (fun x hx => h x (List.mem_cons_of_mem _ hx))]

/-- For names without `/`, `quote` and `quote(·, safe='')` coincide. -/
theorem quote_eq_quoteSegment (n : String) (h : '/' ∉ n.toList) : quote n = quoteSegment n := by
  have : quoteBytesWith true (strBytes n) = quoteBytesWith false (strBytes n) :=
    flatMap_congr' _ (fun b hb => quoteByte_slash_irrelevant b (strBytes_no_slash n h b hb))
  unfold quote quoteSegment quoteWith
  rw [this]

/-- The same with plain `quote`, for names without `/`. -/
theorem urljoin_quote_name (base n : String) (hbase : isCleanDir base.toList = true)
    (hslash : '/' ∉ n.toList) (hn : n ≠ "." ∧ n ≠ "..") :
    urljoin_simple base (quote n) = base ++ quote n := by
  rw [quote_eq_quoteSegment n hslash]
  exact urljoin_quote_segment base n hbase hn

-- `/` in the name is the exception for plain `quote` (it is kept and starts a new segment):
example : urljoin_simple "/c/" (quote "x/../y") = "/c/y" := by decide
example : urljoin_simple "/c/" (quoteSegment "x/../y") = "/c/x%2F..%2Fy" := by decide


/-! ## Concrete values (sanity / non-vacuity) -/

example : quote "a b/é:?#" = "a%20b/%C3%A9%3A%3F%23" := by decide
example : quoteSegment "a b/é" = "a%20b%2F%C3%A9" := by decide
example : quote "AZaz09_.-~/" = "AZaz09_.-~/" := by decide
example : urlsplit_path "/a/b?x#y" = "/a/b" := by decide
example : urlsplit_path "/a/b#y?x" = "/a/b" := by decide
example : urlsplit_path " \ta:b/c?x" = "b/c" := by decide
example : has_scheme "a+.-1:80" = true := by decide
example : has_scheme "é:b" = false := by decide
example : has_scheme "/a:b" = false := by decide
example : unquoteBytes [37, 52, 49, 37, 122, 122, 37] = [65, 37, 122, 122, 37] := by
  simp [unquoteBytes, hexVal]

/-! `quote` keeps a leading `//` and creates none -/

theorem byteChar_slash_fin : ∀ n : Fin 256, Char.ofNat n.val = '/' → n.val = 47 := by decide +kernel

theorem byteChar_eq_slash (b : UInt8) (h : byteChar b = '/') : b = 47 := by
  have := byteChar_slash_fin ⟨b.toNat, UInt8.toNat_lt b⟩ h
  exact UInt8.toNat_inj.mp (by simpa using this)

theorem utf8EncodeChar_ne_nil (c : Char) : String.utf8EncodeChar c ≠ [] := by
  unfold String.utf8EncodeChar
  dsimp only
  split
  · simp
  · split
    · simp
    · split <;> simp

/-- the quoted form of one character -/
def quoteChar1 (c : Char) : List Char := ((String.utf8EncodeChar c).flatMap (quoteByte true)).map byteChar

theorem quoteChar1_slash : quoteChar1 '/' = ['/'] := by decide

theorem quoteChar1_head (c : Char) : ∃ x rest, quoteChar1 c = x :: rest ∧ (x = '/' → c = '/') := by
  unfold quoteChar1
  cases hb : String.utf8EncodeChar c with
  | nil => exact absurd hb (utf8EncodeChar_ne_nil c)
  | cons b0 bs =>
    simp only [List.flatMap_cons, List.map_append]
    unfold quoteByte
    split
    · refine ⟨byteChar b0, _, rfl, ?_⟩
      intro hx
      have := byteChar_eq_slash b0 hx
      subst this
      exact slash_of_mem_utf8EncodeChar c (by rw [hb]; simp)
    · refine ⟨byteChar 37, _, rfl, ?_⟩
      intro hx
      exact absurd hx (by decide)

theorem toList_quote_eq (s : String) : (quote s).toList = s.toList.flatMap quoteChar1 := by
  rw [quote, toList_quoteWith, strBytes_eq, quoteBytesWith]
  induction s.toList with
  | nil => rfl
  | cons c cs ih =>
    simp only [List.flatMap_cons, List.flatMap_append, List.map_append, ih, quoteChar1]

theorem startsDoubleSlash_quote (s : String) (h : startsDoubleSlash s.toList = false) :
    startsDoubleSlash (quote s).toList = false := by
  rw [toList_quote_eq]
  cases hs : s.toList with
  | nil => rfl
  | cons c1 r1 =>
    rw [hs] at h
    obtain ⟨x, rest, e1, hx⟩ := quoteChar1_head c1
    simp only [List.flatMap_cons, e1, List.cons_append]
    by_cases hx1 : x = '/'
    · have hc1 := hx hx1
      subst hc1
      rw [quoteChar1_slash] at e1
      cases e1
      cases r1 with
      | nil => rfl
      | cons c2 r2 =>
        obtain ⟨y, rest2, e2, hy⟩ := quoteChar1_head c2
        simp only [List.flatMap_cons, e2, List.nil_append, List.cons_append]
        by_cases hy1 : y = '/'
        · have := hy hy1
          subst this
          simp [startsDoubleSlash] at h
        · unfold startsDoubleSlash
          split
          · rename_i heq
            simp only [List.cons.injEq] at heq
            exact absurd heq.2.1 hy1
          · rfl
    · unfold startsDoubleSlash
      split
      · rename_i heq
        simp only [List.cons.injEq] at heq
        exact absurd heq.1 hx1
      · rfl

/-- `urlsplit(quote(s)).path == quote(s)` unless `s` starts with `//` (then the first segment is
    read as an authority): nothing of a quoted path is cut off as query/fragment. -/
theorem urlsplit_path_quote (s : String) (h : startsDoubleSlash s.toList = false) :
    urlsplit_path (quote s) = quote s := by
  rw [urlsplit_path, urlsplitPathChars_of_quoteChars _ (quote_safe_chars s) (startsDoubleSlash_quote s h),
    String.ofList_toList]

/-- and if `s` does start with `//`, the path is *not* the whole text: the href addresses
    another authority -/
example : urlsplit_path (quote "//user/calendars/") = "/calendars/" := by decide


end Xandikos.Py.Url
