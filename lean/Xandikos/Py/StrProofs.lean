import Xandikos.Py.Str

namespace Xandikos.Py.Str

theorem splitOn_ne_nil (sep : Char) (s : List Char) : splitOn sep s ≠ [] := by
  cases s with
  | nil => simp [splitOn]
  | cons c cs =>
    simp only [splitOn]
    split
    · simp
    · cases h : splitOn sep cs <;> simp [consHead]

theorem consHead_append (c : Char) {l : List (List Char)} (h : l ≠ []) (r : List (List Char)) :
    consHead c (l ++ r) = consHead c l ++ r := by
  cases l with
  | nil => exact absurd rfl h
  | cons x xs => simp [consHead]

/-- `(a + sep + b).split(sep) = a.split(sep) + b.split(sep)` -/
theorem splitOn_append_sep (sep : Char) (a b : List Char) :
    splitOn sep (a ++ sep :: b) = splitOn sep a ++ splitOn sep b := by
  induction a with
  | nil => simp [splitOn]
  | cons c cs ih =>
    simp only [List.cons_append, splitOn]
    split
    · simp [ih]
    · rw [ih, consHead_append c (splitOn_ne_nil sep cs)]

theorem splitOn_noSep {sep : Char} {a : List Char} (h : sep ∉ a) : splitOn sep a = [a] := by
  induction a with
  | nil => simp [splitOn]
  | cons c cs ih =>
    have hc : c ≠ sep := fun e => h (by simp [e])
    have hcs : sep ∉ cs := fun e => h (by simp [e])
    simp [splitOn, hc, ih hcs, consHead]

theorem joinWith_cons (sep : Char) (x : List Char) {l : List (List Char)} (h : l ≠ []) :
    joinWith sep (x :: l) = x ++ sep :: joinWith sep l := by
  cases l with
  | nil => exact absurd rfl h
  | cons y ys => rfl

/-- splitting a join of separator-free parts gives the parts back -/
theorem splitOn_joinWith (sep : Char) {parts : List (List Char)} (hne : parts ≠ [])
    (hns : ∀ c ∈ parts, sep ∉ c) : splitOn sep (joinWith sep parts) = parts := by
  induction parts with
  | nil => exact absurd rfl hne
  | cons x l ih =>
    cases l with
    | nil => simpa [joinWith] using splitOn_noSep (hns x (by simp))
    | cons y ys =>
      rw [joinWith_cons sep x (by simp), splitOn_append_sep,
        splitOn_noSep (hns x (by simp)), ih (by simp) (fun c hc => hns c (by simp [hc]))]
      rfl

theorem lstrip_replicate_append (c : Char) (n : Nat) (s : List Char) (h : s.head? ≠ some c) :
    lstrip c (List.replicate n c ++ s) = s := by
  induction n with
  | zero =>
    cases s with
    | nil => rfl
    | cons x xs =>
      have : x ≠ c := fun e => h (by simp [e])
      simp [lstrip, this]
  | succ n ih => simp [List.replicate_succ, lstrip, ih]

/-- stripping padding around a string that neither starts nor ends with the pad character -/
theorem strip_padded (c : Char) (n m : Nat) (s : List Char) (hne : s ≠ []) (h1 : s.head? ≠ some c)
    (h2 : s.getLast? ≠ some c) :
    strip c (List.replicate n c ++ s ++ List.replicate m c) = s := by
  unfold strip rstrip
  rw [List.append_assoc, lstrip_replicate_append c n _ ?_]
  · rw [List.reverse_append, List.reverse_replicate, lstrip_replicate_append c m _ ?_]
    · simp
    · rw [List.head?_reverse]; exact h2
  · cases s with
    | nil => exact absurd rfl hne
    | cons x xs => simpa using h1

end Xandikos.Py.Str
