/-
  Round-trip theorems for the configparser model of `Xini/Ini.lean`.
  Lean core only; nothing is assumed beyond the three standard axioms (see Audit.lean).
-/
import Xandikos.Py.Ini

namespace Xandikos.Py.Ini

/-! ## 1. strip lemmas -/

theorem pyRstrip_length_le (s : Str) : (pyRstrip s).length ≤ s.length := by
  induction s with
  | nil => simp [pyRstrip]
  | cons c cs ih =>
    unfold pyRstrip
    split
    · split <;> simp
    · simp; omega

theorem pyRstrip_append_of_ne_nil (a b : Str) (h : pyRstrip b ≠ []) :
    pyRstrip (a ++ b) = a ++ pyRstrip b := by
  induction a with
  | nil => rfl
  | cons c cs ih =>
    have h2 : cs ++ pyRstrip b ≠ [] := by simp [h]
    simp only [List.cons_append]
    rw [pyRstrip, ih]
    split
    · rename_i heq; exact absurd heq h2
    · rfl

theorem pyRstrip_append_of_nil (a b : Str) (h : pyRstrip b = []) :
    pyRstrip (a ++ b) = pyRstrip a := by
  induction a with
  | nil => simpa [pyRstrip] using h
  | cons c cs ih =>
    simp only [List.cons_append]
    rw [pyRstrip, ih, pyRstrip]

/-- The structural `pyRstrip` is the usual "drop trailing whitespace". -/
theorem pyRstrip_eq_reverse (s : Str) :
    pyRstrip s = (s.reverse.dropWhile isPySpace).reverse := by
  induction s with
  | nil => rfl
  | cons c cs ih =>
    rw [pyRstrip, ih, List.reverse_cons, List.dropWhile_append]
    cases h : List.dropWhile isPySpace cs.reverse with
    | nil => cases hc : isPySpace c <;> simp [List.dropWhile, hc]
    | cons x xs => simp

theorem pyLstrip_length_le (s : Str) : (pyLstrip s).length ≤ s.length :=
  (List.dropWhile_suffix isPySpace).length_le

theorem pyLstrip_cons_space (c : Char) (s : Str) (h : isPySpace c = true) :
    pyLstrip (c :: s) = pyLstrip s := by
  simp [pyLstrip, List.dropWhile, h]

theorem pyLstrip_cons_nonspace (c : Char) (s : Str) (h : isPySpace c = false) :
    pyLstrip (c :: s) = c :: s := by
  simp [pyLstrip, List.dropWhile, h]

/-- a left-stripped non-empty string starts with a non-space -/
theorem head_nonspace_of_lstrip {c : Char} {s : Str} (h : pyLstrip (c :: s) = c :: s) :
    isPySpace c = false := by
  cases hc : isPySpace c with
  | false => rfl
  | true =>
    rw [pyLstrip_cons_space c s hc] at h
    have := pyLstrip_length_le s
    rw [h] at this
    simp only [List.length_cons] at this
    omega

/-- "no leading and no trailing Python whitespace" -/
theorem pyStrip_eq_self_iff (s : Str) : pyStrip s = s ↔ pyLstrip s = s ∧ pyRstrip s = s := by
  constructor
  · intro h
    have h1 : (pyRstrip (pyLstrip s)).length = s.length := by
      unfold pyStrip at h; rw [h]
    have h2 := pyRstrip_length_le (pyLstrip s)
    have h3 := pyLstrip_length_le s
    have h4 : pyLstrip s = s :=
      (List.dropWhile_suffix isPySpace).eq_of_length (by unfold pyLstrip at h1 h2 h3; omega)
    unfold pyStrip at h
    rw [h4] at h
    exact ⟨h4, h⟩
  · intro ⟨h1, h2⟩
    unfold pyStrip; rw [h1, h2]

theorem pyStrip_nil : pyStrip [] = [] := rfl

theorem pyRstrip_ne_nil_of_fixed {s : Str} (h : pyRstrip s = s) (hne : s ≠ []) :
    pyRstrip s ≠ [] := by rw [h]; exact hne

/-! ## 2. line splitting -/

/-- `v.split("\n")` as (first piece, remaining pieces) -/
def splitNl : Str → Str × List Str
  | [] => ([], [])
  | c :: cs =>
    if c = '\n' then ([], (splitNl cs).1 :: (splitNl cs).2)
    else (c :: (splitNl cs).1, (splitNl cs).2)

theorem joinNl_cons_cons (a b : Str) (l : List Str) :
    joinNl (a :: b :: l) = a ++ '\n' :: joinNl (b :: l) := rfl

theorem joinNl_splitNl (v : Str) : joinNl ((splitNl v).1 :: (splitNl v).2) = v := by
  induction v with
  | nil => rfl
  | cons c cs ih =>
    unfold splitNl
    by_cases hc : c = '\n'
    · simp only [hc, if_true]
      rw [joinNl_cons_cons, ih]; rfl
    · simp only [hc, if_false]
      cases h2 : (splitNl cs).2 with
      | nil => rw [h2] at ih; simpa [joinNl] using ih
      | cons x xs =>
        rw [h2] at ih
        rw [joinNl_cons_cons] at ih ⊢
        simp [ih]

theorem splitNl_of_no_nl (v : Str) (h : '\n' ∉ v) : splitNl v = (v, []) := by
  induction v with
  | nil => rfl
  | cons c cs ih =>
    simp only [List.mem_cons, not_or] at h
    have hc : c ≠ '\n' := fun e => h.1 e.symm
    unfold splitNl
    simp [hc, ih h.2]

theorem splitNl_fst_no_nl (v : Str) : '\n' ∉ (splitNl v).1 := by
  induction v with
  | nil => simp [splitNl]
  | cons c cs ih =>
    unfold splitNl
    by_cases hc : c = '\n'
    · simp [hc]
    · simp only [hc, if_false, List.mem_cons, not_or]
      exact ⟨fun e => hc e.symm, ih⟩

theorem splitNl_snd_no_nl (v : Str) : ∀ l ∈ (splitNl v).2, '\n' ∉ l := by
  induction v with
  | nil => simp [splitNl]
  | cons c cs ih =>
    unfold splitNl
    by_cases hc : c = '\n'
    · simp only [hc, if_true, List.mem_cons]
      intro l hl
      cases hl with
      | inl h => rw [h]; exact splitNl_fst_no_nl cs
      | inr h => exact ih l h
    · simpa [hc] using ih

theorem splitLines_append_nl (p rest : Str) (h : '\n' ∉ p) :
    splitLines (p ++ '\n' :: rest) = p :: splitLines rest := by
  induction p with
  | nil => simp [splitLines]
  | cons c cs ih =>
    simp only [List.mem_cons, not_or] at h
    have hc : c ≠ '\n' := fun e => h.1 e.symm
    simp only [List.cons_append]
    rw [splitLines]
    simp [hc, ih h.2]

/-- the physical lines of one `key = value` item as written -/
def itemLines (kv : Str × Str) : List Str :=
  (kv.1 ++ ' ' :: '=' :: ' ' :: (splitNl kv.2).1) :: (splitNl kv.2).2.map ('\t' :: ·)

theorem splitLines_replaceNl (p v rest : Str) (h : '\n' ∉ p) :
    splitLines (p ++ (replaceNl v ++ '\n' :: rest)) =
      (p ++ (splitNl v).1) :: ((splitNl v).2.map ('\t' :: ·) ++ splitLines rest) := by
  induction v generalizing p with
  | nil => simpa [replaceNl, splitNl] using splitLines_append_nl p rest h
  | cons c cs ih =>
    unfold replaceNl splitNl
    by_cases hc : c = '\n'
    · simp only [hc, if_true, List.cons_append]
      rw [splitLines_append_nl p _ h]
      have := ih ['\t'] (by decide)
      simp only [List.cons_append, List.nil_append] at this
      rw [this]
      simp
    · simp only [hc, if_false, List.cons_append]
      have h' : '\n' ∉ p ++ [c] := by
        simp only [List.mem_append, List.mem_singleton, not_or]
        exact ⟨h, fun e => hc e.symm⟩
      have := ih (p ++ [c]) h'
      simp only [List.append_assoc, List.cons_append, List.nil_append] at this
      exact this

theorem splitLines_writeItem (kv : Str × Str) (rest : Str) (h : '\n' ∉ kv.1) :
    splitLines (writeItem kv ++ rest) = itemLines kv ++ splitLines rest := by
  have h' : '\n' ∉ kv.1 ++ [' ', '=', ' '] := by
    simp only [List.mem_append, not_or]
    exact ⟨h, by decide⟩
  have := splitLines_replaceNl (kv.1 ++ [' ', '=', ' ']) kv.2 rest h'
  simp only [List.append_assoc, List.cons_append, List.nil_append] at this
  simp only [writeItem, itemLines, List.append_assoc, List.cons_append, List.nil_append]
  exact this

theorem splitLines_writeItems (items : List (Str × Str)) (rest : Str)
    (h : ∀ kv ∈ items, '\n' ∉ kv.1) :
    splitLines (items.flatMap writeItem ++ rest) = items.flatMap itemLines ++ splitLines rest := by
  induction items with
  | nil => simp
  | cons kv more ih =>
    simp only [List.flatMap_cons, List.append_assoc]
    rw [splitLines_writeItem kv _ (h kv (by simp)), ih (fun x hx => h x (by simp [hx]))]

/-- the physical lines of one section as written -/
def secLines (s : Str × List (Str × Str)) : List Str :=
  ('[' :: (s.1 ++ [']'])) :: (s.2.flatMap itemLines ++ [[]])

theorem splitLines_writeSection (n : Str) (items : List (Str × Str)) (rest : Str)
    (hn : '\n' ∉ n) (h : ∀ kv ∈ items, '\n' ∉ kv.1) :
    splitLines (writeSection n items ++ rest) = secLines (n, items) ++ splitLines rest := by
  have h1 : '\n' ∉ '[' :: (n ++ [']']) := by
    simp only [List.mem_cons, List.mem_append, List.mem_nil_iff, not_or]
    exact ⟨by decide, hn, by decide, not_false⟩
  have := splitLines_append_nl ('[' :: (n ++ [']'])) (items.flatMap writeItem ++ '\n' :: rest) h1
  simp only [List.append_assoc, List.cons_append, List.nil_append] at this
  simp only [writeSection, secLines, List.append_assoc, List.cons_append, List.nil_append]
  rw [this, splitLines_writeItems items _ h]
  have h2 := splitLines_append_nl [] rest (by simp)
  simp only [List.nil_append] at h2
  rw [h2]


/-! ## 3. safety predicates -/

/-- no leading / trailing Python whitespace -/
def SafeLine (l : Str) : Prop := pyStrip l = l

instance (l : Str) : Decidable (SafeLine l) := by unfold SafeLine; infer_instance

/-- Values that survive `write` + `read` unchanged.  With `v.split("\n") = l₀ :: rest`:
  * `v` contains no "\r" (under universal newlines it would become a line break; kept as a
    hypothesis in both modes for a single statement);
  * `v` has no trailing Python whitespace (`_join_multiline_values` ends with `.rstrip()`); in
    particular the last line is not empty unless `v` is empty;
  * every line `l` (also `l₀`) has no leading / trailing Python whitespace (`SafeLine`; each
    physical line is `.strip()`-ped) -- an EMPTY line in the middle is fine: it is written as
    "\t", read as an empty line and re-inserted as '' (empty_lines_in_values=True);
  * the lines after the first do not start with '#' or ';' (they would be dropped as comments).
  `l₀` may start with anything ('#', ';', '[', ...) since it follows `key = ` on its line.
  Together with the first three, "no leading Python whitespace" is NOT needed (a value starting
  with "\n" round-trips), so this is slightly weaker than `pyStrip v = v`; see
  `safe_of_single_line` for the single-line case.

  Other characters that `str.splitlines` treats as line boundaries (\x0b \x0c \x1c \x1d \x1e
  \x85 \u2028 \u2029) are irrelevant: iterating a text file splits at "\n" only (plus "\r",
  "\r\n" under universal newlines).  They are merely Python whitespace, so they are excluded at
  the ends of lines by `SafeLine` and harmless inside; the differential tester exercises them. -/
def SafeValue (v : Str) : Prop :=
  '\r' ∉ v ∧ pyRstrip v = v ∧ SafeLine (splitNl v).1 ∧
    ∀ l ∈ (splitNl v).2, SafeLine l ∧ isCommentStart l = false

instance (v : Str) : Decidable (SafeValue v) := by unfold SafeValue; infer_instance

/-- Keys for which the general theorem holds: non-empty, no Python whitespace at the ends, no
delimiter / newline characters, already lower-case, not starting with '#', ';' or '['. -/
def SafeKey (k : Str) : Prop :=
  k ≠ [] ∧ pyLstrip k = k ∧ pyRstrip k = k ∧
  (∀ c ∈ k, isDelim c = false ∧ c ≠ '\n' ∧ c ≠ '\r') ∧
  k.map asciiLower = k ∧ isCommentStart k = false ∧ k.head? ≠ some '['

instance (k : Str) : Decidable (SafeKey k) := by unfold SafeKey; infer_instance

/-- Section names for which the general theorem holds (`]` inside is fine: SECTCRE is greedy). -/
def SafeName (n : Str) : Prop := n ≠ [] ∧ '\n' ∉ n ∧ '\r' ∉ n

instance (n : Str) : Decidable (SafeName n) := by unfold SafeName; infer_instance

theorem safe_of_single_line (v : Str) (hnl : '\n' ∉ v) (hcr : '\r' ∉ v) (hs : pyStrip v = v) :
    SafeValue v := by
  refine ⟨hcr, ((pyStrip_eq_self_iff v).1 hs).2, ?_, ?_⟩
  · rw [splitNl_of_no_nl v hnl]; exact hs
  · rw [splitNl_of_no_nl v hnl]; simp

/-! ## 4. single steps of the reader -/

theorem uptoLastBracket_snoc (n : Str) : uptoLastBracket (n ++ [']']) = some n := by
  induction n with
  | nil => simp [uptoLastBracket]
  | cons c cs ih => simp [uptoLastBracket, ih]

theorem sectHeader_bracket (n : Str) (h : n ≠ []) : sectHeader ('[' :: (n ++ [']'])) = some n := by
  cases n with
  | nil => exact absurd rfl h
  | cons c cs =>
    have := uptoLastBracket_snoc (c :: cs)
    simp only [List.cons_append] at this
    simp [sectHeader, this]

theorem pyStrip_bracket (n : Str) : pyStrip ('[' :: (n ++ [']'])) = '[' :: (n ++ [']']) := by
  unfold pyStrip
  rw [pyLstrip_cons_nonspace _ _ (by decide)]
  have h1 : pyRstrip [']'] = [']'] := by decide
  have := pyRstrip_append_of_ne_nil ('[' :: n) [']'] (by rw [h1]; decide)
  rw [h1] at this
  exact this

theorem step_header (st : St) (n : Str) (hn : n ≠ []) (hi : st.indent = 0) :
    step st ('[' :: (n ++ [']'])) = selectSection st n := by
  have hst : { st with indent := 0 } = st := by cases st; simp_all
  unfold step
  simp only [pyStrip_bracket, sectHeader_bracket n hn]
  simp [isCommentStart, indentOf, List.takeWhile, show isPySpace '[' = false by decide, hst]


theorem pyStrip_tab (l : Str) (h : SafeLine l) : pyStrip ('\t' :: l) = l := by
  have h' := (pyStrip_eq_self_iff l).1 h
  unfold pyStrip
  rw [pyLstrip_cons_space _ _ (by decide), h'.1, h'.2]

theorem indentOf_tab_pos (l : Str) : 0 < indentOf ('\t' :: l) := by
  simp [indentOf, List.takeWhile, show isPySpace '\t' = true by decide]

/-- a continuation line (or the "\t" written for an empty line of the value) -/
theorem step_cont (d : Opts) (dn : List (Str × Opts)) (n k : Str) (ls : List Str) (os : Opts)
    (l : Str) (hl : SafeLine l) (hc : isCommentStart l = false) :
    step ⟨d, dn, some (n, (k, ls) :: os), true, 0⟩ ('\t' :: l)
      = .ok ⟨d, dn, some (n, (k, l :: ls) :: os), true, 0⟩ := by
  unfold step
  simp only [pyStrip_tab l hl, hc]
  by_cases he : l = []
  · simp [he, St.appendLine]
  · simp [he, St.appendLine, indentOf_tab_pos]

theorem run_cont (d : Opts) (dn : List (Str × Opts)) (n k : Str) (os : Opts)
    (vs : List Str) (hv : ∀ l ∈ vs, SafeLine l ∧ isCommentStart l = false) (ls : List Str) :
    run ⟨d, dn, some (n, (k, ls) :: os), true, 0⟩ (vs.map ('\t' :: ·))
      = .ok ⟨d, dn, some (n, (k, vs.reverse ++ ls) :: os), true, 0⟩ := by
  induction vs generalizing ls with
  | nil => rfl
  | cons l more ih =>
    have hl := hv l (by simp)
    simp only [List.map_cons, run]
    rw [step_cont d dn n k ls os l hl.1 hl.2]
    simp only
    rw [ih (fun x hx => hv x (by simp [hx]))]
    simp

theorem splitDelim_key (k rest : Str) (hk : ∀ c ∈ k, isDelim c = false) :
    splitDelim (k ++ ' ' :: '=' :: rest) = some (k ++ [' '], rest) := by
  induction k with
  | nil => simp [splitDelim, isDelim]
  | cons c cs ih =>
    have hc := hk c (by simp)
    simp [splitDelim, hc, ih (fun x hx => hk x (by simp [hx]))]

theorem pyRstrip_key_space (k : Str) (h : pyRstrip k = k) : pyRstrip (k ++ [' ']) = k := by
  rw [pyRstrip_append_of_nil k [' '] (by decide), h]

/-- what `line.strip()` is for a written `key = first-line` -/
theorem pyStrip_entry (c : Char) (k' v0 : Str) (hc : isPySpace c = false) (hv : SafeLine v0) :
    pyStrip ((c :: k') ++ ' ' :: '=' :: ' ' :: v0)
      = (c :: k') ++ ' ' :: '=' :: (if v0 = [] then [] else ' ' :: v0) := by
  have hv' := (pyStrip_eq_self_iff v0).1 hv
  unfold pyStrip
  rw [List.cons_append, pyLstrip_cons_nonspace _ _ hc]
  by_cases he : v0 = []
  · subst he
    have h1 : pyRstrip [' ', '=', ' '] = [' ', '='] := by decide
    have := pyRstrip_append_of_ne_nil (c :: k') [' ', '=', ' '] (by rw [h1]; decide)
    rw [h1] at this
    simpa using this
  · have h1 : pyRstrip v0 ≠ [] := by rw [hv'.2]; exact he
    have := pyRstrip_append_of_ne_nil ((c :: k') ++ [' ', '=', ' ']) v0 h1
    rw [hv'.2] at this
    simpa [he] using this


theorem pyStrip_value_part (v0 : Str) (hv : SafeLine v0) :
    pyStrip (if v0 = [] then [] else ' ' :: v0) = v0 := by
  by_cases he : v0 = []
  · simp [he, pyStrip_nil]
  · simp only [he, if_false]
    unfold pyStrip
    rw [pyLstrip_cons_space _ _ (by decide)]
    exact hv

/-- the first physical line of an item -/
theorem step_entry (d : Opts) (dn : List (Str × Opts)) (n : Str) (os : Opts) (o : Bool)
    (k v0 : Str) (hk : SafeKey k) (hv : SafeLine v0)
    (hnew : os.any (fun x => x.1 == k) = false) :
    step ⟨d, dn, some (n, os), o, 0⟩ (k ++ ' ' :: '=' :: ' ' :: v0)
      = .ok ⟨d, dn, some (n, (k, [v0]) :: os), true, 0⟩ := by
  obtain ⟨hne, hl, hr, hch, hlow, hcom, hbr⟩ := hk
  cases k with
  | nil => exact absurd rfl hne
  | cons c k' =>
    have hc : isPySpace c = false := head_nonspace_of_lstrip hl
    have hbr' : c ≠ '[' := by simpa using hbr
    have hdel : ∀ x ∈ c :: k', isDelim x = false := fun x hx => (hch x hx).1
    have hind : indentOf ((c :: k') ++ ' ' :: '=' :: ' ' :: v0) = 0 := by
      simp [indentOf, hc]
    have hsd := splitDelim_key (c :: k') (if v0 = [] then [] else ' ' :: v0) hdel
    have hname : List.map asciiLower (pyRstrip ((c :: k') ++ [' '])) = c :: k' := by
      rw [pyRstrip_key_space _ hr, hlow]
    unfold step
    simp only [pyStrip_entry c k' v0 hc hv, hind]
    simp only [List.cons_append] at hsd ⊢
    have hcom' : isCommentStart (c :: (k' ++ ' ' :: '=' :: if v0 = [] then [] else ' ' :: v0)) = false := by
      simpa [isCommentStart] using hcom
    simp only [hcom']
    simp only [sectHeader, hbr', hsd]
    simp only [List.cons_append] at hname
    simp [hname, hnew, pyStrip_value_part v0 hv]


/-! ## 5. runs -/

theorem run_append (st : St) (a b : List Str) :
    run st (a ++ b) = match run st a with
      | .ok st' => run st' b
      | .error e => .error e := by
  induction a generalizing st with
  | nil => rfl
  | cons l ls ih =>
    simp only [List.cons_append, run]
    cases step st l with
    | ok st' => exact ih st'
    | error e => rfl

theorem run_append_ok {st st' : St} {a : List Str} (b : List Str) (h : run st a = .ok st') :
    run st (a ++ b) = run st' b := by
  rw [run_append, h]

/-- reader representation of a value: physical lines, most recent first -/
def reprLines (v : Str) : List Str := ((splitNl v).1 :: (splitNl v).2).reverse

/-- reader representation of the items of a section, most recent first -/
def reprOpts (items : List (Str × Str)) : Opts :=
  (items.map fun kv => (kv.1, reprLines kv.2)).reverse

def keysOf (os : Opts) : List Str := os.map (·.1)

theorem any_key_false {os : Opts} {k : Str} (h : k ∉ keysOf os) :
    os.any (fun x => x.1 == k) = false := by
  induction os with
  | nil => rfl
  | cons o more ih =>
    simp only [keysOf, List.map_cons, List.mem_cons, not_or] at h
    simp only [List.any_cons, Bool.or_eq_false_iff, beq_eq_false_iff_ne]
    exact ⟨fun e => h.1 e.symm, ih h.2⟩

theorem run_item (d : Opts) (dn : List (Str × Opts)) (n : Str) (os : Opts) (o : Bool)
    (kv : Str × Str) (hk : SafeKey kv.1) (hv : SafeValue kv.2) (hnew : kv.1 ∉ keysOf os) :
    run ⟨d, dn, some (n, os), o, 0⟩ (itemLines kv)
      = .ok ⟨d, dn, some (n, (kv.1, reprLines kv.2) :: os), true, 0⟩ := by
  obtain ⟨_, _, h0, hrest⟩ := hv
  unfold itemLines
  simp only [run]
  rw [step_entry d dn n os o kv.1 _ hk h0 (any_key_false hnew)]
  simp only
  rw [run_cont d dn n kv.1 os _ hrest]
  simp [reprLines]

theorem run_items (d : Opts) (dn : List (Str × Opts)) (n : Str) (items : List (Str × Str))
    (os : Opts) (o : Bool)
    (hk : ∀ kv ∈ items, SafeKey kv.1) (hv : ∀ kv ∈ items, SafeValue kv.2)
    (hnd : (items.map (·.1)).Nodup) (hdis : ∀ kv ∈ items, kv.1 ∉ keysOf os) :
    run ⟨d, dn, some (n, os), o, 0⟩ (items.flatMap itemLines)
      = .ok ⟨d, dn, some (n, reprOpts items ++ os), (if items = [] then o else true), 0⟩ := by
  induction items generalizing os o with
  | nil => simp [run, reprOpts]
  | cons kv more ih =>
    simp only [List.flatMap_cons]
    rw [run_append_ok _ (run_item d dn n os o kv (hk kv (by simp)) (hv kv (by simp))
      (hdis kv (by simp)))]
    simp only [List.map_cons, List.nodup_cons] at hnd
    rw [ih ((kv.1, reprLines kv.2) :: os) true (fun x hx => hk x (by simp [hx]))
      (fun x hx => hv x (by simp [hx])) hnd.2 ?_]
    · simp [reprOpts]
    · intro x hx
      simp only [keysOf, List.map_cons, List.mem_cons, not_or]
      refine ⟨?_, hdis x (by simp [hx])⟩
      intro e
      exact hnd.1 (by rw [← e]; exact List.mem_map_of_mem hx)

/-- effect of the empty line that ends a written section -/
def blank : Opts → Opts
  | [] => []
  | (k, ls) :: os => (k, [] :: ls) :: os

theorem step_blank (d : Opts) (dn : List (Str × Opts)) (n : Str) (os : Opts) (o : Bool)
    (h : o = false → os = []) :
    step ⟨d, dn, some (n, os), o, 0⟩ [] = .ok ⟨d, dn, some (n, blank os), o, 0⟩ := by
  unfold step
  simp only [pyStrip_nil, isCommentStart]
  cases o with
  | false => simp [h rfl, St.appendLine, blank]
  | true =>
    cases os with
    | nil => simp [St.appendLine, blank]
    | cons x xs => simp [St.appendLine, blank]

theorem run_section (st : St) (d : Opts) (dn : List (Str × Opts)) (n : Str)
    (items : List (Str × Str)) (hn : n ≠ []) (hi : st.indent = 0)
    (hsel : selectSection st n = .ok ⟨d, dn, some (n, []), false, 0⟩)
    (hk : ∀ kv ∈ items, SafeKey kv.1) (hv : ∀ kv ∈ items, SafeValue kv.2)
    (hnd : (items.map (·.1)).Nodup) :
    run st (secLines (n, items))
      = .ok ⟨d, dn, some (n, blank (reprOpts items)), (if items = [] then false else true), 0⟩ := by
  unfold secLines
  simp only [run]
  rw [step_header st n hn hi, hsel]
  simp only
  rw [run_append_ok _ (run_items d dn n items [] false hk hv hnd (by simp [keysOf]))]
  simp only [run, List.append_nil]
  rw [step_blank]
  intro h
  by_cases he : items = []
  · simp [he, reprOpts]
  · simp [he] at h


/-! ## 6. sections -/

/-- what the reader knows once the selected section is put back -/
def Inv (st : St) (d : Opts) (dn : List (Str × Opts)) : Prop :=
  st.indent = 0 ∧ st.unfocus.dflt = d ∧ st.unfocus.done = dn

def reprSecs (secs : List (Str × List (Str × Str))) : List (Str × Opts) :=
  (secs.map fun s => (s.1, blank (reprOpts s.2))).reverse

theorem unfocus_indent (st : St) : st.unfocus.indent = st.indent := by
  unfold St.unfocus; split
  · rfl
  · split <;> rfl

theorem any_name_false {dn : List (Str × Opts)} {n : Str} (h : n ∉ dn.map (·.1)) :
    dn.any (fun x => x.1 == n) = false := by
  induction dn with
  | nil => rfl
  | cons o more ih =>
    simp only [List.map_cons, List.mem_cons, not_or] at h
    simp only [List.any_cons, Bool.or_eq_false_iff, beq_eq_false_iff_ne]
    exact ⟨fun e => h.1 e.symm, ih h.2⟩

theorem selectSection_of_inv {st : St} {d : Opts} {dn : List (Str × Opts)} (n : Str)
    (h : Inv st d dn) (hn : n ≠ DEFAULT) (hnew : n ∉ dn.map (·.1)) :
    selectSection st n = .ok ⟨d, dn, some (n, []), false, 0⟩ := by
  obtain ⟨hi, hd, hdn⟩ := h
  have hi' := unfocus_indent st
  unfold selectSection
  simp only [hn, if_false, hdn, any_name_false hnew, Bool.false_eq_true]
  rw [← hd, ← hdn, ← hi, ← hi']

theorem inv_focused (d : Opts) (dn : List (Str × Opts)) (n : Str) (os : Opts) (o : Bool)
    (hn : n ≠ DEFAULT) : Inv ⟨d, dn, some (n, os), o, 0⟩ d ((n, os) :: dn) := by
  simp [Inv, St.unfocus, hn]

/-- per-section hypotheses of the round-trip theorem -/
def ItemsOk (items : List (Str × Str)) : Prop :=
  (∀ kv ∈ items, SafeKey kv.1) ∧ (∀ kv ∈ items, SafeValue kv.2) ∧ (items.map (·.1)).Nodup

theorem run_sections (secs : List (Str × List (Str × Str))) (st : St) (d : Opts)
    (dn : List (Str × Opts)) (h : Inv st d dn)
    (hs : ∀ s ∈ secs, SafeName s.1 ∧ s.1 ≠ DEFAULT ∧ ItemsOk s.2)
    (hnd : (secs.map (·.1)).Nodup) (hdis : ∀ s ∈ secs, s.1 ∉ dn.map (·.1)) :
    ∃ st', run st (secs.flatMap secLines) = .ok st' ∧ Inv st' d (reprSecs secs ++ dn) := by
  induction secs generalizing st dn with
  | nil => exact ⟨st, rfl, by simpa [reprSecs] using h⟩
  | cons s more ih =>
    obtain ⟨hname, hdef, hk, hv, hkn⟩ := hs s (by simp)
    have hsel := selectSection_of_inv s.1 h hdef (hdis s (by simp))
    have hrun := run_section st d dn s.1 s.2 hname.1 h.1 hsel hk hv hkn
    simp only [List.map_cons, List.nodup_cons] at hnd
    have hinv := inv_focused d dn s.1 (blank (reprOpts s.2)) (if s.2 = [] then false else true) hdef
    obtain ⟨st', hr, hi⟩ := ih _ ((s.1, blank (reprOpts s.2)) :: dn) hinv
      (fun x hx => hs x (by simp [hx])) hnd.2 (by
        intro x hx
        simp only [List.map_cons, List.mem_cons, not_or]
        refine ⟨?_, hdis x (by simp [hx])⟩
        intro e
        exact hnd.1 (by rw [← e]; exact List.mem_map_of_mem hx))
    refine ⟨st', ?_, ?_⟩
    · simp only [List.flatMap_cons]
      rw [run_append_ok _ hrun, hr]
    · simpa [reprSecs] using hi

/-! ## 7. finishing -/

theorem joinNl_snoc_nil (a : Str) (ls : List Str) :
    joinNl ((a :: ls) ++ [[]]) = joinNl (a :: ls) ++ ['\n'] := by
  induction ls generalizing a with
  | nil => simp [joinNl]
  | cons b more ih =>
    simp only [List.cons_append] at ih ⊢
    rw [joinNl_cons_cons, joinNl_cons_cons, ih b]
    simp

theorem pyRstrip_joinNl_snoc_nil (ls : List Str) :
    pyRstrip (joinNl (ls ++ [[]])) = pyRstrip (joinNl ls) := by
  cases ls with
  | nil => rfl
  | cons a t =>
    rw [joinNl_snoc_nil, pyRstrip_append_of_nil _ _ (by decide)]

theorem finOpts_blank (os : Opts) : finOpts (blank os) = finOpts os := by
  cases os with
  | nil => rfl
  | cons o more =>
    obtain ⟨k, ls⟩ := o
    simp [blank, finOpts, pyRstrip_joinNl_snoc_nil]

theorem finOpts_reprOpts (items : List (Str × Str)) (h : ∀ kv ∈ items, pyRstrip kv.2 = kv.2) :
    finOpts (reprOpts items) = items := by
  unfold finOpts reprOpts
  rw [List.reverse_reverse, List.map_map]
  calc items.map _ = items.map id := by
        apply List.map_congr_left
        intro kv hkv
        simp [reprLines, joinNl_splitNl, h kv hkv]
    _ = items := List.map_id _

theorem fin_reprSecs (secs : List (Str × List (Str × Str)))
    (h : ∀ s ∈ secs, ∀ kv ∈ s.2, pyRstrip kv.2 = kv.2) :
    (reprSecs secs).reverse.map (fun s => (s.1, finOpts s.2)) = secs := by
  unfold reprSecs
  rw [List.reverse_reverse, List.map_map]
  calc secs.map _ = secs.map id := by
        apply List.map_congr_left
        intro s hs
        simp [finOpts_blank, finOpts_reprOpts s.2 (h s hs)]
    _ = secs := List.map_id _


/-! ## 8. the written text -/

theorem univAux_of_no_cr (s : Str) (h : '\r' ∉ s) : univAux false s = s := by
  induction s with
  | nil => rfl
  | cons c cs ih =>
    simp only [List.mem_cons, not_or] at h
    have hc : c ≠ '\r' := fun e => h.1 e.symm
    simp [univAux, hc, ih h.2]

theorem cr_replaceNl (v : Str) (h : '\r' ∉ v) : '\r' ∉ replaceNl v := by
  induction v with
  | nil => simp [replaceNl]
  | cons c cs ih =>
    simp only [List.mem_cons, not_or] at h
    unfold replaceNl
    by_cases hc : c = '\n'
    · simp only [hc, if_true, List.mem_cons, not_or]
      exact ⟨by decide, by decide, ih h.2⟩
    · simp only [hc, if_false, List.mem_cons, not_or]
      exact ⟨h.1, ih h.2⟩

theorem cr_writeItem (kv : Str × Str) (hk : '\r' ∉ kv.1) (hv : '\r' ∉ kv.2) :
    '\r' ∉ writeItem kv := by
  have := cr_replaceNl kv.2 hv
  simp only [writeItem, List.mem_append, List.mem_cons, List.mem_nil_iff, not_or]
  exact ⟨hk, by decide, by decide, by decide, this, by decide, not_false⟩

theorem cr_writeSection (n : Str) (items : List (Str × Str)) (hn : '\r' ∉ n)
    (hi : ∀ kv ∈ items, '\r' ∉ kv.1 ∧ '\r' ∉ kv.2) : '\r' ∉ writeSection n items := by
  simp only [writeSection, List.mem_append, List.mem_cons, List.mem_nil_iff, List.mem_flatMap,
    not_or, not_exists, not_and]
  refine ⟨by decide, hn, by decide, by decide, ?_, by decide, not_false⟩
  intro kv hkv
  exact cr_writeItem kv (hi kv hkv).1 (hi kv hkv).2

theorem cr_iniWriteL (cfg : ConfigL)
    (h : ∀ s ∈ cfg, '\r' ∉ s.1 ∧ ∀ kv ∈ s.2, '\r' ∉ kv.1 ∧ '\r' ∉ kv.2) :
    '\r' ∉ iniWriteL cfg := by
  simp only [iniWriteL, List.mem_flatMap, not_exists, not_and]
  intro s hs
  split
  · simp
  · exact cr_writeSection s.1 s.2 (h s hs).1 (h s hs).2

theorem iniWriteL_nondefault (rest : ConfigL) (h : ∀ s ∈ rest, s.1 ≠ DEFAULT) :
    iniWriteL rest = rest.flatMap fun s => writeSection s.1 s.2 := by
  induction rest with
  | nil => rfl
  | cons s more ih =>
    have hs := h s (by simp)
    have := ih (fun x hx => h x (by simp [hx]))
    unfold iniWriteL at this ⊢
    simp only [List.flatMap_cons, this]
    simp [hs]

theorem splitLines_sections (rest : ConfigL)
    (h : ∀ s ∈ rest, '\n' ∉ s.1 ∧ ∀ kv ∈ s.2, '\n' ∉ kv.1) :
    splitLines (rest.flatMap fun s => writeSection s.1 s.2) = rest.flatMap secLines := by
  induction rest with
  | nil => rfl
  | cons s more ih =>
    simp only [List.flatMap_cons]
    rw [splitLines_writeSection s.1 s.2 _ (h s (by simp)).1 (h s (by simp)).2,
      ih (fun x hx => h x (by simp [hx]))]

theorem safeKey_no_nl {k : Str} (h : SafeKey k) : '\n' ∉ k :=
  fun hm => (h.2.2.2.1 _ hm).2.1 rfl

theorem safeKey_no_cr {k : Str} (h : SafeKey k) : '\r' ∉ k :=
  fun hm => (h.2.2.2.1 _ hm).2.2 rfl

/-! ## 9. the round trip -/

/-- General round trip over `List Char`: DEFAULT first, then any sections with distinct safe
names, any distinct safe keys, any safe values. -/
theorem roundtripL (b : Bool) (d : List (Str × Str)) (rest : ConfigL)
    (hd : ItemsOk d)
    (hs : ∀ s ∈ rest, SafeName s.1 ∧ s.1 ≠ DEFAULT ∧ ItemsOk s.2)
    (hnd : (rest.map (·.1)).Nodup) :
    iniReadL b (iniWriteL ((DEFAULT, d) :: rest)) = .ok ((DEFAULT, d) :: rest) := by
  -- the text and its lines
  have hnlr : ∀ s ∈ rest, '\n' ∉ s.1 ∧ ∀ kv ∈ s.2, '\n' ∉ kv.1 :=
    fun s hsm => ⟨(hs s hsm).1.2.1, fun kv hkv => safeKey_no_nl ((hs s hsm).2.2.1 kv hkv)⟩
  have hnld : ∀ kv ∈ d, '\n' ∉ kv.1 := fun kv hkv => safeKey_no_nl (hd.1 kv hkv)
  have hcr : '\r' ∉ iniWriteL ((DEFAULT, d) :: rest) := by
    apply cr_iniWriteL
    intro s hsm
    cases hsm with
    | head => exact ⟨show '\r' ∉ DEFAULT by decide, fun kv hkv => ⟨safeKey_no_cr (hd.1 kv hkv), (hd.2.1 kv hkv).1⟩⟩
    | tail _ hsm =>
      exact ⟨(hs s hsm).1.2.2, fun kv hkv =>
        ⟨safeKey_no_cr ((hs s hsm).2.2.1 kv hkv), ((hs s hsm).2.2.2.1 kv hkv).1⟩⟩
  have htext : (if b = true then univNewlines (iniWriteL ((DEFAULT, d) :: rest))
      else iniWriteL ((DEFAULT, d) :: rest)) = iniWriteL ((DEFAULT, d) :: rest) := by
    cases b with
    | false => rfl
    | true => exact univAux_of_no_cr _ hcr
  have hlines : splitLines (iniWriteL ((DEFAULT, d) :: rest))
      = (if d = [] then [] else secLines (DEFAULT, d)) ++ rest.flatMap secLines := by
    have h1 : iniWriteL ((DEFAULT, d) :: rest)
        = (if d = [] then [] else writeSection DEFAULT d) ++ iniWriteL rest := by
      simp [iniWriteL]
    rw [h1, iniWriteL_nondefault rest (fun s hsm => (hs s hsm).2.1)]
    by_cases he : d = []
    · simp only [he, if_true, List.nil_append]
      exact splitLines_sections rest hnlr
    · simp only [he, if_false]
      rw [splitLines_writeSection DEFAULT d _ (by decide) hnld, splitLines_sections rest hnlr]
  -- the state after the DEFAULT section
  have hdef : ∃ st1, run {} (if d = [] then [] else secLines (DEFAULT, d)) = .ok st1 ∧
      Inv st1 (blank (reprOpts d)) [] := by
    by_cases he : d = []
    · refine ⟨{}, by simp [he, run], ?_⟩
      simp [he, Inv, St.unfocus, reprOpts, blank]
    · have hr := run_section {} [] [] DEFAULT d (by decide) rfl rfl hd.1 hd.2.1 hd.2.2
      refine ⟨_, by simpa only [he, if_false] using hr, ?_⟩
      simp [Inv, St.unfocus]
  obtain ⟨st1, hr1, hi1⟩ := hdef
  obtain ⟨st2, hr2, hi2⟩ := run_sections rest st1 _ [] hi1 hs hnd (by simp)
  unfold iniReadL
  rw [htext, hlines, run_append_ok _ hr1, hr2]
  simp only [St.finish, hi2.2.1, hi2.2.2, List.append_nil]
  rw [finOpts_blank, finOpts_reprOpts d (fun kv hkv => (hd.2.1 kv hkv).2.1),
    fin_reprSecs rest (fun s hsm kv hkv => ((hs s hsm).2.2.2.1 kv hkv).2.1)]


def KeysOk (items : List (Str × Str)) : Prop :=
  (∀ kv ∈ items, SafeKey kv.1) ∧ (items.map (·.1)).Nodup

instance (items : List (Str × Str)) : Decidable (KeysOk items) := by
  unfold KeysOk; infer_instance

/-- General well-formedness over `List Char`: DEFAULT first; further sections have distinct safe
names; in each section the keys are safe and distinct. -/
def WellFormedL : ConfigL → Prop
  | [] => False
  | s :: rest =>
    s.1 = DEFAULT ∧ KeysOk s.2 ∧
    (∀ t ∈ rest, SafeName t.1 ∧ t.1 ≠ DEFAULT ∧ KeysOk t.2) ∧ (rest.map (·.1)).Nodup

instance (cfg : ConfigL) : Decidable (WellFormedL cfg) := by
  cases cfg <;> unfold WellFormedL <;> infer_instance

def SafeValuesL (cfg : ConfigL) : Prop := ∀ s ∈ cfg, ∀ kv ∈ s.2, SafeValue kv.2

instance (cfg : ConfigL) : Decidable (SafeValuesL cfg) := by
  unfold SafeValuesL; infer_instance

/-- MAIN (List Char level, fully general: any number of sections / keys, multi-line values). -/
theorem ini_roundtripL (b : Bool) (cfg : ConfigL) (hwf : WellFormedL cfg) (hv : SafeValuesL cfg) :
    iniReadL b (iniWriteL cfg) = .ok cfg := by
  cases cfg with
  | nil => exact absurd hwf (by simp [WellFormedL])
  | cons s rest =>
    obtain ⟨n, d⟩ := s
    obtain ⟨hn, hk, hrest, hnd⟩ := hwf
    simp only at hn hk
    subst hn
    apply roundtripL b d rest
    · exact ⟨hk.1, hv (DEFAULT, d) (by simp), hk.2⟩
    · intro t ht
      obtain ⟨h1, h2, h3⟩ := hrest t ht
      exact ⟨h1, h2, h3.1, hv t (by simp [ht]), h3.2⟩
    · exact hnd

/-! ## 10. String level, fixed key set -/

def defaultKeys : List String :=
  ["source", "color", "comment", "displayname", "description", "type"]

def calendarKeys : List String := ["order"]

def KeysIn (ks : List String) (items : List (String × String)) : Prop :=
  (∀ kv ∈ items, kv.1 ∈ ks) ∧ (items.map (·.1)).Nodup

instance (ks : List String) (items : List (String × String)) : Decidable (KeysIn ks items) := by
  unfold KeysIn; infer_instance

/-- The modelled usage: section DEFAULT with any subset of the six metadata keys (any order), and
optionally a section `calendar` with at most the key `order`. -/
def WellFormed : Config → Prop
  | [(n, d)] => n = "DEFAULT" ∧ KeysIn defaultKeys d
  | [(n, d), (m, c)] => n = "DEFAULT" ∧ m = "calendar" ∧ KeysIn defaultKeys d ∧ KeysIn calendarKeys c
  | _ => False

instance (cfg : Config) : Decidable (WellFormed cfg) := by
  unfold WellFormed; split <;> infer_instance

def SafeValues (cfg : Config) : Prop := ∀ s ∈ cfg, ∀ kv ∈ s.2, SafeValue kv.2.toList

instance (cfg : Config) : Decidable (SafeValues cfg) := by
  unfold SafeValues; infer_instance

theorem safeKey_defaultKeys : ∀ k ∈ defaultKeys, SafeKey k.toList := by decide

theorem safeKey_calendarKeys : ∀ k ∈ calendarKeys, SafeKey k.toList := by decide


def itemsToL (items : List (String × String)) : List (Str × Str) :=
  items.map fun kv => (kv.1.toList, kv.2.toList)

theorem keysOk_of_keysIn (ks : List String) (hks : ∀ k ∈ ks, SafeKey k.toList)
    (items : List (String × String)) (h : KeysIn ks items) : KeysOk (itemsToL items) := by
  constructor
  · intro kv hkv
    simp only [itemsToL, List.mem_map] at hkv
    obtain ⟨x, hx, rfl⟩ := hkv
    exact hks x.1 (h.1 x hx)
  · have : (itemsToL items).map (·.1) = (items.map (·.1)).map String.toList := by
      simp [itemsToL, List.map_map]
    rw [this]
    exact List.Pairwise.map _ (fun a b hab e => hab (String.toList_inj.1 e)) h.2

theorem ofL_toL (cfg : Config) : Config.ofL cfg.toL = cfg := by
  unfold Config.ofL Config.toL
  rw [List.map_map]
  calc cfg.map _ = cfg.map id := by
        apply List.map_congr_left
        intro s _
        simp only [Function.comp, String.ofList_toList, List.map_map, id]
        have : s.2.map (fun kv => (kv.1, kv.2)) = s.2 := List.map_id _
        simp [Function.comp_def]
    _ = cfg := List.map_id _

theorem toL_one (n : String) (d : List (String × String)) :
    Config.toL [(n, d)] = [(n.toList, itemsToL d)] := rfl

theorem toL_two (n m : String) (d c : List (String × String)) :
    Config.toL [(n, d), (m, c)] = [(n.toList, itemsToL d), (m.toList, itemsToL c)] := rfl

theorem default_toList : "DEFAULT".toList = DEFAULT := by decide

theorem calendar_safeName : SafeName "calendar".toList := by decide

theorem calendar_ne_default : "calendar".toList ≠ DEFAULT := by decide

theorem wellFormedL_of_wellFormed (cfg : Config) (h : WellFormed cfg) : WellFormedL cfg.toL := by
  unfold WellFormed at h
  split at h
  · obtain ⟨hn, hd⟩ := h
    subst hn
    rw [toL_one]
    exact ⟨default_toList, keysOk_of_keysIn _ safeKey_defaultKeys _ hd, by simp, by simp⟩
  · obtain ⟨hn, hm, hd, hc⟩ := h
    subst hn hm
    rw [toL_two]
    refine ⟨default_toList, keysOk_of_keysIn _ safeKey_defaultKeys _ hd, ?_, by simp⟩
    intro t ht
    simp only [List.mem_singleton] at ht
    subst ht
    exact ⟨calendar_safeName, calendar_ne_default, keysOk_of_keysIn _ safeKey_calendarKeys _ hc⟩
  · exact absurd h not_false

theorem safeValuesL_of_safeValues (cfg : Config) (h : SafeValues cfg) : SafeValuesL cfg.toL := by
  intro s hs kv hkv
  simp only [Config.toL, List.mem_map] at hs
  obtain ⟨s', hs', rfl⟩ := hs
  simp only [List.mem_map] at hkv
  obtain ⟨kv', hkv', rfl⟩ := hkv
  exact h s' hs' kv' hkv'

/-- String level, any config whose `List Char` image is well formed in the general sense. -/
theorem ini_roundtrip_general (b : Bool) (cfg : Config) (hwf : WellFormedL cfg.toL)
    (hv : SafeValues cfg) : iniRead b (iniWrite cfg) = .ok cfg := by
  unfold iniRead iniWrite
  rw [ini_roundtripL b cfg.toL hwf (safeValuesL_of_safeValues cfg hv)]
  simp only [ofL_toL]

/-- MAIN: for the modelled usage (any subset of the seven keys, any order) with safe values
(multi-line values included), reading back what was written gives exactly the same config. -/
theorem ini_roundtrip (b : Bool) (cfg : Config) (hwf : WellFormed cfg) (hv : SafeValues cfg) :
    iniRead b (iniWrite cfg) = .ok cfg :=
  ini_roundtrip_general b cfg (wellFormedL_of_wellFormed cfg hwf) hv

/-- MAIN, in the `iniGet` form. -/
theorem ini_roundtrip_get (b : Bool) (cfg : Config) (hwf : WellFormed cfg) (hv : SafeValues cfg) :
    ∃ cfg', iniRead b (iniWrite cfg) = .ok cfg' ∧
      ∀ sec key, iniGet cfg' sec key = iniGet cfg sec key :=
  ⟨cfg, ini_roundtrip b cfg hwf hv, fun _ _ => rfl⟩

/-- what a user reads back for `cp[sec][key]` after write + read (`none`: a configparser error) -/
def readBack (b : Bool) (cfg : Config) (sec key : String) : Option (Option String) :=
  match iniRead b (iniWrite cfg) with
  | .ok c => some (iniGet c sec key)
  | .error _ => none

theorem readBack_of_safe (b : Bool) (cfg : Config) (hwf : WellFormed cfg) (hv : SafeValues cfg)
    (sec key : String) : readBack b cfg sec key = some (iniGet cfg sec key) := by
  unfold readBack; rw [ini_roundtrip b cfg hwf hv]

/-! ## 11. the hypotheses matter -/

theorem cex_comment_line :
    readBack false [("DEFAULT", [("comment", "a\n#b")])] "DEFAULT" "comment" = some (some "a") := by
  decide

theorem cex_indented_line :
    readBack false [("DEFAULT", [("comment", "a\n b")])] "DEFAULT" "comment" = some (some "a\nb") := by
  decide

theorem cex_leading_space :
    readBack false [("DEFAULT", [("comment", " x")])] "DEFAULT" "comment" = some (some "x") := by
  decide


/-! ## 12. readable form of `SafeLine`, non-vacuity -/

theorem pyLstrip_eq_self_iff (l : Str) :
    pyLstrip l = l ↔ ∀ c, l.head? = some c → isPySpace c = false := by
  cases l with
  | nil => simp [pyLstrip]
  | cons c t =>
    constructor
    · intro h x hx
      simp only [List.head?_cons, Option.some.injEq] at hx
      subst hx
      exact head_nonspace_of_lstrip h
    · intro h
      exact pyLstrip_cons_nonspace c t (h c rfl)

theorem pyRstrip_eq_self_iff (l : Str) :
    pyRstrip l = l ↔ ∀ c, l.getLast? = some c → isPySpace c = false := by
  rw [pyRstrip_eq_reverse, ← List.head?_reverse, ← pyLstrip_eq_self_iff]
  unfold pyLstrip
  constructor
  · intro h
    have := congrArg List.reverse h
    simpa using this
  · intro h
    rw [h, List.reverse_reverse]

/-- `SafeLine l`: the first and the last character of `l` (if any) are not Python whitespace. -/
theorem safeLine_iff (l : Str) :
    SafeLine l ↔ (∀ c, l.head? = some c → isPySpace c = false) ∧
                 (∀ c, l.getLast? = some c → isPySpace c = false) := by
  unfold SafeLine
  rw [pyStrip_eq_self_iff, pyLstrip_eq_self_iff, pyRstrip_eq_self_iff]

-- single-line values full of "dangerous" punctuation are safe
example : SafeValue "#ff0000".toList := by decide
example : SafeValue "[x] = y; z # w : 100% \"q\" %(a)s".toList := by decide
example : SafeValue "; not a comment".toList := by decide
example : SafeValue "a = b".toList := by decide
example : SafeValue "café 日本 x".toList := by decide
example : SafeValue "".toList := by decide
-- multi-line values can be safe too (empty lines inside are fine)
example : SafeValue "line one\nline two\n\nline = four".toList := by decide
-- ... and the counterexample values are not
example : ¬ SafeValue "a\n#b".toList := by decide
example : ¬ SafeValue "a\n b".toList := by decide
example : ¬ SafeValue " x".toList := by decide
example : ¬ SafeValue "x ".toList := by decide
example : ¬ SafeValue "a\rb".toList := by decide
example : ¬ SafeValue "a\n".toList := by decide

/-- a config using all seven keys, with values that look like ini syntax -/
def sampleConfig : Config :=
  [("DEFAULT", [("type", "calendar"), ("color", "#ff0000"), ("displayname", "[Work] = 100%"),
                ("description", "first line\nsecond: line\n\n%(last)s"), ("comment", "; \"x\""),
                ("source", "https://example.com/a?b=c#d")]),
   ("calendar", [("order", "[3]")])]

example : WellFormed sampleConfig := by decide
example : SafeValues sampleConfig := by decide
example : WellFormed [("DEFAULT", [])] := by decide
example : ¬ WellFormed [("DEFAULT", [("color", "a"), ("color", "b")])] := by decide

/-- the main theorem applies to the sample (both newline modes) -/
example (b : Bool) : iniRead b (iniWrite sampleConfig) = .ok sampleConfig :=
  ini_roundtrip b sampleConfig (by decide) (by decide)

-- the general theorem also covers other key / section names
example (b : Bool) :
    iniRead b (iniWrite [("DEFAULT", []), ("my [odd] section", [("x-key.1", "v")])])
      = .ok [("DEFAULT", []), ("my [odd] section", [("x-key.1", "v")])] :=
  ini_roundtrip_general b _ (by decide) (by decide)

end Xandikos.Py.Ini
