/-
  Theorems about the path model: lexical confinement.
  Everything is proved outright from the definitions in `Path.lean`; core Lean only.
-/
import Xandikos.Py.Path

namespace Xandikos.Py.Path

/-- a component that is a real name: non-empty, not `.`, not `..`, contains no `/` -/
def Clean (c : List Char) : Prop := c ≠ [] ∧ c ≠ dot ∧ c ≠ dotdot ∧ '/' ∉ c

instance (c : List Char) : Decidable (Clean c) := by unfold Clean; infer_instance

/-! ## `splitOnSlash` / `joinSlash` -/

theorem splitOnSlash_ne_nil (s : List Char) : splitOnSlash s ≠ [] := by
  cases s with
  | nil => simp [splitOnSlash]
  | cons c cs =>
    simp only [splitOnSlash]
    split
    · simp
    · cases h : splitOnSlash cs <;> simp [consHead]

theorem consHead_append (c : Char) {l : List (List Char)} (h : l ≠ []) (m : List (List Char)) :
    consHead c (l ++ m) = consHead c l ++ m := by
  cases l with
  | nil => exact absurd rfl h
  | cons x xs => simp [consHead]

/-- `(a + '/' + b).split('/') = a.split('/') + b.split('/')` -/
theorem splitOnSlash_append_slash (a b : List Char) :
    splitOnSlash (a ++ '/' :: b) = splitOnSlash a ++ splitOnSlash b := by
  induction a with
  | nil => simp [splitOnSlash]
  | cons c cs ih =>
    simp only [List.cons_append, splitOnSlash]
    split
    · simp [ih]
    · rw [ih, consHead_append c (splitOnSlash_ne_nil cs)]

theorem splitOnSlash_noSlash {a : List Char} (h : '/' ∉ a) : splitOnSlash a = [a] := by
  induction a with
  | nil => simp [splitOnSlash]
  | cons c cs ih =>
    have hc : c ≠ '/' := fun e => h (by simp [e])
    have hcs : '/' ∉ cs := fun e => h (by simp [e])
    simp [splitOnSlash, hc, ih hcs, consHead]

/-- every component produced by `split('/')` is slash-free -/
theorem noSlash_of_mem_splitOnSlash {s : List Char} :
    ∀ {c : List Char}, c ∈ splitOnSlash s → '/' ∉ c := by
  induction s with
  | nil => intro c hc; simp [splitOnSlash] at hc; simp [hc]
  | cons x xs ih =>
    intro c hc
    simp only [splitOnSlash] at hc
    split at hc
    · rcases List.mem_cons.1 hc with rfl | h
      · simp
      · exact ih h
    · rename_i hx
      cases hsp : splitOnSlash xs with
      | nil => exact absurd hsp (splitOnSlash_ne_nil xs)
      | cons y ys =>
        rw [hsp] at hc ih
        simp only [consHead] at hc
        rcases List.mem_cons.1 hc with rfl | h
        · have : '/' ∉ y := ih (by simp)
          intro hm
          rcases List.mem_cons.1 hm with e | e
          · exact hx e.symm
          · exact this e
        · exact ih (by simp [h])

theorem joinSlash_cons {x : List Char} {l : List (List Char)} (h : l ≠ []) :
    joinSlash (x :: l) = x ++ '/' :: joinSlash l := by
  cases l with
  | nil => exact absurd rfl h
  | cons y ys => simp [joinSlash]

theorem joinSlash_consHead (c : Char) {l : List (List Char)} (h : l ≠ []) :
    joinSlash (consHead c l) = c :: joinSlash l := by
  match l, h with
  | [x], _ => simp [consHead, joinSlash]
  | x :: y :: ys, _ => simp [consHead, joinSlash]

/-- `'/'.join(s.split('/')) == s` -/
theorem joinSlash_splitOnSlash (s : List Char) : joinSlash (splitOnSlash s) = s := by
  induction s with
  | nil => simp [splitOnSlash, joinSlash]
  | cons c cs ih =>
    simp only [splitOnSlash]
    split
    · rename_i h
      rw [joinSlash_cons (splitOnSlash_ne_nil cs), ih, h]; rfl
    · rw [joinSlash_consHead c (splitOnSlash_ne_nil cs), ih]

/-- `'/'.join(comps).split('/') == comps` for a non-empty list of slash-free components -/
theorem splitOnSlash_joinSlash {comps : List (List Char)} (hne : comps ≠ [])
    (hns : ∀ c ∈ comps, '/' ∉ c) : splitOnSlash (joinSlash comps) = comps := by
  induction comps with
  | nil => exact absurd rfl hne
  | cons x l ih =>
    cases l with
    | nil => simpa [joinSlash] using splitOnSlash_noSlash (hns x (by simp))
    | cons y ys =>
      rw [joinSlash_cons (by simp), splitOnSlash_append_slash,
        splitOnSlash_noSlash (hns x (by simp)), ih (by simp) (fun c hc => hns c (by simp [hc]))]
      rfl

theorem splitOnSlash_replicate_append (n : Nat) (s : List Char) :
    splitOnSlash (List.replicate n '/' ++ s) = List.replicate n [] ++ splitOnSlash s := by
  induction n with
  | zero => simp
  | succ n ih => simp [List.replicate_succ, splitOnSlash, ih]

/-- joining with a new last component -/
theorem joinSlash_append_singleton {l : List (List Char)} (h : l ≠ []) (x : List Char) :
    joinSlash (l ++ [x]) = joinSlash l ++ '/' :: x := by
  induction l with
  | nil => exact absurd rfl h
  | cons y ys ih =>
    cases ys with
    | nil => simp [joinSlash]
    | cons z zs =>
      have e1 : joinSlash (y :: (z :: zs ++ [x])) = y ++ '/' :: joinSlash (z :: zs ++ [x]) :=
        joinSlash_cons (by simp)
      have e2 : joinSlash (y :: z :: zs) = y ++ '/' :: joinSlash (z :: zs) :=
        joinSlash_cons (by simp)
      rw [List.cons_append, e1, ih (by simp), e2]
      simp

theorem getLast?_append_of_ne_nil {α : Type} (l : List α) {l' : List α} (h : l' ≠ []) :
    (l ++ l').getLast? = l'.getLast? := by
  cases hgl : l'.getLast? with
  | none => exact absurd (List.getLast?_eq_none_iff.1 hgl) h
  | some a => simp [List.getLast?_append, hgl]

/-- the first character of a join of non-empty slash-free components is not a slash -/
theorem head?_joinSlash_ne_slash {comps : List (List Char)}
    (h : ∀ c ∈ comps, c ≠ [] ∧ '/' ∉ c) : (joinSlash comps).head? ≠ some '/' := by
  match comps, h with
  | [], _ => simp [joinSlash]
  | [x], h =>
    obtain ⟨hne, hns⟩ := h x (by simp)
    cases x with
    | nil => exact absurd rfl hne
    | cons a as =>
      simp only [joinSlash, List.head?_cons, ne_eq, Option.some.injEq]
      intro e; exact hns (by simp [e])
  | x :: y :: ys, h =>
    obtain ⟨hne, hns⟩ := h x (by simp)
    cases x with
    | nil => exact absurd rfl hne
    | cons a as =>
      simp only [joinSlash, List.cons_append, List.head?_cons, ne_eq, Option.some.injEq]
      intro e; exact hns (by simp [e])

/-- the last character of a join of non-empty slash-free components is not a slash -/
theorem getLast?_joinSlash_ne_slash {comps : List (List Char)}
    (h : ∀ c ∈ comps, c ≠ [] ∧ '/' ∉ c) : (joinSlash comps).getLast? ≠ some '/' := by
  induction comps with
  | nil => simp [joinSlash]
  | cons x l ih =>
    obtain ⟨hne, hns⟩ := h x (by simp)
    cases l with
    | nil =>
      simp only [joinSlash]
      intro e
      exact hns (List.mem_of_getLast? e)
    | cons y ys =>
      have ih' := ih (fun c hc => h c (by simp [hc]))
      rw [joinSlash_cons (by simp)]
      have hne2 : joinSlash (y :: ys) ≠ [] := by
        obtain ⟨hy, _⟩ := h y (by simp)
        cases ys with
        | nil => simpa [joinSlash] using hy
        | cons z zs => cases y <;> simp [joinSlash] at hy ⊢
      intro e
      apply ih'
      rw [← e, getLast?_append_of_ne_nil x (l' := '/' :: joinSlash (y :: ys)) (by simp)]
      cases hj : joinSlash (y :: ys) with
      | nil => exact absurd hj hne2
      | cons a as => rw [List.getLast?_cons_cons]

/-! ## strip -/

theorem lstripSlash_of_head_ne {s : List Char} (h : s.head? ≠ some '/') : lstripSlash s = s := by
  cases s with
  | nil => rfl
  | cons a as =>
    have : a ≠ '/' := by simpa using h
    simp [lstripSlash, List.dropWhile, this]

theorem lstripSlash_replicate_append (n : Nat) (s : List Char) :
    lstripSlash (List.replicate n '/' ++ s) = lstripSlash s := by
  induction n with
  | zero => simp
  | succ n ih =>
    simp only [lstripSlash] at ih
    simp [lstripSlash, List.replicate_succ, ih]

theorem rstripSlash_of_getLast_ne {s : List Char} (h : s.getLast? ≠ some '/') :
    rstripSlash s = s := by
  unfold rstripSlash
  have : s.reverse.head? ≠ some '/' := by simpa [List.head?_reverse] using h
  have := lstripSlash_of_head_ne this
  unfold lstripSlash at this
  rw [this, List.reverse_reverse]

theorem rstripSlash_append_slash (s : List Char) :
    rstripSlash (s ++ ['/']) = rstripSlash s := by
  simp [rstripSlash]

/-! ## the `normpath` loop invariant -/

/-- `comp` is something the loop would push on top of `rest` -/
def Pushable (abs : Bool) (rest : List (List Char)) (c : List Char) : Prop :=
  c ≠ [] ∧ c ≠ dot ∧ '/' ∉ c ∧
    (c ≠ dotdot ∨ (abs = false ∧ rest = []) ∨ rest.head? = some dotdot)

/-- Stack invariant (`stk` is `new_comps` reversed): each entry was pushable on what is below
    it.  For `abs = true` this means: all entries are `Clean`; for `abs = false`: clean entries
    on top of a run of `..`. -/
def WF (abs : Bool) : List (List Char) → Prop
  | [] => True
  | c :: rest => Pushable abs rest c ∧ WF abs rest

theorem WF.tail {abs : Bool} {stk : List (List Char)} (h : WF abs stk) : WF abs stk.tail := by
  cases stk with
  | nil => exact h
  | cons c rest => exact h.2

theorem step_WF {abs : Bool} {stk : List (List Char)} {comp : List Char}
    (h : WF abs stk) (hns : '/' ∉ comp) : WF abs (step abs stk comp) := by
  unfold step
  split
  · exact h
  · rename_i h1
    split
    · rename_i h2
      exact ⟨⟨fun e => h1 (Or.inl e), fun e => h1 (Or.inr e), hns, h2⟩, h⟩
    · exact h.tail

theorem foldl_step_WF {abs : Bool} (comps : List (List Char)) :
    ∀ {stk : List (List Char)}, WF abs stk → (∀ c ∈ comps, '/' ∉ c) →
      WF abs (comps.foldl (step abs) stk) := by
  induction comps with
  | nil => intro stk h _; exact h
  | cons c cs ih =>
    intro stk h hns
    exact ih (step_WF h (hns c (by simp))) (fun d hd => hns d (by simp [hd]))

theorem normStack_WF (p : List Char) : WF (initialSlashes p != 0) (normStack p) :=
  foldl_step_WF _ (stk := []) trivial (fun _ hc => noSlash_of_mem_splitOnSlash hc)

/-- in an absolute path every stack entry is clean -/
theorem WF_true_clean {stk : List (List Char)} (h : WF true stk) : ∀ c ∈ stk, Clean c := by
  induction stk with
  | nil => intro c hc; cases hc
  | cons x xs ih =>
    have ihx := ih h.2
    intro c hc
    rcases List.mem_cons.1 hc with rfl | hc
    · obtain ⟨⟨h1, h2, h3, h4⟩, _⟩ := h
      refine ⟨h1, h2, ?_, h3⟩
      intro e
      rcases h4 with h4 | ⟨h4, _⟩ | h4
      · exact h4 e
      · cases h4
      · cases xs with
        | nil => simp at h4
        | cons y ys =>
          simp only [List.head?_cons, Option.some.injEq] at h4
          exact (ihx y (by simp)).2.2.1 h4
    · exact ihx c hc

theorem WF_nonempty_noSlash {abs : Bool} {stk : List (List Char)} (h : WF abs stk) :
    ∀ c ∈ stk, c ≠ [] ∧ '/' ∉ c := by
  induction stk with
  | nil => intro c hc; cases hc
  | cons x xs ih =>
    intro c hc
    rcases List.mem_cons.1 hc with rfl | hc
    · exact ⟨h.1.1, h.1.2.2.1⟩
    · exact ih h.2 c hc

theorem step_empty (abs : Bool) (stk : List (List Char)) : step abs stk [] = stk := by
  simp [step]

theorem foldl_step_replicate_nil (abs : Bool) (n : Nat) (stk : List (List Char)) :
    (List.replicate n ([] : List Char)).foldl (step abs) stk = stk := by
  induction n with
  | zero => rfl
  | succ n ih => simp [List.replicate_succ, step_empty, ih]

/-- replaying a well-formed stack through the loop rebuilds it -/
theorem foldl_step_reverse {abs : Bool} (l : List (List Char)) :
    ∀ acc : List (List Char), WF abs (l ++ acc) →
      l.reverse.foldl (step abs) acc = l ++ acc := by
  induction l with
  | nil => intro acc _; rfl
  | cons c l ih =>
    intro acc h
    have hp : Pushable abs (l ++ acc) c := h.1
    rw [List.reverse_cons, List.foldl_append, ih acc h.2]
    obtain ⟨h1, h2, _, h4⟩ := hp
    simp only [List.foldl_cons, List.foldl_nil, step]
    rw [if_neg (by intro e; rcases e with e | e; exact h1 e; exact h2 e), if_pos h4]
    rfl

/-! ## `initialSlashes` -/

theorem initialSlashes_le_two (p : List Char) : initialSlashes p ≤ 2 := by
  unfold initialSlashes
  repeat' split
  all_goals omega

theorem initialSlashes_pos_of_abs {p : List Char} (h : p.head? = some '/') :
    initialSlashes p = 1 ∨ initialSlashes p = 2 := by
  cases p with
  | nil => simp at h
  | cons a r =>
    have ha : a = '/' := by simpa using h
    subst ha
    simp only [initialSlashes, if_true]
    repeat' split
    all_goals simp

theorem initialSlashes_eq_zero_of_not_abs {p : List Char} (h : p.head? ≠ some '/') :
    initialSlashes p = 0 := by
  cases p with
  | nil => rfl
  | cons a r =>
    have ha : a ≠ '/' := by simpa using h
    simp [initialSlashes, ha]

/-- a canonical string has the number of leading slashes it was built with -/
theorem initialSlashes_canon {n : Nat} (hn : n ≤ 2) {b : List Char} (hb : b.head? ≠ some '/') :
    initialSlashes (List.replicate n '/' ++ b) = n := by
  have h0 : ∀ b : List Char, b.head? ≠ some '/' → initialSlashes b = 0 :=
    fun b => initialSlashes_eq_zero_of_not_abs
  match n, hn with
  | 0, _ => simpa using h0 b hb
  | 1, _ =>
    cases b with
    | nil => rfl
    | cons x xs =>
      have hx : x ≠ '/' := by simpa using hb
      simp [List.replicate, initialSlashes, hx]
  | 2, _ =>
    cases b with
    | nil => rfl
    | cons x xs =>
      have hx : x ≠ '/' := by simpa using hb
      simp [List.replicate, initialSlashes, hx]

/-! ## canonical form of `normpath` results -/

/-- Every `normpath` result has the shape `'/'*n + '/'.join(comps)` (or is `.`). -/
theorem normpath_eq (p : List Char) (hp : p ≠ []) :
    normpath p =
      (let r := List.replicate (initialSlashes p) '/' ++ joinSlash (normStack p).reverse
       if r = [] then dot else r) := by
  simp [normpath, hp]

/-- A string in canonical form is a fixed point of `normpath`. -/
theorem normpath_canon {n : Nat} (hn : n ≤ 2) {stk : List (List Char)} (hwf : WF (n != 0) stk)
    (hne : List.replicate n '/' ++ joinSlash stk.reverse ≠ []) :
    normpath (List.replicate n '/' ++ joinSlash stk.reverse) =
      List.replicate n '/' ++ joinSlash stk.reverse := by
  have hcomp : ∀ c ∈ stk.reverse, c ≠ [] ∧ '/' ∉ c := fun c hc =>
    WF_nonempty_noSlash hwf c (List.mem_reverse.1 hc)
  have hinit : initialSlashes (List.replicate n '/' ++ joinSlash stk.reverse) = n :=
    initialSlashes_canon hn (head?_joinSlash_ne_slash hcomp)
  have hstack : normStack (List.replicate n '/' ++ joinSlash stk.reverse) = stk := by
    unfold normStack
    rw [hinit, splitOnSlash_replicate_append, List.foldl_append, foldl_step_replicate_nil]
    by_cases hs : stk = []
    · subst hs; simp [joinSlash, splitOnSlash, step_empty]
    · rw [splitOnSlash_joinSlash (by simpa using hs) (fun c hc => (hcomp c hc).2)]
      simpa using foldl_step_reverse stk [] (by simpa using hwf)
  rw [normpath_eq _ hne]
  simp only [hinit, hstack]
  rw [if_neg hne]

theorem normpath_dot : normpath dot = dot := by decide

/-- **Idempotence**, for every input. -/
theorem normpath_idempotent (p : List Char) : normpath (normpath p) = normpath p := by
  by_cases hp : p = []
  · subst hp; decide
  · rw [normpath_eq p hp]
    simp only
    split
    · exact normpath_dot
    · rename_i hne
      exact normpath_canon (initialSlashes_le_two p) (normStack_WF p) hne

/-! ## absolute paths -/

/-- Structure theorem for absolute inputs: the result is one or two slashes followed by the
    `/`-join of clean components. -/
theorem normpath_abs_structure {p : List Char} (h : p.head? = some '/') :
    ∃ (n : Nat) (comps : List (List Char)),
      (n = 1 ∨ n = 2) ∧ n = initialSlashes p ∧ (∀ c ∈ comps, Clean c) ∧
      WF true comps.reverse ∧
      normpath p = List.replicate n '/' ++ joinSlash comps := by
  have hp : p ≠ [] := by intro e; simp [e] at h
  have hn := initialSlashes_pos_of_abs h
  have hb : (initialSlashes p != 0) = true := by rcases hn with e | e <;> simp [e]
  have hwf := normStack_WF p
  rw [hb] at hwf
  refine ⟨initialSlashes p, (normStack p).reverse, hn, rfl, ?_, by simpa using hwf, ?_⟩
  · intro c hc; exact WF_true_clean hwf c (List.mem_reverse.1 hc)
  · rw [normpath_eq p hp]
    simp only
    rw [if_neg]
    rcases hn with e | e <;> simp [e, List.replicate]

theorem normpath_abs_starts_slash {p : List Char} (h : p.head? = some '/') :
    (normpath p).head? = some '/' := by
  obtain ⟨n, comps, hn, _, _, _, heq⟩ := normpath_abs_structure h
  rw [heq]
  rcases hn with e | e <;> simp [e, List.replicate]

theorem clean_nonempty_noSlash {comps : List (List Char)} (h : ∀ c ∈ comps, Clean c) :
    ∀ c ∈ comps, c ≠ [] ∧ '/' ∉ c := fun c hc => ⟨(h c hc).1, (h c hc).2.2.2⟩

/-- What `.lstrip('/')` leaves of a normalised absolute path: the join of its components. -/
theorem lstrip_normpath_abs {p : List Char} (h : p.head? = some '/') :
    ∃ comps : List (List Char), (∀ c ∈ comps, Clean c) ∧
      lstripSlash (normpath p) = joinSlash comps ∧
      normpath p = List.replicate (initialSlashes p) '/' ++ joinSlash comps := by
  obtain ⟨n, comps, _, hn, hclean, _, heq⟩ := normpath_abs_structure h
  refine ⟨comps, hclean, ?_, hn ▸ heq⟩
  rw [heq, lstripSlash_replicate_append,
    lstripSlash_of_head_ne (head?_joinSlash_ne_slash (clean_nonempty_noSlash hclean))]

/-- **Components are clean**: for an absolute `p`, after removing the leading slash(es) of
    `normpath p` either nothing is left (the result is `/` or `//`) or every component is
    non-empty, not `.`, not `..` and slash-free. -/
theorem normpath_components_clean {p : List Char} (h : p.head? = some '/') :
    (lstripSlash (normpath p) = [] ∧ (normpath p = ['/'] ∨ normpath p = ['/', '/'])) ∨
    (∀ c ∈ splitOnSlash (lstripSlash (normpath p)), Clean c) := by
  obtain ⟨comps, hclean, hl, heq⟩ := lstrip_normpath_abs h
  by_cases hc : comps = []
  · left
    subst hc
    refine ⟨by simpa [joinSlash] using hl, ?_⟩
    rw [heq]
    rcases initialSlashes_pos_of_abs h with e | e <;> simp [e, joinSlash, List.replicate]
  · right
    rw [hl, splitOnSlash_joinSlash hc (fun c hm => (hclean c hm).2.2.2)]
    exact hclean

/-- Same statement phrased with "drop exactly the `initial_slashes` leading characters". -/
theorem normpath_components_clean_drop {p : List Char} (h : p.head? = some '/') :
    (normpath p).drop (initialSlashes p) = lstripSlash (normpath p) := by
  obtain ⟨comps, _, hl, heq⟩ := lstrip_normpath_abs h
  rw [hl]
  conv => lhs; rw [heq]
  simp

/-! ## `join` under a root: lexical confinement -/

theorem join_rel {root rel : List Char} (hr : root ≠ []) (hl : root.getLast? ≠ some '/')
    (hrel : rel.head? ≠ some '/') : join root rel = root ++ '/' :: rel := by
  simp [join, hrel, hr, hl]

/-- **Lexical confinement lemma.**  `rel = normpath(p).lstrip('/')` joined to a root that does
    not end in a slash is `root + '/' + rel`, and the components after those of the root are
    exactly the (clean) components of `rel`. -/
theorem join_lstrip_under_root {p root : List Char} (h : p.head? = some '/')
    (hr : root ≠ []) (hl : root.getLast? ≠ some '/') :
    let rel := lstripSlash (normpath p)
    join root rel = root ++ '/' :: rel ∧
    ((rel = [] ∧ join root rel = root ++ ['/']) ∨
     (∃ comps : List (List Char), comps ≠ [] ∧ (∀ c ∈ comps, Clean c) ∧ rel = joinSlash comps ∧
        splitOnSlash (join root rel) = splitOnSlash root ++ comps)) := by
  intro rel
  obtain ⟨comps, hclean, hrel, _⟩ := lstrip_normpath_abs h
  have hhead : rel.head? ≠ some '/' := by
    show (lstripSlash (normpath p)).head? ≠ some '/'
    rw [hrel]; exact head?_joinSlash_ne_slash (clean_nonempty_noSlash hclean)
  have hj := join_rel hr hl hhead
  refine ⟨hj, ?_⟩
  by_cases hc : comps = []
  · left
    have : rel = [] := by
      show lstripSlash (normpath p) = []
      rw [hrel, hc]; rfl
    exact ⟨this, by rw [hj, this]⟩
  · right
    refine ⟨comps, hc, hclean, hrel, ?_⟩
    rw [hj, splitOnSlash_append_slash]
    show _ ++ splitOnSlash (lstripSlash (normpath p)) = _
    rw [hrel, splitOnSlash_joinSlash hc (fun c hm => (hclean c hm).2.2.2)]

/-- `f` is lexically inside `root`: it is `root` itself or `root + '/' + rest` where no
    component of `rest` is `..`. -/
def Confined (root f : List Char) : Prop :=
  f = root ∨ ∃ rest : List Char, f = root ++ '/' :: rest ∧ ∀ c ∈ splitOnSlash rest, c ≠ dotdot

/-- **Confinement.**  For every absolute request path `p` the backing path
    `join(root, normpath(p).lstrip('/'))` is confined to `root`. -/
theorem confined_join_normpath {p root : List Char} (h : p.head? = some '/')
    (hr : root ≠ []) (hl : root.getLast? ≠ some '/') :
    Confined root (join root (lstripSlash (normpath p))) := by
  obtain ⟨hj, hcases⟩ := join_lstrip_under_root h hr hl
  right
  refine ⟨lstripSlash (normpath p), hj, ?_⟩
  rcases normpath_components_clean h with ⟨he, _⟩ | hc
  · rw [he]; intro c hc; simp [splitOnSlash] at hc; subst hc; decide
  · intro c hm; exact (hc c hm).2.2.1

/-! ## `split` on normalised paths (DELETE handler: `posixpath.split(path.rstrip('/'))`) -/

theorem allSlash_replicate (n : Nat) : allSlash (List.replicate n '/') = true := by
  simp [allSlash]

theorem allSlash_append (a b : List Char) : allSlash (a ++ b) = (allSlash a && allSlash b) := by
  simp [allSlash]

theorem allSlash_eq_false {s : List Char} (hne : s ≠ []) (h : s.getLast? ≠ some '/') :
    allSlash s = false := by
  cases hs : allSlash s with
  | false => rfl
  | true =>
    exfalso
    simp only [allSlash, List.all_eq_true, decide_eq_true_eq] at hs
    cases hgl : s.getLast? with
    | none => exact hne (List.getLast?_eq_none_iff.1 hgl)
    | some a => exact h (by rw [hgl, hs a (List.mem_of_getLast? hgl)])

theorem allSlash_false_of_getLast {s : List Char} (hne : s ≠ []) (h : s.getLast? ≠ some '/') :
    allSlash (s ++ ['/']) = false := by
  rw [allSlash_append, allSlash_eq_false hne h]; rfl

/-- `split` of `pre + '/' + last` with `last` slash-free -/
theorem split_append_slash (pre last : List Char) (hl : '/' ∉ last) :
    split (pre ++ '/' :: last) =
      (if allSlash (pre ++ ['/']) then pre ++ ['/'] else rstripSlash (pre ++ ['/']), last) := by
  have hall : ∀ x ∈ last.reverse, (decide (x ≠ '/')) = true := by
    intro x hx; simp only [decide_eq_true_eq]; intro e; exact hl (e ▸ List.mem_reverse.1 hx)
  have e1 : (pre ++ '/' :: last).reverse = last.reverse ++ '/' :: pre.reverse := by simp
  have htake : ((pre ++ '/' :: last).reverse.takeWhile (fun x => decide (x ≠ '/'))) = last.reverse := by
    rw [e1, List.takeWhile_append_of_pos hall]; simp [List.takeWhile]
  have hdrop : ((pre ++ '/' :: last).reverse.dropWhile (fun x => decide (x ≠ '/'))) = '/' :: pre.reverse := by
    rw [e1, List.dropWhile_append_of_pos hall]; simp [List.dropWhile]
  unfold split
  simp only [htake, hdrop]
  simp

/-- **split / join round trip** for normalised absolute paths with at least one component. -/
theorem split_normpath_abs {p : List Char} (h : p.head? = some '/')
    (hne : lstripSlash (normpath p) ≠ []) :
    let q := normpath p
    let parent := (split (rstripSlash q)).1
    let last := (split (rstripSlash q)).2
    rstripSlash q = q ∧ Clean last ∧ join parent last = q ∧
    parent.head? = some '/' ∧ normpath parent = parent ∧
    (allSlash parent = true → parent ++ last = q) ∧
    (parent = ['/'] → '/' :: last = q) ∧
    (allSlash parent = false → parent ++ '/' :: last = q) := by
  obtain ⟨n, comps, hn, _, hclean, hwf, heq⟩ := normpath_abs_structure h
  have hcne : comps ≠ [] := by
    intro e; apply hne
    rw [heq, e, lstripSlash_replicate_append]; rfl
  -- peel the last component
  obtain ⟨init, last, rfl⟩ : ∃ init last, comps = init ++ [last] :=
    ⟨comps.dropLast, comps.getLast hcne, (List.dropLast_concat_getLast hcne).symm⟩
  have hlast : Clean last := hclean last (by simp)
  have hinit : ∀ c ∈ init, Clean c := fun c hc => hclean c (by simp [hc])
  have hwfi : WF true init.reverse := by
    have : WF true (last :: init.reverse) := by simpa using hwf
    exact this.2
  have hnb : (n != 0) = true := by rcases hn with e | e <;> simp [e]
  have hn2 : n ≤ 2 := by omega
  have hrs : rstripSlash (normpath p) = normpath p := by
    apply rstripSlash_of_getLast_ne
    rw [heq]
    have := getLast?_joinSlash_ne_slash (clean_nonempty_noSlash hclean)
    have hj : joinSlash (init ++ [last]) ≠ [] := by
      intro e; apply hne; rw [heq, lstripSlash_replicate_append, e]; rfl
    rwa [getLast?_append_of_ne_nil _ hj]
  intro q parent last'
  have hq : q = List.replicate n '/' ++ joinSlash (init ++ [last]) := heq
  show rstripSlash q = q ∧ Clean last' ∧ join parent last' = q ∧ _
  have hhead : ∀ b : List Char, (List.replicate n '/' ++ b).head? = some '/' := by
    intro b; rcases hn with e | e <;> simp [e, List.replicate]
  have hlh : last.head? ≠ some '/' := by
    intro e; exact hlast.2.2.2 (List.mem_of_mem_head? e)
  by_cases hi : init = []
  · -- parent consists only of the leading slashes
    subst hi
    have hq' : q = List.replicate n '/' ++ last := by simpa [joinSlash] using hq
    obtain ⟨m, rfl⟩ : ∃ m, n = m + 1 := ⟨n - 1, by omega⟩
    have hq'' : q = List.replicate m '/' ++ '/' :: last := by
      rw [hq', List.replicate_succ']; simp
    have hsp : split (rstripSlash q) = (List.replicate (m + 1) '/', last) := by
      rw [show rstripSlash q = q from hrs, hq'', split_append_slash _ _ hlast.2.2.2]
      rw [show List.replicate m '/' ++ ['/'] = List.replicate (m + 1) '/' from
        (List.replicate_succ').symm, allSlash_replicate]
      rfl
    have hpar : parent = List.replicate (m + 1) '/' := congrArg Prod.fst hsp
    have hla : last' = last := congrArg Prod.snd hsp
    have hall : allSlash parent = true := hpar ▸ allSlash_replicate _
    refine ⟨hrs, hla ▸ hlast, ?_, ?_, ?_, ?_, ?_, ?_⟩
    · rw [hpar, hla, hq']
      have : (List.replicate (m + 1) '/').getLast? = some '/' := by
        simp [List.getLast?_replicate]
      simp [join, hlh, this]
    · rw [hpar]; simp [List.replicate_succ]
    · rw [hpar]
      have := normpath_canon (n := m + 1) hn2 (stk := []) trivial (by simp [List.replicate_succ])
      simpa [joinSlash] using this
    · intro _; rw [hpar, hla, hq']
    · intro e; rw [hla, hq', ← hpar, e]; rfl
    · intro e; rw [hall] at e; cases e
  · -- parent is a normalised path with at least one component
    have hji : joinSlash (init ++ [last]) = joinSlash init ++ '/' :: last :=
      joinSlash_append_singleton hi last
    have hq' : q = (List.replicate n '/' ++ joinSlash init) ++ '/' :: last := by
      rw [hq, hji]; simp
    have hgl : (List.replicate n '/' ++ joinSlash init).getLast? ≠ some '/' := by
      have hj : joinSlash init ≠ [] := by
        cases init with
        | nil => exact absurd rfl hi
        | cons x xs =>
          have hx := (hinit x (by simp)).1
          cases xs with
          | nil => simpa [joinSlash] using hx
          | cons y ys => cases x <;> simp [joinSlash] at hx ⊢
      rw [getLast?_append_of_ne_nil _ hj]
      exact getLast?_joinSlash_ne_slash (clean_nonempty_noSlash hinit)
    have hpne : List.replicate n '/' ++ joinSlash init ≠ [] := by
      rcases hn with e | e <;> simp [e, List.replicate]
    have hsp : split (rstripSlash q) = (List.replicate n '/' ++ joinSlash init, last) := by
      rw [show rstripSlash q = q from hrs, hq', split_append_slash _ _ hlast.2.2.2,
        allSlash_false_of_getLast hpne hgl]
      simp only [Bool.false_eq_true, if_false]
      rw [rstripSlash_append_slash, rstripSlash_of_getLast_ne hgl]
    have hpar : parent = List.replicate n '/' ++ joinSlash init := congrArg Prod.fst hsp
    have hla : last' = last := congrArg Prod.snd hsp
    have hnall : allSlash parent = false := hpar ▸ allSlash_eq_false hpne hgl
    refine ⟨hrs, hla ▸ hlast, ?_, ?_, ?_, ?_, ?_, ?_⟩
    · rw [hpar, hla, hq']
      simp only [join, hlh, if_false]
      rw [if_neg]
      intro e; rcases e with e | e
      · exact hpne e
      · exact hgl e
    · rw [hpar]; exact hhead _
    · rw [hpar]
      have := normpath_canon (n := n) hn2 (stk := init.reverse) (by rw [hnb]; exact hwfi)
        (by simpa using hpne)
      simpa using this
    · intro e; rw [hnall] at e; cases e
    · intro e; rw [e] at hnall; exact absurd hnall (by decide)
    · intro _; rw [hpar, hla, hq']

/-- the name the task statement uses -/
theorem split_join_roundtrip {p : List Char} (h : p.head? = some '/')
    (hne : lstripSlash (normpath p) ≠ []) :
    join (split (rstripSlash (normpath p))).1 (split (rstripSlash (normpath p))).2 = normpath p :=
  (split_normpath_abs h hne).2.2.1

/-! ## `Confined` is decidable (so that it can be tested and is visibly not trivially true) -/

theorem confined_iff (root f : List Char) :
    Confined root f ↔
      (f = root ∨ ((root ++ ['/']).isPrefixOf f = true ∧
        ∀ c ∈ splitOnSlash (f.drop (root.length + 1)), c ≠ dotdot)) := by
  unfold Confined
  constructor
  · rintro (h | ⟨rest, rfl, hr⟩)
    · exact Or.inl h
    · right
      refine ⟨?_, ?_⟩
      · rw [List.isPrefixOf_iff_prefix]
        exact ⟨rest, by simp⟩
      · have : (root ++ '/' :: rest).drop (root.length + 1) = rest := by
          rw [show root ++ '/' :: rest = (root ++ ['/']) ++ rest by simp]
          rw [List.drop_append_of_le_length (by simp)]
          simp
        rw [this]; exact hr
  · rintro (h | ⟨hp, hr⟩)
    · exact Or.inl h
    · right
      rw [List.isPrefixOf_iff_prefix] at hp
      obtain ⟨rest, rfl⟩ := hp
      refine ⟨rest, by simp, ?_⟩
      have : (root ++ ['/'] ++ rest).drop (root.length + 1) = rest := by
        rw [List.drop_append_of_le_length (by simp)]
        simp
      rwa [this] at hr

instance (root f : List Char) : Decidable (Confined root f) :=
  decidable_of_iff _ (confined_iff root f).symm

/-! ## the joined path is itself normalised when the root is

  This is the semantic content of confinement: when `root` is a normalised path (other than
  `.` and not ending in `/`), the backing path `join(root, normpath(p).lstrip('/'))` needs no
  further normalisation, i.e. collapsing `..` lexically can never climb out of `root`. -/

theorem step_clean (abs : Bool) (stk : List (List Char)) {c : List Char} (hc : Clean c) :
    step abs stk c = c :: stk := by
  obtain ⟨h1, h2, h3, _⟩ := hc
  unfold step
  rw [if_neg (by intro e; rcases e with e | e; exact h1 e; exact h2 e), if_pos (Or.inl h3)]

theorem foldl_step_clean (abs : Bool) (comps : List (List Char)) (hc : ∀ c ∈ comps, Clean c) :
    ∀ stk : List (List Char), comps.foldl (step abs) stk = comps.reverse ++ stk := by
  induction comps with
  | nil => intro stk; rfl
  | cons c cs ih =>
    intro stk
    rw [List.foldl_cons, step_clean abs stk (hc c (by simp)),
      ih (fun d hd => hc d (by simp [hd]))]
    simp

theorem joinSlash_append {a b : List (List Char)} (ha : a ≠ []) (hb : b ≠ []) :
    joinSlash (a ++ b) = joinSlash a ++ '/' :: joinSlash b := by
  induction a with
  | nil => exact absurd rfl ha
  | cons x xs ih =>
    cases xs with
    | nil => simpa [joinSlash] using joinSlash_cons (x := x) hb
    | cons y ys =>
      have e1 : joinSlash (x :: (y :: ys ++ b)) = x ++ '/' :: joinSlash (y :: ys ++ b) :=
        joinSlash_cons (by simp)
      have e2 : joinSlash (x :: y :: ys) = x ++ '/' :: joinSlash (y :: ys) :=
        joinSlash_cons (by simp)
      rw [List.cons_append, e1, ih (by simp), e2]
      simp

/-- a normalised path other than `.` is in canonical form -/
theorem canon_of_normpath_fixed {root : List Char} (hfix : normpath root = root)
    (hdot : root ≠ dot) :
    root = List.replicate (initialSlashes root) '/' ++ joinSlash (normStack root).reverse := by
  have hr : root ≠ [] := by
    intro e; rw [e] at hfix; exact absurd hfix (by decide)
  rw [normpath_eq root hr] at hfix
  simp only at hfix
  split at hfix
  · exact absurd hfix.symm hdot
  · exact hfix.symm

theorem normpath_join_under_root {p root : List Char} (h : p.head? = some '/')
    (hfix : normpath root = root) (hdot : root ≠ dot)
    (hr : root ≠ []) (hl : root.getLast? ≠ some '/') :
    let rel := lstripSlash (normpath p)
    normpath (join root rel) = if rel = [] then root else join root rel := by
  intro rel
  obtain ⟨hj, _⟩ := join_lstrip_under_root h hr hl
  obtain ⟨comps, hclean, hrel, _⟩ := lstrip_normpath_abs h
  have hrel' : rel = joinSlash comps := hrel
  -- canonical form of the root
  have hcan := canon_of_normpath_fixed hfix hdot
  have hwf := normStack_WF root
  generalize hn : initialSlashes root = n at hcan hwf
  generalize hs : normStack root = stk at hcan hwf
  have hn2 : n ≤ 2 := hn ▸ initialSlashes_le_two root
  have hstk : stk ≠ [] := by
    intro e
    subst e
    simp only [List.reverse_nil, joinSlash, List.append_nil] at hcan
    apply hl
    rw [hcan, List.getLast?_replicate]
    have : n ≠ 0 := by intro e; apply hr; rw [hcan, e]; rfl
    simp [this]
  have hcs := WF_nonempty_noSlash hwf
  have hb : (joinSlash stk.reverse).head? ≠ some '/' :=
    head?_joinSlash_ne_slash (fun c hc => hcs c (List.mem_reverse.1 hc))
  have hbne : joinSlash stk.reverse ≠ [] := by
    intro e; apply hl; rw [hcan, e, List.append_nil, List.getLast?_replicate]
    have : n ≠ 0 := by intro e'; apply hr; rw [hcan, e, e']; rfl
    simp [this]
  by_cases hc : comps = []
  · -- rel = "" : join root "" = root ++ "/"
    have hre : rel = [] := by rw [hrel', hc]; rfl
    rw [if_pos hre]
    show normpath (join root rel) = root
    rw [hj, show lstripSlash (normpath p) = [] from hre]
    have hne : root ++ ['/'] ≠ [] := by simp
    have hinit : initialSlashes (root ++ ['/']) = n := by
      rw [hcan, List.append_assoc]
      apply initialSlashes_canon hn2
      cases hjs : joinSlash stk.reverse with
      | nil => exact absurd hjs hbne
      | cons a as => rw [hjs] at hb; simpa using hb
    have hstack : normStack (root ++ ['/']) = stk := by
      unfold normStack
      rw [hinit, splitOnSlash_append_slash]
      rw [List.foldl_append]
      have : List.foldl (step (n != 0)) [] (splitOnSlash root) = stk := by
        have := hs; unfold normStack at this; rw [hn] at this; exact this
      rw [this]
      simp [splitOnSlash, step_empty]
    rw [normpath_eq _ hne]
    simp only [hinit, hstack]
    rw [← hcan, if_neg hr]
  · have hre : rel ≠ [] := by
      rw [hrel']
      intro e
      have := splitOnSlash_joinSlash hc (fun c hm => (hclean c hm).2.2.2)
      rw [e] at this
      simp only [splitOnSlash] at this
      obtain ⟨x, hx⟩ : ∃ x, comps = [x] := by
        cases comps with
        | nil => exact absurd rfl hc
        | cons x xs => cases xs with
          | nil => exact ⟨x, rfl⟩
          | cons y ys => simp at this
      rw [hx] at this
      exact (hclean x (by simp [hx])).1 (by simpa using this.symm)
    rw [if_neg hre]
    show normpath (join root rel) = join root rel
    rw [hj, hrel]
    -- root ++ '/' ++ rel is canonical with stack comps.reverse ++ stk
    have hwf2 : WF (n != 0) (comps.reverse ++ stk) := by
      have := foldl_step_WF (abs := (n != 0)) comps hwf (fun c hm => (hclean c hm).2.2.2)
      rwa [foldl_step_clean _ comps hclean] at this
    have hshape : root ++ '/' :: joinSlash comps =
        List.replicate n '/' ++ joinSlash (comps.reverse ++ stk).reverse := by
      rw [List.reverse_append, List.reverse_reverse,
        joinSlash_append (by simpa using hstk) hc, ← List.append_assoc, ← hcan]
    rw [hshape]
    exact normpath_canon hn2 hwf2 (by rw [← hshape]; simp)

/-! ## non-vacuity: the hypotheses are satisfiable and the conclusions have content -/

section Examples

/-- the running example -/
def exP : List Char := "/a/../../b//./c".toList
def exRoot : List Char := "/srv/dav".toList

example : exP.head? = some '/' := by decide
example : normpath exP = "/b/c".toList := by decide
example : lstripSlash (normpath exP) = "b/c".toList := by decide
example : lstripSlash (normpath exP) ≠ [] := by decide
example : splitOnSlash (lstripSlash (normpath exP)) = ["b".toList, "c".toList] := by decide
example : ∀ c ∈ splitOnSlash (lstripSlash (normpath exP)), Clean c := by decide
example : exRoot ≠ [] ∧ exRoot.getLast? ≠ some '/' ∧ normpath exRoot = exRoot ∧ exRoot ≠ dot := by
  decide
example : join exRoot (lstripSlash (normpath exP)) = "/srv/dav/b/c".toList := by decide
example : split (rstripSlash (normpath exP)) = ("/b".toList, "c".toList) := by decide
example : Confined exRoot (join exRoot (lstripSlash (normpath exP))) :=
  confined_join_normpath (by decide) (by decide) (by decide)
-- instances of the general theorems at the running example (hypotheses discharged by `decide`)
example := normpath_components_clean (p := exP) (by decide)
example := join_lstrip_under_root (p := exP) (root := exRoot) (by decide) (by decide) (by decide)
example := split_normpath_abs (p := exP) (by decide) (by decide)
example := normpath_join_under_root (p := exP) (root := exRoot) (by decide) (by decide)
  (by decide) (by decide) (by decide)

-- both disjuncts of `normpath_components_clean` occur
example : normpath "/..//.".toList = ['/'] := by decide
example : normpath "//..".toList = ['/', '/'] := by decide
example : normpath "///..".toList = ['/'] := by decide
-- `Clean` rejects what it should
example : ¬ Clean dotdot ∧ ¬ Clean dot ∧ ¬ Clean [] ∧ ¬ Clean "a/b".toList ∧ Clean "..a".toList := by
  decide
-- `Confined` is not trivially true: the un-normalised join escapes, siblings are outside
example : ¬ Confined exRoot (join exRoot "../../etc/passwd".toList) := by decide
example : ¬ Confined exRoot "/srv/davx/f".toList := by decide
example : ¬ Confined exRoot "/srv/dav/a/../../x".toList := by decide
example : Confined exRoot exRoot := by decide
example : Confined exRoot "/srv/dav/".toList := by decide
-- why the absolute-path hypothesis matters: relative inputs keep leading `..`
example : normpath "a/../../b".toList = "../b".toList := by decide
example : ¬ Confined exRoot (join exRoot (lstripSlash (normpath "a/../../b".toList))) := by decide
-- split corner cases
example : split "//a".toList = ("//".toList, "a".toList) := by decide
example : split "/a".toList = ("/".toList, "a".toList) := by decide
example : split "a".toList = ([], "a".toList) := by decide
example : split "/a//".toList = ("/a".toList, []) := by decide

end Examples

end Xandikos.Py.Path
