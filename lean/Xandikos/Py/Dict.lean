/-
  Python `dict` with string keys as an insertion-ordered association list (what the translated
  generator functions of harness/translate.py use): `d[k]` (KeyError as a value), `d[k] = v`
  (a present key keeps its position), `del d[k]`, `d.items()`, a dict comprehension.
-/
import Xandikos.Py.Prelude

namespace Xandikos.Py

abbrev Dict (ν : Type) := List (String × ν)

/-- `s.add(x)` on a set kept as a list without duplicates -/
def setAdd (s : List String) (x : String) : List String := if s.contains x then s else s ++ [x]

/-- `set(a) | b` -/
def setUnion (a b : List String) : List String := a ++ b.filter fun x => !a.contains x

namespace Dict
variable {ν : Type}

/-- `d[k]` -/
def get (d : Dict ν) (k : String) : Option ν := d.lookup k

/-- `d[k] = v` -/
def set : Dict ν → String → ν → Dict ν
  | [], k, v => [(k, v)]
  | (k', v') :: rest, k, v => if k' == k then (k', v) :: rest else (k', v') :: set rest k v

/-- `{k: v for (k, v) in pairs}` -/
def ofList (pairs : List (String × ν)) : Dict ν := pairs.foldl (fun d p => set d p.1 p.2) []

/-- `del d[k]`: KeyError when the key is missing -/
def del (d : Dict ν) (k : String) : Except PyErr (Dict ν) :=
  match d.lookup k with
  | some _ => pure (d.filter fun p => p.1 != k)
  | none => throw (.raised "KeyError" k)

/-- `d.setdefault(k, []).append(v)` for a dict of lists -/
def setdefaultAppend : Dict (List String) → String → String → Dict (List String)
  | [], k, v => [(k, [v])]
  | (k', vs) :: rest, k, v => if k' = k then (k', vs ++ [v]) :: rest else (k', vs) :: setdefaultAppend rest k v

/-- `dict.fromkeys(xs)` as a list of keys: first occurrences, in order -/
def fromkeys : List String → List String
  | [] => []
  | x :: xs => x :: (fromkeys xs).filter (· ≠ x)

/-! lemmas for the tie proofs -/

theorem set_of_not_mem (d : Dict ν) (k : String) (v : ν) (h : k ∉ d.map Prod.fst) :
    set d k v = d ++ [(k, v)] := by
  induction d with
  | nil => rfl
  | cons p rest ih =>
    obtain ⟨k', v'⟩ := p
    simp only [List.map_cons, List.mem_cons, not_or] at h
    have hne : (k' == k) = false := by
      simp only [beq_eq_false_iff_ne, ne_eq]; exact fun e => h.1 e.symm
    simp [set, hne, ih h.2]

/-- a comprehension over pairs with distinct keys is the list itself -/
theorem foldl_set_nodup (pairs : List (String × ν)) :
    ∀ (acc : Dict ν), ((acc ++ pairs).map Prod.fst).Nodup →
      pairs.foldl (fun d p => set d p.1 p.2) acc = acc ++ pairs := by
  induction pairs with
  | nil => intro acc _; simp
  | cons p rest ih =>
    intro acc hnd
    have hk : p.1 ∉ acc.map Prod.fst := by
      simp only [List.map_append, List.map_cons] at hnd
      have := (List.nodup_append.mp hnd).2.2
      intro hin
      exact this _ hin _ (by simp) rfl
    simp only [List.foldl_cons]
    rw [set_of_not_mem acc p.1 p.2 hk, ih]
    · simp
    · simpa using hnd

/-- a comprehension over pairs with distinct keys is the list itself -/
theorem ofList_nodup (pairs : List (String × ν)) (h : (pairs.map Prod.fst).Nodup) : ofList pairs = pairs := by
  simpa [ofList] using foldl_set_nodup pairs [] (by simpa using h)

end Dict
end Xandikos.Py
