/-
  `urljoin` of a clean collection path and an unquoted, multi-segment relative reference made of
  "plain" characters: the join is plain concatenation.  Generalises `urljoinChars_clean`
  (single quoted segment) of `UrlProofs.lean`.  Fully proved, core Lean only.
-/
import Xandikos.Py.UrlProofs

namespace Xandikos.Py.Url

/-- a character that `urlsplit`/`urljoin` treat as ordinary path text -/
def isPlainChar (c : Char) : Bool :=
  decide (32 < c.toNat) && c != '/' && c != '?' && c != '#' && c != ':' && c != ';'

/-- a proper path segment made of plain characters: non-empty, not `.`/`..` -/
def plainSeg (s : List Char) : Bool := okSeg s && s.all isPlainChar

/-- the relative reference `s₁/…/sₙ` (n ≥ 1), followed by `/` when `trail` -/
def relRef (segs : List (List Char)) (trail : Bool) : List Char :=
  joinWith '/' (segs ++ if trail then [[]] else [])

/-! ## split / join, continued -/

/-- `(a + sep + b).split(sep) == a.split(sep) + b.split(sep)` -/
theorem splitOn_append_sep (sep : Char) (a b : List Char) :
    splitOn sep (a ++ sep :: b) = splitOn sep a ++ splitOn sep b := by
  induction a with
  | nil => simp [splitOn]
  | cons c a ih =>
    by_cases hc : c = sep
    · simp [splitOn, hc, ih]
    · cases hs : splitOn sep a with
      | nil => exact absurd hs (splitOn_ne_nil _ _)
      | cons h t => simp [splitOn, hc, ih, hs]

/-- `sep.join(l).split(sep) == l` when `l` is non-empty and no part contains `sep` -/
theorem splitOn_joinWith (sep : Char) (l : List (List Char)) (hl : l ≠ [])
    (h : ∀ p ∈ l, sep ∉ p) : splitOn sep (joinWith sep l) = l := by
  induction l with
  | nil => exact absurd rfl hl
  | cons p ps ih =>
    cases ps with
    | nil => simpa [joinWith] using splitOn_of_not_mem sep p (h p (by simp))
    | cons q qs =>
      rw [joinWith_cons_cons, splitOn_append_sep, splitOn_of_not_mem sep p (h p (by simp)),
        ih (by simp) (fun x hx => h x (List.mem_cons_of_mem _ hx))]
      rfl

theorem joinWith_append (sep : Char) (l m : List (List Char)) (hl : l ≠ []) (hm : m ≠ []) :
    joinWith sep (l ++ m) = joinWith sep l ++ sep :: joinWith sep m := by
  induction l with
  | nil => exact absurd rfl hl
  | cons p ps ih =>
    cases ps with
    | nil =>
      cases m with
      | nil => exact absurd rfl hm
      | cons q qs => rfl
    | cons q qs =>
      rw [List.cons_append, List.cons_append, joinWith_cons_cons, joinWith_cons_cons,
        ← List.cons_append, ih (by simp)]
      simp

theorem mem_joinWith (sep c : Char) (l : List (List Char)) (h : c ∈ joinWith sep l) :
    c = sep ∨ ∃ p ∈ l, c ∈ p := by
  induction l with
  | nil => simp [joinWith] at h
  | cons p ps ih =>
    cases ps with
    | nil => exact Or.inr ⟨p, by simp, by simpa [joinWith] using h⟩
    | cons q qs =>
      rw [joinWith_cons_cons, List.mem_append, List.mem_cons] at h
      rcases h with h | h | h
      · exact Or.inr ⟨p, by simp, h⟩
      · exact Or.inl h
      · rcases ih h with h | ⟨r, hr, hcr⟩
        · exact Or.inl h
        · exact Or.inr ⟨r, List.mem_cons_of_mem _ hr, hcr⟩

theorem joinWith_head (sep c : Char) (cs : List Char) (l : List (List Char)) :
    ∃ r, joinWith sep ((c :: cs) :: l) = c :: r := by
  cases l with
  | nil => exact ⟨cs, rfl⟩
  | cons q qs => exact ⟨_, rfl⟩

/-! ## plain characters -/

theorem isPlainChar_spec {c : Char} (h : isPlainChar c = true) :
    32 < c.toNat ∧ c ≠ '/' ∧ c ≠ ':' ∧ c ≠ ';' := by
  simp only [isPlainChar, Bool.and_eq_true, decide_eq_true_eq, bne_iff_ne, ne_eq] at h
  exact ⟨h.1.1.1.1.1, h.1.1.1.1.2, h.1.2, h.2⟩

theorem plainSeg_spec {s : List Char} (h : plainSeg s = true) :
    okSeg s = true ∧ ∀ c ∈ s, isPlainChar c = true := by
  simpa [plainSeg] using h

theorem cleanUrl_of_gt (cs : List Char) (h : ∀ c ∈ cs, 32 < c.toNat) : cleanUrl cs = cs := by
  unfold cleanUrl
  have h1 : cs.dropWhile (fun c => decide (c.toNat ≤ 32)) = cs := by
    cases cs with
    | nil => rfl
    | cons c cs =>
      have := h c (List.mem_cons_self ..)
      rw [List.dropWhile_cons_of_neg]
      simp; omega
  rw [h1, List.filter_eq_self]
  intro c hc
  have := h c hc
  have e : c ≠ '\t' ∧ c ≠ '\r' ∧ c ≠ '\n' := by
    simp only [ne_eq, ← Char.toNat_inj, Char.reduceToNat]
    omega
  simp [e]

theorem okSeg_spec {s : List Char} (h : okSeg s = true) : s ≠ [] ∧ notDot s = true := by
  simpa [okSeg] using h

/-- the parts of a relative reference: all but the last are proper names, the last is no dot
segment, and none contains `/`, `:`, `;` or a character `≤ ' '` -/
theorem relRef_parts (segs : List (List Char)) (trail : Bool) (hs : segs ≠ [])
    (hseg : ∀ s ∈ segs, plainSeg s = true) :
    ∃ P x, segs ++ (if trail then [[]] else []) = P ++ [x] ∧ (∀ s ∈ P, okSeg s = true) ∧
      notDot x = true ∧ ∀ s ∈ P ++ [x], ∀ c ∈ s, isPlainChar c = true := by
  cases trail with
  | true =>
    refine ⟨segs, [], rfl, fun s h => (plainSeg_spec (hseg s h)).1, by decide, ?_⟩
    intro s h c hc
    rw [List.mem_append, List.mem_singleton] at h
    rcases h with h | rfl
    · exact (plainSeg_spec (hseg s h)).2 c hc
    · cases hc
  | false =>
    refine ⟨segs.dropLast, segs.getLast hs, ?_, ?_, ?_, ?_⟩
    · simp [List.dropLast_concat_getLast]
    · exact fun s h => (plainSeg_spec (hseg s (List.dropLast_subset _ h))).1
    · exact (okSeg_spec (plainSeg_spec (hseg _ (List.getLast_mem hs))).1).2
    · intro s h c hc
      rw [List.dropLast_concat_getLast] at h
      exact (plainSeg_spec (hseg s h)).2 c hc

/-! ## the join -/

theorem urljoinChars_rel (B : List Char) (segs : List (List Char)) (trail : Bool)
    (hB : isCleanDir B = true) (hs : segs ≠ []) (hseg : ∀ s ∈ segs, plainSeg s = true) :
    urljoinChars B (relRef segs trail) = B ++ relRef segs trail := by
  obtain ⟨mid, hsplit, hmid⟩ := isCleanDir_split hB
  have hBne : B ≠ [] := by
    intro e; subst e
    simp [splitOn] at hsplit
  have hB' : B = joinWith '/' ([] :: mid) ++ ['/'] := by
    have : B = joinWith '/' (([] :: mid) ++ [[]]) := by
      rw [List.cons_append, ← hsplit, joinWith_splitOn]
    rw [this]; exact joinWith_concat _ _ _ (by simp)
  obtain ⟨P, x, hparts, hP, hx, hplain⟩ := relRef_parts segs trail hs hseg
  -- the first character
  obtain ⟨c0, r0, hR0, hc0⟩ : ∃ c r, relRef segs trail = c :: r ∧ c ≠ '/' := by
    cases segs with
    | nil => exact absurd rfl hs
    | cons s ss =>
      have hs1 := plainSeg_spec (hseg s (List.mem_cons_self ..))
      cases s with
      | nil => exact absurd rfl (okSeg_spec hs1.1).1
      | cons c cs =>
        obtain ⟨r, hr⟩ := joinWith_head '/' c cs (ss ++ if trail then [[]] else [])
        exact ⟨c, r, hr, (isPlainChar_spec (hs1.2 c (List.mem_cons_self ..))).2.1⟩
  have hRj : relRef segs trail = joinWith '/' (P ++ [x]) := by rw [relRef, hparts]
  generalize relRef segs trail = R at *
  have hchar : ∀ c ∈ R, c = '/' ∨ isPlainChar c = true := by
    intro c hc
    rw [hRj] at hc
    rcases mem_joinWith _ _ _ hc with h | ⟨p, hp, hcp⟩
    · exact Or.inl h
    · exact Or.inr (hplain p hp c hcp)
  have hgt : ∀ c ∈ R, 32 < c.toNat := by
    intro c hc
    rcases hchar c hc with rfl | h
    · decide
    · exact (isPlainChar_spec h).1
  have hcolon : ':' ∉ R := by
    intro hc
    rcases hchar _ hc with h | h
    · exact absurd h (by decide)
    · exact (isPlainChar_spec h).2.2.1 rfl
  have hsemi : ';' ∉ R := by
    intro hc
    rcases hchar _ hc with h | h
    · exact absurd h (by decide)
    · exact (isPlainChar_spec h).2.2.2 rfl
  have hsplitR : splitOn '/' R = P ++ [x] := by
    rw [hRj]
    exact splitOn_joinWith _ _ (by simp)
      (fun p hp hc => (isPlainChar_spec (hplain p hp _ hc)).2.1 rfl)
  have hRne : R ≠ [] := by rw [hR0]; simp
  have hRemp : R.isEmpty = false := by simp [hRne]
  have hhead : R.head? ≠ some '/' := by
    rw [hR0]; simpa using hc0
  have hparams : splitParams R = (R, []) := by simp [splitParams, hsemi]
  have hgl : ([] :: (mid ++ [[]])).getLast? = some [] := by
    rw [← List.cons_append, List.getLast?_concat]
  have hfilter : (mid ++ [[]] ++ P).filter (· ≠ []) = mid ++ P := by
    have h1 : mid.filter (· ≠ []) = mid := by
      apply List.filter_eq_self.mpr
      intro s hs
      simp [(okSeg_spec (hmid s hs)).1]
    have h2 : P.filter (· ≠ []) = P := by
      apply List.filter_eq_self.mpr
      intro s hs
      simp [(okSeg_spec (hP s hs)).1]
    rw [List.filter_append, List.filter_append, h1, h2]
    simp
  have hsegs : ∀ s ∈ ([] :: (mid ++ P)) ++ [x], notDot s = true := by
    intro s hs
    simp only [List.mem_cons, List.mem_append, List.not_mem_nil, or_false] at hs
    rcases hs with (rfl | hs | hs) | rfl
    · decide
    · exact (okSeg_spec (hmid s hs)).2
    · exact (okSeg_spec (hP s hs)).2
    · exact hx
  have hJ : joinWith '/' (([] :: (mid ++ P)) ++ [x]) = B ++ R := by
    have : ([] :: (mid ++ P)) ++ [x] = ([] :: mid) ++ (P ++ [x]) := by simp
    rw [this, joinWith_append _ _ _ (by simp) (by simp), ← hRj, hB']
    simp
  have hre : [] :: (mid ++ [[]]) ++ (P ++ [x]) = [] :: ((mid ++ [[]] ++ P) ++ [x]) := by simp
  unfold urljoinChars
  simp only [cleanUrl_of_gt R hgt, schemePrefix_of_no_colon R hcolon, hparams, hsplitR, hsplit]
  simp only [List.isEmpty_iff, hBne, if_false, Option.isSome_none, Bool.false_eq_true,
    hhead, List.isEmpty_nil, if_true, hRemp, Bool.false_and, hgl, Option.getD_some, ne_eq,
    not_true_eq_false]
  rw [hre, filterMiddle_concat, hfilter, removeDotSegments_notDot _ hsegs]
  · exact hJ
  · rw [hJ]; simp [hBne]

/-- String-level form -/
theorem urljoin_rel (base : String) (segs : List (List Char)) (trail : Bool)
    (hB : isCleanDir base.toList = true) (hs : segs ≠ []) (hseg : ∀ s ∈ segs, plainSeg s = true) :
    urljoin_simple base (String.ofList (relRef segs trail)) =
      base ++ String.ofList (relRef segs trail) := by
  rw [urljoin_simple, String.toList_ofList, urljoinChars_rel _ _ _ hB hs hseg,
    String.ofList_append, String.ofList_toList]

/-- appending a clean relative directory to a clean directory gives a clean directory -/
theorem isCleanDir_append_rel (B : List Char) (segs : List (List Char))
    (hB : isCleanDir B = true) (hs : segs ≠ []) (hseg : ∀ s ∈ segs, plainSeg s = true) :
    isCleanDir (B ++ relRef segs true) = true := by
  have _ := hs  -- (not needed: `relRef [] true = []`)
  obtain ⟨mid, hsplit, hmid⟩ := isCleanDir_split hB
  have hB' : B = joinWith '/' ([] :: mid) ++ ['/'] := by
    have : B = joinWith '/' (([] :: mid) ++ [[]]) := by
      rw [List.cons_append, ← hsplit, joinWith_splitOn]
    rw [this]; exact joinWith_concat _ _ _ (by simp)
  have hB0 : splitOn '/' (joinWith '/' ([] :: mid)) = [] :: mid := by
    have h := hsplit
    rw [hB', splitOn_append_sep] at h
    have h2 : splitOn '/' (joinWith '/' ([] :: mid)) ++ [[]] = ([] :: mid) ++ [[]] := by
      simpa [splitOn] using h
    exact List.append_cancel_right h2
  have hR : splitOn '/' (relRef segs true) = segs ++ [[]] := by
    rw [relRef]
    refine splitOn_joinWith _ _ (by simp) ?_
    intro p hp hc
    simp only [if_true, List.mem_append, List.mem_singleton] at hp
    rcases hp with hp | rfl
    · exact (isPlainChar_spec ((plainSeg_spec (hseg p hp)).2 _ hc)).2.1 rfl
    · cases hc
  have hsp : splitOn '/' (B ++ relRef segs true) = [] :: (mid ++ segs ++ [[]]) := by
    rw [hB', List.append_assoc, List.singleton_append, splitOn_append_sep, hB0, hR]
    simp
  unfold isCleanDir
  rw [hsp]
  simp only [Bool.and_eq_true, decide_eq_true_eq, beq_iff_eq, List.all_eq_true]
  refine ⟨⟨by simp, List.getLast?_concat ..⟩, ?_⟩
  rw [List.dropLast_concat]
  intro s h
  rcases List.mem_append.mp h with h | h
  · exact hmid s h
  · exact (plainSeg_spec (hseg s h)).1

/-! ## Concrete values (sanity / non-vacuity) -/

example : relRef ["users".toList, "joe".toList] true = "users/joe/".toList := by decide
example : relRef ["users".toList, "joe".toList] false = "users/joe".toList := by decide
example : plainSeg "users".toList = true := by decide
example : plainSeg "jöe@x+1,%=~é".toList = true := by decide
example : plainSeg "a b".toList = false := by decide
example : plainSeg "a:b".toList = false := by decide
example : plainSeg "..".toList = false := by decide
example : plainSeg "".toList = false := by decide
example : urljoinChars "/dav/".toList "users/joe/".toList = "/dav/users/joe/".toList := by decide
example : urljoinChars "/dav/".toList "users/joe/cal.ics".toList
    = "/dav/users/joe/cal.ics".toList := by decide
example : urljoin_simple "/" "calendars/jöe/" = "/calendars/jöe/" := by decide
example : isCleanDir ("/dav/".toList ++ relRef ["users".toList, "joe".toList] true) = true := by
  decide
-- the side conditions matter: a dot segment, an empty segment or a `:` in the first segment
example : urljoinChars "/dav/".toList "users/../joe/".toList = "/dav/joe/".toList := by decide
example : urljoinChars "/dav/".toList "users//joe/".toList = "/dav/users/joe/".toList := by decide
example : urljoinChars "/dav/".toList "a:b/c".toList = "a:b/c".toList := by decide

end Xandikos.Py.Url
