/-
  Executable model of CPython 3.12 `configparser.ConfigParser(interpolation=None)`:
  `write(f)` (space_around_delimiters=True) and `read_string(text)` / `read_file(f)`
  (`RawConfigParser._read` with the default settings: delimiters ('=', ':'),
  comment_prefixes ('#', ';'), no inline comment prefixes, strict=True,
  empty_lines_in_values=True, allow_no_value=False, optionxform=str.lower), into a FRESH parser.

  Import-free (Lean core only).  Everything is defined over `List Char` (`Str`);
  `String` wrappers are at the end.

  Modelling notes (each is validated by the differential tester `pylib_ini.py`):
  * Lines are modelled WITHOUT their terminator.  CPython keeps the trailing "\n", but uses the
    line only through `line.strip()` and through the index of its first non-whitespace character,
    and "\n" is whitespace at the very end, so neither observation can see it.
  * Every `configparser.Error` (MissingSectionHeaderError, DuplicateSectionError,
    DuplicateOptionError, ParsingError) is modelled as `.error _`.  CPython defers ParsingError to
    the end of the file, but nothing it does in between can turn the error into a success.
  * `optionxform = str.lower` is modelled as ASCII lower-casing (`asciiLower`).  This agrees with
    CPython whenever option names contain no non-ASCII cased character; the keys written by
    the modelled usage are fixed lower-case ASCII identifiers.
  * The reader state is a zipper: the currently selected section is held in `cur`, already
    finished sections in `done` (most recent first), the defaults dict in `dflt` while it is not
    selected.  Options, and the physical lines of an option value, are kept most-recent-first, so
    `cursect[optname].append(x)` is a cons on the head.  A non-DEFAULT section can never be
    re-selected in strict mode (DuplicateSectionError), which is why a zipper is enough.
-/
namespace Xandikos.Py.Ini

abbrev Str := List Char

/-- `str.isspace()` for a single character (`Py_UNICODE_ISSPACE`); the `re` module's `\s` / `\S`
for `str` patterns use the same predicate. -/
def isPySpace (c : Char) : Bool :=
  let n := c.toNat
  (decide (9 ≤ n) && decide (n ≤ 13)) || (decide (28 ≤ n) && decide (n ≤ 32)) ||
  n == 0x85 || n == 0xa0 || n == 0x1680 || (decide (0x2000 ≤ n) && decide (n ≤ 0x200a)) ||
  n == 0x2028 || n == 0x2029 || n == 0x202f || n == 0x205f || n == 0x3000

/-- `str.lstrip()` -/
def pyLstrip (s : Str) : Str := s.dropWhile isPySpace

/-- `str.rstrip()`, structurally (see `pyRstrip_eq_reverse` in `IniProofs` for the usual form). -/
def pyRstrip : Str → Str
  | [] => []
  | c :: cs =>
    match pyRstrip cs with
    | [] => if isPySpace c then [] else [c]
    | r => c :: r

/-- `str.strip()` -/
def pyStrip (s : Str) : Str := pyRstrip (pyLstrip s)

/-- index of the first `\S` character (only used on lines that have one) -/
def indentOf (s : Str) : Nat := (s.takeWhile isPySpace).length

/-- ASCII approximation of `str.lower` on one character. -/
def asciiLower (c : Char) : Char :=
  if 'A' ≤ c ∧ c ≤ 'Z' then Char.ofNat (c.toNat + 32) else c

def DEFAULT : Str := ['D', 'E', 'F', 'A', 'U', 'L', 'T']

/-- Sections in order; by convention `DEFAULT` (the defaults dict) comes first. -/
abbrev ConfigL := List (Str × List (Str × Str))

/-! ## write -/

/-- `value.replace("\n", "\n\t")` -/
def replaceNl : Str → Str
  | [] => []
  | c :: cs => if c = '\n' then '\n' :: '\t' :: replaceNl cs else c :: replaceNl cs

def writeItem (kv : Str × Str) : Str :=
  kv.1 ++ ' ' :: '=' :: ' ' :: (replaceNl kv.2 ++ ['\n'])

/-- `RawConfigParser._write_section` -/
def writeSection (name : Str) (items : List (Str × Str)) : Str :=
  '[' :: (name ++ ']' :: '\n' :: (items.flatMap writeItem ++ ['\n']))

/-- `RawConfigParser.write`: the defaults are only written when non-empty. -/
def iniWriteL (cfg : ConfigL) : Str :=
  cfg.flatMap fun s =>
    if s.1 = DEFAULT ∧ s.2 = [] then [] else writeSection s.1 s.2

/-! ## read -/

/-- Universal-newline translation of a text-mode file: "\r\n" and lone "\r" become "\n".
The flag says that the previous character was a "\r" (so a "\n" right after it is dropped). -/
def univAux : Bool → Str → Str
  | _, [] => []
  | prevCR, c :: cs =>
    if c = '\r' then '\n' :: univAux true cs
    else if c = '\n' ∧ prevCR = true then univAux false cs
    else c :: univAux false cs

def univNewlines (s : Str) : Str := univAux false s

/-- Iterating a text file: split after every "\n"; terminators dropped (see header). A final
piece is only a line if it is non-empty. -/
def splitLines : Str → List Str
  | [] => []
  | c :: cs =>
    if c = '\n' then [] :: splitLines cs
    else match splitLines cs with
      | [] => [[c]]
      | l :: ls => (c :: l) :: ls

/-- `"\n".join(lines)` -/
def joinNl : List Str → Str
  | [] => []
  | [l] => l
  | l :: ls => l ++ '\n' :: joinNl ls

/-- `line.strip().startswith('#') or line.strip().startswith(';')`, on the stripped line -/
def isCommentStart : Str → Bool
  | c :: _ => c == '#' || c == ';'
  | [] => false

/-- the part before the LAST `]`, if there is one -/
def uptoLastBracket : Str → Option Str
  | [] => none
  | x :: xs =>
    match uptoLastBracket xs with
    | some p => some (x :: p)
    | none => if x = ']' then some [] else none

/-- `SECTCRE.match(value)`: `\[(?P<header>.+)\]` anchored at the start, greedy. -/
def sectHeader : Str → Option Str
  | [] => none
  | c :: rest =>
    if c = '[' then
      match uptoLastBracket rest with
      | some [] => none
      | some h => some h
      | none => none
    else none

def isDelim (c : Char) : Bool := c == '=' || c == ':'

/-- split at the first delimiter character -/
def splitDelim : Str → Option (Str × Str)
  | [] => none
  | c :: cs =>
    if isDelim c then some ([], cs)
    else match splitDelim cs with
      | some (a, b) => some (c :: a, b)
      | none => none

/-- options of a section, most recent first; value lines most recent first -/
abbrev Opts := List (Str × List Str)

structure St where
  dflt : Opts := []
  done : List (Str × Opts) := []
  cur : Option (Str × Opts) := none
  /-- `optname` is truthy: then it is the most recent option of `cur` -/
  opt : Bool := false
  indent : Nat := 0
deriving Repr, DecidableEq

/-- `cursect[optname].append(l)` -/
def St.appendLine (st : St) (l : Str) : St :=
  match st.opt, st.cur with
  | true, some (n, (k, ls) :: os) => { st with cur := some (n, (k, l :: ls) :: os) }
  | _, _ => st

/-- put the selected section back -/
def St.unfocus (st : St) : St :=
  match st.cur with
  | none => st
  | some (n, os) =>
    if n = DEFAULT then { st with dflt := os, cur := none }
    else { st with done := (n, os) :: st.done, cur := none }

def selectSection (st : St) (h : Str) : Except String St :=
  let st' := st.unfocus
  if h = DEFAULT then .ok { st' with cur := some (DEFAULT, st'.dflt), opt := false }
  else if st'.done.any (fun s => s.1 == h) then .error "DuplicateSectionError"
  else .ok { st' with cur := some (h, []), opt := false }

/-- one iteration of the loop in `RawConfigParser._read` -/
def step (st : St) (line : Str) : Except String St :=
  let value := pyStrip line
  if isCommentStart value then .ok st
  else if value = [] then .ok (st.appendLine [])
  else
    let ind := indentOf line
    if st.opt = true ∧ st.indent < ind then .ok (st.appendLine value)
    else
      match sectHeader value with
      | some h => selectSection { st with indent := ind } h
      | none =>
        match st.cur with
        | none => .error "MissingSectionHeaderError"
        | some (n, os) =>
          match splitDelim value with
          | none => .error "ParsingError"
          | some (k, v) =>
            let name := (pyRstrip k).map asciiLower
            if name = [] then .error "ParsingError"
            else if os.any (fun o => o.1 == name) then .error "DuplicateOptionError"
            else .ok { st with indent := ind, cur := some (n, (name, [pyStrip v]) :: os),
                               opt := true }

def run (st : St) : List Str → Except String St
  | [] => .ok st
  | l :: ls =>
    match step st l with
    | .ok st' => run st' ls
    | .error e => .error e

/-- `_join_multiline_values` for one section -/
def finOpts (os : Opts) : List (Str × Str) :=
  os.reverse.map fun o => (o.1, pyRstrip (joinNl o.2.reverse))

/-- The parser contents: defaults first (always present, maybe empty), then the sections. -/
def St.finish (st : St) : ConfigL :=
  let st' := st.unfocus
  (DEFAULT, finOpts st'.dflt) :: st'.done.reverse.map fun s => (s.1, finOpts s.2)

def iniReadL (universalNewlines : Bool) (text : Str) : Except String ConfigL :=
  match run {} (splitLines (if universalNewlines then univNewlines text else text)) with
  | .ok st => .ok st.finish
  | .error e => .error e

/-- `cp[sec][key]` without the fallback to DEFAULT; `none` is KeyError. -/
def iniGetL (cfg : ConfigL) (sec key : Str) : Option Str :=
  match cfg.lookup sec with
  | some items => items.lookup key
  | none => none

/-! ## String wrappers -/

abbrev Config := List (String × List (String × String))

def Config.toL (cfg : Config) : ConfigL :=
  cfg.map fun s => (s.1.toList, s.2.map fun kv => (kv.1.toList, kv.2.toList))

def Config.ofL (cfg : ConfigL) : Config :=
  cfg.map fun s => (String.ofList s.1, s.2.map fun kv => (String.ofList kv.1, String.ofList kv.2))

def iniWrite (cfg : Config) : List Char := iniWriteL cfg.toL

def iniWriteS (cfg : Config) : String := String.ofList (iniWrite cfg)

def iniRead (universalNewlines : Bool) (text : List Char) : Except String Config :=
  match iniReadL universalNewlines text with
  | .ok c => .ok (Config.ofL c)
  | .error e => .error e

def iniReadS (universalNewlines : Bool) (text : String) : Except String Config :=
  iniRead universalNewlines text.toList

def iniGet (cfg : Config) (sec key : String) : Option String :=
  match cfg.lookup sec with
  | some items => items.lookup key
  | none => none

end Xandikos.Py.Ini
