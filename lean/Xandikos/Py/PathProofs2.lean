/-
  `posixpath.split` on the RAW (un-normalised) request path versus `normpath`.

  A handler computes `container, name = posixpath.split(raw_path)` on the raw absolute path and
  looks the target up under `normpath(raw_path)`.  This file relates the two: with
  `(h, t) := split p`,

    * `t = ""` or `t = "."`  ⇒  `normpath p = normpath h`
    * `t = ".."`             ⇒  `normpath p = parentOf (normpath h)`
    * `Clean t`              ⇒  `normpath p = join (normpath h) t`, `split (normpath p) = (normpath h, t)`

  Everything is proved outright from the definitions in `Path.lean`; core Lean only.
-/
import Xandikos.Py.PathProofs

namespace Xandikos.Py.Path

/-! ## small list facts -/

theorem last_slash_decomp {p : List Char} (h : '/' ∈ p) :
    ∃ pre t, p = pre ++ '/' :: t ∧ '/' ∉ t := by
  induction p with
  | nil => cases h
  | cons c cs ih =>
    by_cases hcs : '/' ∈ cs
    · obtain ⟨pre, t, e, ht⟩ := ih hcs
      exact ⟨c :: pre, t, by simp [e], ht⟩
    · have hc : c = '/' := by
        rcases List.mem_cons.1 h with e | e
        · exact e.symm
        · exact absurd e hcs
      exact ⟨[], cs, by simp [hc], hcs⟩

theorem head?_ne_slash_of_noSlash {t : List Char} (ht : '/' ∉ t) : t.head? ≠ some '/' :=
  fun e => ht (List.mem_of_mem_head? e)

theorem eq_replicate_of_allSlash {s : List Char} (h : allSlash s = true) :
    s = List.replicate s.length '/' := by
  simp only [allSlash, List.all_eq_true, decide_eq_true_eq] at h
  exact List.eq_replicate_iff.2 ⟨rfl, h⟩

theorem getLast?_of_allSlash {s : List Char} (hne : s ≠ []) (h : allSlash s = true) :
    s.getLast? = some '/' := by
  rw [eq_replicate_of_allSlash h, List.getLast?_replicate]
  have : s.length ≠ 0 := by simpa using hne
  simp [this]

theorem dropWhile_slash_decomp (r : List Char) :
    ∃ j, r = List.replicate j '/' ++ r.dropWhile (· = '/') ∧
      (r.dropWhile (· = '/')).head? ≠ some '/' := by
  induction r with
  | nil => exact ⟨0, rfl, by simp⟩
  | cons c cs ih =>
    by_cases hc : c = '/'
    · obtain ⟨j, e, hh⟩ := ih
      subst hc
      refine ⟨j + 1, ?_, ?_⟩
      · simp only [List.dropWhile_cons, decide_true, if_true, List.replicate_succ, List.cons_append]
        rw [← e]
      · simpa [List.dropWhile_cons] using hh
    · refine ⟨0, ?_, ?_⟩
      · simp [hc]
      · simp [hc]

/-- `s == s.rstrip('/') + '/'*j`, and the stripped string does not end in a slash -/
theorem rstripSlash_decomp (s : List Char) :
    ∃ j, s = rstripSlash s ++ List.replicate j '/' ∧ (rstripSlash s).getLast? ≠ some '/' := by
  obtain ⟨j, e, hh⟩ := dropWhile_slash_decomp s.reverse
  refine ⟨j, ?_, ?_⟩
  · have := congrArg List.reverse e
    rw [List.reverse_reverse, List.reverse_append, List.reverse_replicate] at this
    exact this
  · unfold rstripSlash
    rwa [List.getLast?_reverse]

theorem joinSlash_ne_nil {comps : List (List Char)} (hne : comps ≠ [])
    (h : ∀ c ∈ comps, c ≠ [] ∧ '/' ∉ c) : joinSlash comps ≠ [] := by
  cases comps with
  | nil => exact absurd rfl hne
  | cons x xs =>
    have hx := (h x (by simp)).1
    cases xs with
    | nil => simpa [joinSlash] using hx
    | cons y ys => cases x <;> simp [joinSlash] at hx ⊢

/-! ## `initialSlashes` only looks at the leading run of slashes -/

theorem initialSlashes_append_of_not_allSlash {h : List Char} (hn : allSlash h = false)
    (x : List Char) : initialSlashes (h ++ x) = initialSlashes h := by
  match h, hn with
  | [], hn => simp [allSlash] at hn
  | [a], hn =>
    have : a ≠ '/' := by simpa [allSlash] using hn
    simp [initialSlashes, this]
  | [a, b], hn =>
    by_cases ha : a = '/'
    · have hb : b ≠ '/' := by simpa [allSlash, ha] using hn
      simp [initialSlashes, ha, hb]
    · simp [initialSlashes, ha]
  | a :: b :: c :: r, _ => simp only [List.cons_append, initialSlashes]

theorem initialSlashes_replicate_append (m : Nat) {t : List Char} (ht : t.head? ≠ some '/') :
    initialSlashes (List.replicate m '/' ++ t) = initialSlashes (List.replicate m '/') := by
  match m with
  | 0 =>
    show initialSlashes ([] ++ t) = initialSlashes []
    rw [List.nil_append, initialSlashes_eq_zero_of_not_abs ht]; rfl
  | 1 =>
    cases t with
    | nil => rfl
    | cons x xs =>
      have hx : x ≠ '/' := by simpa using ht
      simp [List.replicate, initialSlashes, hx]
  | 2 =>
    cases t with
    | nil => rfl
    | cons x xs =>
      have hx : x ≠ '/' := by simpa using ht
      simp [List.replicate, initialSlashes, hx]
  | m + 3 => simp [List.replicate_succ, initialSlashes]

/-! ## stacks -/

theorem normStack_replicate (m : Nat) : normStack (List.replicate m '/') = [] := by
  have := splitOnSlash_replicate_append m []
  rw [List.append_nil] at this
  unfold normStack
  rw [this, List.foldl_append, foldl_step_replicate_nil]
  simp [splitOnSlash, step_empty]

theorem foldl_step_split_append_slashes (abs : Bool) (acc : List (List Char)) (h : List Char)
    (j : Nat) :
    (splitOnSlash (h ++ List.replicate j '/')).foldl (step abs) acc =
      (splitOnSlash h).foldl (step abs) acc := by
  cases j with
  | zero => simp
  | succ j =>
    have e : splitOnSlash (List.replicate j '/') = List.replicate j [] ++ [[]] := by
      have := splitOnSlash_replicate_append j []
      rwa [List.append_nil] at this
    rw [List.replicate_succ, splitOnSlash_append_slash, List.foldl_append, e, List.foldl_append,
      foldl_step_replicate_nil]
    simp [step_empty]

theorem step_dot (abs : Bool) (stk : List (List Char)) : step abs stk dot = stk := by
  simp [step]

theorem step_dotdot_abs {stk : List (List Char)} (hwf : WF true stk) :
    step true stk dotdot = stk.tail := by
  have hhead : stk.head? ≠ some dotdot := by
    intro e
    exact (WF_true_clean hwf dotdot (List.mem_of_mem_head? e)).2.2.1 rfl
  unfold step
  rw [if_neg (by decide), if_neg]
  intro e
  rcases e with e | ⟨e, _⟩ | e
  · exact e rfl
  · cases e
  · exact hhead e

/-! ## `normpath` of an absolute path, in terms of its slash count and stack -/

theorem normpath_abs_eq {p : List Char} (h : p.head? = some '/') :
    normpath p = List.replicate (initialSlashes p) '/' ++ joinSlash (normStack p).reverse := by
  have hp : p ≠ [] := by intro e; simp [e] at h
  rw [normpath_eq p hp]
  simp only
  rw [if_neg]
  rcases initialSlashes_pos_of_abs h with e | e <;> simp [e, List.replicate]

theorem abs_flag {p : List Char} (h : p.head? = some '/') : (initialSlashes p != 0) = true := by
  rcases initialSlashes_pos_of_abs h with e | e <;> simp [e]

theorem normStack_abs_WF {p : List Char} (h : p.head? = some '/') : WF true (normStack p) := by
  have := normStack_WF p
  rwa [abs_flag h] at this

/-! ## general `split ∘ join` facts -/

theorem split_join_of_getLast_ne {q t : List Char} (hq : q ≠ []) (hl : q.getLast? ≠ some '/')
    (ht : '/' ∉ t) : join q t = q ++ '/' :: t ∧ split (join q t) = (q, t) := by
  have hj := join_rel hq hl (head?_ne_slash_of_noSlash ht)
  refine ⟨hj, ?_⟩
  rw [hj, split_append_slash _ _ ht, allSlash_false_of_getLast hq hl]
  simp only [Bool.false_eq_true, if_false]
  rw [rstripSlash_append_slash, rstripSlash_of_getLast_ne hl]

theorem split_join_allSlash {q t : List Char} (hq : q ≠ []) (ha : allSlash q = true)
    (ht : '/' ∉ t) : join q t = q ++ t ∧ split (join q t) = (q, t) := by
  have hj : join q t = q ++ t := by
    simp [join, head?_ne_slash_of_noSlash ht, getLast?_of_allSlash hq ha]
  refine ⟨hj, ?_⟩
  obtain ⟨m, hm⟩ : ∃ m, q.length = m + 1 := ⟨q.length - 1, by
    have : q.length ≠ 0 := by simpa using hq
    omega⟩
  have hrep : q = List.replicate m '/' ++ ['/'] := by
    rw [← List.replicate_succ', ← hm]; exact eq_replicate_of_allSlash ha
  rw [hj]
  have : q ++ t = List.replicate m '/' ++ '/' :: t := by rw [hrep]; simp
  rw [this, split_append_slash _ _ ht, ← hrep, ha]
  rfl

/-! ## the core relation between `split p` and the `normpath` loop -/

/-- For a path containing a slash, `split p = (h, t)` where `t` is slash-free, `h` is non-empty,
    has the same `initial_slashes` as `p`, and the `normpath` loop on `p` is the loop on `h`
    followed by one more iteration on `t`. -/
theorem split_core {p : List Char} (hs : '/' ∈ p) :
    ∃ h t, split p = (h, t) ∧ '/' ∉ t ∧ h ≠ [] ∧
      initialSlashes p = initialSlashes h ∧
      normStack p = step (initialSlashes h != 0) (normStack h) t ∧
      (p.head? = some '/' → h.head? = some '/') ∧
      (allSlash h = true → p = h ++ t) ∧
      (allSlash h = false → h.getLast? ≠ some '/' ∧
        ∃ j, p = h ++ List.replicate (j + 1) '/' ++ t) := by
  obtain ⟨pre, t, rfl, ht⟩ := last_slash_decomp hs
  have hth := head?_ne_slash_of_noSlash ht
  rw [split_append_slash _ _ ht]
  cases ha : allSlash (pre ++ ['/']) with
  | true =>
    -- the head is the leading run of slashes, kept as is
    simp only [if_true]
    have hH : pre ++ ['/'] = List.replicate (pre.length + 1) '/' := by
      have := eq_replicate_of_allSlash ha
      simpa using this
    have hp : pre ++ '/' :: t = List.replicate (pre.length + 1) '/' ++ t := by
      rw [← hH]; simp
    rw [hH, hp]
    have hinit := initialSlashes_replicate_append (pre.length + 1) hth
    refine ⟨_, t, rfl, ht, by simp [List.replicate_succ], hinit, ?_, ?_, fun _ => rfl, ?_⟩
    · rw [normStack_replicate]
      unfold normStack
      rw [hinit, splitOnSlash_replicate_append, splitOnSlash_noSlash ht, List.foldl_append,
        foldl_step_replicate_nil]
      rfl
    · intro _; simp [List.replicate_succ]
    · intro e; rw [allSlash_replicate] at e; cases e
  | false =>
    simp only [Bool.false_eq_true, if_false]
    rw [rstripSlash_append_slash]
    have hpre : allSlash pre = false := by
      rw [allSlash_append] at ha
      cases hp : allSlash pre with
      | false => rfl
      | true => rw [hp] at ha; exact absurd ha (by decide)
    obtain ⟨j, ej, hgl⟩ := rstripSlash_decomp pre
    generalize rstripSlash pre = h at ej hgl
    have hne : h ≠ [] := by
      intro e
      rw [e, List.nil_append] at ej
      rw [ej, allSlash_replicate] at hpre
      cases hpre
    have hnall : allSlash h = false := allSlash_eq_false hne hgl
    have hp : pre ++ '/' :: t = h ++ (List.replicate (j + 1) '/' ++ t) := by
      rw [ej, List.replicate_succ']; simp
    have hinit : initialSlashes (pre ++ '/' :: t) = initialSlashes h := by
      rw [hp]; exact initialSlashes_append_of_not_allSlash hnall _
    refine ⟨h, t, rfl, ht, hne, hinit, ?_, ?_, ?_, ?_⟩
    · unfold normStack
      rw [hinit, splitOnSlash_append_slash, splitOnSlash_noSlash ht, List.foldl_append, ej,
        foldl_step_split_append_slashes]
      rfl
    · intro hh
      rw [hp] at hh
      cases h with
      | nil => exact absurd rfl hne
      | cons a as => simpa using hh
    · intro e; rw [hnall] at e; cases e
    · intro _
      exact ⟨hgl, j, by rw [hp, List.append_assoc]⟩

theorem slash_mem_of_abs {p : List Char} (h : p.head? = some '/') : '/' ∈ p :=
  List.mem_of_mem_head? h

/-- `split` of an absolute path has an absolute, non-empty head and a slash-free tail -/
theorem split_abs {p : List Char} (habs : p.head? = some '/') :
    (split p).1.head? = some '/' ∧ '/' ∉ (split p).2 := by
  obtain ⟨h, t, hsp, ht, _, _, _, hh, _⟩ := split_core (slash_mem_of_abs habs)
  rw [hsp]; exact ⟨hh habs, ht⟩

/-! ## 1. reassembling the raw split -/

/-- **split_raw_reassemble.**  For an absolute `p` with `(h, t) = split p`:
    `join h t` splits back into `(h, t)`, differs from `p` at most by redundant slashes
    between `h` and `t` (exactly equal when `h` is all slashes), and normalises to the same
    path as `p`. -/
theorem split_raw_reassemble {p : List Char} (habs : p.head? = some '/') :
    let h := (split p).1
    let t := (split p).2
    normpath (join h t) = normpath p ∧
    split (join h t) = (h, t) ∧
    (allSlash h = true → p = h ++ t ∧ join h t = p) ∧
    (allSlash h = false → join h t = h ++ '/' :: t ∧ ∃ j, p = h ++ List.replicate (j + 1) '/' ++ t) := by
  obtain ⟨h, t, hsp, ht, hne, hinit, hstk, hh, hA, hB⟩ := split_core (slash_mem_of_abs habs)
  rw [hsp]
  show normpath (join h t) = normpath p ∧ split (join h t) = (h, t) ∧ _
  have hhabs := hh habs
  cases ha : allSlash h with
  | true =>
    obtain ⟨hj, hsj⟩ := split_join_allSlash hne ha ht
    have hp := hA ha
    have hjp : join h t = p := by rw [hj, ← hp]
    refine ⟨by rw [hjp], hsj, fun _ => ⟨hp, hjp⟩, fun e => by cases e⟩
  | false =>
    obtain ⟨hgl, j, hp⟩ := hB ha
    obtain ⟨hj, hsj⟩ := split_join_of_getLast_ne hne hgl ht
    refine ⟨?_, hsj, fun e => (by cases e), fun _ => ⟨hj, j, hp⟩⟩
    -- run the core lemma on `join h t` as well
    have habs' : (join h t).head? = some '/' := by
      rw [hj]
      cases h with
      | nil => exact absurd rfl hne
      | cons a as => simpa using hhabs
    obtain ⟨h', t', hsp', _, _, hinit', hstk', _, _, _⟩ := split_core (slash_mem_of_abs habs')
    rw [hsj] at hsp'
    obtain ⟨rfl, rfl⟩ := Prod.mk.inj hsp'
    rw [normpath_abs_eq habs', normpath_abs_eq habs, hinit', hstk', hinit, hstk]

/-! ## 2./3. empty and `.` names -/

theorem normpath_split_of_step_id {p : List Char} (habs : p.head? = some '/')
    (hid : ∀ abs stk, step abs stk (split p).2 = stk) : normpath p = normpath (split p).1 := by
  obtain ⟨h, t, hsp, _, _, hinit, hstk, hh, _, _⟩ := split_core (slash_mem_of_abs habs)
  rw [hsp] at hid ⊢
  rw [normpath_abs_eq habs, normpath_abs_eq (hh habs), hinit, hstk, hid]

/-- **normpath_split_empty.**  `p` ends in `/`: the target is the container. -/
theorem normpath_split_empty {p : List Char} (habs : p.head? = some '/')
    (ht : (split p).2 = []) : normpath p = normpath (split p).1 :=
  normpath_split_of_step_id habs (by rw [ht]; exact step_empty)

/-- **normpath_split_dot.**  The name is `.`: the target is the container. -/
theorem normpath_split_dot {p : List Char} (habs : p.head? = some '/')
    (ht : (split p).2 = dot) : normpath p = normpath (split p).1 :=
  normpath_split_of_step_id habs (by rw [ht]; exact step_dot)

/-- when the container is all slashes its normal form is `/` or `//` -/
theorem normpath_allSlash {h : List Char} (hne : h ≠ []) (ha : allSlash h = true) :
    normpath h = ['/'] ∨ normpath h = ['/', '/'] := by
  have hrep := eq_replicate_of_allSlash ha
  have habs : h.head? = some '/' := by
    cases h with
    | nil => exact absurd rfl hne
    | cons a as =>
      simp only [allSlash, List.all_cons, Bool.and_eq_true, decide_eq_true_eq] at ha
      simp [ha.1]
  rw [normpath_abs_eq habs]
  have : normStack h = [] := by rw [hrep]; exact normStack_replicate _
  rw [this]
  rcases initialSlashes_pos_of_abs habs with e | e <;> simp [e, joinSlash, List.replicate]

/-! ## canonical forms: pushing one component, and `parentOf` -/

/-- appending one slash-free component to a canonical absolute path is `join`, and `split`
    undoes it -/
theorem canon_push {n : Nat} (hn : 1 ≤ n) {stk : List (List Char)} (hwf : WF true stk)
    {t : List Char} (ht : '/' ∉ t) :
    let q := List.replicate n '/' ++ joinSlash stk.reverse
    List.replicate n '/' ++ joinSlash (t :: stk).reverse = join q t ∧
    split (join q t) = (q, t) ∧
    (stk = [] → join q t = q ++ t) ∧ (stk ≠ [] → join q t = q ++ '/' :: t) := by
  intro q
  have hcs : ∀ c ∈ stk.reverse, c ≠ [] ∧ '/' ∉ c := fun c hc =>
    WF_nonempty_noSlash hwf c (List.mem_reverse.1 hc)
  obtain ⟨m, rfl⟩ : ∃ m, n = m + 1 := ⟨n - 1, by omega⟩
  by_cases hs : stk = []
  · subst hs
    have hq : q = List.replicate (m + 1) '/' := by simp [q, joinSlash]
    have hqne : q ≠ [] := by rw [hq]; simp [List.replicate_succ]
    have hqa : allSlash q = true := by rw [hq]; exact allSlash_replicate _
    obtain ⟨hj, hsj⟩ := split_join_allSlash hqne hqa ht
    refine ⟨?_, hsj, fun _ => hj, fun e => absurd rfl e⟩
    rw [hj, hq]; simp [joinSlash]
  · have hsr : stk.reverse ≠ [] := by simpa using hs
    have hjne := joinSlash_ne_nil hsr hcs
    have hqne : q ≠ [] := by simp [q, hjne]
    have hgl : q.getLast? ≠ some '/' := by
      show (List.replicate (m + 1) '/' ++ joinSlash stk.reverse).getLast? ≠ some '/'
      rw [getLast?_append_of_ne_nil _ hjne]
      exact getLast?_joinSlash_ne_slash hcs
    obtain ⟨hj, hsj⟩ := split_join_of_getLast_ne hqne hgl ht
    refine ⟨?_, hsj, fun e => absurd e hs, fun _ => hj⟩
    rw [hj, List.reverse_cons, joinSlash_append_singleton hsr]
    simp [q]

/-- The lexical parent of a normalised absolute path: the path itself for `/` and `//`,
    otherwise the head of `posixpath.split`. -/
def parentOf (q : List Char) : List Char :=
  if lstripSlash q = [] then q else (split q).1

theorem parentOf_canon {n : Nat} (hn : 1 ≤ n) {stk : List (List Char)} (hwf : WF true stk) :
    parentOf (List.replicate n '/' ++ joinSlash stk.reverse) =
      List.replicate n '/' ++ joinSlash stk.tail.reverse := by
  cases stk with
  | nil => simp [parentOf, joinSlash, lstripSlash]
  | cons last rest =>
    have hcs : ∀ c ∈ (last :: rest).reverse, c ≠ [] ∧ '/' ∉ c := fun c hc =>
      WF_nonempty_noSlash hwf c (List.mem_reverse.1 hc)
    have hjne := joinSlash_ne_nil (by simp) hcs
    have hl : lstripSlash (List.replicate n '/' ++ joinSlash (last :: rest).reverse) ≠ [] := by
      rw [lstripSlash_replicate_append, lstripSlash_of_head_ne (head?_joinSlash_ne_slash hcs)]
      exact hjne
    obtain ⟨e1, e2, _, _⟩ := canon_push hn (WF.tail hwf) (t := last) hwf.1.2.2.1
    simp only [List.tail_cons] at e1 e2 ⊢
    unfold parentOf
    rw [if_neg hl, e1, e2]

/-! ## 4. the name is `..` -/

/-- **normpath_split_dotdot.**  The name is `..`: the target is the parent of the normalised
    container (or the root itself when the container is the root). -/
theorem normpath_split_dotdot {p : List Char} (habs : p.head? = some '/')
    (ht : (split p).2 = dotdot) : normpath p = parentOf (normpath (split p).1) := by
  obtain ⟨h, t, hsp, _, _, hinit, hstk, hh, _, _⟩ := split_core (slash_mem_of_abs habs)
  rw [hsp] at ht ⊢
  have ht : t = dotdot := ht
  subst ht
  have hhabs := hh habs
  have hwf := normStack_abs_WF hhabs
  have hn : 1 ≤ initialSlashes h := by rcases initialSlashes_pos_of_abs hhabs with e | e <;> omega
  rw [normpath_abs_eq habs, normpath_abs_eq hhabs, hinit, hstk, abs_flag hhabs,
    step_dotdot_abs hwf, parentOf_canon hn hwf]

/-- the same, phrased with `join`: collapsing `..` after normalising the container first -/
theorem normpath_split_dotdot_join {p : List Char} (habs : p.head? = some '/')
    (ht : (split p).2 = dotdot) :
    normpath p = normpath (join (normpath (split p).1) dotdot) := by
  have hhabs := (split_abs habs).1
  generalize hq : normpath (split p).1 = q
  have hqabs : q.head? = some '/' := hq ▸ normpath_abs_starts_slash hhabs
  have hqfix : normpath q = q := hq ▸ normpath_idempotent _
  -- `split (join q "..") = (q, "..")`
  have hwf := normStack_abs_WF hqabs
  have hn : 1 ≤ initialSlashes q := by rcases initialSlashes_pos_of_abs hqabs with e | e <;> omega
  have hcanon := normpath_abs_eq hqabs
  rw [hqfix] at hcanon
  obtain ⟨_, hsj, hj0, hj1⟩ := canon_push hn hwf (t := dotdot) (by decide)
  rw [← hcanon] at hsj hj0 hj1
  have habs' : (join q dotdot).head? = some '/' := by
    cases q with
    | nil => simp at hqabs
    | cons a as =>
      by_cases hs : normStack (a :: as) = []
      · rw [hj0 hs]; simpa using hqabs
      · rw [hj1 hs]; simpa using hqabs
  have := normpath_split_dotdot habs' (by rw [hsj])
  rw [hsj] at this
  simp only at this
  rw [this, hqfix, normpath_split_dotdot habs ht, hq]

/-! ## 5. the name is a clean component -/

/-- **normpath_split_clean.**  The name is a real component: the target is that name inside
    the normalised container, and splitting the normalised target gives back exactly
    (normalised container, name) — also when the container is `/` or `//`. -/
theorem normpath_split_clean {p : List Char} (habs : p.head? = some '/')
    (hc : Clean (split p).2) :
    let h := (split p).1
    let t := (split p).2
    normpath p = join (normpath h) t ∧
    split (normpath p) = (normpath h, t) ∧
    (lstripSlash (normpath h) = [] → normpath p = normpath h ++ t) ∧
    (lstripSlash (normpath h) ≠ [] → normpath p = normpath h ++ '/' :: t) := by
  obtain ⟨h, t, hsp, ht, _, hinit, hstk, hh, _, _⟩ := split_core (slash_mem_of_abs habs)
  rw [hsp] at hc ⊢
  show normpath p = join (normpath h) t ∧ split (normpath p) = (normpath h, t) ∧ _
  have hc : Clean t := hc
  have hhabs := hh habs
  have hwf := normStack_abs_WF hhabs
  have hn : 1 ≤ initialSlashes h := by rcases initialSlashes_pos_of_abs hhabs with e | e <;> omega
  obtain ⟨e1, e2, e3, e4⟩ := canon_push hn hwf ht
  have hp : normpath p = join (normpath h) t := by
    rw [normpath_abs_eq habs, normpath_abs_eq hhabs, hinit, hstk, step_clean _ _ hc, e1]
  have hcs : ∀ c ∈ (normStack h).reverse, c ≠ [] ∧ '/' ∉ c := fun c hm =>
    WF_nonempty_noSlash hwf c (List.mem_reverse.1 hm)
  have hl : lstripSlash (normpath h) = joinSlash (normStack h).reverse := by
    rw [normpath_abs_eq hhabs, lstripSlash_replicate_append,
      lstripSlash_of_head_ne (head?_joinSlash_ne_slash hcs)]
  refine ⟨hp, ?_, ?_, ?_⟩
  · rw [hp, normpath_abs_eq hhabs]; exact e2
  · intro e
    rw [hl] at e
    have hs : normStack h = [] := by
      by_cases hs : normStack h = []
      · exact hs
      · exact absurd e (joinSlash_ne_nil (by simpa using hs) hcs)
    rw [hp, normpath_abs_eq hhabs]; exact e3 hs
  · intro e
    rw [hl] at e
    have hs : normStack h ≠ [] := by
      intro hs; apply e; rw [hs]; rfl
    rw [hp, normpath_abs_eq hhabs]; exact e4 hs

/-! ## 6. an unclean name never creates a new target -/

theorem not_clean_cases {t : List Char} (hns : '/' ∉ t) (hc : ¬ Clean t) :
    t = [] ∨ t = dot ∨ t = dotdot := by
  by_cases h1 : t = []
  · exact Or.inl h1
  by_cases h2 : t = dot
  · exact Or.inr (Or.inl h2)
  by_cases h3 : t = dotdot
  · exact Or.inr (Or.inr h3)
  exact absurd ⟨h1, h2, h3, hns⟩ hc

/-- **Corollary.**  If the raw name is not a clean component (it is empty, `.` or `..`) the
    normalised target is the normalised container or its parent. -/
theorem unclean_name_target_is_container_or_parent {p : List Char} (habs : p.head? = some '/')
    (hc : ¬ Clean (split p).2) :
    normpath p = normpath (split p).1 ∨ normpath p = parentOf (normpath (split p).1) := by
  rcases not_clean_cases (split_abs habs).2 hc with e | e | e
  · exact Or.inl (normpath_split_empty habs e)
  · exact Or.inl (normpath_split_dot habs e)
  · exact Or.inr (normpath_split_dotdot habs e)

/-- sharper form: which case happens when -/
theorem unclean_name_cases {p : List Char} (habs : p.head? = some '/')
    (hc : ¬ Clean (split p).2) :
    (((split p).2 = [] ∨ (split p).2 = dot) ∧ normpath p = normpath (split p).1) ∨
    ((split p).2 = dotdot ∧ normpath p = parentOf (normpath (split p).1)) := by
  rcases not_clean_cases (split_abs habs).2 hc with e | e | e
  · exact Or.inl ⟨Or.inl e, normpath_split_empty habs e⟩
  · exact Or.inl ⟨Or.inr e, normpath_split_dot habs e⟩
  · exact Or.inr ⟨e, normpath_split_dotdot habs e⟩

/-- **parentOf_prefix.**  For a normalised absolute `q` (`normpath q = q`), `parentOf q` is `q`
    with its last component dropped: same leading slashes, `comps.dropLast`.  It is a string
    prefix of `q`, absolute, and itself normalised. -/
theorem parentOf_prefix {q : List Char} (hq : q.head? = some '/') (hfix : normpath q = q) :
    ∃ (n : Nat) (comps : List (List Char)),
      (n = 1 ∨ n = 2) ∧ (∀ c ∈ comps, Clean c) ∧
      q = List.replicate n '/' ++ joinSlash comps ∧
      parentOf q = List.replicate n '/' ++ joinSlash comps.dropLast ∧
      parentOf q <+: q ∧
      (parentOf q).head? = some '/' ∧
      normpath (parentOf q) = parentOf q := by
  have hwf := normStack_abs_WF hq
  have hn := initialSlashes_pos_of_abs hq
  have hn1 : 1 ≤ initialSlashes q := by rcases hn with e | e <;> omega
  have hn2 : initialSlashes q ≤ 2 := initialSlashes_le_two q
  have hcanon := normpath_abs_eq hq
  rw [hfix] at hcanon
  have hpar := parentOf_canon hn1 hwf
  rw [← hcanon] at hpar
  have hflag : (initialSlashes q != 0) = true := abs_flag hq
  refine ⟨initialSlashes q, (normStack q).reverse, hn, ?_, hcanon, ?_, ?_, ?_, ?_⟩
  · intro c hc; exact WF_true_clean hwf c (List.mem_reverse.1 hc)
  · rw [hpar, List.dropLast_reverse]
  · rw [hpar]
    conv => rhs; rw [hcanon]
    cases hs : normStack q with
    | nil => exact List.prefix_refl _
    | cons last rest =>
      simp only [List.tail_cons, List.reverse_cons]
      by_cases hr : rest = []
      · subst hr; simp [joinSlash]
      · rw [joinSlash_append_singleton (by simpa using hr), ← List.append_assoc]
        exact List.prefix_append _ _
  · rw [hpar]; rcases hn with e | e <;> simp [e, List.replicate]
  · rw [hpar]
    apply normpath_canon hn2 (by rw [hflag]; exact WF.tail hwf)
    rcases hn with e | e <;> simp [e, List.replicate]

/-- `parentOf` applies to every `normpath` result of an absolute path -/
theorem parentOf_normpath_prefix {p : List Char} (habs : p.head? = some '/') :
    parentOf (normpath p) <+: normpath p ∧ normpath (parentOf (normpath p)) = parentOf (normpath p) := by
  obtain ⟨_, _, _, _, _, _, h5, _, h7⟩ :=
    parentOf_prefix (normpath_abs_starts_slash habs) (normpath_idempotent p)
  exact ⟨h5, h7⟩

/-- for a normalised absolute `q` with at least one component, `q` is its parent joined with
    its last component, which is clean -/
theorem join_parentOf {q : List Char} (hq : q.head? = some '/') (hfix : normpath q = q)
    (hne : lstripSlash q ≠ []) :
    parentOf q = (split q).1 ∧ Clean (split q).2 ∧ join (parentOf q) (split q).2 = q := by
  have hne' : lstripSlash (normpath q) ≠ [] := by rwa [hfix]
  have := split_normpath_abs hq hne'
  simp only [hfix] at this
  obtain ⟨hrs, hcl, hj, _⟩ := this
  rw [hrs] at hcl hj
  have hp : parentOf q = (split q).1 := by unfold parentOf; rw [if_neg hne]
  exact ⟨hp, hcl, by rw [hp]; exact hj⟩

/-! ## examples (all by `decide`) -/

section Examples2

private def s (x : String) : List Char := x.toList

-- 1. reassembly: redundant slashes between container and name disappear, normal form agrees
example : split (s "/a//b") = (s "/a", s "b") ∧ join (s "/a") (s "b") = s "/a/b" ∧
    normpath (s "/a//b") = normpath (s "/a/b") := by decide
example : split (s "///x") = (s "///", s "x") ∧ join (s "///") (s "x") = s "///x" := by decide
example := split_raw_reassemble (p := s "/a//b/../") (by decide)
-- 2. empty name
example : split (s "/a//b/../") = (s "/a//b/..", []) ∧
    normpath (s "/a//b/../") = s "/a" ∧ normpath (s "/a//b/..") = s "/a" := by decide
example : split (s "///") = (s "///", []) ∧ normpath (s "///") = s "/" := by decide
example : split (s "//") = (s "//", []) ∧ normpath (s "//") = s "//" := by decide
example := normpath_split_empty (p := s "/a//b/../") (by decide) (by decide)
-- 3. name "."
example : split (s "/a/.") = (s "/a", dot) ∧ normpath (s "/a/.") = normpath (s "/a") := by decide
example : split (s "//.") = (s "//", dot) ∧ normpath (s "//.") = s "//" := by decide
example := normpath_split_dot (p := s "/a/.") (by decide) (by decide)
-- 4. name ".."
example : split (s "/a/b/..") = (s "/a/b", dotdot) ∧ normpath (s "/a/b/..") = s "/a" ∧
    parentOf (s "/a/b") = s "/a" := by decide
example : normpath (s "/a/..") = s "/" ∧ parentOf (normpath (s "/a")) = s "/" := by decide
example : normpath (s "/..") = s "/" ∧ parentOf (normpath (s "/")) = s "/" := by decide
example : normpath (s "//a/..") = s "//" ∧ parentOf (normpath (s "//a")) = s "//" := by decide
example : normpath (s "/x/../a/./b//..") = s "/a" ∧
    parentOf (normpath (s "/x/../a/./b/")) = s "/a" := by decide
example := normpath_split_dotdot (p := s "/a/b/..") (by decide) (by decide)
example := normpath_split_dotdot_join (p := s "//a/..") (by decide) (by decide)
-- 5. clean name
example : split (s "/a/../b//c") = (s "/a/../b", s "c") ∧ Clean (s "c") ∧
    normpath (s "/a/../b//c") = s "/b/c" ∧ normpath (s "/a/../b") = s "/b" ∧
    split (s "/b/c") = (s "/b", s "c") := by decide
example : split (s "//x") = (s "//", s "x") ∧ normpath (s "//x") = s "//x" ∧
    join (normpath (s "//")) (s "x") = s "//x" := by decide
example : split (s "/./x") = (s "/.", s "x") ∧ normpath (s "/./x") = s "/x" ∧
    join (normpath (s "/.")) (s "x") = s "/x" := by decide
example := normpath_split_clean (p := s "/a/../b//c") (by decide) (by decide)
-- 6. corollary, both branches
example : ¬ Clean (split (s "/a/b/..")).2 ∧ ¬ Clean (split (s "/a/b/")).2 ∧
    Clean (split (s "/a/b")).2 := by decide
example := unclean_name_target_is_container_or_parent (p := s "/a/b/..") (by decide) (by decide)
example := parentOf_prefix (q := s "/a/b") (by decide) (by decide)
example : parentOf (s "/") = s "/" ∧ parentOf (s "//") = s "//" ∧ parentOf (s "/a") = s "/" ∧
    parentOf (s "//a") = s "//" ∧ parentOf (s "/a/b/c") = s "/a/b" := by decide

end Examples2

end Xandikos.Py.Path
