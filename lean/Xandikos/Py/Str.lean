/-
  Python `str` helpers over `List Char` used by the translated functions:
  `s.split(c)`, `c.join(l)`, `s.strip(c)`, `startswith`, `endswith`, `in`, ASCII `upper`.
  Model part (no Mathlib).  Lemmas are in `StrProofs.lean`.
-/
namespace Xandikos.Py.Str

def consHead (c : Char) : List (List Char) → List (List Char)
  | [] => [[c]]
  | h :: t => (c :: h) :: t

/-- Python `s.split(sep)` for a one-character separator: never returns `[]`. -/
def splitOn (sep : Char) : List Char → List (List Char)
  | [] => [[]]
  | c :: cs => if c = sep then [] :: splitOn sep cs else consHead c (splitOn sep cs)

/-- Python `sep.join(parts)` for a one-character separator -/
def joinWith (sep : Char) : List (List Char) → List Char
  | [] => []
  | [x] => x
  | x :: y :: rest => x ++ sep :: joinWith sep (y :: rest)

/-- `s.lstrip(c)` -/
def lstrip (c : Char) : List Char → List Char
  | [] => []
  | x :: xs => if x = c then lstrip c xs else x :: xs

/-- `s.rstrip(c)` -/
def rstrip (c : Char) (s : List Char) : List Char := (lstrip c s.reverse).reverse

/-- `s.strip(c)` -/
def strip (c : Char) (s : List Char) : List Char := rstrip c (lstrip c s)

/-- `a.startswith(b)` -/
def startsWith (a b : List Char) : Bool := b.isPrefixOf a

/-- `a.endswith(b)` -/
def endsWith (a b : List Char) : Bool := b.reverse.isPrefixOf a.reverse

/-- `b in a` (substring) -/
def isInfix : List Char → List Char → Bool
  | b, [] => b.isEmpty
  | b, (x :: xs) => b.isPrefixOf (x :: xs) || isInfix b xs

/-- `bytes.upper()` on ASCII: only a–z are changed -/
def upperAscii (s : List Char) : List Char :=
  s.map fun c => if 'a' ≤ c ∧ c ≤ 'z' then Char.ofNat (c.toNat - 32) else c

/-- Python truthiness of a `str` -/
def truthy (s : List Char) : Bool := !s.isEmpty

end Xandikos.Py.Str
