/-
  `create_href` with a base: the join is done on *quoted* text,
  `unquote(urljoin(quote(base), quote(href)))`.  For a clean directory `base` and a relative path
  `href = s₁/…/sₙ[/]` whose segments are directory-entry names made of *any* characters (spaces,
  `#`, `?`, `:`, `;`, non-ASCII …), the result is plain concatenation `base ++ href`.
  Builds on `urljoin_rel` (`UrlJoinRel.lean`).  Fully proved, core Lean only.
-/
import Xandikos.Py.UrlJoinRel

namespace Xandikos.Py.Url

/-- a path segment as a directory entry can be: non-empty, not `.`/`..`, no `/` -/
def nameSeg (s : List Char) : Bool := okSeg s && !s.contains '/'

theorem nameSeg_spec {s : List Char} (h : nameSeg s = true) : okSeg s = true ∧ '/' ∉ s := by
  simpa [nameSeg] using h

/-! ## `quote` character by character -/

/-- `quote` on a list of characters -/
abbrev quoteL (cs : List Char) : List Char := cs.flatMap quoteChar1

theorem toList_quote_ofList (s : List Char) : (quote (String.ofList s)).toList = quoteL s := by
  rw [toList_quote_eq, String.toList_ofList]

/-- `quote` distributes over concatenation -/
theorem quote_append (a b : String) : quote (a ++ b) = quote a ++ quote b := by
  apply String.ext
  rw [String.toList_append, toList_quote_eq, toList_quote_eq, toList_quote_eq,
    String.toList_append, List.flatMap_append]

/-- only the byte `/` is quoted to something containing the byte `/` -/
theorem slash_of_mem_quoteByte (b : UInt8) (h : 47 ∈ quoteByte true b) : b = 47 := by
  unfold quoteByte at h
  split at h
  · simp only [List.mem_singleton] at h
    exact h.symm
  · exfalso
    simp only [List.mem_cons, List.not_mem_nil, or_false] at h
    rcases h with h | h | h
    · exact absurd h (by decide)
    · have := hexUpper_unreserved _ (div16_lt b)
      rw [← h] at this
      exact absurd this (by decide)
    · have := hexUpper_unreserved _ (mod16_lt b)
      rw [← h] at this
      exact absurd this (by decide)

/-- the quoted form of a character other than `/` contains no `/` -/
theorem quoteChar1_no_slash (c : Char) (hc : c ≠ '/') : '/' ∉ quoteChar1 c := by
  intro h
  rw [quoteChar1, List.mem_map] at h
  obtain ⟨x, hx, hxc⟩ := h
  have := byteChar_eq_slash x hxc
  subst this
  rw [List.mem_flatMap] at hx
  obtain ⟨b, hb, hxb⟩ := hx
  have := slash_of_mem_quoteByte b hxb
  subst this
  exact hc (slash_of_mem_utf8EncodeChar c hb)

theorem quoteChar1_ne_nil (c : Char) : quoteChar1 c ≠ [] := by
  obtain ⟨x, rest, e, _⟩ := quoteChar1_head c
  rw [e]; simp

theorem quoteL_ne_nil {s : List Char} (h : s ≠ []) : quoteL s ≠ [] := by
  cases s with
  | nil => exact absurd rfl h
  | cons c cs =>
    obtain ⟨x, rest, e, _⟩ := quoteChar1_head c
    simp [quoteL, e]

/-! ## `quote` and `split('/')` -/

theorem splitOn_append_of_not_mem (sep : Char) (l r h : List Char) (t : List (List Char))
    (hl : sep ∉ l) (hr : splitOn sep r = h :: t) : splitOn sep (l ++ r) = (l ++ h) :: t := by
  induction l with
  | nil => simpa using hr
  | cons c l ih =>
    have hc : c ≠ sep := fun e => hl (e ▸ List.mem_cons_self ..)
    have ih := ih (fun hm => hl (List.mem_cons_of_mem _ hm))
    simp [splitOn, hc, ih]

/-- `quote(s).split('/') == [quote(p) for p in s.split('/')]` -/
theorem splitOn_quoteL (cs : List Char) :
    splitOn '/' (quoteL cs) = (splitOn '/' cs).map quoteL := by
  induction cs with
  | nil => rfl
  | cons c cs ih =>
    by_cases hc : c = '/'
    · subst hc
      simp only [quoteL, List.flatMap_cons, quoteChar1_slash] at ih ⊢
      simp [splitOn, ih]
    · cases hs : splitOn '/' cs with
      | nil => exact absurd hs (splitOn_ne_nil _ _)
      | cons h t =>
        rw [hs, List.map_cons] at ih
        have := splitOn_append_of_not_mem '/' (quoteChar1 c) (quoteL cs) _ _
          (quoteChar1_no_slash c hc) ih
        simp only [quoteL, List.flatMap_cons] at this ⊢
        rw [this]
        simp [splitOn, hc, hs]

/-- `quote('/'.join(l)) == '/'.join(quote(p) for p in l)` -/
theorem quoteL_joinWith (l : List (List Char)) :
    quoteL (joinWith '/' l) = joinWith '/' (l.map quoteL) := by
  induction l with
  | nil => rfl
  | cons p ps ih =>
    cases ps with
    | nil => rfl
    | cons q qs =>
      rw [joinWith_cons_cons, List.map_cons, List.map_cons, joinWith_cons_cons, ← List.map_cons,
        ← ih]
      simp [quoteL, quoteChar1_slash]

/-! ## quoting keeps proper names proper -/

theorem quoteL_eq_dot {s : List Char} (h : quoteL s = dot) : s = dot := by
  have := unquote_quote (String.ofList s)
  rw [unquote, toList_quote_ofList, h, unquoteChars_dot] at this
  simpa using (congrArg String.toList this).symm

theorem quoteL_eq_dotdot {s : List Char} (h : quoteL s = dotdot) : s = dotdot := by
  have := unquote_quote (String.ofList s)
  rw [unquote, toList_quote_ofList, h, unquoteChars_dotdot] at this
  simpa using (congrArg String.toList this).symm

theorem notDot_quoteL {s : List Char} (h : notDot s = true) : notDot (quoteL s) = true := by
  simp only [notDot, Bool.and_eq_true, decide_eq_true_eq] at h ⊢
  exact ⟨fun e => h.1 (quoteL_eq_dot e), fun e => h.2 (quoteL_eq_dotdot e)⟩

theorem okSeg_quoteL {s : List Char} (h : okSeg s = true) : okSeg (quoteL s) = true := by
  obtain ⟨hne, hd⟩ := okSeg_spec h
  simp only [okSeg, Bool.and_eq_true, decide_eq_true_eq]
  exact ⟨quoteL_ne_nil hne, notDot_quoteL hd⟩

/-- quoting a clean directory path gives a clean directory path -/
theorem isCleanDir_quote (B : String) (hB : isCleanDir B.toList = true) :
    isCleanDir (quote B).toList = true := by
  obtain ⟨mid, hsplit, hmid⟩ := isCleanDir_split hB
  have hsp : splitOn '/' (quote B).toList = [] :: (mid.map quoteL ++ [[]]) := by
    rw [toList_quote_eq, splitOn_quoteL, hsplit]
    simp
  unfold isCleanDir
  rw [hsp]
  simp only [Bool.and_eq_true, decide_eq_true_eq, beq_iff_eq, List.all_eq_true]
  refine ⟨⟨by simp, List.getLast?_concat ..⟩, ?_⟩
  rw [List.dropLast_concat]
  intro s h
  obtain ⟨p, hp, rfl⟩ := List.mem_map.mp h
  exact okSeg_quoteL (hmid p hp)

/-- quoting a relative reference quotes its segments -/
theorem quote_relRef (segs : List (List Char)) (trail : Bool) (hseg : ∀ s ∈ segs, nameSeg s = true) :
    (quote (String.ofList (relRef segs trail))).toList =
      relRef (segs.map fun s => (quote (String.ofList s)).toList) trail := by
  have _ := hseg  -- (not needed: `quote` keeps every `/` and creates none)
  have hf : (fun s => (quote (String.ofList s)).toList) = quoteL :=
    funext toList_quote_ofList
  rw [hf, toList_quote_ofList, relRef, relRef, quoteL_joinWith]
  cases trail <;> simp

/-! ## quoted names are plain segments -/

theorem isPlainChar_of_isSegChar {c : Char} (h : isSegChar c = true) : isPlainChar c = true := by
  have hq := isSegChar_isQuoteChar h
  have h1 := (isQuoteChar_toNat hq).1
  have h2 := isQuoteChar_ne hq
  have h3 := isSegChar_ne_slash h
  simp [isPlainChar, h1, h2, h3]

/-- a quoted name is a plain segment -/
theorem plainSeg_quote (s : List Char) (h : nameSeg s = true) :
    plainSeg (quote (String.ofList s)).toList = true := by
  obtain ⟨hok, hslash⟩ := nameSeg_spec h
  simp only [plainSeg, Bool.and_eq_true, List.all_eq_true]
  constructor
  · rw [toList_quote_ofList]; exact okSeg_quoteL hok
  · intro c hc
    rw [quote_eq_quoteSegment _ (by rwa [String.toList_ofList])] at hc
    exact isPlainChar_of_isSegChar (quoteSegment_chars _ c hc)

/-! ## the join in quoted form -/

/-- **the join in quoted form is concatenation, for names made of any characters**:
    `unquote(urljoin(quote(B), quote(R))) = B ++ R` for a clean directory `B` and a relative
    path `R = s₁/…/sₙ[/]` of directory-entry names -/
theorem unquote_urljoin_quote (B : String) (segs : List (List Char)) (trail : Bool)
    (hB : isCleanDir B.toList = true) (hs : segs ≠ []) (hseg : ∀ s ∈ segs, nameSeg s = true) :
    unquote (urljoin_simple (quote B) (quote (String.ofList (relRef segs trail)))) =
      B ++ String.ofList (relRef segs trail) := by
  have hq : quote (String.ofList (relRef segs trail)) =
      String.ofList (relRef (segs.map fun s => (quote (String.ofList s)).toList) trail) := by
    rw [← quote_relRef segs trail hseg, String.ofList_toList]
  have hj := urljoin_rel (quote B) (segs.map fun s => (quote (String.ofList s)).toList) trail
    (isCleanDir_quote B hB) (by simpa using hs) (by
      intro s h
      obtain ⟨p, hp, rfl⟩ := List.mem_map.mp h
      exact plainSeg_quote p (hseg p hp))
  rw [← hq] at hj
  rw [hj, ← quote_append, unquote_quote]

/-! ## Concrete values (sanity / non-vacuity) -/

example : nameSeg "in#ner?x:y;z é".toList = true := by decide
example : nameSeg "calendars".toList = true := by decide
example : nameSeg "a/b".toList = false := by decide
example : nameSeg ".".toList = false := by decide
example : nameSeg "..".toList = false := by decide
example : nameSeg "".toList = false := by decide
example : isCleanDir "/dav/a b/in#ner/".toList = true := by decide
example : quote "/dav/a b/in#ner/" = "/dav/a%20b/in%23ner/" := by decide
example : isCleanDir (quote "/dav/a b/in#ner/").toList = true := by decide
example : plainSeg (quote "in#ner?x:y;z é").toList = true := by decide
example : relRef ["calendars".toList] true = "calendars/".toList := by decide
example : unquote (urljoin_simple (quote "/dav/a b/in#ner/") (quote "calendars/"))
    = "/dav/a b/in#ner/calendars/" := by decide +kernel
example : unquote (urljoin_simple (quote "/dav/a b/in#ner/") (quote "x:y;z/é ?.ics"))
    = "/dav/a b/in#ner/x:y;z/é ?.ics" := by decide +kernel
-- without the quoting the same join goes wrong (`x:` is taken for a scheme):
example : urljoin_simple "/dav/" "x:y;z/é ?.ics" = "x:y;z/é ?.ics" := by decide
-- the side conditions matter: a dot segment is resolved, an empty segment is dropped
example : unquote (urljoin_simple (quote "/user/extra 1/in#ner/") (quote ".")) = "/user/extra 1/in#ner/" := by
  decide +kernel
example : unquote (urljoin_simple (quote "/dav/a b/") (quote "../x")) = "/dav/x" := by decide +kernel
example : unquote (urljoin_simple (quote "/dav/a b/") (quote "x//y")) = "/dav/a b/x/y" := by decide +kernel

end Xandikos.Py.Url
