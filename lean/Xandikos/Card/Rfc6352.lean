/-
  RFC 6352 section 10.5 (addressbook-query filter) written from the RFC text, as propositions —
  independent of how `carddav.py` evaluates it.
-/
import Xandikos.Card.Filter

namespace Xandikos.Card.Rfc
open Xandikos.Py Xandikos.Card

/-- RFC 4790 collations the server supports: what is compared after normalisation.
    `i;octet` compares as is; `i;ascii-casemap` folds a–z to A–Z;  `i;unicode-casemap` is only
    required (by the property) to be total and ASCII-case-insensitive — we take the same fold. -/
def fold (coll : List Char) (s : List Char) : List Char :=
  if coll = "i;octet".toList then s else Str.upperAscii s

def SupportedCollation (c : List Char) : Prop :=
  c = "i;ascii-casemap".toList ∨ c = "i;octet".toList ∨ c = "i;unicode-casemap".toList

def SupportedType (k : List Char) : Prop :=
  k = "equals".toList ∨ k = "contains".toList ∨ k = "starts-with".toList ∨ k = "ends-with".toList

/-- section 10.5.4: does `value` match the text under the match type -/
def cmp (k : List Char) (value text : List Char) : Prop :=
  if k = "equals".toList then value = text
  else if k = "contains".toList then text <:+: value
  else if k = "starts-with".toList then text <+: value
  else text <:+ value

/-- CARDDAV:text-match with `negate-condition` -/
def textMatches (tm : TextMatch) (value : List Char) : Prop :=
  if tm.negate then ¬ cmp tm.mtype (fold tm.collation value) (fold tm.collation tm.text)
  else cmp tm.mtype (fold tm.collation value) (fold tm.collation tm.text)

/-- CARDDAV:param-filter (section 10.5.2) -/
def paramMatches (name : List Char) (isNotDefined : Bool) (tms : List TextMatch) (l : Line) : Prop :=
  if isNotDefined then ∀ p ∈ l.params, p.1 ≠ name
  else ∃ p ∈ l.params, p.1 = name ∧
    -- the first parameter of that name is the one `vobject` exposes; names are unique per line
    l.params.find? (fun q => q.1 == name) = some p ∧
    ∀ tm ∈ tms, ∃ v ∈ p.2, textMatches tm v

def childMatches (l : Line) : Child → Prop
  | .text tm => textMatches tm l.value
  | .param n nd tms => paramMatches n nd tms l

/-- CARDDAV:prop-filter (section 10.5.1), with its own `test` attribute (default anyof) -/
def propFilterMatches (pf : PropFilter) (card : Card) : Prop :=
  if pf.isNotDefined then ∀ l ∈ card, l.name ≠ pf.name
  else ∃ l ∈ card, l.name = pf.name ∧
    (pf.children = [] ∨
      (if pf.allof then ∀ c ∈ pf.children, childMatches l c
       else ∃ c ∈ pf.children, childMatches l c))

/-- CARDDAV:filter (section 10.5): `test` = anyof (default) | allof; an empty filter matches
    every vCard -/
def filterMatches (f : Filter) (card : Card) : Prop :=
  f.props = [] ∨
    (if f.allof then ∀ pf ∈ f.props, propFilterMatches pf card
     else ∃ pf ∈ f.props, propFilterMatches pf card)

end Xandikos.Card.Rfc
