/-
  addressbook-query filter evaluation: hand-written model of `carddav.py` (apply_text_match,
  apply_param_filter, apply_prop_filter, apply_filter) and of `collation.py`
  (`_match` and the `collations` table are tied to /repo by the translator).
-/
import Xandikos.Py.Prelude

namespace Xandikos.Card
open Xandikos.Py

/-- `collation._match(a, b, k)` -/
def match_ (a b k : List Char) : Except PyErr Bool :=
  if k == "equals".toList then pure (a == b)
  else if k == "contains".toList then pure (Str.isInfix b a)
  else if k == "starts-with".toList then pure (Str.startsWith a b)
  else if k == "ends-with".toList then pure (Str.endsWith a b)
  else throw (.raised "NotImplementedError" "")

/-- the `collations` table: name ↦ transformation applied to both operands before `_match` -/
def collations : List (List Char × Enc × Enc) :=
  [ ("i;ascii-casemap".toList, .utf8Upper, .utf8Upper),
    ("i;octet".toList, .identity, .identity),
    ("i;unicode-casemap".toList, .utf8Upper, .utf8Upper) ]

/-- `collations[name](a, b, k)`; an unknown name is a KeyError -/
def collate (table : List (List Char × Enc × Enc)) (name a b k : List Char) : Except PyErr Bool :=
  match table.find? (fun r => r.1 == name) with
  | some (_, fa, fb) => do
    let a' ← fa.apply a
    let b' ← fb.apply b
    match_ a' b' k
  | none => throw (.raised "KeyError" (String.ofList name))

/-- one content line of a vCard as `vobject` presents it: lower-cased name, text value,
    parameters (name ↦ list of values) -/
structure Line where
  name : List Char
  value : List Char
  params : List (List Char × List (List Char))
  deriving Repr

abbrev Card := List Line

structure TextMatch where
  collation : List Char := "i;ascii-casemap".toList
  negate : Bool := false
  mtype : List Char := "contains".toList
  text : List Char
  deriving Repr

inductive Child
  | text (t : TextMatch)
  | param (name : List Char) (isNotDefined : Bool) (tms : List TextMatch)
  deriving Repr

structure PropFilter where
  name : List Char
  allof : Bool := false           -- test="allof" (default anyof)
  isNotDefined : Bool := false
  children : List Child := []
  deriving Repr

structure Filter where
  allof : Bool := false           -- test="allof" (default anyof)
  props : List PropFilter := []
  deriving Repr

/-- `apply_text_match(el, value)` -/
def applyTextMatch (tm : TextMatch) (value : List Char) : Except PyErr Bool := do
  let m ← collate collations tm.collation value tm.text tm.mtype
  pure (if tm.negate then !m else m)

def allM {α : Type} (f : α → Except PyErr Bool) : List α → Except PyErr Bool
  | [] => pure true
  | x :: xs => do if (← f x) then allM f xs else pure false

def anyM {α : Type} (f : α → Except PyErr Bool) : List α → Except PyErr Bool
  | [] => pure false
  | x :: xs => do if (← f x) then pure true else anyM f xs

/-- `apply_param_filter(el, prop)`: a parameter matches when it is present and every
    text-match matches at least one of its values -/
def applyParamFilter (name : List Char) (isNotDefined : Bool) (tms : List TextMatch)
    (l : Line) : Except PyErr Bool :=
  match l.params.find? (fun p => p.1 == name) with
  | none => pure isNotDefined
  | some (_, values) =>
    if isNotDefined then pure false
    else allM (fun tm => anyM (applyTextMatch tm) values) tms

def applyChild (l : Line) : Child → Except PyErr Bool
  | .text tm => applyTextMatch tm l.value
  | .param n nd tms => applyParamFilter n nd tms l

/-- `apply_prop_filter(el, ab)` -/
def applyPropFilter (pf : PropFilter) (card : Card) : Except PyErr Bool :=
  let insts := card.filter fun l => l.name == pf.name
  if pf.isNotDefined then pure insts.isEmpty
  else if insts.isEmpty then pure false
  else
    anyM (fun l =>
      if pf.children.isEmpty then pure true
      else if pf.allof then allM (applyChild l) pf.children
      else anyM (applyChild l) pf.children) insts

/-- `apply_filter(el, resource)` for a vCard resource -/
def applyFilter (f : Filter) (card : Card) : Except PyErr Bool :=
  if f.props.isEmpty then pure true
  else if f.allof then allM (fun pf => applyPropFilter pf card) f.props
  else anyM (fun pf => applyPropFilter pf card) f.props

/-- the report loop: matching members in listing order; stops (`break`) at the first match
    beyond `nresults` -/
def queryGo (f : Filter) (limit : Option Nat) : Nat → List (String × Card) → Except PyErr (List String)
  | _, [] => pure []
  | i, (n, c) :: rest => do
    if (← applyFilter f c) then
      if (match limit with | some k => decide (i ≥ k) | none => false) then pure []
      else do
        let r ← queryGo f limit (i + 1) rest
        pure (n :: r)
    else queryGo f limit i rest

def query (f : Filter) (limit : Option Nat) (members : List (String × Card)) :
    Except PyErr (List String) := queryGo f limit 0 members

end Xandikos.Card
