import Xandikos.Card.Rfc6352

namespace Xandikos.Card
open Xandikos.Py Xandikos.Card.Rfc

/-! ### the string predicates decide prefix / suffix / infix -/

theorem startsWith_iff (a b : List Char) : Str.startsWith a b = true ↔ b <+: a := by
  unfold Str.startsWith; exact List.isPrefixOf_iff_prefix

theorem endsWith_iff (a b : List Char) : Str.endsWith a b = true ↔ b <:+ a := by
  unfold Str.endsWith
  rw [List.isPrefixOf_iff_prefix, List.reverse_prefix]

theorem isInfix_iff (b a : List Char) : Str.isInfix b a = true ↔ b <:+: a := by
  induction a with
  | nil =>
    simp only [Str.isInfix, List.isEmpty_iff]
    constructor
    · intro h; subst h; exact List.infix_refl _
    · intro h; exact List.eq_nil_of_infix_nil h
  | cons x xs ih =>
    simp only [Str.isInfix, Bool.or_eq_true, List.isPrefixOf_iff_prefix, ih]
    rw [List.infix_cons_iff]

/-! ### leaves -/

/-- a monadic test "decides" a proposition: it terminates without raising and is true exactly
    when the proposition holds -/
def Decides (r : Except PyErr Bool) (P : Prop) : Prop := ∃ b, r = .ok b ∧ (b = true ↔ P)

theorem pure_ok (b : Bool) : (pure b : Except PyErr Bool) = .ok b := rfl

theorem match_decides (a b k : List Char) (hk : SupportedType k) :
    Decides (match_ a b k) (cmp k a b) := by
  unfold match_ cmp
  rcases hk with rfl | rfl | rfl | rfl
  · exact ⟨a == b, rfl, by simp⟩
  · have e1 : ("contains".toList == "equals".toList) = false := by decide
    have e2 : ("contains".toList == "contains".toList) = true := by decide
    have p1 : ¬ ("contains".toList = "equals".toList) := by decide
    simp only [e1, e2, Bool.false_eq_true, ↓reduceIte, p1]
    exact ⟨Str.isInfix b a, rfl, isInfix_iff b a⟩
  · have e1 : ("starts-with".toList == "equals".toList) = false := by decide
    have e2 : ("starts-with".toList == "contains".toList) = false := by decide
    have e3 : ("starts-with".toList == "starts-with".toList) = true := by decide
    have p1 : ¬ ("starts-with".toList = "equals".toList) := by decide
    have p2 : ¬ ("starts-with".toList = "contains".toList) := by decide
    simp only [e1, e2, e3, Bool.false_eq_true, ↓reduceIte, p1, p2]
    exact ⟨Str.startsWith a b, rfl, startsWith_iff a b⟩
  · have e1 : ("ends-with".toList == "equals".toList) = false := by decide
    have e2 : ("ends-with".toList == "contains".toList) = false := by decide
    have e3 : ("ends-with".toList == "starts-with".toList) = false := by decide
    have e4 : ("ends-with".toList == "ends-with".toList) = true := by decide
    have p1 : ¬ ("ends-with".toList = "equals".toList) := by decide
    have p2 : ¬ ("ends-with".toList = "contains".toList) := by decide
    have p3 : ¬ ("ends-with".toList = "starts-with".toList) := by decide
    simp only [e1, e2, e3, e4, Bool.false_eq_true, ↓reduceIte, p1, p2, p3]
    exact ⟨Str.endsWith a b, rfl, endsWith_iff a b⟩

theorem collate_decides (c a b k : List Char) (hc : SupportedCollation c) (hk : SupportedType k) :
    Decides (collate collations c a b k) (cmp k (fold c a) (fold c b)) := by
  unfold collate collations fold
  rcases hc with rfl | rfl | rfl
  · have f1 : (List.find? (fun r => r.1 == "i;ascii-casemap".toList)
        [("i;ascii-casemap".toList, Enc.utf8Upper, Enc.utf8Upper),
         ("i;octet".toList, Enc.identity, Enc.identity),
         ("i;unicode-casemap".toList, Enc.utf8Upper, Enc.utf8Upper)])
        = some ("i;ascii-casemap".toList, Enc.utf8Upper, Enc.utf8Upper) := by decide
    have p1 : ¬ ("i;ascii-casemap".toList = "i;octet".toList) := by decide
    simp only [f1, p1, ↓reduceIte, Enc.apply]
    exact match_decides _ _ k hk
  · have f1 : (List.find? (fun r => r.1 == "i;octet".toList)
        [("i;ascii-casemap".toList, Enc.utf8Upper, Enc.utf8Upper),
         ("i;octet".toList, Enc.identity, Enc.identity),
         ("i;unicode-casemap".toList, Enc.utf8Upper, Enc.utf8Upper)])
        = some ("i;octet".toList, Enc.identity, Enc.identity) := by decide
    simp only [f1, ↓reduceIte, Enc.apply]
    exact match_decides _ _ k hk
  · have f1 : (List.find? (fun r => r.1 == "i;unicode-casemap".toList)
        [("i;ascii-casemap".toList, Enc.utf8Upper, Enc.utf8Upper),
         ("i;octet".toList, Enc.identity, Enc.identity),
         ("i;unicode-casemap".toList, Enc.utf8Upper, Enc.utf8Upper)])
        = some ("i;unicode-casemap".toList, Enc.utf8Upper, Enc.utf8Upper) := by decide
    have p1 : ¬ ("i;unicode-casemap".toList = "i;octet".toList) := by decide
    simp only [f1, p1, ↓reduceIte, Enc.apply]
    exact match_decides _ _ k hk

def SupportedTM (tm : TextMatch) : Prop := SupportedCollation tm.collation ∧ SupportedType tm.mtype

theorem textMatch_decides (tm : TextMatch) (v : List Char) (h : SupportedTM tm) :
    Decides (applyTextMatch tm v) (textMatches tm v) := by
  unfold applyTextMatch textMatches
  obtain ⟨b, hb, hiff⟩ := collate_decides tm.collation v tm.text tm.mtype h.1 h.2
  rw [hb]
  cases hn : tm.negate
  · exact ⟨b, rfl, by simpa using hiff⟩
  · refine ⟨!b, rfl, ?_⟩
    simp only [↓reduceIte, Bool.not_eq_true']
    rw [← hiff]; cases b <;> simp

/-! ### lifting through `allM` / `anyM` -/

theorem allM_decides {α : Type} (f : α → Except PyErr Bool) (P : α → Prop) (l : List α)
    (h : ∀ x ∈ l, Decides (f x) (P x)) : Decides (allM f l) (∀ x ∈ l, P x) := by
  induction l with
  | nil => exact ⟨true, rfl, by simp⟩
  | cons x xs ih =>
    obtain ⟨b, hb, hiff⟩ := h x (List.mem_cons_self ..)
    obtain ⟨b', hb', hiff'⟩ := ih (fun y hy => h y (List.mem_cons_of_mem _ hy))
    unfold allM
    rw [hb]
    cases b with
    | true =>
      refine ⟨b', hb', ?_⟩
      rw [hiff']; simp [hiff.mp rfl]
    | false =>
      refine ⟨false, rfl, ?_⟩
      have : ¬ P x := fun hp => by simpa using hiff.mpr hp
      simp [this]

theorem anyM_decides {α : Type} (f : α → Except PyErr Bool) (P : α → Prop) (l : List α)
    (h : ∀ x ∈ l, Decides (f x) (P x)) : Decides (anyM f l) (∃ x ∈ l, P x) := by
  induction l with
  | nil => exact ⟨false, rfl, by simp⟩
  | cons x xs ih =>
    obtain ⟨b, hb, hiff⟩ := h x (List.mem_cons_self ..)
    obtain ⟨b', hb', hiff'⟩ := ih (fun y hy => h y (List.mem_cons_of_mem _ hy))
    unfold anyM
    rw [hb]
    cases b with
    | true =>
      refine ⟨true, rfl, ?_⟩
      simp [hiff.mp rfl]
    | false =>
      refine ⟨b', hb', ?_⟩
      have : ¬ P x := fun hp => by simpa using hiff.mpr hp
      rw [hiff']; simp [this]

theorem decides_pure (b : Bool) (P : Prop) (h : b = true ↔ P) : Decides (pure b) P :=
  ⟨b, rfl, h⟩

end Xandikos.Card
