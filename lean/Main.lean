import Xandikos.Driver.StoreDriver
import Xandikos.Driver.PyDriver
import Xandikos.Driver.HttpDriver
import Xandikos.Driver.PureDriver
import Xandikos.Driver.CardDriver
import Xandikos.Driver.CrashDriver
import Xandikos.Driver.ConcDriver

partial def loop {σ : Type} (h : IO.FS.Stream) (out : IO.FS.Stream) (st : σ)
    (step : σ → String → σ × String) : IO Unit := do
  let line ← h.getLine
  if line.isEmpty then return ()
  let (st', o) := step st line
  out.putStrLn o
  loop h out st' step

def main (args : List String) : IO UInt32 := do
  let stdin ← IO.getStdin
  let stdout ← IO.getStdout
  match args with
  | ["store"] => loop stdin stdout ({} : Xandikos.StoreDriver.DState) Xandikos.StoreDriver.step; return 0
  | ["http"] => loop stdin stdout ({} : Xandikos.HttpDriver.HState) Xandikos.HttpDriver.step; return 0
  | ["card"] => loop stdin stdout ({} : Xandikos.CardDriver.CState) Xandikos.CardDriver.step; return 0
  | ["conc"] => loop stdin stdout ({} : Xandikos.ConcDriver.QState) Xandikos.ConcDriver.step; return 0
  | ["crash"] => loop stdin stdout ({} : Xandikos.CrashDriver.CState) Xandikos.CrashDriver.step; return 0
  | ["pure"] => loop stdin stdout () Xandikos.PureDriver.step; return 0
  | ["pyurl"] => loop stdin stdout () Xandikos.PyDriver.urlStep; return 0
  | ["pyini"] => loop stdin stdout () Xandikos.PyDriver.iniStep; return 0
  | ["pypath"] => loop stdin stdout () Xandikos.PyDriver.pathStep; return 0
  | _ => IO.eprintln "usage: xdriver <store|...>"; return 2
