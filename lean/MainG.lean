/-
  `xgdriver`: runs the *generated* definitions (harness/translate.py, `Xandikos/Generated/`) on
  protocol lines, so that the harness can compare what the translator emitted with what the
  Python function it was read from returns on the same arguments (translator validation — the
  translator is part of the trusted base, this is its differential test).  Kept apart from
  `xdriver` so that a generated file that no longer compiles cannot take the model driver down.
-/
import Xandikos.Generated.Etag
import Xandikos.Generated.Href
import Xandikos.Generated.StrongEtag
import Xandikos.Generated.PathMap
import Xandikos.Generated.Collation
import Xandikos.Generated.Unescape
import Xandikos.Generated.Wellknown
import Xandikos.Driver.Codec

open Xandikos Xandikos.Codec

def bb (x : Bool) : String := if x then "1" else "0"

def encL (l : List Char) : String := enc (String.ofList l)
def encLO : Option (List Char) → String
  | some l => encL l
  | none => "~"

def exc : Except Py.PyErr Bool → String
  | .ok v => bb v
  | .error (.raised cls _) => "raise:" ++ cls

def gstep (line : String) : String :=
  match words line with
  | ["etag", h, cur] => bb (Generated.etag_matches (fieldS h).toList ((field cur).map String.toList))
  | ["ets", h] => encL (Generated.ensure_trailing_slash (fieldS h).toList)
  | ["h2p", script, href] => encLO (Generated.href_to_path (fieldS script).toList (fieldS href).toList)
  | ["cse", e] => encL (Generated.create_strong_etag (fieldS e).toList)
  | ["xse", e] => encLO (Generated.extract_strong_etag ((field e).map String.toList))
  | ["mapfs", root, rel] => encL (Generated.map_to_file_path (fieldS root).toList (fieldS rel).toList)
  | ["unesc", t, sp] =>
    match Generated.unescape_text (fieldS t).toList (sp == "1") with
    | .ok parts => "=" ++ ",".intercalate (parts.map fun p => pctEncode (String.ofList p))
    | .error (.raised cls _) => "raise:" ++ cls
  | ["wk", s, p] => bb (Generated.wellknown_redirects (fieldS s).toList (fieldS p).toList)
  | ["match", a, b, k] => exc (Generated.match_ (fieldS a).toList (fieldS b).toList (fieldS k).toList)
  | ["collate", name, a, b, k] =>
    match Generated.collations.find? (fun r => r.1 == (fieldS name).toList) with
    | some (_, fa, fb) =>
      exc (do
        let a' ← fa.apply (fieldS a).toList
        let b' ← fb.apply (fieldS b).toList
        Generated.match_ a' b' (fieldS k).toList)
    | none => "raise:KeyError"
  | _ => "bad-op"

partial def gloop (h : IO.FS.Stream) (out : IO.FS.Stream) : IO Unit := do
  let line ← h.getLine
  if line.isEmpty then return ()
  out.putStrLn (gstep line)
  gloop h out

def main (_args : List String) : IO UInt32 := do
  gloop (← IO.getStdin) (← IO.getStdout)
  return 0
