/-
  `xgdriver`: runs the *generated* definitions (harness/translate.py, `Xandikos/Generated/`) on
  protocol lines, so that the harness can compare what the translator emitted with what the
  Python function it was read from returns on the same arguments (translator validation — the
  translator is part of the trusted base, this is its differential test).  Kept apart from
  `xdriver` so that a generated file that no longer compiles cannot take the model driver down.
-/
import Xandikos.Generated.Etag
import Xandikos.Generated.Href
import Xandikos.Generated.StrongEtag
import Xandikos.Generated.PathMap
import Xandikos.Generated.Collation
import Xandikos.Generated.Unescape
import Xandikos.Generated.Wellknown
import Xandikos.Generated.TimeRange
import Xandikos.Generated.IterChanges
import Xandikos.Generated.Gates
import Xandikos.Generated.Multiget
import Xandikos.Generated.FindKeys
import Xandikos.Generated.StoreGate
import Xandikos.Driver.Codec

open Xandikos Xandikos.Codec

def bb (x : Bool) : String := if x then "1" else "0"

def encL (l : List Char) : String := enc (String.ofList l)
def encLO : Option (List Char) → String
  | some l => encL l
  | none => "~"

def exc : Except Py.PyErr Bool → String
  | .ok v => bb v
  | .error (.raised cls _) => "raise:" ++ cls

/-- `~` absent, `D<n>` a DATE whose midnight is instant `n`, `T<n>` a DATE-TIME at instant `n` -/
def tvalOf (s : String) : Option Py.TVal :=
  if s.startsWith "D" then (s.drop 1).toString.toInt?.map fun k => { isDateTime := false, key := k }
  else if s.startsWith "T" then (s.drop 1).toString.toInt?.map fun k => { isDateTime := true, key := k }
  else none

def durOf (s : String) : Option Int := if s == "~" then none else s.toInt?

/-- `a:b,c:d` periods (`-` for none) -/
def periodsOf (s : String) : List (Int × Int) :=
  if s == "-" then [] else (s.splitOn ",").filterMap fun it =>
    match it.splitOn ":" with
    | [a, b] => match a.toInt?, b.toInt? with
      | some x, some y => some (x, y)
      | _, _ => none
    | _ => none

/-- `n:ct:e,n:ct:e` (each part percent-encoded; `-` for the empty listing) -/
def entriesOf (s : String) : List Generated.Entry :=
  if s == "-" then [] else (s.splitOn ",").filterMap fun it =>
    match it.splitOn ":" with
    | [a, b, c] => some (pctDecode a, pctDecode b, pctDecode c)
    | _ => none

def optEnc : Option String → String
  | some s => pctEncode s
  | none => "~"

/-- `a,b,c` percent-encoded items (`-`: none) -/
def itemsOf (s : String) : List String := if s == "-" then [] else (s.splitOn ",").map pctDecode

def countersOf (s : String) : Map Nat :=
  if s == "-" then ∅ else (s.splitOn ",").foldl (fun m it =>
    match it.splitOn ":" with
    | [k, n] => m.insert (pctDecode k) (n.toNat?.getD 0)
    | _ => m) ∅

/-- `uid:name:etag,…` -/
def u2fOf (s : String) : Map (String × String) :=
  if s == "-" then ∅ else (s.splitOn ",").foldl (fun m it =>
    match it.splitOn ":" with
    | [u, n, e] => m.insert (pctDecode u) (pctDecode n, pctDecode e)
    | _ => m) ∅

/-- a resource tree of height ≤ 2: `F` | `C` | `C<m;m;…>` with `m` = `name/F` | `name/C` | `name/C(n+n+…)`
    (names percent-encoded; the grandchildren are files) -/
def treeOf (s : String) : Py.ResTree :=
  if s == "F" then .node false []
  else if s == "C" then .node true []
  else
    let body := ((s.drop 2).toString.dropEnd 1).toString
    .node true ((body.splitOn ";").filterMap fun m =>
      match m.splitOn "/" with
      | [n, "F"] => some (pctDecode n, .node false [])
      | [n, "C"] => some (pctDecode n, .node true [])
      | [n, k] =>
        if k.startsWith "C(" then
          let inner := ((k.drop 2).toString.dropEnd 1).toString
          some (pctDecode n, .node true ((inner.splitOn "+").map fun g => (pctDecode g, .node false [])))
        else none
      | _ => none)

def gstep (line : String) : String :=
  match words line with
  | ["etag", h, cur] => bb (Generated.etag_matches (fieldS h).toList ((field cur).map String.toList))
  | ["ets", h] => encL (Generated.ensure_trailing_slash (fieldS h).toList)
  | ["h2p", script, href] => encLO (Generated.href_to_path (fieldS script).toList (fieldS href).toList)
  | ["cse", e] => encL (Generated.create_strong_etag (fieldS e).toList)
  | ["xse", e] => encLO (Generated.extract_strong_etag ((field e).map String.toList))
  | ["mapfs", root, rel] => encL (Generated.map_to_file_path (fieldS root).toList (fieldS rel).toList)
  | ["unesc", t, sp] =>
    match Generated.unescape_text (fieldS t).toList (sp == "1") with
    | .ok parts => "=" ++ ",".intercalate (parts.map fun p => pctEncode (String.ofList p))
    | .error (.raised cls _) => "raise:" ++ cls
  | ["wk", s, p] => bb (Generated.wellknown_redirects (fieldS s).toList (fieldS p).toList)
  | ["tr", kind, st, en, dtstart, dtend, due, completed, created, dur, fb] =>
    match st.toInt?, en.toInt? with
    | some s, some e =>
      let comp : Py.Comp := { dtstart := tvalOf dtstart, dtend := tvalOf dtend, due := tvalOf due,
                              completed := tvalOf completed, created := tvalOf created, duration := durOf dur,
                              freebusy := periodsOf fb }
      let tz : Py.TVal → Int := fun v => v.key
      if kind == "vevent" then exc (Generated.apply_time_range_vevent s e comp tz)
      else if kind == "vjournal" then exc (Generated.apply_time_range_vjournal s e comp tz)
      else if kind == "vtodo" then exc (Generated.apply_time_range_vtodo s e comp tz)
      else if kind == "vfreebusy" then exc (Generated.apply_time_range_vfreebusy s e comp tz)
      else "bad-op"
    | _, _ => "bad-op"
  | ["ic", olds, news] =>
    match Generated.iter_changes (entriesOf olds) (entriesOf news) with
    | .ok rows => "=" ++ ",".intercalate (rows.map fun (n, ct, o, e) =>
        pctEncode n ++ ":" ++ pctEncode ct ++ ":" ++ optEnc o ++ ":" ++ optEnc e)
    | .error (.raised cls _) => "raise:" ++ cls
  | ["pg", im, inm, cur] =>
    exc (Generated.put_refuses ((field im).map String.toList) ((field inm).map String.toList) ((field cur).map String.toList))
  | ["dg", im, cur] => exc (Generated.delete_refuses ((field im).map String.toList) ((field cur).map String.toList))
  | ["gg", inm, cur] => exc (Generated.get_not_modified ((field inm).map String.toList) ((field cur).map String.toList))
  | "mg" :: script :: hrefs =>
    -- `lookup`: a path resolves to itself unless it contains "missing"
    let lk : String → Option String := fun p => if (p.splitOn "missing").length > 1 then none else some p
    match Generated.resources_by_hrefs lk (fieldS script) (hrefs.map fieldS) with
    | .ok rows => "=" ++ ",".intercalate (rows.map fun (h, r) => pctEncode h ++ ":" ++ optEnc r)
    | .error (.raised cls _) => "raise:" ++ cls
  | ["fpk", avail, th, desired, groups] =>
    let gs := if groups == "-" then [] else (groups.splitOn "|").map itemsOf
    let keysAll := (gs.flatten ++ itemsOf avail).eraseDups
    let (d, res, reset) := Generated.find_present_keys (itemsOf avail) (th.toNat?.getD 0) (countersOf desired) gs
    let showL (l : List String) := ",".intercalate (l.map pctEncode)
    let cnt := ",".intercalate ((keysAll.filter fun k => (d[k]?).isSome).map fun k => pctEncode k ++ ":" ++ toString ((d[k]?).getD 0))
    "res=" ++ (match res with | some l => showL l | none => "~") ++ " reset=" ++
      (match reset with | some l => showL l | none => "~") ++ " desired=" ++ cnt
  | ["cd", kind, u2f, cur, uid, name, replace] =>
    let f := if kind == "vdir" then Generated.vdir_check_duplicate else Generated.git_check_duplicate
    (match f true (u2fOf u2f) (field cur) (field uid) (fieldS name) (field replace) with
     | .ok e => "ok " ++ encO e
     | .error (.raised cls _) => "raise:" ++ cls)
  | ["fu", kind, u2f, name, uid, probe] =>
    let f := if kind == "vdir" then Generated.vdir_forget_uid else Generated.git_forget_uid
    let m := f (u2fOf u2f) (fieldS name) (field uid)
    -- observed through lookups of the probed UIDs
    "=" ++ ",".intercalate ((itemsOf probe).map fun u =>
      pctEncode u ++ ":" ++ (match m[u]? with | some (n, e) => pctEncode n ++ ":" ++ pctEncode e | none => "~:~"))
  | ["tv", tree, href, depth] =>
    (match Generated.traverse_resource 200 (treeOf tree) (fieldS href) (fieldS depth) with
     | .ok rows => "=" ++ ",".intercalate (rows.map fun (h, r) => pctEncode h ++ ":" ++ (if r.isCollection then "C" else "F"))
     | .error (.raised cls _) => "raise:" ++ cls)
  | ["match", a, b, k] => exc (Generated.match_ (fieldS a).toList (fieldS b).toList (fieldS k).toList)
  | ["collate", name, a, b, k] =>
    match Generated.collations.find? (fun r => r.1 == (fieldS name).toList) with
    | some (_, fa, fb) =>
      exc (do
        let a' ← fa.apply (fieldS a).toList
        let b' ← fb.apply (fieldS b).toList
        Generated.match_ a' b' (fieldS k).toList)
    | none => "raise:KeyError"
  | _ => "bad-op"

partial def gloop (h : IO.FS.Stream) (out : IO.FS.Stream) : IO Unit := do
  let line ← h.getLine
  if line.isEmpty then return ()
  out.putStrLn (gstep line)
  gloop h out

def main (_args : List String) : IO UInt32 := do
  gloop (← IO.getStdin) (← IO.getStdout)
  return 0
