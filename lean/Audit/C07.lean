import Xandikos.Theorems.C07Code
#print axioms Xandikos.Theorems.C07.listed_bare
#print axioms Xandikos.Theorems.C07.changed_iff
#print axioms Xandikos.Theorems.C07.removed_iff
#print axioms Xandikos.Theorems.C07.diff_self
#print axioms Xandikos.Theorems.C07.replay_yields_current
#print axioms Xandikos.Theorems.C07.empty_token_is_full
#print axioms Xandikos.Theorems.C07.foreign_token_is_error
#print axioms Xandikos.Theorems.C07.addObj_mem
#print axioms Xandikos.Theorems.C07.addObj_self
#print axioms Xandikos.Theorems.C07.issued_token_is_valid
#print axioms Xandikos.Theorems.C07.objs_monotone
#print axioms Xandikos.Theorems.C07.sync_exact
#print axioms Xandikos.Theorems.C07.code_is_model_iter_changes
#print axioms Xandikos.Theorems.C07.code_reports_nothing_when_unchanged
#print axioms Xandikos.Theorems.C07.code_reports_changed_iff
#print axioms Xandikos.Tie.iter_changes_eq
