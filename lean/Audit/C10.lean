import Xandikos.Theorems.C10
#print axioms Xandikos.Theorems.C10.iterIndexes_keys
#print axioms Xandikos.Theorems.C10.iterIndexes_eq_naive
#print axioms Xandikos.Theorems.C10.groups_spec
#print axioms Xandikos.Theorems.C10.findPresentKeys_spec
#print axioms Xandikos.Theorems.C10.index_transparent_partial
#print axioms Xandikos.Theorems.C10.no_history_is_observable
#print axioms Xandikos.Theorems.C10.full_statement_is_false
