import Xandikos.Theorems.C13
#print axioms Xandikos.Theorems.C13.code_is_model
#print axioms Xandikos.Theorems.C13.map_confined
#print axioms Xandikos.Theorems.C13.map_components_clean
#print axioms Xandikos.Theorems.C13.member_confined
#print axioms Xandikos.Py.Path.confined_join_normpath
#print axioms Xandikos.Py.Path.normpath_components_clean
#print axioms Xandikos.Py.Path.join_lstrip_under_root
#print axioms Xandikos.Py.Path.normpath_idempotent
#print axioms Xandikos.Py.Path.split_normpath_abs
#print axioms Xandikos.Py.Path.normpath_join_under_root
