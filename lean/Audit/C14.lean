import Xandikos.Theorems.C14
#print axioms Xandikos.Theorems.C14.invalid_refused_noop
#print axioms Xandikos.Theorems.C14.stored_is_norm
#print axioms Xandikos.Theorems.C14.ok_implies_valid
#print axioms Xandikos.Theorems.C14.reupload_noop
#print axioms Xandikos.Theorems.C14.members_valid_step
#print axioms Xandikos.Theorems.C14.members_always_valid
#print axioms Xandikos.Theorems.C14.code_maps_invalid_data
