import Xandikos.Theorems.C11
#print axioms Xandikos.Theorems.C11.code_is_model
#print axioms Xandikos.Theorems.C11.time_range_vevent_eq_rfc
#print axioms Xandikos.Theorems.C11.time_range_vtodo_eq_rfc
#print axioms Xandikos.Theorems.C11.time_range_vjournal_eq_rfc
#print axioms Xandikos.Theorems.C11.time_range_vfreebusy_eq_rfc
#print axioms Xandikos.Theorems.C11.match_eq_rfc
#print axioms Xandikos.Theorems.C11.text_match_equality_differs_from_rfc
#print axioms Xandikos.Ical.Rfc.check_decides
#print axioms Xandikos.Ical.vtodo_eq_rfc
