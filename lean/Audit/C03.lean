import Xandikos.Theorems.C03
#print axioms Xandikos.Theorems.C03.code_is_model
#print axioms Xandikos.Theorems.C03.etag_matches_is_rfc7232
#print axioms Xandikos.Theorems.C03.nothing_matches_absent
#print axioms Xandikos.Theorems.C03.put_precondition_fails
#print axioms Xandikos.Theorems.C03.if_match_fails
#print axioms Xandikos.Theorems.C03.if_none_match_fails
#print axioms Xandikos.Theorems.C03.put_if_match_fails
#print axioms Xandikos.Theorems.C03.put_if_none_match_fails
#print axioms Xandikos.Theorems.C03.put_ok_implies_conditions
#print axioms Xandikos.Theorems.C03.delete_if_match_fails
#print axioms Xandikos.Theorems.C03.get_if_none_match_304
#print axioms Xandikos.Theorems.C03.store_replace_etag
#print axioms Xandikos.Theorems.C03.store_delete_etag
#print axioms Xandikos.Http.etagMatches_spec
#print axioms Xandikos.Tie.etag_matches_eq
