import Xandikos.Theorems.C04
#print axioms Xandikos.Theorems.C04.placeholder
