import Xandikos.Theorems.C15
#print axioms Xandikos.Theorems.C15.ini_roundtrip
#print axioms Xandikos.Theorems.C15.single_line_values_are_safe
#print axioms Xandikos.Theorems.C15.proppatch_ok_then_propfind
#print axioms Xandikos.Theorems.C15.restart_keeps_properties
#print axioms Xandikos.Theorems.C15.member_write_keeps_properties
#print axioms Xandikos.Theorems.C15.unsafe_values_do_not_round_trip
#print axioms Xandikos.Store.set_then_get
#print axioms Xandikos.Py.Ini.ini_roundtrip
#print axioms Xandikos.Py.Ini.ini_roundtrip_general
