import Xandikos.Theorems.C06
#print axioms Xandikos.Theorems.C06.scan_is_exact
#print axioms Xandikos.Theorems.C06.exact_unique
#print axioms Xandikos.Theorems.C06.refused_only_if_held
#print axioms Xandikos.Theorems.C06.accepted_only_if_free
#print axioms Xandikos.Theorems.C06.uid_reusable
#print axioms Xandikos.Theorems.C06.refused_changes_nothing
#print axioms Xandikos.Theorems.C06.importOne_cache_ok
#print axioms Xandikos.Theorems.C06.inv_step
#print axioms Xandikos.Theorems.C06.inv_run
#print axioms Xandikos.Theorems.C06.uid_unique_invariant
#print axioms Xandikos.Theorems.C06.outcome_independent_of_cache
#print axioms Xandikos.Theorems.C06.coherent_by_extension
#print axioms Xandikos.Store.scan_exact
#print axioms Xandikos.Theorems.C06.code_maps_uid_conflict
#print axioms Xandikos.Theorems.C06.code_is_model_exception_tables
#print axioms Xandikos.Theorems.C06.coherent_whatever_the_declared_type
#print axioms Xandikos.Theorems.C06.handler_by_extension
