import Xandikos.Theorems.C05Tree
#print axioms Xandikos.Theorems.C05.seqRun_append
#print axioms Xandikos.Theorems.C05.seqRun_single
#print axioms Xandikos.Theorems.C05.getElem?_setNth_self
#print axioms Xandikos.Theorems.C05.getElem?_setNth_ne
#print axioms Xandikos.Theorems.C05.threads_serialisable
#print axioms Xandikos.Theorems.C05.initial_witness
#print axioms Xandikos.Theorems.C05.processes_two_conditional_updates_both_succeed
#print axioms Xandikos.Theorems.C05.processes_bare_lost_update
#print axioms Xandikos.Theorems.C05.processes_duplicate_uid
#print axioms Xandikos.Theorems.C05.filterMap_congr_mem
#print axioms Xandikos.Theorems.C05.tree_processes_step
#print axioms Xandikos.Theorems.C05.tree_processes_unconditional
#print axioms Xandikos.Theorems.C05.tree_processes_unconditional_serial
#print axioms Xandikos.Theorems.C05.TreeInv.not_ok_not_logged
#print axioms Xandikos.Theorems.C05.TreeInv.ok_logged_once
