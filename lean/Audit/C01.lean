import Xandikos.Theorems.C01Http
#print axioms Xandikos.Theorems.C01.run_refines_spec
#print axioms Xandikos.Theorems.C01.get_returns_last_ack_write
#print axioms Xandikos.Theorems.C01.listing_is_live_members
#print axioms Xandikos.Theorems.C01.non_ok_is_noop
#print axioms Xandikos.Theorems.C01.write_is_local
#print axioms Xandikos.Theorems.C01.restart_keeps_contents
#print axioms Xandikos.Theorems.C01.all_backends
#print axioms Xandikos.Theorems.C01.fileAt_setColl
#print axioms Xandikos.Theorems.C01.import_in_coll_local
#print axioms Xandikos.Theorems.C01.http_put_is_local
#print axioms Xandikos.Theorems.C01.store_noop
#print axioms Xandikos.Theorems.C01.putExec_non_ok
#print axioms Xandikos.Theorems.C01.http_put_non_ok_is_noop
