import Xandikos.Theorems.C01
#print axioms Xandikos.Theorems.C01.run_refines_spec
#print axioms Xandikos.Theorems.C01.get_returns_last_ack_write
#print axioms Xandikos.Theorems.C01.listing_is_live_members
#print axioms Xandikos.Theorems.C01.non_ok_is_noop
#print axioms Xandikos.Theorems.C01.write_is_local
#print axioms Xandikos.Theorems.C01.restart_keeps_contents
#print axioms Xandikos.Theorems.C01.all_backends
