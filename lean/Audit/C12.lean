import Xandikos.Theorems.C12
#print axioms Xandikos.Theorems.C12.code_is_model
#print axioms Xandikos.Theorems.C12.collation_match_spec
#print axioms Xandikos.Theorems.C12.param_decides
#print axioms Xandikos.Theorems.C12.child_decides
#print axioms Xandikos.Theorems.C12.propFilter_decides
#print axioms Xandikos.Theorems.C12.apply_filter_eq_rfc
#print axioms Xandikos.Theorems.C12.query_total
#print axioms Xandikos.Theorems.C12.report_is_matching_prefix
