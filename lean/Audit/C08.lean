import Xandikos.Theorems.C08Http
#print axioms Xandikos.Theorems.C08.tag_eq
#print axioms Xandikos.Theorems.C08.tag_eq_iff_contents_eq
#print axioms Xandikos.Theorems.C08.different_members_different_tag
#print axioms Xandikos.Theorems.C08.step_kind
#print axioms Xandikos.Theorems.C08.tag_unchanged_unless_acknowledged
#print axioms Xandikos.Theorems.C08.revert_returns_tag
#print axioms Xandikos.Theorems.C08.reading_tag_is_pure
#print axioms Xandikos.Theorems.C08.colls_setColl_ne
#print axioms Xandikos.Theorems.C08.http_put_touches_one_collection
#print axioms Xandikos.Theorems.C08.tag_unchanged_by_put_elsewhere
