import Xandikos.Theorems.C09
#print axioms Xandikos.Theorems.C09.GitInv.init
#print axioms Xandikos.Theorems.C09.GitInv.cache
#print axioms Xandikos.Theorems.C09.commit_inv
#print axioms Xandikos.Theorems.C09.commitIfChanged_inv
#print axioms Xandikos.Theorems.C09.writeOne_inv
#print axioms Xandikos.Theorems.C09.deleteOne_inv
#print axioms Xandikos.Theorems.C09.importOne_inv
#print axioms Xandikos.Theorems.C09.step_inv
#print axioms Xandikos.Theorems.C09.three_views_agree
#print axioms Xandikos.Theorems.C09.commitIfChanged_append
#print axioms Xandikos.Theorems.C09.writeOne_append
#print axioms Xandikos.Theorems.C09.history_append_only
#print axioms Xandikos.Theorems.C09.no_rewrite
#print axioms Xandikos.Theorems.C09.commitIfChanged_iff
#print axioms Xandikos.Theorems.C09.one_commit_iff_change
