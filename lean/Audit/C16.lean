import Xandikos.Theorems.C16Resolve
#print axioms Xandikos.Theorems.C16.href_decodes
#print axioms Xandikos.Theorems.C16.href_is_path_only
#print axioms Xandikos.Theorems.C16.collection_href_ends_in_slash
#print axioms Xandikos.Theorems.C16.member_href_resolves
#print axioms Xandikos.Theorems.C16.emitted_member_href_resolves
#print axioms Xandikos.Theorems.C16.listing_names_distinct
#print axioms Xandikos.Theorems.C16.listing_is_exact
#print axioms Xandikos.Py.Url.unquote_quote
#print axioms Xandikos.Py.Url.has_scheme_quote
#print axioms Xandikos.Py.Url.urlsplit_path_quote
#print axioms Xandikos.Py.Path.split_join_of_getLast_ne
#print axioms Xandikos.Theorems.C16.post_location_resolves
#print axioms Xandikos.Theorems.C16.listed_member_href_resolves
#print axioms Xandikos.Theorems.C16.every_listed_member_href_resolves
#print axioms Xandikos.Theorems.C16.member_path_normalS
#print axioms Xandikos.Theorems.C16.collection_path_no_trailing_slash
