import Xandikos.Theorems.C02
#print axioms Xandikos.Theorems.C02.strong_injective
#print axioms Xandikos.Theorems.C02.etag_eq_iff_bytes_eq
#print axioms Xandikos.Theorems.C02.listed_tag_is_content
#print axioms Xandikos.Theorems.C02.get_agrees_with_listing
#print axioms Xandikos.Theorems.C02.put_returns_stored_tag
#print axioms Xandikos.Theorems.C02.etag_changes_only_on_write
#print axioms Xandikos.Theorems.C02.restart_keeps_etags
#print axioms Xandikos.Theorems.C02.code_is_model
#print axioms Xandikos.Theorems.C02.extract_inverts_create
#print axioms Xandikos.Tie.create_strong_etag_injective
