#!/venv/bin/python
"""Differential tester: Lean model of configparser write/read (Xini/Ini.lean) vs CPython.

usage: pylib_ini.py [driver-binary]      (default driver: `lake env lean --run Main.lean`)
env:   VERIF_SEED (default 0), VERIF_CASES (default 50000 configs), VERIF_FUZZ (default 20000 texts)

For every generated config (any subset of the seven keys, in random order, values from an
alphabet rich in % " [ ] # ; = : space tab newline CR and non-ASCII whitespace, empty values,
safe and unsafe values) the following are compared:
  * the text written by `cp.write`            vs driver `write`
  * the values read back (fresh parser), both with plain "\\n" line splitting (read_string) and
    with universal newlines                   vs driver `roundtrip 0|1`
  * the complete parser contents after reading the written text   vs driver `read 0|1`
Additionally raw random ini-like texts are parsed by both sides (`read`), and `str.isspace` is
compared with the model's `isPySpace` on every code point.

Claimed domain: option names (which an unsafe value can inject, e.g. "x\\rFoo = 1" under universal
newlines) contain no non-ASCII *cased* characters -- the model's optionxform is ASCII lower-casing.
The generator therefore uses no upper-case non-ASCII letters.

Prints a JSON summary {"cases": N, "disagreements": [...]}; exit status 1 on any disagreement.
"""
import configparser
import io
import json
import os
import random
import subprocess
import sys

HERE = os.path.dirname(os.path.abspath(__file__))
SAFE = set(b"ABCDEFGHIJKLMNOPQRSTUVWXYZabcdefghijklmnopqrstuvwxyz0123456789._-")


def pct(s):
    return "".join(chr(b) if b in SAFE else "%%%02X" % b for b in s.encode("utf-8"))


def enc(s):
    return "~" if s is None else "=" + pct(s)


DEFAULT_KEYS = ["source", "color", "comment", "displayname", "description", "type"]
ALL_KEYS = [("DEFAULT", k) for k in DEFAULT_KEYS] + [("calendar", "order")]

ALPHABET = (list('%"[]#;=:') + [" ", " ", "\t", "\n", "\n", "\r", "a", "b", "Z", "0", "x",
            "\u00e9", "\u65e5", "\u00df", "\U0001F600", "\xa0", "\u2003", "\u3000", "\x0b",
            "\x0c", "\x1c", "\x1f", "\x85", "\u1680", "\u2000", "\u200a", "\u2028", "\u2029",
            "\u202f", "\u205f", "\ufeff", "\u200b", "\x00", "\x7f", ","])
WORDS = ["a", "b", "#fff", "#", ";", "x=y", "a = b", "[", "]", "[x]", "[DEFAULT]", "[calendar]",
         "%(a)s", "%", '"q"', "k: v", ":", "=", "café", "日本", "order = 5",
         "color = red", "Type = 7", "100%", "a;b", "a #b", "webcal://h/p?x=1&y=[2]"]


def gen_value(rng):
    r = rng.random()
    if r < 0.06:
        return ""
    if r < 0.40:      # safe single line
        n = rng.randint(1, 4)
        return " ".join(rng.choice(WORDS) for _ in range(n))
    if r < 0.55:      # multi-line built from words: safe or not depending on the words
        n = rng.randint(2, 4)
        lines = []
        for _ in range(n):
            k = rng.choice([0, 1, 1, 2, 3])
            lines.append(" ".join(rng.choice(WORDS) for _ in range(k)))
        return rng.choice(["\n", "\n", "\n", "\r\n", "\r"]).join(lines)
    n = rng.choice([1, 1, 2, 3, 4, 5, 6, 8, 12])
    return "".join(rng.choice(ALPHABET) for _ in range(n))


def gen_config(rng):
    keys = [k for k in ALL_KEYS if rng.random() < 0.45]
    rng.shuffle(keys)
    return [(s, k, gen_value(rng)) for (s, k) in keys]


FRAGS = ["[DEFAULT]", "[calendar]", "[a]", "[a]b", "[]", "[]]", "[ x ]", " [b]", "k = v", "k=v",
         "k : v", "K = 1", "j = ", "j =", " = x", "=", "novalue", " cont", "\tcont", "  more",
         "# c", " ; c", "", " ", "\t", "k2 = [x]", "a b = c = d", "\xa0k3 = v", "k4\u3000=\u2003v\x85",
         "order = 1", "color: #fff", "x y", "[s] = t", "\x0c", "v\x0bw = 1"]


GOOD = ["k = v", "k=v", "k : v", "K = 1", "j = ", "j =", " cont", "\tcont", "  more", "# c",
        " ; c", "", " ", "\t", "k2 = [x]", "a b = c = d", "order = 1", "color: #fff",
        "[calendar]", "[a]", "[DEFAULT]", " [b]", "   deeper = 1", " ind = 2", "x = y"]


def gen_text(rng):
    n = rng.randint(0, 8)
    seps = ["\n", "\n", "\n", "\n", "\r\n", "\r"]
    parts = []
    if rng.random() < 0.85:
        parts += [rng.choice(["[DEFAULT]", "[calendar]", "[s]", "[ x ]"]), "\n"]
    for _ in range(n):
        r = rng.random()
        if r < 0.08:
            parts.append("".join(rng.choice(ALPHABET) for _ in range(rng.randint(1, 6))))
        elif r < 0.25:
            parts.append(rng.choice(FRAGS))
        elif r < 0.35:
            parts.append(rng.choice(["k", "j", "x", "Key", "a b"]) + str(rng.randint(0, 5)) +
                         rng.choice([" = ", "=", ": ", " :"]) +
                         "".join(rng.choice(ALPHABET) for _ in range(rng.randint(0, 5))))
        else:
            parts.append(rng.choice(GOOD))
        parts.append(rng.choice(seps))
    if parts and rng.random() < 0.3:
        parts.pop()
    return "".join(parts)


def py_dump(cp):
    toks = ["ok"]
    for k, v in cp._defaults.items():
        toks.append(pct("DEFAULT") + "." + pct(k) + "=" + pct(v))
    for s, d in cp._sections.items():
        if not d:
            toks.append(pct(s) + ".")
        for k, v in d.items():
            toks.append(pct(s) + "." + pct(k) + "=" + pct(v))
    return " ".join(toks)


def py_read(text, u):
    cp = configparser.ConfigParser(interpolation=None)
    try:
        if u:
            cp.read_file(io.StringIO(text, newline=None))
        else:
            cp.read_string(text)
    except configparser.Error:
        return None
    return cp


def py_write(cfg):
    cp = configparser.ConfigParser(interpolation=None)
    for s, k, v in cfg:
        if s != "DEFAULT" and not cp.has_section(s):
            cp.add_section(s)
        cp[s][k] = v
    f = io.StringIO()
    cp.write(f)
    return f.getvalue()


def py_roundtrip(cfg, text, u):
    cp = py_read(text, u)
    if cp is None:
        return "error"
    toks = ["ok"]
    for s, k, _ in cfg:
        d = cp._defaults if s == "DEFAULT" else cp._sections.get(s, {})
        toks += [s + "." + k, enc(d.get(k))]
    return " ".join(toks)


def main():
    seed = int(os.environ.get("VERIF_SEED", "0"))
    ncases = int(os.environ.get("VERIF_CASES", "50000"))
    nfuzz = int(os.environ.get("VERIF_FUZZ", "20000"))
    rng = random.Random(seed)
    if len(sys.argv) > 1:
        import shlex
        cmd = shlex.split(sys.argv[1])
    else:
        cmd = ["lake", "env", "lean", "--run", "Main.lean"]

    requests = []   # (description, request line, expected response)
    requests.append(("isspace table", "spaces",
                     " ".join(["ok"] + [str(c) for c in range(0x110000) if chr(c).isspace()])))
    nsafe = 0
    for i in range(ncases):
        cfg = gen_config(rng)
        text = py_write(cfg)
        args = " ".join(s + "." + k + " " + enc(v) for s, k, v in cfg)
        desc = {"case": i, "config": cfg}
        requests.append((desc, ("write " + args).strip(), enc(text)))
        for u in (0, 1):
            exp = py_roundtrip(cfg, text, u)
            if u == 0 and exp != "error" and exp == " ".join(
                    ["ok"] + [x for s, k, v in cfg for x in (s + "." + k, enc(v))]):
                nsafe += 1
            requests.append((desc, ("roundtrip %d " % u + args).strip(), exp))
            cp = py_read(text, u)
            requests.append((desc, "read %d %s" % (u, enc(text)),
                             "error" if cp is None else py_dump(cp)))
    for i in range(nfuzz):
        text = gen_text(rng)
        for u in (0, 1):
            cp = py_read(text, u)
            requests.append(({"fuzz": i, "text": text}, "read %d %s" % (u, enc(text)),
                             "error" if cp is None else py_dump(cp)))

    inp = "".join(r[1] + "\n" for r in requests)
    proc = subprocess.run(cmd, input=inp.encode("utf-8"), stdout=subprocess.PIPE, cwd=HERE)
    out = proc.stdout.decode("utf-8").split("\n")
    if out and out[-1] == "":
        out.pop()
    disagreements = []
    if proc.returncode != 0 or len(out) != len(requests):
        disagreements.append({"driver": "bad exit or line count", "returncode": proc.returncode,
                              "lines": len(out), "expected_lines": len(requests)})
    for (desc, req, exp), got in zip(requests, out):
        if exp != got:
            disagreements.append({"input": desc, "request": req[:2000], "cpython": exp[:2000],
                                  "lean": got[:2000]})
    summary = {"cases": ncases, "fuzz_texts": nfuzz, "requests": len(requests), "seed": seed,
               "configs_roundtripping_exactly": nsafe,
               "n_disagreements": len(disagreements), "disagreements": disagreements[:50]}
    print(json.dumps(summary, ensure_ascii=True, indent=1))
    return 1 if disagreements else 0


if __name__ == "__main__":
    sys.exit(main())
