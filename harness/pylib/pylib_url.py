#!/usr/bin/env python3
"""Differential tester: CPython urllib.parse  vs  the Lean model (Xurl/Url.lean) via its driver.

usage: pylib_url.py [DRIVER_BINARY]
  DRIVER_BINARY   path of the compiled driver (.lake/build/bin/xurl-driver);
                  default: `lake env lean --run Main.lean` in this script's directory.
env:   VERIF_SEED  PRNG seed (default 0);  VERIF_CASES  approximate number of cases (default 130000)

Prints one JSON object {"cases":N,"by_function":{...},"disagreements":[...],...}; exit status 1 iff
some comparison inside the claimed domain disagrees (or the driver misbehaves).
Python 3 standard library only.
"""
import json
import os
import random
import subprocess
import sys
import urllib.parse as up

HERE = os.path.dirname(os.path.abspath(__file__))
SEED = int(os.environ.get("VERIF_SEED", "0"))
TOTAL = int(os.environ.get("VERIF_CASES", "130000"))

DOMAINS = {
    "quote": "all str of Unicode scalar values (no lone surrogates); quote(s) with default safe='/'",
    "quoteseg": "all str of Unicode scalar values; quote(s, safe='')",
    "unquote": "all str of Unicode scalar values incl. malformed escapes and invalid UTF-8 escapes; "
               "unquote(s) with encoding='utf-8', errors='replace'",
    "unquotewhole": "same domain as unquote; the model's one-chunk variant must give the same result",
    "roundtrip": "all str of Unicode scalar values: model unquote(model quote(s)) == s and == CPython",
    "path": "str for which urlsplit() does not raise; an authority ('//' after the optional scheme) "
            "is in the domain when it is ASCII and has no '[' or ']'; "
            "compares urlsplit(s).path",
    "scheme": "str for which urlsplit() does not raise; compares bool(urlsplit(s).scheme)",
    "urljoin": "base: starts with exactly one '/', contains none of '?', '#', TAB, CR, LF "
               "(absolute path, may or may not end in '/'); ref: any str whose cleaned form "
               "(lstrip of C0/space, TAB/CR/LF removed) has no '?'/'#' and does not start with '//' "
               "(refs with a scheme are in the domain: returned unchanged); compares urljoin(base, ref)",
}

# ---------------------------------------------------------------------------------------------
# field codec (same as the Lean driver)

_SAFE = set(b"ABCDEFGHIJKLMNOPQRSTUVWXYZabcdefghijklmnopqrstuvwxyz0123456789._-")


def enc(s):
    return "=" + "".join(chr(b) if b in _SAFE else "%%%02X" % b for b in s.encode("utf-8"))


def dec(f):
    if not f.startswith("="):
        raise ValueError("bad field %r" % f)
    return up.unquote_to_bytes(f[1:]).decode("utf-8")


# ---------------------------------------------------------------------------------------------
# generators

LETTERS = "abcxyzABCXYZ019"
SPECIALS = " %#?;+&:=@"
PUNCT = "/._-~!$'()*,[]\\^`{|}<>\""
CONTROLS = "\t\r\n\x00\x01\x1f\x7f"
NONASCII = ["é", "ü", "ß", "Ω", "ж", "中", "文", "日本語", "😀", "👍🏽", "e\u0301", "\u0301",
            "\u200d", "\ufffd", "\U0010ffff", "\u0080", "\u07ff", "\u0800", "\uffff", "\ud7ff",
            "\ue000", "\U00010000", "\u00a0", "ǅ", "👨\u200d👩\u200d👧"]
HEX = "0123456789abcdefABCDEF"
BAD_ESC = ["%", "%%", "%zz", "%4", "%g1", "%1g", "% 41", "%4%41", "%\u00e9", "%e", "%E"]
UTF8_ESC = ["%C3%A9", "%c3%a9", "%E2%82%AC", "%e2%82%ac", "%F0%9F%98%80", "%f0%9f%98%80", "%20",
            "%2F", "%2f", "%3A", "%25", "%41", "%7E", "%00", "%0A", "%7F"]
BROKEN_UTF8 = ["%C3", "%E2%82", "%E2", "%F0%9F%98", "%F0%9F", "%F0", "%ED%A0%80", "%ED%9F%BF",
               "%C0%AF", "%C1%BF", "%E0%80%80", "%E0%9F%BF", "%E0%A0%80", "%F0%8F%BF%BF",
               "%F0%90%80%80", "%F4%8F%BF%BF", "%F4%90%80%80", "%F5%80%80%80", "%FF", "%FE",
               "%80", "%BF", "%A9", "%C3%C3%A9", "%E2%82%41", "%F0%9F%98%41", "%E2%C3%A9",
               "%EF%BF%BD", "%EF%BF", "%C2", "%DF%BF", "%DF", "%EE%80%80", "%EF%BF%BF"]


def rand_escape(rng):
    return "%" + rng.choice(HEX) + rng.choice(HEX)


def rand_text(rng, maxlen=8, extra=()):
    n = rng.randrange(0, maxlen + 1)
    out = []
    for _ in range(n):
        r = rng.random()
        if extra and r < 0.35:
            out.append(rng.choice(extra)(rng) if callable(extra[0]) else rng.choice(extra))
        elif r < 0.55:
            out.append(rng.choice(LETTERS))
        elif r < 0.72:
            out.append(rng.choice(SPECIALS))
        elif r < 0.82:
            out.append(rng.choice(PUNCT))
        elif r < 0.86:
            out.append(rng.choice(CONTROLS))
        elif r < 0.97:
            out.append(rng.choice(NONASCII))
        else:
            cp = rng.randrange(0, 0x110000)
            if 0xD800 <= cp <= 0xDFFF:
                cp = 0x4E2D
            out.append(chr(cp))
    return "".join(out)


def gen_quote(rng):
    return rand_text(rng, 10)


def gen_unquote(rng):
    def tok(r):
        k = r.random()
        if k < 0.25:
            return r.choice(UTF8_ESC)
        if k < 0.55:
            return r.choice(BROKEN_UTF8)
        if k < 0.75:
            return r.choice(BAD_ESC)
        if k < 0.95:
            return rand_escape(r)
        return "".join(rand_escape(r) for _ in range(r.randrange(1, 5)))
    k = rng.random()
    if k < 0.15:
        return up.quote(rand_text(rng, 8))
    if k < 0.2:
        return up.quote(rand_text(rng, 8)).lower()
    return rand_text(rng, 9, extra=(tok,))


def gen_url(rng):
    """inputs for urlsplit(..).path / scheme"""
    k = rng.random()
    heads = ["", "", "", "a:", "http:", "A1+.-:", "1a:", "+a:", "é:", "a b:", ":", "a::", "x-y.z+1:",
             " a:", "\x01a:", "a\tb:", "\ta:", "a\n:", "/", "/a/b", "a/b:c", "?a:", "#a:", "a?b:c",
             "a#b:c", "mailto:", "C:", "//", "a://h", "./a:b", "%3A:", "a%3Ab:", "a_b:", "a~:",
             "http://localhost", "http://localhost:8080", "https://h.example/", "//host", "//host/", "//h?q",
             "//h#f", "http://u:p@h/", "HTTP://H/", "http:///", "///", "////a", "http:/a", "http:a", "//a//b"]
    s = rng.choice(heads) if k < 0.6 else ""
    s += rand_text(rng, 7, extra=("?", "#", ":", "/", "a", "b.vcf", "%3F", "%23"))
    if rng.random() < 0.15:
        s = up.quote(rand_text(rng, 6)) + rng.choice(["", "?q=1", "#f", "?a#b", "#a?b"])
    return s


NAMES = ["a:b.vcf", "a.ics", "x y.ics", "ä.vcf", "日本.ics", "😀", "a#b", "a?b", "a;b", "a%b", "a+b",
         "a&b=c@d", ".", "..", "...", ".a", "a.", "..a", "%2e", "%2E%2E", "a/b", "~", "_", "-", "",
         "http:", "1:2", ":", "a:", " ", " a:b", "\ta", "a\nb", "e\u0301", ";", ";x", "a;", "..;x",
         ".;", "x;/..", "c;d/e;f"]
BASES = ["/", "/a/", "/a/b/", "/a/b/c/", "/calendars/user/", "/%C3%A4/", "/a%20b/", "/a:b/", "/a;b/",
         "/a/b", "/a", "/a/b;c", "/a//b/", "/a/./b/", "/a/../b/", "/./", "/../", "/a/b/..", "/a/.",
         "/;x/", "/a/;x", "/ä/", "/日本/", "/a b/", "/a/b/c", "/.a/", "/a./", "/.../", "/user/cal.ics/"]


def gen_join(rng):
    k = rng.random()
    if k < 0.75:
        base = rng.choice(BASES)
    else:
        segs = [rng.choice(["a", "b", "c.d", "x y", "%20", ".", "..", "", "é", "a:b", "a;b", "~u",
                            "...", ".x"]) for _ in range(rng.randrange(0, 4))]
        base = "/" + "".join(s + "/" for s in segs)
        if rng.random() < 0.2:
            base += rng.choice(["f", "f.ics", ".", "..", "a;b"])
    k = rng.random()
    if k < 0.3:
        ref = up.quote(rng.choice(NAMES) if rng.random() < 0.6 else rand_text(rng, 6))
    elif k < 0.45:
        ref = up.quote(rng.choice(NAMES) if rng.random() < 0.6 else rand_text(rng, 6), safe="")
    elif k < 0.6:
        ref = rng.choice(NAMES)
    elif k < 0.85:
        parts = [rng.choice([".", "..", "x", "y", "", "a.ics", "%2E", "...", "a:b", "b;c", "é", "..a",
                             "a..", " ", "1"]) for _ in range(rng.randrange(1, 5))]
        ref = "/".join(parts)
        if rng.random() < 0.1:
            ref = "/" + ref
    elif k < 0.9:
        ref = rng.choice(["x/../y", "./x", "../x", "../../x", "../../../x", "x/.", "x/..", "x/./y",
                          "x//y", "x/", "./", "../", "x/../../../y", "a:b/../c", "./a:b", "..//",
                          "/", "/x/../y", "/..", "/.", "/x;y", "x;y/z", "x/y;z", "x/..;z", "x/.;z"])
    else:
        ref = rand_text(rng, 6, extra=("/", ".", "..", ":", ";", "a"))
    return base, ref


# ---------------------------------------------------------------------------------------------
# domain predicates and CPython oracles

_C0_SPACE = "".join(chr(i) for i in range(33))


def clean(s):
    s = s.lstrip(_C0_SPACE)
    for b in "\t\r\n":
        s = s.replace(b, "")
    return s


def oracle_path(s):
    """(in_domain, value)"""
    try:
        sp = up.urlsplit(s)
    except ValueError:
        return False, None
    c = clean(s)
    rest = c[len(sp.scheme) + 1:] if sp.scheme else c
    if rest.startswith("//") and (not sp.netloc.isascii() or "[" in sp.netloc or "]" in sp.netloc):
        return False, None
    return True, sp.path


def oracle_scheme(s):
    try:
        sp = up.urlsplit(s)
    except ValueError:
        return False, None
    return True, "1" if sp.scheme else "0"


def join_in_domain(base, ref):
    if not base.startswith("/") or base.startswith("//"):
        return False
    if any(ch in base for ch in "?#\t\r\n"):
        return False
    c = clean(ref)
    if "?" in c or "#" in c or c.startswith("//"):
        return False
    return True


def oracle_join(base, ref):
    if not join_in_domain(base, ref):
        return False, None
    try:
        return True, up.urljoin(base, ref)
    except ValueError:
        return False, None


# ---------------------------------------------------------------------------------------------

def main():
    rng = random.Random(SEED)
    share = {"quote": 0.15, "quoteseg": 0.08, "unquote": 0.24, "unquotewhole": 0.08,
             "roundtrip": 0.05, "path": 0.12, "scheme": 0.10, "urljoin": 0.18}
    cases = []  # (function, args, in_domain, expected, request-lines)
    for fn, frac in share.items():
        n = int(TOTAL * frac) + 1
        for _ in range(n):
            if fn == "quote":
                s = gen_quote(rng)
                cases.append((fn, (s,), True, up.quote(s), "quote " + enc(s)))
            elif fn == "quoteseg":
                s = gen_quote(rng)
                cases.append((fn, (s,), True, up.quote(s, safe=""), "quoteseg " + enc(s)))
            elif fn == "unquote":
                s = gen_unquote(rng)
                cases.append((fn, (s,), True, up.unquote(s), "unquote " + enc(s)))
            elif fn == "unquotewhole":
                s = gen_unquote(rng)
                cases.append((fn, (s,), True, up.unquote(s), "unquotewhole " + enc(s)))
            elif fn == "roundtrip":
                # the Lean side unquotes CPython's quote; expected: the original string
                s = gen_quote(rng)
                q = up.quote(s) if rng.random() < 0.5 else up.quote(s, safe="")
                assert up.unquote(q) == s
                cases.append((fn, (s,), True, s, "unquote " + enc(q)))
            elif fn == "path":
                s = gen_url(rng)
                ok, v = oracle_path(s)
                cases.append((fn, (s,), ok, v, "path " + enc(s)))
            elif fn == "scheme":
                s = gen_url(rng)
                ok, v = oracle_scheme(s)
                cases.append((fn, (s,), ok, v, "scheme " + enc(s)))
            elif fn == "urljoin":
                b, r = gen_join(rng)
                ok, v = oracle_join(b, r)
                cases.append((fn, (b, r), ok, v, "urljoin " + enc(b) + " " + enc(r)))

    if len(sys.argv) > 1:
        import shlex
        cmd = shlex.split(sys.argv[1])
    else:
        cmd = ["lake", "env", "lean", "--run", "Main.lean"]
    payload = "".join(c[4] + "\n" for c in cases).encode("ascii")
    proc = subprocess.run(cmd, input=payload, stdout=subprocess.PIPE, stderr=subprocess.PIPE,
                          cwd=HERE)
    out = proc.stdout.decode("utf-8", "replace").split("\n")
    if out and out[-1] == "":
        out.pop()
    summary = {"seed": SEED, "driver": " ".join(cmd), "python": sys.version.split()[0],
               "cases": len(cases), "by_function": {}, "domains": DOMAINS, "disagreements": [],
               "out_of_domain_differences": {}}
    if proc.returncode != 0 or len(out) != len(cases):
        summary["driver_error"] = {"returncode": proc.returncode, "lines": len(out),
                                   "stderr": proc.stderr.decode("utf-8", "replace")[-2000:]}
        print(json.dumps(summary, ensure_ascii=True))
        return 1
    n_bad = 0
    for (fn, args, ok, want, _), line in zip(cases, out):
        st = summary["by_function"].setdefault(
            fn, {"cases": 0, "compared": 0, "out_of_domain": 0, "disagreements": 0})
        st["cases"] += 1
        if not ok:
            st["out_of_domain"] += 1
            continue
        st["compared"] += 1
        try:
            got = line if fn == "scheme" else dec(line)
        except Exception as e:  # malformed reply
            got = "<bad reply %r: %s>" % (line, e)
        if got != want:
            st["disagreements"] += 1
            n_bad += 1
            if len(summary["disagreements"]) < 40:
                summary["disagreements"].append(
                    {"function": fn, "args": list(args), "cpython": want, "lean": got})
    summary["disagreement_count"] = n_bad
    print(json.dumps(summary, ensure_ascii=True))
    return 1 if n_bad else 0


if __name__ == "__main__":
    sys.exit(main())
