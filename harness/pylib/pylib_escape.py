#!/venv/bin/python
"""Differential test of `Xandikos/Ical/Escape.lean` (driver ops "esc" / "unesc") against
`icalendar`'s `vText.to_ical()` (`_escape_char`) and xandikos' `_unescape_text`.

    XANDIKOS=/tmp/fixwt XJ=/path/to/xjdriver /venv/bin/python esctest.py [N] [SEED]

Random strings over an alphabet rich in backslash ; , n N CR LF and non-ASCII characters.
Compared: (1) vText(s).to_ical() with the model's escapeText; (2) _unescape_text on the escaped
text, without and with split, with the model's; (3) _unescape_text on arbitrary strings;
(4) the statement of `unescape_escape`: the round trip is the identity exactly on the strings
without CR and without backslash-N (`Clean`).
"""
import json
import os
import random
import subprocess
import sys

HARNESS = os.environ.get("HARNESS", os.path.dirname(os.path.dirname(os.path.abspath(__file__))))
sys.path.insert(1, HARNESS)
import compat  # noqa: F401,E402
ROOT = os.environ.get("XANDIKOS")
if ROOT:
    for m in [m for m in sys.modules if m.startswith("xandikos")]:
        del sys.modules[m]
    sys.path.insert(0, ROOT)
from icalendar.prop import vCategory, vText  # noqa: E402
from xandikos.icalendar import _unescape_text  # noqa: E402

XJ = os.environ.get("XJ", os.path.join(os.path.dirname(HARNESS), "lean/.lake/build/bin/xjdriver"))
ALPHABET = ["\\", "\\", ";", ",", ",", "n", "N", "\r", "\n", "a", "b", " ", "é", "会", "\U0001F600", "\t", '"', ":"]


def rand_string(rng):
    return "".join(rng.choice(ALPHABET) for _ in range(rng.choice([0, 1, 2, 3, 4, 6, 9, 14])))


def clean(s):
    return "\r" not in s and "\\N" not in s


def main():
    n = int(sys.argv[1]) if len(sys.argv) > 1 else 3000
    rng = random.Random(int(sys.argv[2]) if len(sys.argv) > 2 else 20260929)
    strings = ["", "\\", "a\\", "\r\\N", "\\\\N", "a\rb", "a\r\nb", "a\\Nb", "a\\nb", ",", ",,", "\\,"]
    strings += [rand_string(rng) for _ in range(n)]
    reqs = []
    for s in strings:
        reqs.append({"op": "esc", "text": s})
        reqs.append({"op": "unesc", "text": s, "split": False})
        reqs.append({"op": "unesc", "text": s, "split": True})
    inp = "\n".join(json.dumps(r, ensure_ascii=False) for r in reqs) + "\n"
    p = subprocess.run([XJ, "ical"], input=inp.encode("utf-8"), capture_output=True, timeout=900)
    if p.returncode != 0:
        print("driver failed:", p.stderr[-2000:])
        return 2
    outs = [json.loads(l) for l in p.stdout.decode("utf-8").splitlines() if l.strip()]
    assert len(outs) == len(reqs), (len(outs), len(reqs))
    stat = {"strings": len(strings), "escape-agree": 0, "unescape-of-escaped-agree": 0, "unescape-arbitrary-agree": 0,
            "clean": 0, "clean-roundtrip-identity": 0, "unclean": 0, "unclean-roundtrip-differs": 0,
            "cats-roundtrip-checked": 0, "cats-roundtrip-identity": 0}
    bad = []
    for i, s in enumerate(strings):
        e, u0, u1 = outs[3 * i], outs[3 * i + 1], outs[3 * i + 2]
        real_e = vText(s).to_ical().decode("utf-8")
        if real_e == e["escaped"]:
            stat["escape-agree"] += 1
        else:
            bad.append(("escape", s, real_e, e["escaped"]))
        if _unescape_text(real_e) == e["unescaped"] and _unescape_text(real_e, split=True) == e["split"]:
            stat["unescape-of-escaped-agree"] += 1
        else:
            bad.append(("unescape-of-escaped", s, _unescape_text(real_e), e["unescaped"]))
        if _unescape_text(s) == u0["parts"] and _unescape_text(s, split=True) == u1["parts"]:
            stat["unescape-arbitrary-agree"] += 1
        else:
            bad.append(("unescape-arbitrary", s, (_unescape_text(s), _unescape_text(s, split=True)), (u0["parts"], u1["parts"])))
        if clean(s):
            stat["clean"] += 1
            if _unescape_text(real_e) == [s]:
                stat["clean-roundtrip-identity"] += 1
            else:
                bad.append(("THEOREM unescape_escape fails on the real code", s, real_e, _unescape_text(real_e)))
        else:
            stat["unclean"] += 1
            if _unescape_text(real_e) != [s]:
                stat["unclean-roundtrip-differs"] += 1
    # CATEGORIES: vCategory.to_ical() joins the escaped categories with commas
    for _ in range(n // 3):
        cats = [rand_string(rng) for _ in range(rng.choice([1, 1, 2, 3]))]
        if not all(clean(c) for c in cats):
            continue
        stat["cats-roundtrip-checked"] += 1
        if _unescape_text(vCategory(cats).to_ical().decode("utf-8"), split=True) == cats:
            stat["cats-roundtrip-identity"] += 1
        else:
            bad.append(("THEOREM unescape_escape_cats fails on the real code", cats, vCategory(cats).to_ical(), None))
    for k, v in stat.items():
        print("%-32s %d" % (k, v))
    for b in bad[:10]:
        print("DISAGREE", [repr(x) for x in b])
    return 1 if bad else 0


if __name__ == "__main__":
    sys.exit(main())
