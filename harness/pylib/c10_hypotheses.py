#!/venv/bin/python
"""Real-code evidence for every hypothesis of `check_from_indexes_eq_check`
(lean/Xandikos/Ical/IndexProofs.lean): at each excluded point, `filter.check(name, file)` against
`filter.check_from_indexes(name, file.get_indexes(keys))`, keys = flattened `filter.index_keys()`."""
import os
import sys
sys.path.insert(1, "/verif/harness")
import compat  # noqa: F401,E402
if os.environ.get("XANDIKOS"):          # e.g. XANDIKOS=/tmp/fixwt: the repaired tree
    for _m in [m for m in sys.modules if m.startswith("xandikos")]:
        del sys.modules[_m]
    sys.path.insert(0, os.environ["XANDIKOS"])
import datetime as dt  # noqa: E402
import logging  # noqa: E402
from xandikos.icalendar import CalendarFilter, ICalendarFile  # noqa: E402

logging.disable(logging.CRITICAL)
UTC = dt.timezone.utc


def T(d, h=0):
    return dt.datetime(2020, 1, d, h, tzinfo=UTC)


def mk(body):
    data = ("BEGIN:VCALENDAR\r\nVERSION:2.0\r\nPRODID:x\r\n" + body + "END:VCALENDAR\r\n").encode()
    return ICalendarFile([data], "text/calendar")


def out(fn):
    try:
        return fn()
    except Exception as e:  # noqa: BLE001
        return "raises " + type(e).__name__


def both(title, f, file):
    try:
        keys = [k for g in f.index_keys() for k in g]
    except NotImplementedError:
        print("%-58s index_keys() raises NotImplementedError (store falls back to the naive path); naive=%s"
              % (title, out(lambda: f.check("x", file))))
        return
    vals = out(lambda: file.get_indexes(keys))
    idx = vals if isinstance(vals, str) else out(lambda: f.check_from_indexes("x", vals))
    naive = out(lambda: f.check("x", file))
    print("%-58s naive=%-22s index=%-22s %s" % (title, naive, idx, "DIVERGE" if naive != idx else "same"))


def vevent_filter():
    f = CalendarFilter(UTC)
    return f, f.filter_subcomponent("VCALENDAR").filter_subcomponent("VEVENT")


EV = ("BEGIN:VEVENT\r\nUID:1\r\nSUMMARY;LANGUAGE=en:hello\r\nDTSTART:20200101T120000Z\r\nCATEGORIES:x\\,y,z\r\n"
      "DESCRIPTION:a\\,b\r\nATTENDEE;MEMBER=\"mailto:a@x\",\"mailto:b@x\":mailto:c@x\r\nEND:VEVENT\r\n")

# Simple, sub-components: two VEVENTs, one in the time range, the other with the summary
f, e = vevent_filter(); e.filter_time_range(T(1), T(2)); e.filter_property("SUMMARY").filter_text_match("dinner")
both("not Simple: two VEVENTs (time range / text-match)", f, mk(
    "BEGIN:VEVENT\r\nUID:1\r\nSUMMARY:Lunch\r\nDTSTART:20200101T120000Z\r\nEND:VEVENT\r\n"
    "BEGIN:VEVENT\r\nUID:1\r\nRECURRENCE-ID:20200105T120000Z\r\nSUMMARY:Dinner\r\nDTSTART:20200105T120000Z\r\nEND:VEVENT\r\n"))
# Simple, properties: one ATTENDEE has the address, the other the PARTSTAT
f, e = vevent_filter(); p = e.filter_property("ATTENDEE"); p.filter_text_match("mailto:ann@example.com")
p.filter_parameter("PARTSTAT").filter_text_match("ACCEPTED")
both("not Simple: repeated property (cross-instance)", f, mk(
    "BEGIN:VEVENT\r\nUID:1\r\nDTSTART:20200101T120000Z\r\nATTENDEE;PARTSTAT=DECLINED:mailto:ann@example.com\r\n"
    "ATTENDEE;PARTSTAT=ACCEPTED:mailto:bob@example.com\r\nEND:VEVENT\r\n"))
# RoundTrips: backslash-N in a text (to_ical() itself is lossy there: it writes it as a line feed)
f, e = vevent_filter(); e.filter_property("SUMMARY").filter_text_match("a\\Nb")
both("not RoundTrips: SUMMARY value 'a\\Nb' (backslash-N)", f, mk(
    "BEGIN:VEVENT\r\nUID:1\r\nSUMMARY:a\\\\Nb\r\nDTSTART:20200101T120000Z\r\nEND:VEVENT\r\n"))
# (repaired) an escaped comma in a text / in a category
f, e = vevent_filter(); e.filter_property("DESCRIPTION").filter_text_match("a,b")
both("repaired: DESCRIPTION:a\\,b, text-match 'a,b'", f, mk(EV))
f, e = vevent_filter(); e.filter_property("CATEGORIES").filter_text_match("y")
both("repaired: CATEGORIES:x\\,y,z, text-match 'y'", f, mk(EV))
# NoBareFreebusy
f = CalendarFilter(UTC); c = f.filter_subcomponent("VCALENDAR").filter_subcomponent("VFREEBUSY"); c.filter_time_range(T(1), T(3))
both("repaired: bare FREEBUSY under a VFREEBUSY time range", f, mk(
    "BEGIN:VFREEBUSY\r\nUID:1\r\nFREEBUSY:20200101T120000Z/20200101T130000Z\r\nEND:VFREEBUSY\r\n"))
# WF: '/' in names
f = CalendarFilter(UTC); f.filter_subcomponent("VCALENDAR").filter_subcomponent("VEVENT/P=SUMMARY")
both("not WF: comp-filter name 'VEVENT/P=SUMMARY'", f, mk(EV))
f, e = vevent_filter(); e.filter_property("SUMMARY/A=LANGUAGE")
both("not WF: prop-filter name 'SUMMARY/A=LANGUAGE'", f, mk(EV))
f, e = vevent_filter(); e.filter_property("SUMMARY").filter_parameter("LANGUAGE/X", is_not_defined=True)
both("not WF: param-filter name 'LANGUAGE/X'", f, mk(EV))
# WF: is-not-defined comp-filter with a "defined" child
f = CalendarFilter(UTC); t = f.filter_subcomponent("VCALENDAR").filter_subcomponent("VTODO", is_not_defined=True); t.filter_property("SUMMARY")
both("not WF: is-not-defined comp-filter with a prop-filter", f, mk(EV))
# WF: time range on VALARM
f, e = vevent_filter(); e.filter_subcomponent("VALARM").filter_time_range(T(1), T(3))
both("not WF: time range on VALARM", f, mk(
    "BEGIN:VEVENT\r\nUID:1\r\nDTSTART:20200101T120000Z\r\nBEGIN:VALARM\r\nACTION:DISPLAY\r\nTRIGGER:-PT5M\r\nDESCRIPTION:x\r\nEND:VALARM\r\nEND:VEVENT\r\n"))
# Typed: text-match on a date-like property; time range on a text property
f, e = vevent_filter(); e.filter_property("DTSTART").filter_text_match("20200101T120000Z")
both("repaired: text-match on DTSTART", f, mk(EV))
f, e = vevent_filter(); e.filter_property("SUMMARY").filter_time_range(T(1), T(3))
both("model boundary: time range on SUMMARY (both raise)", f, mk(EV))
# outside the model: a multi-valued parameter under a negated text-match
f, e = vevent_filter(); e.filter_property("ATTENDEE").filter_parameter("MEMBER").filter_text_match("zzz", negate_condition=True)
both("outside the model: list-valued parameter, negated match", f, mk(EV))
# inside the class, for comparison
f, e = vevent_filter(); e.filter_time_range(T(1), T(2)); e.filter_property("SUMMARY").filter_text_match("HELLO")
e.filter_property("SUMMARY").filter_parameter("LANGUAGE").filter_text_match("EN")
both("inside the class", f, mk("BEGIN:VEVENT\r\nUID:1\r\nSUMMARY;LANGUAGE=en:hello\r\nDTSTART;TZID=Europe/Berlin:20200101T120000\r\nEND:VEVENT\r\n"))
