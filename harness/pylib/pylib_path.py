#!/usr/bin/env python3
"""Differential tester: CPython posixpath / str.lstrip / str.rstrip  vs  the Lean model.

usage:  pylib_path.py [DRIVER_BINARY] [SEED] [CASES]
        env: VERIF_SEED (seed, default 0), VERIF_CASES (number of generated paths, default 100000)

If DRIVER_BINARY is omitted the driver is run as `lake env lean --run Main.lean` from the
directory of this script.  Prints one JSON object
    {"cases": N, "requests": R, "seed": S, "disagreements": [first few ...]}
and exits 1 iff there is any disagreement (2 on driver/protocol failure).

Three oracles are compared for normpath: the C-accelerated `posixpath.normpath` that CPython
3.12 actually runs, the pure-Python reference implementation (the text the Lean model was
transcribed from), and the Lean model.  All three have to agree.
"""
import json
import os
import posixpath
import random
import subprocess
import sys
import tempfile

HERE = os.path.dirname(os.path.abspath(__file__))
SAFE = set(b"ABCDEFGHIJKLMNOPQRSTUVWXYZabcdefghijklmnopqrstuvwxyz0123456789._-")


def enc(s):
    return "=" + "".join(chr(b) if b in SAFE else "%%%02X" % b for b in s.encode("utf-8"))


def dec(f):
    if not f.startswith("="):
        raise ValueError("bad field %r" % f)
    raw = f[1:].encode("ascii")
    out = bytearray()
    i = 0
    while i < len(raw):
        if raw[i] == 0x25:
            out.append(int(raw[i + 1:i + 3], 16))
            i += 3
        else:
            out.append(raw[i])
            i += 1
    return out.decode("utf-8")


# ---- pure-Python reference (CPython 3.12 Lib/posixpath.py, str case) -------------------------
def ref_normpath(path):
    if not path:
        return '.'
    initial_slashes = path.startswith('/')
    if initial_slashes and path.startswith('//') and not path.startswith('///'):
        initial_slashes = 2
    comps = path.split('/')
    new_comps = []
    for comp in comps:
        if comp in ('', '.'):
            continue
        if (comp != '..' or (not initial_slashes and not new_comps) or
                (new_comps and new_comps[-1] == '..')):
            new_comps.append(comp)
        elif new_comps:
            new_comps.pop()
    path = '/'.join(new_comps)
    if initial_slashes:
        path = '/' * initial_slashes + path
    return path or '.'


def ref_split(p):
    i = p.rfind('/') + 1
    head, tail = p[:i], p[i:]
    if head and head != '/' * len(head):
        head = head.rstrip('/')
    return head, tail


def ref_join(a, b):
    if b.startswith('/'):
        return b
    elif not a or a.endswith('/'):
        return a + b
    else:
        return a + '/' + b


# ---- adversarial generator -------------------------------------------------------------------
ATOMS = (
    ["/"] * 30 + ["."] * 12 + [".."] * 14 + ["a"] * 8 + ["b", "c", "ab", "..a", "a..", "...", ". ", " ", ""] * 2
    + ["%2e", "%2E%2e", "%2f", "%2F..", "%00", "\\", "\\..\\", "..\\"] * 2
    + ["é", "ü", "日本", "‮", "․", "‥", "．", "／", "∕", "⁄",
       "\U0001F600", "\u0000", "\n", "\r", "\t", "\x7f", "\u0085", " ", "﻿", "=", "+", "~", "%"]
)
PREFIXES = ["", "", "", "/", "/", "/", "//", "//", "///", "////", "/////", "./", "../", "/../", "//../",
            "/./", "//.", "///..", "/..", "//..", ".", ".."]
SUFFIXES = ["", "", "", "/", "//", "///", "/.", "/..", "/./", "/../", "/..//", "."]


def gen_path(rng):
    k = rng.random()
    if k < 0.01:
        return ""
    if k < 0.03:                                   # only slashes
        return "/" * rng.randrange(0, 12)
    if k < 0.05:                                   # long runs of slashes around a few atoms
        parts = [rng.choice(ATOMS) for _ in range(rng.randrange(1, 5))]
        return ("/" * rng.randrange(0, 70)).join([""] + parts + [""])
    if k < 0.07:                                   # very long
        n = rng.randrange(50, 400)
    elif k < 0.5:
        n = rng.randrange(0, 6)
    else:
        n = rng.randrange(0, 20)
    body = "".join(rng.choice(ATOMS) for _ in range(n))
    if rng.random() < 0.3:                         # component-structured: atoms joined by slashes
        body = "/".join(rng.choice(ATOMS) for _ in range(n))
    return rng.choice(PREFIXES) + body + rng.choice(SUFFIXES)


def gen_root(rng):
    k = rng.random()
    if k < 0.5:
        return rng.choice(["/srv/dav", "/r", "/a/b", "root", "/tmp/x y", "//srv", "/é"])
    return gen_path(rng)


def main():
    argv = sys.argv[1:]
    driver = argv[0] if len(argv) > 0 and argv[0] else None
    seed = int(argv[1]) if len(argv) > 1 else int(os.environ.get("VERIF_SEED", "0"))
    cases = int(argv[2]) if len(argv) > 2 else int(os.environ.get("VERIF_CASES", "100000"))
    rng = random.Random(seed)

    reqs = []      # (request line, expected response line, description)
    internal = []  # disagreements between the C normpath and the reference normpath

    def add(op, args, expected):
        line = op + " " + " ".join(enc(a) for a in args)
        exp = " ".join(enc(e) for e in expected)
        reqs.append((line, exp, (op, args, expected)))

    for _ in range(cases):
        p = gen_path(rng)
        n_c = posixpath.normpath(p)
        n_ref = ref_normpath(p)
        if n_c != n_ref and len(internal) < 5:
            internal.append({"op": "normpath(C vs reference)", "args": [p], "c": n_c, "reference": n_ref})
        add("normpath", [p], [n_c])
        h, t = posixpath.split(p)
        assert (h, t) == ref_split(p)
        add("split", [p], [h, t])
        add("lstrip", [p], [p.lstrip("/")])
        add("rstrip", [p], [p.rstrip("/")])
        # the shapes the server code actually feeds to these functions
        rel = n_c.lstrip("/")
        root = gen_root(rng)
        j = posixpath.join(root, rel)
        assert j == ref_join(root, rel)
        add("join", [root, rel], [j])
        q = gen_path(rng)
        j2 = posixpath.join(p, q)
        assert j2 == ref_join(p, q)
        add("join", [p, q], [j2])
        s = n_c.rstrip("/")
        add("split", [s], list(posixpath.split(s)))
        add("normpath", [n_c], [posixpath.normpath(n_c)])

    payload = "".join(l + "\n" for l, _, _ in reqs).encode("ascii")
    if driver:
        import shlex
        cmd, cwd = shlex.split(driver), None
    else:
        cmd, cwd = ["lake", "env", "lean", "--run", "Main.lean"], HERE
    with tempfile.TemporaryFile() as fin:
        fin.write(payload)
        fin.seek(0)
        proc = subprocess.run(cmd, cwd=cwd, stdin=fin, stdout=subprocess.PIPE, stderr=subprocess.PIPE)
    if proc.returncode != 0:
        print(json.dumps({"error": "driver exited %d" % proc.returncode,
                          "stderr": proc.stderr.decode("utf-8", "replace")[-2000:]}))
        return 2
    out = proc.stdout.decode("ascii").split("\n")
    if out and out[-1] == "":
        out.pop()
    if len(out) != len(reqs):
        print(json.dumps({"error": "driver answered %d lines for %d requests" % (len(out), len(reqs)),
                          "stderr": proc.stderr.decode("utf-8", "replace")[-2000:]}))
        return 2

    disagreements = list(internal)
    total = len(internal)
    for (line, exp, (op, args, expected)), got in zip(reqs, out):
        if got != exp:
            total += 1
            if len(disagreements) < 10:
                try:
                    got_dec = [dec(f) for f in got.split(" ")]
                except Exception:
                    got_dec = got
                disagreements.append({"op": op, "args": args, "python": expected, "lean": got_dec})
    print(json.dumps({"cases": cases, "requests": len(reqs), "seed": seed,
                      "disagreement_count": total, "disagreements": disagreements}))
    return 1 if total else 0


if __name__ == "__main__":
    sys.exit(main())
