#!/venv/bin/python
"""C10 / iCalendar index path: differential test of the Lean model (`Xandikos/Ical/Index.lean`,
driver op "idx") against the real `index_keys()`, `get_indexes`, `check_from_indexes`, `check`.

    /venv/bin/python difftest.py [N] [SEED]      (XJ=/path/to/xjdriver overrides the driver)

For every generated (calendar, filter list) the four observables are compared:
  keys    filter.index_keys()                      vs  model indexKeys
  values  file.get_indexes(flattened keys)         vs  model getIndexesE (canonical rendering)
  idx     filter.check_from_indexes(name, values)  vs  model checkFromIndexes
  naive   filter.check(name, file)                 vs  model check
and, independently of the model, real idx is compared with real naive, classified by whether the
input lies in the class of `check_from_indexes_eq_check` (Simple calendar, WF filter, values that
survive the index round trip, no bare FREEBUSY under a VFREEBUSY time range).
"""
import sys
import os
sys.path.insert(0, os.path.dirname(os.path.abspath(__file__)))
import compat  # noqa: F401,E402
if os.environ.get("XANDIKOS"):          # run against another tree (e.g. the repaired worktree)
    for _m in [m for m in sys.modules if m.startswith("xandikos")]:
        del sys.modules[_m]
    sys.path.insert(0, os.environ["XANDIKOS"])
import collections  # noqa: E402
import datetime as dt  # noqa: E402
import json  # noqa: E402
import logging  # noqa: E402
import os  # noqa: E402
import random  # noqa: E402
import subprocess  # noqa: E402

from checks import C11  # noqa: E402   (tree_of, compf_json, ical, tval, secs, generators)
from xandikos.icalendar import TYPES_FACTORY, CalendarFilter, ICalendarFile, TextMatcher  # noqa: E402
from icalendar.prop import vText  # noqa: E402

logging.disable(logging.CRITICAL)
XJ = os.environ.get("XJ", os.path.join(os.path.dirname(os.path.dirname(os.path.abspath(__file__))),
                                        "lean/.lake/build/bin/xjdriver"))
UTC = dt.timezone.utc
# TextMatcher._from_index un-escapes what to_ical() escaped, whatever the installed icalendar's
# from_ical does (7.x does not un-escape): the round trip through the index is the identity
RT = os.environ.get("RT", "text")     # text: escape by icalendar, un-escape by xandikos (Ical/Escape.lean)


# ---------------------------------------------------------------------------
# filter dict (C11's shape) -> real filter objects

def when(t):
    return C11.BASE + t * C11.H12


def build_comp(cf, parent):
    c = parent.filter_subcomponent(cf["name"], is_not_defined=bool(cf.get("nd")))
    if cf.get("tr"):
        c.filter_time_range(when(cf["tr"][0]), when(cf["tr"][1]))
    for p in cf.get("props", []):
        pf = c.filter_property(p["name"], is_not_defined=bool(p.get("nd")))
        if p.get("tr"):
            pf.filter_time_range(when(p["tr"][0]), when(p["tr"][1]))
        for tm in p.get("tms", []):
            pf.filter_text_match(tm["text"], collation=tm.get("coll"), negate_condition=bool(tm.get("neg")))
        for q in p.get("params", []):
            qf = pf.filter_parameter(q["name"], is_not_defined=bool(q.get("nd")))
            for tm in q.get("tms", []):
                qf.filter_text_match(tm["text"], collation=tm.get("coll"), negate_condition=bool(tm.get("neg")))
    for sub in cf.get("comps", []):
        build_comp(sub, c)
    return c


def build_filter(tops):
    f = CalendarFilter(UTC)
    for t in tops:
        build_comp(t, f)
    return f


# ---------------------------------------------------------------------------
# canonical rendering of real index values (the way the matchers read them back)

def canon_value(key, v):
    if v is True:
        return "T"
    last = key.split("/")[-1]
    if last.startswith("A="):
        return {"param": v.decode("utf-8")}
    name = last[2:]
    try:
        d = TextMatcher(name, "x")._from_index(v, False)      # the way the repaired matcher reads it back
    except Exception as e:   # noqa: BLE001
        return {"undecodable": type(e).__name__}
    r = C11.pval(d)
    r.pop("params", None)
    return r


def canon_model(s):
    return "T" if s == "T" else json.loads(s)


def outcome(fn):
    try:
        return bool(fn())
    except Exception as e:   # noqa: BLE001
        return {"error": type(e).__name__}


# ---------------------------------------------------------------------------
# the class of the theorem, recomputed on the JSON tree / the filter dict

ESC = set("\\;,\n\r")


def node_simple(n):
    names = [p[0] for p in n["props"]]
    subs = [s["name"] for s in n["subs"]]
    return len(set(names)) == len(names) and len(set(subs)) == len(subs) and all(node_simple(s) for s in n["subs"])


def node_roundtrips(n):
    """texts without CR and without backslash-N (where _escape_char itself is lossy)"""
    for _, v in n["props"]:
        for t in ([v["text"]] if "text" in v else []) + list(v.get("cats", [])):
            if "\r" in t or "\\N" in t:
                return False
    return all(node_roundtrips(s) for s in n["subs"])


def filt_wf(cf):
    if "/" in cf["name"]:
        return False
    if cf.get("tr") and cf["name"] == "VALARM":
        return False
    implicit = any(not p.get("nd") for p in cf.get("props", [])) or any(not c.get("nd") for c in cf.get("comps", []))
    if cf.get("nd") and implicit:
        return False
    for p in cf.get("props", []):
        if "/" in p["name"] or any("/" in q["name"] for q in p.get("params", [])):
            return False
    return all(filt_wf(c) for c in cf.get("comps", []))


# ---------------------------------------------------------------------------
# generators (C11's, widened)

TEXTS = ["bob", "Bob", "Lunch", "déjeuner", "a,b", "x;y", "back\\slash", ""]


def gen_comp(rng, i):
    c = C11.gen_component(rng, i)
    r = rng.random()
    if r < 0.15:
        c["type"] = "VFREEBUSY"
        c["lines"] = ["UID:f%d" % i]
        k = rng.random()
        if k < 0.6:
            a = rng.randrange(0, 5)
            c["lines"] += ["DTSTART" + C11.tval(a, "utc"), "DTEND" + C11.tval(a + rng.randrange(1, 3), "utc")]
        if rng.random() < 0.6:
            a = rng.randrange(0, 5)
            c["lines"].append("FREEBUSY:%s/%s" % (C11.tval(a, "utc")[1:], C11.tval(a + 1, "utc")[1:]))
            if rng.random() < 0.3:      # a second period: the property then occurs twice (not Simple)
                a = rng.randrange(0, 6)
                c["lines"].append("FREEBUSY:%s/%s" % (C11.tval(a, "utc")[1:], C11.tval(a + 1, "utc")[1:]))
        c["subs"] = []
    elif r < 0.35:
        # zone-carrying and escaped values
        c["lines"] = [l for l in c["lines"] if not l.startswith("DTSTART")]
        c["lines"].append("DTSTART" + C11.tval(rng.randrange(0, 6), rng.choice(["berlin", "utc", "date", "float"])))
        if rng.random() < 0.5:
            c["lines"] = [l for l in c["lines"] if not l.startswith("SUMMARY")]
            c["lines"].append("SUMMARY:" + rng.choice(["a\\,b", "x\\;y", "back\\\\slash", "plain", "back\\\\Nslash",
                                                       "two\\nlines"]))
        if rng.random() < 0.3:
            c["lines"] = [l for l in c["lines"] if not l.startswith("CATEGORIES")]
            c["lines"].append("CATEGORIES:" + rng.choice(["a\\,b,Work", "Work,Home", "x"]))
    if c["type"] in ("VEVENT", "VTODO") and rng.random() < 0.3:
        c["lines"].append(rng.choice(["DTEND", "DUE"] if c["type"] == "VTODO" else ["DTEND"]) + C11.tval(rng.randrange(2, 8), "utc")
                          if rng.random() < 0.6 else "DURATION:" + C11.durval(rng.randrange(0, 3)))
    if rng.random() < 0.1:
        c["lines"].append("SUMMARY:" + rng.choice(C11.SUMMARIES))      # repeated property
    if c["subs"] and rng.random() < 0.3:
        c["subs"].append({"type": "VALARM", "lines": ["ACTION:DISPLAY", "TRIGGER:-PT5M", "DESCRIPTION:Wake"]})
    return c


def gen_calendar(rng, i):
    comps = [gen_comp(rng, i)]
    r = rng.random()
    if r < 0.2:
        extra = gen_comp(rng, i)
        extra["type"] = comps[0]["type"] if extra["type"] != "VFREEBUSY" and comps[0]["type"] != "VFREEBUSY" else extra["type"]
        comps.append(extra)
    elif r < 0.3:
        other = gen_comp(rng, i + 1000)
        if other["type"] != comps[0]["type"]:
            comps.append(other)
    return C11.ical(comps)


def gen_tm(rng, texts):
    return {"text": rng.choice(texts), "coll": rng.choice([None, "i;ascii-casemap", "i;octet", "i;unicode-casemap"]),
            "neg": rng.random() < 0.25}


def gen_propf(rng):
    pf = C11.gen_propf(rng)
    r = rng.random()
    if r < 0.1 and not pf.get("nd"):
        pf.setdefault("tms", []).append(gen_tm(rng, TEXTS + ["Work", "a", "b"]))
    elif r < 0.2 and not pf.get("nd"):
        pf.setdefault("params", []).append({"name": rng.choice(["LANGUAGE", "PARTSTAT", "TZID", "VALUE", "X-NONE"]),
                                            "nd": rng.random() < 0.4,
                                            "tms": [gen_tm(rng, ["en", "Europe/Berlin", "DATE", "ACCEPTED"])] if rng.random() < 0.5 else []})
    elif r < 0.23:
        pf["name"] = rng.choice(["SUMMARY/A=LANGUAGE", "SUMMARY/X", "LOCATION/A=LANGUAGE"])
    return pf


def gen_compf(rng, depth):
    if depth == 1:
        typ = rng.choice(["VEVENT", "VEVENT", "VTODO", "VJOURNAL", "VFREEBUSY", "VTIMEZONE"])
    else:
        typ = rng.choice(["VALARM", "VALARM", "STANDARD"])
    cf = {"name": typ}
    r = rng.random()
    if r < 0.15:
        cf["nd"] = True
        if rng.random() < 0.25:      # is-not-defined with children: outside WF when a child is "defined"
            cf["props"] = [gen_propf(rng)]
        if rng.random() < 0.2 and typ != "VALARM":
            s = rng.randrange(0, 5)
            cf["tr"] = (s, s + rng.randrange(1, 4))
        return cf
    if rng.random() < 0.35 and typ not in ("VTIMEZONE",) and (typ != "VALARM" or rng.random() < 0.1):
        s = rng.randrange(0, 5)
        cf["tr"] = (s, s + rng.randrange(1, 4))
    cf["props"] = [gen_propf(rng) for _ in range(rng.choice([0, 1, 1, 2]))]
    if depth == 1 and rng.random() < 0.35:
        cf["comps"] = [gen_compf(rng, 2) for _ in range(rng.choice([1, 1, 2]))]
    if depth == 2 and rng.random() < 0.5:
        cf["props"].append({"name": "DESCRIPTION", "tms": [gen_tm(rng, ["reminder", "Reminder", "Wake"])]})
    if depth == 1 and rng.random() < 0.15:
        cf["props"].append({"name": "DTSTART", "params": [{"name": "TZID", "nd": rng.random() < 0.3,
                                                          "tms": [gen_tm(rng, ["Europe/Berlin", "europe/berlin", "UTC"])]
                                                          if rng.random() < 0.6 else []}]})
    if depth == 1 and rng.random() < 0.15:
        cf["props"].append({"name": rng.choice(["DURATION", "DTEND", "DUE"]), "nd": rng.random() < 0.5})
    if rng.random() < 0.02:
        cf["name"] = typ + "/P=SUMMARY"
    return cf


def gen_top(rng):
    top = {"name": "VCALENDAR", "comps": [gen_compf(rng, 1) for _ in range(rng.choice([0, 1, 1, 1, 2]))]}
    r = rng.random()
    if r < 0.08:
        top["props"] = [{"name": rng.choice(["VERSION", "X-WR-CALNAME", "PRODID"]), "nd": rng.random() < 0.5}]
    elif r < 0.15:
        top["props"] = [{"name": "VERSION", "tms": [gen_tm(rng, ["2.0", "1.0"])]}]
    elif r < 0.2:
        top["tr"] = (0, 4)
    elif r < 0.25:
        top = {"name": rng.choice(["VCALENDAR", "VCARD"]), "nd": True}
    elif r < 0.28:
        top["name"] = "VCARD"
    return top


def gen_filters(rng):
    return [gen_top(rng) for _ in range(rng.choice([1, 1, 1, 1, 2, 0]))]


# ---------------------------------------------------------------------------

def run_tie(n, seed):
    """-> (stat: Counter, bad: {field: [disagreements]}); bad["inside-class-divergence"] lists inputs of the
    proved class on which the REAL index path and the REAL direct path differ"""
    rng = random.Random(seed)
    cases = []
    for i in range(n):
        data = gen_calendar(rng, i)
        tops = gen_filters(rng)
        extra = None
        if rng.random() < 0.15:
            extra = "superset"
        cases.append((data, tops, extra))

    reqs, real = [], []
    for data, tops, extra in cases:
        file = ICalendarFile([data], "text/calendar")
        f = build_filter(tops)
        try:
            ks = [list(g) for g in f.index_keys()]
            keys_out = ks
            flat = [k for g in ks for k in g]
        except NotImplementedError:
            keys_out, flat = {"error": "NotImplementedError"}, []
        if extra == "superset":
            flat = flat + ["C=VCALENDAR/C=VEVENT/P=SUMMARY", "C=VCALENDAR/C=VEVENT/C=VALARM", "C=VCALENDAR/C=VTODO/P=DUE",
                           "C=VCALENDAR/C=VEVENT/P=DTSTART/A=TZID", "C=VCARD", "C=VCALENDAR/C=VEVENT/C=DTSTART"] + flat[:1]
        try:
            vals = file.get_indexes(flat)
            vals_out = {k: [canon_value(k, v) for v in vs] for k, vs in vals.items()}
            idx = outcome(lambda: f.check_from_indexes("x", vals))
        except AssertionError:
            vals_out = {"error": "AssertionError"}
            idx = {"error": "AssertionError"}
        naive = outcome(lambda: f.check("x", file))
        tree = C11.tree_of(data)
        real.append({"keys": keys_out, "values": vals_out, "idx": idx, "naive": naive, "tree": tree})
        reqs.append({"op": "idx", "cal": tree, "filters": [C11.compf_json(t) for t in tops], "keys": flat, "rt": RT})

    inp = "\n".join(json.dumps(r) for r in reqs) + "\n"
    p = subprocess.run([XJ, "ical"], input=inp, capture_output=True, text=True, timeout=900)
    if p.returncode != 0:
        raise RuntimeError("xjdriver failed: " + p.stderr[-2000:])
    outs = [json.loads(l) for l in p.stdout.splitlines() if l.strip()]
    assert len(outs) == len(reqs), (len(outs), len(reqs))

    stat = collections.Counter()
    bad = collections.defaultdict(list)
    for (data, tops, extra), r, o in zip(cases, real, outs):
        stat["cases"] += 1
        mvals = o["values"]
        if "error" not in mvals:
            mvals = {k: [canon_model(s) for s in vs] for k, vs in mvals.items()}
        for field, mv in (("keys", o["keys"]), ("values", mvals), ("idx", o["idx"]), ("naive", o["naive"])):
            if r[field] == mv:
                stat["agree:" + field] += 1
            else:
                stat["DISAGREE:" + field] += 1
                bad[field].append({"ics": data.decode(), "filters": tops, "real": r[field], "model": mv})
        # the total variant used by the theorems coincides with the literal one when nothing raises
        if "error" not in o["values"] and o["total"] != o["idx"]:
            stat["DISAGREE:total-vs-literal"] += 1
        # real index path vs real naive path, inside / outside the class of the theorem
        inside = (node_simple(r["tree"]) and node_roundtrips(r["tree"])
                  and all(filt_wf(t) for t in tops) and r["keys"] != {"error": "NotImplementedError"})
        tag = "inside-class" if inside else "outside-class"
        stat[tag] += 1
        if r["idx"] == r["naive"]:
            stat[tag + ":paths-agree"] += 1
            if r["naive"] is True:
                stat[tag + ":paths-agree-on-True"] += 1
        else:
            stat[tag + ":paths-DIFFER"] += 1
            why = []
            if not node_simple(r["tree"]):
                why.append("not-simple")
            if not node_roundtrips(r["tree"]):
                why.append("cr-or-backslash-N")
            if not all(filt_wf(t) for t in tops):
                why.append("filter-not-wf")
            stat["paths-differ:" + "+".join(why or ["INSIDE"])] += 1
            if inside:
                bad["inside-class-divergence"].append({"ics": data.decode(), "filters": tops, "idx": r["idx"], "naive": r["naive"]})
        for fld in ("idx", "naive", "keys", "values"):
            if isinstance(r[fld], dict) and "error" in r[fld]:
                stat["real-%s-raises:%s" % (fld, r[fld]["error"])] += 1
        if isinstance(r["values"], dict) and "error" not in r["values"]:
            stat["index-values-compared"] += sum(len(v) for v in r["values"].values())
        if r["naive"] is True:
            stat["naive-true"] += 1
        if r["idx"] is True:
            stat["idx-true"] += 1

    return stat, bad


def main():
    n = int(sys.argv[1]) if len(sys.argv) > 1 else 600
    seed = int(sys.argv[2]) if len(sys.argv) > 2 else 20260929
    stat, bad = run_tie(n, seed)
    print("round trip of the installed icalendar:", RT)
    for k in sorted(stat):
        print("%-45s %d" % (k, stat[k]))
    for field, l in bad.items():
        print("=== %s: %d disagreement(s); first:" % (field, len(l)))
        print(json.dumps(l[0], indent=1, ensure_ascii=False)[:3000])
    return 1 if bad else 0


if __name__ == "__main__":
    sys.exit(main())
