"""Store-API level differential driver.

Runs symbolic histories on the real stores (bare-memory, bare-disk, tree, vdir), writes one
protocol line per operation (operation | canonical observation), pipes the same lines to the
Lean driver (model + spec monitor) and reports
  * disagreements model vs implementation (correspondence), and
  * monitor verdicts on the implementation trace (property violations).
"""
import os
import shutil
import subprocess

import compat  # noqa: F401
from bodies import (
    AttrTable, Tokens, enc, enc_pairs, git_tree_id, hk_of_ctype, hk_of_name,
)
from common import Infra, run_driver, scratch_dir

from xandikos.icalendar import ICalendarFile
from xandikos.store import (
    DuplicateUidError, InvalidCTag, InvalidETag, InvalidFileContents, LockedError, NoSuchItem,
)
from xandikos.store.git import BareGitStore, GitStore, TreeGitStore
from xandikos.store.vdir import VdirStore
from xandikos.vcard import VCardFile

KINDS = ["bare-mem", "bare-disk", "tree", "vdir"]


def model_kind(kind):
    return {"bare-mem": "bare", "bare-disk": "bare", "tree": "tree", "vdir": "vdir"}[kind]


class Impl:
    """A real store plus the canonicaliser for its outputs."""

    def __init__(self, kind, toks: Tokens, root):
        self.kind = kind
        self.mkind = model_kind(kind)
        self.toks = toks
        self.path = os.path.join(root, "coll")
        if kind == "bare-mem":
            self.store = BareGitStore.create_memory()
        elif kind == "bare-disk":
            self.store = BareGitStore.create(self.path)
        elif kind == "tree":
            self.store = TreeGitStore.create(self.path)
        else:
            self.store = VdirStore.create(self.path)
        self._load()
        self.tree_tokens = {}  # concrete sha -> symbolic pairs
        self.notes = []

    def _load(self):
        self.store.load_extra_file_handler(ICalendarFile)
        self.store.load_extra_file_handler(VCardFile)

    def restart(self):
        if self.kind == "bare-mem":
            # a memory repository has no other process to be re-opened by: re-wrap the repo
            self.store = BareGitStore(self.store.repo)
        elif self.kind == "bare-disk":
            self.store = GitStore.open_from_path(self.path)
            assert isinstance(self.store, BareGitStore)
        elif self.kind == "tree":
            self.store = GitStore.open_from_path(self.path)
            assert isinstance(self.store, TreeGitStore)
        else:
            self.store = VdirStore.open_from_path(self.path)
        self._load()

    def switch(self):
        """hand the collection to the other of two long-lived store objects on the same directory (two
        worker processes of one deployment): what the first one remembers is not what is on disk now"""
        if self.kind == "bare-mem":
            return self.restart()
        other = getattr(self, "other", None)
        if other is None:
            other = (VdirStore if self.kind == "vdir" else GitStore).open_from_path(self.path)
            other.load_extra_file_handler(ICalendarFile)
            other.load_extra_file_handler(VCardFile)
        self.store, self.other = other, self.store

    def conc_etag(self, tok):
        if tok is None:
            return None
        if tok.startswith("?"):
            return tok[1:]
        return self.toks.etag_of(tok, self.mkind)

    def put(self, name, ct, tok, replace):
        data = self.toks.data[tok]
        try:
            (n, etag) = self.store.import_one(
                name, ct, [data], replace_etag=self.conc_etag(replace))
        except InvalidFileContents:
            return "invalid"
        except DuplicateUidError:
            return "dup"
        except InvalidETag:
            return "badetag"
        except LockedError:
            return "locked"
        except Exception as e:  # anything else is a failed request
            return "raise " + type(e).__name__
        if n != name:
            return "ok-othername " + enc(n)
        return "ok " + enc(self.toks.of_etag(etag, self.mkind))

    def delete(self, name, etag):
        try:
            self.store.delete_one(name, etag=self.conc_etag(etag))
        except NoSuchItem:
            return "nosuch"
        except InvalidETag:
            return "badetag"
        except LockedError:
            return "locked"
        except Exception as e:
            return "raise " + type(e).__name__
        return "deleted"

    def listing(self):
        items = []
        try:
            entries = list(self.store.iter_with_etag())
        except Exception as e:
            entries = [("?raise:" + type(e).__name__, None, "0" * 40)]
        for (n, _ct, e) in entries:
            items.append((n, self.toks.of_etag(e, self.mkind)))
        items.sort(key=lambda p: p[0].encode("utf-8"))
        return items

    def list(self):
        return "list " + enc_pairs(self.listing())

    def get(self, name):
        try:
            f = self.store.get_file(name)
            data = b"".join(f.content)
        except KeyError:
            return "none"
        except Exception as e:
            return "raise " + type(e).__name__
        return "tok " + enc(self.toks.tok(data))

    def ctag(self):
        try:
            t = self.store.get_ctag()
        except NotImplementedError:
            return "unsupported", None
        conc = [(n, e) for (n, _ct, e) in self.store.iter_with_etag()]
        try:
            conc.append((".xandikos", self.store._get_etag(".xandikos")))
        except KeyError:
            pass
        if git_tree_id(conc) != t:
            self.notes.append(f"ctag {t} is not the git tree hash of the listed entries")
            return "ctag =?" + t, t
        sym = self.listing()
        try:
            sym.append((".xandikos", self.cfg_or_tok(".xandikos", b"".join(self.store._get_raw(".xandikos")))))
            sym.sort(key=lambda p: p[0].encode("utf-8"))
        except KeyError:
            pass
        self.tree_tokens[t] = sym
        return "ctag " + enc_pairs(sym), t

    def changes(self, old_sha, new_sha):
        try:
            res = list(self.store.iter_changes(old_sha, new_sha))
        except InvalidCTag:
            return "invalidtoken"
        except NotImplementedError:
            return "invalidtoken"
        except Exception as e:  # a non-tree object, malformed hex...
            return "error " + type(e).__name__
        plus, minus = [], []
        for (n, _ct, old, new) in res:
            if new is None:
                minus.append(n)
            else:
                plus.append((n, self.toks.of_etag(new, self.mkind)))
        plus.sort(key=lambda p: p[0].encode("utf-8"))
        minus.sort(key=lambda n: n.encode("utf-8"))
        import urllib.parse as up
        q = lambda s: up.quote(s, safe="")
        items = ["+" + q(n) + ":" + q(e) for n, e in plus] + ["-" + q(n) for n in minus]
        return "changes =" + ",".join(items)

    META = {"displayname": ("set_displayname", "get_displayname"), "description": ("set_description", "get_description"),
            "color": ("set_color", "get_color"), "comment": ("set_comment", "get_comment")}

    def setmeta(self, key, value):
        try:
            if key == "order":
                self.store.config.set_order(value)
            else:
                getattr(self.store, self.META[key][0])(value)
        except Exception as e:
            self.notes_exc = getattr(self, "notes_exc", []) + [type(e).__name__]
            return "raise"
        return "ok"

    def getmeta(self, key):
        try:
            if key == "order":
                try:
                    v = self.store.config.get_order()
                except KeyError:
                    v = None
            else:
                v = getattr(self.store, self.META[key][1])()
        except Exception as e:
            return "raise " + type(e).__name__
        return "none" if v is None else "val " + enc(v)

    def cfg_or_tok(self, name, data):
        if name == ".xandikos":
            return "cfg:" + data.decode("utf-8", "replace")
        return self.toks.tok(data)

    def worktree(self):
        """Files in the working tree of a tree store (the control directory excluded)."""
        pairs = []
        for n in sorted(os.listdir(self.path), key=lambda x: x.encode("utf-8")):
            if n == ".git":
                continue
            p = os.path.join(self.path, n)
            if os.path.isfile(p):
                pairs.append((n, self.cfg_or_tok(n, open(p, "rb").read())))
        return "wt " + enc_pairs(pairs)

    def commits(self):
        """(count, head tree symbolic) via dulwich walk of the store's ref."""
        repo = self.store.repo
        try:
            head = repo.refs[self.store.ref]
        except KeyError:
            return "commits 0 ~"
        n = 0
        c = repo[head]
        first_tree = c.tree
        while True:
            n += 1
            if not c.parents:
                break
            if len(c.parents) != 1:
                self.notes.append("merge commit in history")
            c = repo[c.parents[0]]
        tree = repo[first_tree]
        pairs = []
        for item in tree.items():
            nm = item.path.decode("utf-8")
            if nm == ".xandikos":
                pairs.append((nm, self.cfg_or_tok(nm, repo[item.sha].data)))
            else:
                pairs.append((nm, self.toks.of_etag(item.sha.decode(), "bare")))
        pairs.sort(key=lambda p: p[0].encode("utf-8"))
        return "commits %d %s" % (n, enc_pairs(pairs))


def git_cli_checks(path, bare):
    """`git status --porcelain` must be empty (non-bare) and `git fsck --strict` clean."""
    problems = []
    env = dict(os.environ, GIT_CONFIG_NOSYSTEM="1", HOME=path, GIT_OPTIONAL_LOCKS="0")
    if not bare:
        p = subprocess.run(["git", "-C", path, "status", "--porcelain"], capture_output=True, text=True, env=env)
        if p.returncode != 0:
            problems.append("git status failed: " + p.stderr.strip()[:200])
        elif p.stdout.strip():
            problems.append("git status not clean: " + p.stdout.strip()[:200])
    p = subprocess.run(["git", "-C", path, "fsck", "--strict", "--no-dangling"], capture_output=True, text=True, env=env)
    out = (p.stdout + p.stderr).strip()
    if p.returncode != 0:
        problems.append("git fsck: " + out[:300])
    return problems


def execute(kind, template, toks, attrs, root, git_every_step=False):
    """Run a history template on a fresh store of `kind`.

    template ops (selectors resolved here, per back end):
      ("put", name, ct, tok, sel)   sel in none|cur|stale|other|bogus
      ("del", name, sel)
      ("restart",), ("sync", i)   i = index into the tokens issued so far, or None/"foreign"
    Returns the protocol lines (operation | observation).
    """
    impl = Impl(kind, toks, root)
    lines = ["new " + impl.mkind]
    history = {}  # name -> list of etag tokens it ever had
    issued = []  # (sha, symbolic)
    names = sorted({op[1] for op in template if op[0] in ("put", "del")})
    meta_keys = sorted({op[1] for op in template if op[0] == "setmeta"})

    def cur(name):
        for n, e in impl.listing():
            if n == name:
                return e
        return None

    def resolve(sel, name):
        if sel == "none":
            return None
        if sel == "cur":
            return cur(name) or "?" + "0" * 40
        if sel == "stale":
            h = [e for e in history.get(name, []) if e != cur(name)]
            return h[-1] if h else "?" + "1" * 40
        if sel == "other":
            for n, e in impl.listing():
                if n != name and e != cur(name):
                    return e
            return "?" + "2" * 40
        if sel == "bogus":
            return "?" + "f" * 32
        return sel  # already a token

    def audit():
        lines.append("list | " + impl.list())
        for n in names:
            lines.append("get %s | %s" % (enc(n), impl.get(n)))
        obs, sha = impl.ctag()
        lines.append("ctag | " + obs)
        if sha is not None and impl.tree_tokens.get(sha) is not None:
            if all(s != sha for s, _ in issued):
                issued.append((sha, impl.tree_tokens[sha]))
        if impl.mkind != "vdir":
            lines.append("commits | " + impl.commits())
        if impl.kind == "tree":
            lines.append("wt | " + impl.worktree())
        if meta_keys and impl.mkind != "vdir":
            for k in meta_keys:
                lines.append("getmeta %s | %s" % (enc(k), impl.getmeta(k)))

    def gitcheck():
        if kind in ("bare-disk", "tree"):
            for pr in git_cli_checks(impl.path, kind == "bare-disk"):
                impl.notes.append("C09:" + pr)

    audit()
    for op in template:
        if op[0] == "put":
            _, name, ct, tok, sel = op
            pre = []
            attrs.ensure_all(tok, pre)
            lines.extend(pre)
            rep = resolve(sel, name)
            obs = impl.put(name, ct, tok, rep)
            lines.append("put %s %s %s %s | %s" % (enc(name), enc(ct), enc(tok), enc(rep), obs))
            if obs.startswith("ok "):
                history.setdefault(name, []).append(cur(name))
        elif op[0] == "del":
            _, name, sel = op
            rep = resolve(sel, name)
            obs = impl.delete(name, rep)
            lines.append("del %s %s | %s" % (enc(name), enc(rep), obs))
        elif op[0] == "setmeta":
            _, key, value = op
            if impl.mkind == "vdir":
                continue
            lines.append("setmeta %s %s | %s" % (enc(key), enc(value), impl.setmeta(key, value)))
        elif op[0] == "restart":
            impl.restart()
            lines.append("restart | restart")
        elif op[0] == "switch":
            # for the model this is a restart: nothing a store object remembers may matter
            impl.switch()
            lines.append("restart | restart")
        elif op[0] == "sync":
            if impl.mkind == "vdir":
                continue
            _obs, new_sha = impl.ctag()
            new_sym = impl.tree_tokens.get(new_sha)
            if new_sym is None:
                continue
            if all(s != new_sha for s, _ in issued):
                issued.append((new_sha, new_sym))
            lines.append("ctag | " + _obs)
            which = op[1]
            if which is None:
                lines.append("changes ~ %s | %s" % (enc_pairs(new_sym), impl.changes(None, new_sha)))
            elif which == "all":
                for (sha, sym) in list(issued):
                    lines.append("changes %s %s | %s" % (
                        enc_pairs(sym), enc_pairs(new_sym), impl.changes(sha, new_sha)))
            elif which == "foreign":
                for bogus in ("f" * 40, "0123456789abcdef0123456789abcdef01234567"):
                    obs = impl.changes(bogus, new_sha)
                    lines.append("changes %s %s | %s" % (
                        enc_pairs([("?foreign", bogus)]), enc_pairs(new_sym), obs))
            continue
        audit()
        if git_every_step:
            gitcheck()
    if not git_every_step:
        gitcheck()
    notes = impl.notes
    return lines, notes


def compare(lines):
    """Run the Lean driver on the lines; returns (disagreements, violations).

    disagreement = (index, line, model_output); violation = (index, line, verdict)."""
    out = run_driver("store", lines)
    dis, viol = [], []
    for i, (ln, o) in enumerate(zip(lines, out)):
        if " | " in ln:
            obs = ln.split(" | ", 1)[1].strip()
        else:
            obs = None
        model, _, verdict = o.partition(" | ")
        model = model.strip()
        verdict = verdict.strip()
        if obs is not None and model != obs:
            dis.append((i, ln, model))
        if verdict.startswith("VIOLATION"):
            viol.append((i, ln, verdict[len("VIOLATION "):]))
    return dis, viol


def shrink(kind, template, toks, attrs, pred):
    """Delta-debug the template down to a small one on which pred(lines) still holds."""
    def holds(t):
        root = scratch_dir()
        try:
            lines, _ = execute(kind, t, toks, attrs_clone(attrs), root)
            return pred(lines)
        except Infra:
            raise
        except Exception:
            return False
        finally:
            shutil.rmtree(root, ignore_errors=True)

    cur = list(template)
    n = 2
    while len(cur) >= 2:
        chunk = max(1, len(cur) // n)
        reduced = False
        for i in range(0, len(cur), chunk):
            cand = cur[:i] + cur[i + chunk:]
            if cand and holds(cand):
                cur = cand
                n = max(n - 1, 2)
                reduced = True
                break
        if not reduced:
            if chunk == 1:
                break
            n = min(n * 2, len(cur))
    return cur


def attrs_clone(attrs):
    return AttrTable(attrs.toks)


def noeffect_violations(lines):
    """C03/C01: a request that was refused must leave every audited observation as it was.

    Returns [(index, op line, first differing audit line)]."""
    AUDIT = ("list", "get", "ctag", "commits", "wt")
    blocks = []  # (op index or None, [audit lines])
    cur_op, cur = None, []
    for i, ln in enumerate(lines):
        head = ln.split(" ", 1)[0]
        if head in AUDIT:
            cur.append(ln)
        elif head in ("put", "del", "restart", "changes", "new"):
            if head != "changes":
                blocks.append((cur_op, cur))
                cur_op, cur = i, []
    blocks.append((cur_op, cur))
    out = []
    for (prev, (opi, aud)) in zip(blocks, blocks[1:]):
        if opi is None:
            continue
        ln = lines[opi]
        obs = ln.split(" | ", 1)[1].split(" ")[0] if " | " in ln else ""
        if obs in ("badetag", "invalid", "dup", "nosuch", "locked"):
            before = [l for l in prev[1] if not l.startswith("ctag")]
            after = [l for l in aud if not l.startswith("ctag")]
            if before and after and before != after:
                diff = next((b for a, b in zip(before, after) if a != b), "(length differs)")
                out.append((opi, ln, diff))
    return out
